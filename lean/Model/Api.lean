/-! C18: the API as a stateless step function, and the once-initialised generator cache as an interleaving machine
    (src/ristretto.rs:86-113: two `OnceCell`s, the second initialised from the first). -/
namespace Model.Api

/-- An API whose operations are pure functions of their arguments: the only "state" is the unit. -/
def step {Op Res : Type} (f : Op → Res) (σ : Unit) (op : Op) : Unit × Res := (σ, f op)

/-- run a history of operations, collecting results -/
def run {Op Res : Type} (f : Op → Res) : Unit → List Op → List Res
  | _, [] => []
  | σ, op :: ops => (step f σ op).2 :: run f (step f σ op).1 ops

/-! ### once-initialised cell (`OnceCell::get_or_init`) under arbitrary interleavings -/

/-- per-thread program counter of one `get_or_init` call -/
inductive PC where
  | start                 -- has not looked at the cell yet
  | computed (v : Nat)    -- found it empty, computed a value, has not published yet
  | done (v : Nat)        -- returned `v`
deriving DecidableEq, Repr

structure St where
  cell : Option Nat
  pcs : List PC
deriving Repr

def init (threads : Nat) : St := { cell := none, pcs := List.replicate threads .start }

/-- one atomic step of thread `tid`; `derive` is the (deterministic) initialiser -/
def stepCell (derive : Nat) (s : St) (tid : Nat) : St :=
  match s.pcs[tid]? with
  | some .start =>
    match s.cell with
    | some v => { s with pcs := s.pcs.set tid (.done v) }
    | none => { s with pcs := s.pcs.set tid (.computed derive) }
  | some (.computed v) =>
    match s.cell with
    | some w => { s with pcs := s.pcs.set tid (.done w) }                          -- lost the race: returns the stored value
    | none => { cell := some v, pcs := s.pcs.set tid (.done v) }                   -- publishes
  | _ => s

def runCell (derive : Nat) (s : St) (sched : List Nat) : St := sched.foldl (stepCell derive) s

end Model.Api
