/-! Import-free model of the control flow of `verify_batch` / `verify`
    (src/range_proof.rs:610-760 after the `fix:` commit, and the per-proof shape checks of lines 866-885):
    emptiness and length checks, whole-batch consistency, chunking, per-chunk verdict, result assembly, modes.

    The algebra is abstracted to one bit per member (`valid` = its reference residual is zero): by
    `Bpp.C03_chunk_*` a chunk's weighted sum vanishes when every member is valid, and cannot vanish for more than one
    value of any single weight otherwise, so "chunk accepted ⇔ every member valid" is the idealisation of a
    random-oracle weight. -/
namespace Model.Batch

inductive Action where
  | verifyOnly | recoverAndVerify | recoverOnly
deriving DecidableEq, Repr

/-- what the batch logic can see of one (statement, proof, transcript) triple -/
structure Member where
  n : Nat            -- bit length of the statement's parameters
  t : Nat            -- extension degree of the statement's parameters
  m : Nat            -- number of commitments
  ped : Nat          -- identity of the Pedersen generator set (equal ids ⇔ equal `h_base`, `g_base_vec`)
  d1 : Nat           -- length of the proof's `d1`
  rounds : Nat       -- number of L/R pairs (|L| = |R| is guaranteed by the decoder)
  promisesFit : Bool -- one promise per commitment (since fix: 81701bf) and every promise < 2^n (or n = 64)
  pointsOk : Bool    -- transcript validation and decompression succeed (no identity / undecodable point)
  valid : Bool       -- reference residual is zero
  seeded : Bool      -- statement carries a recovery seed
deriving DecidableEq, Repr

/-- `verify_statements_and_generators_consistency`: everything is compared with the first member; the vector
    generators of two parameter sets with equal bit length agree on their common prefix by construction (C11/C12),
    so no separate field models them. -/
def consistent : List Member → Bool
  | [] => false
  | x :: xs =>
    (1 ≤ x.d1 && x.d1 ≤ 6 && x.d1 == x.t) &&
    xs.all (fun y => y.ped == x.ped && y.n == x.n && y.t == x.t && y.d1 == x.t) &&
    (x :: xs).all (fun y => y.promisesFit)

/-- per-proof checks inside `verify` that produce an error: challenge derivation / decompression, round count -/
def shapeOk (x : Member) : Bool := x.pointsOk && x.rounds < 64 && 2 ^ x.rounds == x.n * x.m

def maskOf (a : Action) (x : Member) : Bool :=
  match a with
  | .verifyOnly => false
  | _ => x.seeded

/-- one chunk: `none` = error. In `recoverOnly` the final check is skipped. -/
def verifyChunk (a : Action) (ms : List Member) : Option (List Bool) :=
  if !consistent ms then none
  else if !ms.all shapeOk then none
  else if a != .recoverOnly && !ms.all (·.valid) then none
  else some (ms.map (maskOf a))

def chunksOf {α : Type} (c : Nat) : List α → List (List α)
  | [] => []
  | x :: xs => if c = 0 then [x :: xs] else (x :: xs).take c :: chunksOf c ((x :: xs).drop c)
termination_by l => l.length
decreasing_by simp only [List.length_drop, List.length_cons]; omega

def collect : List (Option (List Bool)) → Option (List Bool)
  | [] => some []
  | none :: _ => none
  | some r :: rest => match collect rest with
    | none => none
    | some rs => some (r ++ rs)

/-- `verify_batch` with chunk size `c`; `nT`, `nP` = lengths of the transcript and proof slices -/
def verifyBatch (c : Nat) (a : Action) (nT nP : Nat) (ms : List Member) : Option (List Bool) :=
  if ms.isEmpty || nT == 0 || nP == 0 then none
  else if ms.length != nP || nT != ms.length then none
  else if !consistent ms then none
  else collect ((chunksOf c ms).map (verifyChunk a))

/-- the pre-fix control flow: only the first chunk was examined -/
def verifyBatchPrefix (c : Nat) (a : Action) (nT nP : Nat) (ms : List Member) : Option (List Bool) :=
  if ms.isEmpty || nT == 0 || nP == 0 then none
  else if ms.length != nP || nT != ms.length then none
  else match chunksOf c ms with
    | [] => some []
    | ch :: _ => verifyChunk a ch

end Model.Batch
