import Model.Nonce
/-! C20: life cycle of secret-bearing heap buffers, per API operation, as a function of the configuration
    (src/utils/generic.rs:45-57 `nonce`, src/transcripts.rs:90-109 witness bytes, src/range_proof.rs:300-301, 325,
    438-464, 542-571 prover vectors, 937-961 mask recovery; `ZeroizeOnDrop` owners). What the compiled program
    really allocates is a fact about rustc output; this model states the intended discipline and the allocator run
    observes the heap. -/
namespace Model.Lifecycle
open Model.Nonce

inductive Kind where
  | witnessBytes | nonceKey | seedCopy | bitVectors | nonceVector | maskTemp | ownerBlindings
deriving DecidableEq, Repr

structure Buf where
  kind : Kind
  bytes : Nat
  wiped : Bool      -- overwritten before release
deriving DecidableEq, Repr

/-- one call of `nonce()`. Before the `fix:` commit the seed was copied into a temporary `Vec` that was appended to
    the zeroizing key buffer and then dropped un-wiped. -/
def nonceCall (fixed : Bool) : List Buf :=
  ⟨.nonceKey, 43, true⟩ :: (if fixed then [] else [⟨.seedCopy, 32, false⟩])

/-- every nonce position of a proof -/
def allPos (t κ : Nat) : List Pos :=
  (List.range t).map Pos.alpha ++
  ((List.range κ).flatMap (fun j => (List.range t).map (Pos.dL j) ++ (List.range t).map (Pos.dR j)) ++
  ([Pos.r, Pos.s] ++ ((List.range t).map Pos.d ++ (List.range t).map Pos.eta)))

def isSeed : Src → Bool
  | .seed _ _ _ => true
  | .rng _ _ => false

/-- number of `nonce()` calls of one prove (and of one mask recovery) with a seed -/
def seedDerivations (seeded : Bool) (t κ : Nat) : Nat :=
  ((allPos t κ).filter (fun p => isSeed (source seeded t κ p))).length

/-- secret-bearing heap buffers of `prove_with_rng` for `m` openings, degree `t`, `κ` rounds -/
def proveBufs (fixed seeded : Bool) (m t κ : Nat) : List Buf :=
  ⟨.witnessBytes, m * (8 + 32 * t), true⟩ :: ⟨.bitVectors, 2 * 32 * 2 ^ κ, true⟩ ::
  ⟨.nonceVector, 32 * t, true⟩ ::      -- alpha
  ((List.replicate (2 * κ + 2) (⟨.nonceVector, 32 * t, true⟩ : Buf)) ++      -- dL, dR per round; d; eta
   (List.replicate (seedDerivations seeded t κ) (nonceCall fixed)).flatten)

/-- secret-bearing heap buffers of one mask recovery inside `verify` -/
def recoverBufs (fixed : Bool) (t κ : Nat) : List Buf :=
  ⟨.maskTemp, 32 * t, true⟩ :: (List.replicate (seedDerivations true t κ) (nonceCall fixed)).flatten

def unwiped (bs : List Buf) : Nat := (bs.filter (fun b => !b.wiped)).length

end Model.Lifecycle
