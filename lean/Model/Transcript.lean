/-! Import-free model of what the library absorbs into the merlin transcript before each challenge
    (src/transcripts.rs:70-162, src/protocols/transcript_protocol.rs). -/
namespace Model.Transcript

abbrev Bytes := List UInt8

/-- one operation on a merlin transcript, as seen at the merlin API boundary -/
inductive Event where
  | append (label : String) (msg : Bytes)
  | challenge (label : String) (len : Nat)
deriving DecidableEq, Repr

open Event

/-- 8-byte little-endian encoding (merlin's `append_u64`) -/
def le64 (x : Nat) : Bytes := (List.range 8).map (fun i => UInt8.ofNat (x / 256 ^ i % 256))

/-- public data absorbed at transcript start -/
structure Pub where
  hb : Bytes            -- compressed value generator
  gb : List Bytes       -- compressed blinding generators
  n : Nat               -- bit length
  t : Nat               -- extension degree
  m : Nat               -- aggregation factor
  cs : List Bytes       -- compressed commitments
  ps : List Nat         -- promises, absent = 0
deriving DecidableEq

def stmtEvents (x : Pub) : List Event :=
  [append "dom-sep" "Bulletproofs+ Range Proof".toUTF8.toList, append "H" x.hb]
  ++ (x.gb.map (append "G")
  ++ ([append "N" (le64 x.n), append "T" (le64 x.t), append "M" (le64 x.m)]
  ++ (x.cs.map (append "Ci")
  ++ x.ps.map (fun p => append "vi - minimum_value" (le64 p)))))

/-- everything absorbed before the challenges `y`, `z`, on top of the caller's history `ctx` -/
def beforeY (ctx : List Event) (x : Pub) (A : Bytes) : List Event :=
  ctx ++ (stmtEvents x ++ [append "A" A])

/-- everything absorbed before round challenge `e_j` (`lrs` = the first `j+1` pairs) -/
def roundEvents : List (Bytes × Bytes) → List Event
  | [] => []
  | (l, r) :: rest => append "L" l :: append "R" r :: challenge "e" 64 :: roundEvents rest

def beforeE (ctx : List Event) (x : Pub) (A : Bytes) (lrs : List (Bytes × Bytes)) (l r : Bytes) : List Event :=
  beforeY ctx x A ++ ([challenge "y" 64, challenge "z" 64] ++ (roundEvents lrs ++ [append "L" l, append "R" r]))

/-! ### Injectivity -/

/-- A run of mapped elements followed by a separator that no mapped element can equal. -/
theorem map_sep_inj {α : Type} (f : α → Event) (hf : ∀ a b, f a = f b → a = b)
    (xs ys : List α) (s s' : Event) (r r' : List Event)
    (hs : ∀ a, f a ≠ s') (hs' : ∀ a, f a ≠ s)
    (h : xs.map f ++ s :: r = ys.map f ++ s' :: r') : xs = ys ∧ s = s' ∧ r = r' := by
  induction xs generalizing ys with
  | nil =>
    cases ys with
    | nil => simp at h; exact ⟨rfl, h.1, h.2⟩
    | cons y ys => simp at h; exact absurd h.1.symm (hs' y)
  | cons x xs ih =>
    cases ys with
    | nil => simp at h; exact absurd h.1 (hs x)
    | cons y ys =>
      simp only [List.map_cons, List.cons_append, List.cons.injEq] at h
      obtain ⟨rfl, rfl, rfl⟩ := ih ys h.2
      exact ⟨by rw [hf _ _ h.1], rfl, rfl⟩

theorem map_inj_of_length {α : Type} (f : α → Event)
    (xs ys : List α) (hf : ∀ a ∈ xs, ∀ b ∈ ys, f a = f b → a = b) (r r' : List Event) (hl : xs.length = ys.length)
    (h : xs.map f ++ r = ys.map f ++ r') : xs = ys ∧ r = r' := by
  induction xs generalizing ys with
  | nil => cases ys with
    | nil => simpa using h
    | cons _ _ => simp at hl
  | cons x xs ih => cases ys with
    | nil => simp at hl
    | cons y ys =>
      simp only [List.map_cons, List.cons_append, List.cons.injEq] at h
      obtain ⟨rfl, rfl⟩ := ih ys (fun a ha b hb => hf a (by simp [ha]) b (by simp [hb])) (by simpa using hl) h.2
      exact ⟨by rw [hf x (by simp) y (by simp) h.1], rfl⟩

theorem le64_inj (a b : Nat) (ha : a < 2 ^ 64) (hb : b < 2 ^ 64) (h : le64 a = le64 b) : a = b := by
  unfold le64 at h
  simp only [List.range, List.range.loop, List.map_cons, List.map_nil, List.cons.injEq, and_true] at h
  obtain ⟨h0, h1, h2, h3, h4, h5, h6, h7⟩ := h
  have e : ∀ x y : Nat, x < 256 → y < 256 → UInt8.ofNat x = UInt8.ofNat y → x = y := by
    intro x y hx hy hxy
    have := congrArg UInt8.toNat hxy
    simpa [UInt8.toNat_ofNat, Nat.mod_eq_of_lt hx, Nat.mod_eq_of_lt hy] using this
  have g0 := e _ _ (Nat.mod_lt _ (by decide)) (Nat.mod_lt _ (by decide)) h0
  have g1 := e _ _ (Nat.mod_lt _ (by decide)) (Nat.mod_lt _ (by decide)) h1
  have g2 := e _ _ (Nat.mod_lt _ (by decide)) (Nat.mod_lt _ (by decide)) h2
  have g3 := e _ _ (Nat.mod_lt _ (by decide)) (Nat.mod_lt _ (by decide)) h3
  have g4 := e _ _ (Nat.mod_lt _ (by decide)) (Nat.mod_lt _ (by decide)) h4
  have g5 := e _ _ (Nat.mod_lt _ (by decide)) (Nat.mod_lt _ (by decide)) h5
  have g6 := e _ _ (Nat.mod_lt _ (by decide)) (Nat.mod_lt _ (by decide)) h6
  have g7 := e _ _ (Nat.mod_lt _ (by decide)) (Nat.mod_lt _ (by decide)) h7
  omega

/-- shape facts the validating constructors guarantee -/
structure Pub.ok (x : Pub) : Prop where
  n64 : x.n < 2 ^ 64
  t64 : x.t < 2 ^ 64
  m64 : x.m < 2 ^ 64
  cs_len : x.cs.length = x.m
  ps_len : x.ps.length = x.m
  ps64 : ∀ p ∈ x.ps, p < 2 ^ 64

/-- statement data and `A` can be read back from any history that starts with them, whatever follows -/
theorem stmt_inj_tail (x x' : Pub) (hx : x.ok) (hx' : x'.ok) (A A' : Bytes) (tl tl' : List Event)
    (h1 : stmtEvents x ++ (append "A" A :: tl) = stmtEvents x' ++ (append "A" A' :: tl')) :
    x = x' ∧ A = A' ∧ tl = tl' := by
  unfold stmtEvents at h1
  simp only [List.cons_append, List.nil_append, List.append_assoc, List.cons.injEq, true_and] at h1
  obtain ⟨hH, h2⟩ := h1
  have hhb : x.hb = x'.hb := by injection hH
  -- the run of G's is terminated by the N event
  obtain ⟨hgb, hN, h3⟩ := map_sep_inj (append "G") (fun a b hab => by injection hab) x.gb x'.gb _ _ _ _
    (fun a hne => by injection hne with hl _; exact absurd hl (by decide))
    (fun a hne => by injection hne with hl _; exact absurd hl (by decide)) h2
  simp only [List.cons.injEq] at h3
  obtain ⟨hT, hM, h4⟩ := h3
  have hn : x.n = x'.n := le64_inj _ _ hx.n64 hx'.n64 (by injection hN)
  have ht : x.t = x'.t := le64_inj _ _ hx.t64 hx'.t64 (by injection hT)
  have hm : x.m = x'.m := le64_inj _ _ hx.m64 hx'.m64 (by injection hM)
  obtain ⟨hcs, h5⟩ := map_inj_of_length (append "Ci") x.cs x'.cs (fun a _ b _ hab => by injection hab) _ _
    (by rw [hx.cs_len, hx'.cs_len, hm]) h4
  obtain ⟨hps, h6⟩ := map_inj_of_length (fun p => append "vi - minimum_value" (le64 p)) x.ps x'.ps
    (fun a ha b hb hab => by injection hab with _ hmsg; exact le64_inj a b (hx.ps64 a ha) (hx'.ps64 b hb) hmsg)
    (append "A" A :: tl) (append "A" A' :: tl') (by rw [hx.ps_len, hx'.ps_len, hm]) h5
  simp only [List.cons.injEq] at h6
  have hA : A = A' := by injection h6.1
  refine ⟨?_, hA, h6.2⟩
  cases x; cases x'
  simp only at hhb hgb hn ht hm hcs hps
  subst hhb hgb hn ht hm hcs hps
  rfl

/-- **C04 (data under `y`, `z`).** For a fixed caller history, the history in front of the first challenges
    determines every public datum and `A`. -/
theorem beforeY_inj_data (ctx : List Event) (x x' : Pub) (hx : x.ok) (hx' : x'.ok) (A A' : Bytes)
    (h : beforeY ctx x A = beforeY ctx x' A') : x = x' ∧ A = A' := by
  unfold beforeY at h
  have h1 := List.append_cancel_left h
  obtain ⟨a, b, _⟩ := stmt_inj_tail x x' hx hx' A A' [] [] h1
  exact ⟨a, b⟩

/-- **C04 (context under every challenge).** For fixed data, the history in front of the first challenges
    determines the caller's history. -/
theorem beforeY_inj_ctx (ctx ctx' : List Event) (x : Pub) (A : Bytes)
    (h : beforeY ctx x A = beforeY ctx' x A) : ctx = ctx' := by
  unfold beforeY at h
  exact List.append_cancel_right h

/-- **C04 (nesting).** The history in front of a round challenge extends the history in front of `y`, `z`. -/
theorem beforeY_prefix_beforeE (ctx : List Event) (x : Pub) (A : Bytes) (lrs : List (Bytes × Bytes)) (l r : Bytes) :
    beforeY ctx x A <+: beforeE ctx x A lrs l r := by
  unfold beforeE
  exact List.prefix_append _ _

/-! ### Round and final challenges, verifier weight path -/

theorem roundEvents_length (lrs : List (Bytes × Bytes)) : (roundEvents lrs).length = 3 * lrs.length := by
  induction lrs with
  | nil => rfl
  | cons p rest ih => obtain ⟨l, r⟩ := p; simp only [roundEvents, List.length_cons, ih]; omega

theorem roundEvents_inj (lrs lrs' : List (Bytes × Bytes)) (t t' : List Event) (ht : t.length = t'.length)
    (h : roundEvents lrs ++ t = roundEvents lrs' ++ t') : lrs = lrs' ∧ t = t' := by
  induction lrs generalizing lrs' with
  | nil =>
    cases lrs' with
    | nil => exact ⟨rfl, by simpa [roundEvents] using h⟩
    | cons p rest =>
      have := congrArg List.length h
      simp only [List.length_append, roundEvents_length, List.length_nil, List.length_cons] at this
      omega
  | cons p rest ih =>
    cases lrs' with
    | nil =>
      have := congrArg List.length h
      simp only [List.length_append, roundEvents_length, List.length_nil, List.length_cons] at this
      omega
    | cons p' rest' =>
      obtain ⟨l, r⟩ := p; obtain ⟨l', r'⟩ := p'
      simp only [roundEvents, List.cons_append, List.cons.injEq, true_and] at h
      obtain ⟨hl, hr, h'⟩ := h
      obtain ⟨rfl, rfl⟩ := ih rest' h'
      have hl' : l = l' := by injection hl
      have hr' : r = r' := by injection hr
      subst hl' hr'
      exact ⟨rfl, rfl⟩

/-- everything absorbed before the final challenge -/
def beforeFinal (ctx : List Event) (x : Pub) (A : Bytes) (lrs : List (Bytes × Bytes)) (a1 b : Bytes) : List Event :=
  beforeY ctx x A ++ ([challenge "y" 64, challenge "z" 64] ++ (roundEvents lrs ++ [append "A1" a1, append "B" b]))

/-- everything absorbed into a member's transcript before its weight contribution is drawn (verifier only) -/
def beforeWeight (ctx : List Event) (x : Pub) (A : Bytes) (lrs : List (Bytes × Bytes)) (a1 b : Bytes)
    (r1 s1 : Bytes) (d1 : List Bytes) : List Event :=
  beforeFinal ctx x A lrs a1 b ++ (challenge "e" 64 :: append "r1" r1 :: append "s1" s1 :: d1.map (append "d1"))

/-- the complete prescribed event sequence of a verifier run (the prover's is the prefix up to the last challenge) -/
def fullEvents (ctx : List Event) (x : Pub) (A : Bytes) (lrs : List (Bytes × Bytes)) (a1 b : Bytes)
    (r1 s1 : Bytes) (d1 : List Bytes) : List Event := beforeWeight ctx x A lrs a1 b r1 s1 d1

/-- the state the prover leaves in the CALLER's transcript after a successful call: everything up to and including the
    final challenge (a protocol that goes on using the transcript draws its next challenge from this history) -/
def proverPost (ctx : List Event) (x : Pub) (A : Bytes) (lrs : List (Bytes × Bytes)) (a1 b : Bytes) : List Event :=
  beforeFinal ctx x A lrs a1 b ++ [challenge "e" 64]

/-- width in bytes of the digest of a member's final transcript state that is absorbed into the weight transcript
    (`append_u64(b"proof", transcript_rng.next_u64())`, src/range_proof.rs:849-851) -/
def weightDigestBytes : Nat := 8

/-- the weight transcript: one digest per member, in batch order; the weights are drawn from the RNG built on it -/
def weightEvents (digests : List Bytes) : List Event :=
  append "dom-sep" "Bulletproofs+ verifier weights".toUTF8.toList :: digests.map (append "proof")

/-- **C08 (every member's digest is under every weight).** -/
theorem weightEvents_inj (ds ds' : List Bytes) (h : weightEvents ds = weightEvents ds') : ds = ds' := by
  unfold weightEvents at h
  simp only [List.cons.injEq, true_and] at h
  induction ds generalizing ds' with
  | nil => cases ds' with
    | nil => rfl
    | cons _ _ => simp at h
  | cons d ds ih => cases ds' with
    | nil => simp at h
    | cons d' ds' =>
      simp only [List.map_cons, List.cons.injEq] at h
      have hd : d = d' := by injection h.1
      rw [hd, ih ds' h.2]

/-- **C04 (data under a round challenge).** For a fixed caller history, the history in front of round challenge
    `e_j` determines the statement, `A`, and every `L`, `R` up to and including round `j`. -/
theorem beforeE_inj_data (ctx : List Event) (x x' : Pub) (hx : x.ok) (hx' : x'.ok) (A A' : Bytes)
    (lrs lrs' : List (Bytes × Bytes)) (l r l' r' : Bytes)
    (h : beforeE ctx x A lrs l r = beforeE ctx x' A' lrs' l' r') :
    x = x' ∧ A = A' ∧ lrs = lrs' ∧ l = l' ∧ r = r' := by
  unfold beforeE beforeY at h
  simp only [List.append_assoc] at h
  have h1 := List.append_cancel_left h
  simp only [List.singleton_append] at h1
  obtain ⟨hx1, hA, ht⟩ := stmt_inj_tail x x' hx hx' A A' _ _ h1
  simp only [List.cons_append, List.nil_append, List.cons.injEq, true_and] at ht
  obtain ⟨hl, ht'⟩ := roundEvents_inj lrs lrs' _ _ (by simp) ht
  simp only [List.cons.injEq, and_true] at ht'
  exact ⟨hx1, hA, hl, by injection ht'.1, by injection ht'.2⟩

/-- **C04 (data under the final challenge).** -/
theorem beforeFinal_inj_data (ctx : List Event) (x x' : Pub) (hx : x.ok) (hx' : x'.ok) (A A' : Bytes)
    (lrs lrs' : List (Bytes × Bytes)) (a1 b a1' b' : Bytes)
    (h : beforeFinal ctx x A lrs a1 b = beforeFinal ctx x' A' lrs' a1' b') :
    x = x' ∧ A = A' ∧ lrs = lrs' ∧ a1 = a1' ∧ b = b' := by
  unfold beforeFinal beforeY at h
  simp only [List.append_assoc] at h
  have h1 := List.append_cancel_left h
  simp only [List.singleton_append] at h1
  obtain ⟨hx1, hA, ht⟩ := stmt_inj_tail x x' hx hx' A A' _ _ h1
  simp only [List.cons_append, List.nil_append, List.cons.injEq, true_and] at ht
  obtain ⟨hl, ht'⟩ := roundEvents_inj lrs lrs' _ _ (by simp) ht
  simp only [List.cons.injEq, and_true] at ht'
  exact ⟨hx1, hA, hl, by injection ht'.1, by injection ht'.2⟩

/-- **C08 (what the weight sees).** The history a member contributes to the weight derivation determines, on top of
    everything under the final challenge, the response scalars `r1`, `s1` and every `d1_k` (both proofs carry as many
    `d1` scalars as the extension degree, which the verifier checks against the statement). -/
theorem beforeWeight_inj_data (ctx : List Event) (x x' : Pub) (hx : x.ok) (hx' : x'.ok) (A A' : Bytes)
    (lrs lrs' : List (Bytes × Bytes)) (a1 b a1' b' r1 s1 r1' s1' : Bytes) (d1 d1' : List Bytes)
    (hd : d1.length = d1'.length)
    (h : beforeWeight ctx x A lrs a1 b r1 s1 d1 = beforeWeight ctx x' A' lrs' a1' b' r1' s1' d1') :
    x = x' ∧ A = A' ∧ lrs = lrs' ∧ a1 = a1' ∧ b = b' ∧ r1 = r1' ∧ s1 = s1' ∧ d1 = d1' := by
  unfold beforeWeight beforeFinal beforeY at h
  simp only [List.append_assoc] at h
  have h1 := List.append_cancel_left h
  simp only [List.singleton_append] at h1
  obtain ⟨hx1, hA, ht⟩ := stmt_inj_tail x x' hx hx' A A' _ _ h1
  simp only [List.cons_append, List.nil_append, List.cons.injEq, true_and] at ht
  obtain ⟨hl, ht'⟩ := roundEvents_inj lrs lrs' _ _ (by simp [hd]) ht
  simp only [List.cons.injEq, true_and] at ht'
  obtain ⟨ha1, hb, hr1, hs1, hd1⟩ := ht'
  refine ⟨hx1, hA, hl, by injection ha1, by injection hb, by injection hr1, by injection hs1, ?_⟩
  exact (map_inj_of_length (append "d1") d1 d1' (fun a _ b _ hab => by injection hab) [] [] hd (by simpa using hd1)).1

end Model.Transcript
