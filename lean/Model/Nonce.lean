import Model.Transcript
/-! Import-free model of nonce provenance (C13, C14):
    the seed-derived nonce key layout of `nonce()` (src/utils/generic.rs:30-60), the prover's schedule of nonce
    positions over transcript-RNG instances (src/range_proof.rs:325-333, 437-464, 540-571), the witness
    serialisation and the construction input of every transcript RNG (src/transcripts.rs:90-112, 185-195).
    Blake2b and STROBE are parameters: the model produces their inputs. -/
namespace Model.Nonce
open Model.Transcript (Bytes Event)

def le32 (x : Nat) : Bytes := [UInt8.ofNat (x % 256), UInt8.ofNat (x / 256 % 256), UInt8.ofNat (x / 65536 % 256), UInt8.ofNat (x / 16777216 % 256)]

/-- key of the Blake2b MAC: `0 ‖ seed(32) ‖ ['j' ‖ LE32 j] ‖ ['k' ‖ LE32 k]`; the label is the persona -/
def nonceKey (seed : Bytes) (j k : Option Nat) : Bytes :=
  (0 : UInt8) :: (seed ++ ((match j with | none => [] | some j => (106 : UInt8) :: le32 j) ++
    (match k with | none => [] | some k => (107 : UInt8) :: le32 k)))

/-- nonce positions of one proof -/
inductive Pos where
  | alpha (k : Nat) | dL (j k : Nat) | dR (j k : Nat) | r | s | d (k : Nat) | eta (k : Nat)
deriving DecidableEq, Repr

/-- where a nonce comes from -/
inductive Src where
  | rng (inst draw : Nat)                         -- `draw`-th 64-byte draw of the `inst`-th transcript-RNG instance
  | seed (label : String) (j k : Option Nat)      -- Blake2b-MAC keyed by `nonceKey seed j k`, persona `label`
deriving DecidableEq, Repr

/-- Source of every nonce. RNG instance 0 is built after the statement is absorbed, instance 1 after `A`,
    instance `j+2` after `L_j, R_j`; `κ` = number of rounds, `t` = extension degree. -/
def source (seeded : Bool) (t κ : Nat) : Pos → Src
  | .alpha k => if seeded then .seed "alpha" none (some k) else .rng 0 k
  | .dL j k => if seeded then .seed "dL" (some j) (some k) else .rng (j + 1) k
  | .dR j k => if seeded then .seed "dR" (some j) (some k) else .rng (j + 1) (t + k)
  | .r => .rng (κ + 1) 0
  | .s => .rng (κ + 1) 1
  | .d k => if seeded then .seed "d" none (some k) else .rng (κ + 1) (2 + k)
  | .eta k => if seeded then .seed "eta" none (some k) else .rng (κ + 1) (2 + t + k)

def Pos.valid (t κ : Nat) : Pos → Prop
  | .alpha k | .d k | .eta k => k < t
  | .dL j k | .dR j k => j < κ ∧ k < t
  | .r | .s => True

/-- 8-byte little-endian encoding of a value -/
def le64 (x : Nat) : Bytes := Model.Transcript.le64 x

/-- serialised witness (`witness_bytes`): for every opening `LE64 v ‖ r_0 ‖ … ‖ r_{t-1}` (32 bytes each) -/
def witnessBytes : List (Nat × List Bytes) → Bytes
  | [] => []
  | (v, rs) :: rest => le64 v ++ (rs.flatten ++ witnessBytes rest)

/-- operations that build one prover RNG instance on top of the transcript history `hist` -/
inductive RngOp where
  | fork (hist : List Event)
  | rekey (label : String) (witness : Bytes)
  | finalize (ext : Bytes)
deriving DecidableEq, Repr

def rngInput (hist : List Event) (wit : Bytes) (ext : Bytes) : List RngOp :=
  [.fork hist, .rekey "witness" wit, .finalize ext]

open Model.Transcript in
/-- transcript histories from which the prover's RNG instances are forked, in construction order:
    after the statement, after `A`, after every `(L_j, R_j)`, after `(A1, B)` -/
def rngHistories (ctx : List Event) (x : Pub) (A : Bytes) (lrs : List (Bytes × Bytes)) (a1 b : Bytes) : List (List Event) :=
  (ctx ++ stmtEvents x) :: beforeY ctx x A ::
    ((List.range lrs.length).map (fun j =>
        match lrs[j]? with
        | some (l, r) => beforeE ctx x A (lrs.take j) l r
        | none => []) ++ [beforeFinal ctx x A lrs a1 b])

end Model.Nonce
