import Model.Range
/-! Scalar-level model of `verify` (src/range_proof.rs:784-806, 968-1054): the verifier never forms the per-proof
    contribution as a group element — it accumulates *scalars* for the shared generators (`gi_base_scalars`,
    `hi_base_scalars` of length `max_mn`, `g_base_scalars`, `h_base_scalar`) and pushes per-proof dynamic scalars and
    points, then makes one multiscalar multiplication over the interleaved, zero-padded static scalars and the
    dynamic ones. This file models exactly those lists; `Bpp/ScalarsThm.lean` proves that the multiscalar product of
    the lists equals `Model.codeContribution` summed over the members. -/
namespace Model
variable {F : Type} {M : Type}

/-- multiscalar product of two lists (`izip!` semantics: stops at the shorter) -/
def msmList [Add M] [Zero M] [SMul F M] : List F → List M → M
  | s :: ss, p :: ps => s • p + msmList ss ps
  | _, _ => 0

/-- `a.iter().interleave(b.iter())` -/
def interleaveL {α : Type} : List α → List α → List α
  | x :: xs, y :: ys => x :: y :: interleaveL xs ys
  | [], ys => ys
  | xs, [] => xs

section
variable [Add F] [Mul F] [Zero F] [One F] [Sub F] [Neg F] [Inv F] [NatCast F]

/-- per-proof scalars, as the code computes them -/
structure ProofScalars (F : Type) where
  gi : List F       -- `weight * (g + e_square_z)` for i < n·m
  hi : List F       -- `weight * (h - e_square * (d * y_nm_i + z))`
  hb : F            -- contribution to `h_base_scalar` (promise terms and the closed-form term)
  gb : List F       -- `weight * d1_k`
  dyn : List F      -- one per commitment, then A1, B, A, then one per L, one per R

def proofScalars (n m t : Nat) (p : Nat → F) (r1 s1 : F) (d1 : Nat → F) (y z : F) (es : List F) (e w : F) : ProofScalars F :=
  let N := n * m
  let s := sCode es
  let d := dCode z n
  let yinv := y⁻¹
  let ynm := powF y N
  let ynm1 := ynm * y
  let ysum := y * (ynm - 1) * (y - 1)⁻¹
  let dsum := (dSumLoop z (Nat.log2 m)).1 * (powF two n - 1)
  let e2 := powF e 2
  let r1e := r1 * e
  let s1e := s1 * e
  let cw : Nat → F := fun j => w * (-e2 * powF z (2 * (j + 1)) * ynm1)
  { gi := (List.range N).map (fun i => w * (r1e * powF yinv i * s i + e2 * z))
    hi := (List.range N).map (fun i => w * (s1e * s (N - 1 - i) - e2 * (d i * (ynm * powF yinv i) + z)))
    hb := (-sumTo m (fun j => cw j * p j)) + w * (r1 * y * s1 + e2 * (ynm1 * z * dsum + (powF z 2 - z) * ysum))
    gb := (List.range t).map (fun k => w * d1 k)
    dyn := (List.range m).map cw ++ ([w * (-e), -w, w * (-e2)] ++
            (es.map (fun c => w * -e2 * powF c 2) ++ es.map (fun c => w * -e2 * powF (c⁻¹) 2))) }
end

/-- dynamic points pushed for one proof, in the order of the code -/
def proofPoints (m : Nat) (V : Nat → M) (π : ProofM F M) : List M :=
  (List.range m).map V ++ ([π.A1, π.B, π.A] ++ (π.Ls ++ π.Rs))

/-- element-wise accumulation into a shared vector of length `maxN` (`izip!` over `gi_base_scalars.iter_mut()`):
    a member with fewer scalars touches only a prefix -/
def accumulate [Add F] [Zero F] (maxN : Nat) : List (List F) → List F
  | [] => List.replicate maxN 0
  | c :: cs => List.zipWith (· + ·) (accumulate maxN cs) (c ++ List.replicate (maxN - c.length) 0)

/-- static scalars of the final multiscalar product: interleaved accumulated vectors, then zero padding up to the
    table size `2·n·cap` -/
def staticScalars [Zero F] (gi hi : List F) (pad : Nat) : List F := interleaveL gi hi ++ List.replicate pad 0


/-- static scalars of the prover's first multiscalar product (lines 334-345): interleaved bit vectors a_L, a_R = a_L − 1
    of the shifted values, then zero padding up to the table size -/
def proverAStatic [Zero F] [One F] [Sub F] [NatCast F] (n m pad : Nat) (off : Nat → Nat) : List F :=
  staticScalars ((List.range (n * m)).map (aLvec n off)) ((List.range (n * m)).map (fun i => aLvec n off i - 1)) pad

end Model
