/-! Concrete carriers for *executing* the model in the native driver: the scalar field of order ℓ as `Nat` modulo ℓ
    and a sparse free module over named basis elements. `Bpp/ScalarField.lean` proves that ℓ is prime and that `Fl` on canonical
    representatives is the field `ZMod ℓ`; nothing is proved about `SVec` (the theorems in `Bpp/*` hold over any
    module); both are validated against curve25519-dalek's `Scalar` and the harness's free-module group by the
    correspondence check. -/
namespace Model

def ell : Nat := 2^252 + 27742317777372353535851937790883648493

structure Fl where
  v : Nat
deriving BEq, DecidableEq, Repr

namespace Fl
def ofNat (n : Nat) : Fl := ⟨n % ell⟩
/-- square-and-multiply, at most `fuel` steps (structural recursion, so that `Bpp/ScalarField.lean` can prove it) -/
def powAux : Nat → Nat → Nat → Nat → Nat
  | 0, r, _, _ => r
  | fuel + 1, r, b, e =>
    if e = 0 then r else powAux fuel (if e % 2 = 1 then r * b % ell else r) (b * b % ell) (e / 2)
/-- `b ^ e mod ℓ` for `e < 2^256` -/
def powNat (b e : Nat) : Nat := powAux 256 1 (b % ell) e
end Fl

instance : Add Fl := ⟨fun a b => ⟨(a.v + b.v) % ell⟩⟩
instance : Mul Fl := ⟨fun a b => ⟨(a.v * b.v) % ell⟩⟩
instance : Sub Fl := ⟨fun a b => ⟨(a.v + ell - b.v) % ell⟩⟩
instance : Neg Fl := ⟨fun a => ⟨(ell - a.v) % ell⟩⟩
instance : Zero Fl := ⟨⟨0⟩⟩
instance : One Fl := ⟨⟨1⟩⟩
instance : Inv Fl := ⟨fun a => ⟨Fl.powNat a.v (ell - 2)⟩⟩
instance : NatCast Fl := ⟨Fl.ofNat⟩
instance : Inhabited Fl := ⟨⟨0⟩⟩

/-- sparse vector over named basis elements: sorted by id, duplicates merged; zero coefficients may remain and are
    dropped by `SVec.norm` before printing -/
structure SVec where
  terms : Array (Nat × Fl)
deriving Inhabited

namespace SVec
def basis (id : Nat) : SVec := ⟨#[(id, 1)]⟩
def merge (f : Fl → Fl) (a b : SVec) : SVec := Id.run do
  let x := a.terms
  let y := b.terms
  let mut out : Array (Nat × Fl) := Array.mkEmpty (x.size + y.size)
  let mut i := 0
  let mut j := 0
  while i < x.size || j < y.size do
    if i < x.size && j < y.size then
      let (ia, va) := x[i]!
      let (ib, vb) := y[j]!
      if ia < ib then out := out.push (ia, va); i := i + 1
      else if ib < ia then out := out.push (ib, f vb); j := j + 1
      else out := out.push (ia, va + f vb); i := i + 1; j := j + 1
    else if i < x.size then out := out.push x[i]!; i := i + 1
    else
      let (ib, vb) := y[j]!
      out := out.push (ib, f vb); j := j + 1
  return ⟨out⟩
def norm (a : SVec) : SVec := ⟨a.terms.filter (fun p => p.2.v != 0)⟩
def ofList (l : List (Nat × Fl)) : SVec :=
  l.foldl (fun acc p => merge id acc ⟨#[p]⟩) ⟨#[]⟩
end SVec

instance : Zero SVec := ⟨⟨#[]⟩⟩
instance : Add SVec := ⟨SVec.merge id⟩
instance : Sub SVec := ⟨SVec.merge (fun x => -x)⟩
instance : SMul Fl SVec := ⟨fun c a => ⟨a.terms.map (fun p => (p.1, c * p.2))⟩⟩

end Model
