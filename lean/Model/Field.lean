/-! Concrete carriers for *executing* the model in the native driver: the scalar field of order ℓ as `Nat` modulo ℓ
    and a sparse free module over named basis elements. `Bpp/ScalarField.lean` proves that ℓ is prime and that `Fl` on canonical
    representatives is the field `ZMod ℓ`; nothing is proved about `SVec` (the theorems in `Bpp/*` hold over any
    module); both are validated against curve25519-dalek's `Scalar` and the harness's free-module group by the
    correspondence check. -/
namespace Model

def ell : Nat := 2^252 + 27742317777372353535851937790883648493

structure Fl where
  v : Nat
deriving BEq, DecidableEq, Repr

namespace Fl
def ofNat (n : Nat) : Fl := ⟨n % ell⟩
/-- square-and-multiply, at most `fuel` steps (structural recursion, so that `Bpp/ScalarField.lean` can prove it) -/
def powAux : Nat → Nat → Nat → Nat → Nat
  | 0, r, _, _ => r
  | fuel + 1, r, b, e =>
    if e = 0 then r else powAux fuel (if e % 2 = 1 then r * b % ell else r) (b * b % ell) (e / 2)
/-- `b ^ e mod ℓ` for `e < 2^256` -/
def powNat (b e : Nat) : Nat := powAux 256 1 (b % ell) e
end Fl

instance : Add Fl := ⟨fun a b => ⟨(a.v + b.v) % ell⟩⟩
instance : Mul Fl := ⟨fun a b => ⟨(a.v * b.v) % ell⟩⟩
instance : Sub Fl := ⟨fun a b => ⟨(a.v + ell - b.v) % ell⟩⟩
instance : Neg Fl := ⟨fun a => ⟨(ell - a.v) % ell⟩⟩
instance : Zero Fl := ⟨⟨0⟩⟩
instance : One Fl := ⟨⟨1⟩⟩
instance : Inv Fl := ⟨fun a => ⟨Fl.powNat a.v (ell - 2)⟩⟩
instance : NatCast Fl := ⟨Fl.ofNat⟩
instance : Inhabited Fl := ⟨⟨0⟩⟩

/-- sparse vector over named basis elements: a list of (id, coefficient), ids strictly increasing when built with the
    operations below; zero coefficients may remain and are dropped by `SVec.norm` before printing.
    (`Bpp/FreeModule.lean`: the coefficient map is a homomorphism to functions `ℕ → ZMod ℓ`, and the printed normal
    form is empty exactly when every coefficient is zero.) -/
structure SVec where
  terms : List (Nat × Fl)
deriving Inhabited

namespace SVec
def basis (id : Nat) : SVec := ⟨[(id, 1)]⟩

/-- merge of two id-sorted lists, `f` applied to the coefficients of the second; equal ids are added -/
def mergeL (f : Fl → Fl) : List (Nat × Fl) → List (Nat × Fl) → List (Nat × Fl)
  | [], ys => ys.map (fun p => (p.1, f p.2))
  | x :: xs, [] => x :: xs
  | (ia, va) :: xs, (ib, vb) :: ys =>
    if ia < ib then (ia, va) :: mergeL f xs ((ib, vb) :: ys)
    else if ib < ia then (ib, f vb) :: mergeL f ((ia, va) :: xs) ys
    else (ia, va + f vb) :: mergeL f xs ys
termination_by xs ys => xs.length + ys.length

def merge (f : Fl → Fl) (a b : SVec) : SVec := ⟨mergeL f a.terms b.terms⟩
def norm (a : SVec) : SVec := ⟨a.terms.filter (fun p => p.2.v != 0)⟩
def ofList (l : List (Nat × Fl)) : SVec :=
  l.foldl (fun acc p => merge id acc ⟨[p]⟩) ⟨[]⟩
end SVec

instance : Zero SVec := ⟨⟨[]⟩⟩
instance : Add SVec := ⟨SVec.merge id⟩
instance : Sub SVec := ⟨SVec.merge (fun x => -x)⟩
instance : SMul Fl SVec := ⟨fun c a => ⟨a.terms.map (fun p => (p.1, c * p.2))⟩⟩

end Model
