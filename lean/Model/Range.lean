import Model.Alg
/-! Import-free executable model of the range-proof layer of `src/range_proof.rs`:
    the prover (`prove_with_rng`, lines 299-608), the reference relation of DESIGN §8, the optimised verifier's
    per-proof contribution (`verify`, lines 853-1030) and the mask recovery formula (lines 937-961).
    Written over core type classes only, so the *same* definitions run in the native driver (over the concrete
    253-bit field and a sparse free module) and are reasoned about over an arbitrary `Field`/`Module` in `Bpp/*`. -/
namespace Model
variable {F : Type} {M : Type}

/-- statement-side data -/
structure RangeInst (F M : Type) where
  n : Nat            -- bit length
  m : Nat            -- aggregation factor
  t : Nat            -- extension degree
  G : Nat → M
  H : Nat → M
  hb : M             -- value generator (`h_base`)
  Gb : Nat → M       -- blinding generators (`g_base_vec`)
  V : Nat → M        -- commitments
  p : Nat → F        -- promises (absent = 0), already cast into the field

/-- an arbitrary (possibly hostile) proof: any group elements, any scalars -/
structure ProofM (F M : Type) where
  A : M
  A1 : M
  B : M
  Ls : List M
  Rs : List M
  r1 : F
  s1 : F
  d1 : Nat → F

/-- bit `i` of `x`, as the code computes it: `(x >> i) & 1` -/
def bitN (x i : Nat) : Nat := (x / 2 ^ i) % 2

section
variable [Add F] [Mul F] [Zero F] [One F] [Sub F] [Neg F] [Inv F] [NatCast F]

def two : F := 1 + 1

/-- the prover's bit vector a_L: party-major, `n` bits of `off j = v j - p j` each (lines 302-322) -/
def aLvec (n : Nat) (off : Nat → Nat) (x : Nat) : F := ((bitN (off (x / n)) (x % n) : Nat) : F)

/-- the `d` vector as prover (lines 361-373) and verifier (lines 915-926) build it:
    `d[0] = z²`, `d[i] = 2·d[i−1]` for `i < n`, `d[j·n+i] = d[(j−1)·n+i]·z²` -/
def dCode (z : F) (n : Nat) : Nat → F
  | 0 => powF z 2
  | (x+1) => if x + 1 < n then two * dCode z n x
             else if n = 0 then 0 else dCode z n (x + 1 - n) * powF z 2
decreasing_by
  all_goals simp_wf
  all_goals omega

/-- the doubling loop for Σ_{j=1..m} z^{2j} (lines 928-934): (sum, next power) after `k` iterations -/
def dSumLoop (z : F) : Nat → F × F
  | 0 => (powF z 2, powF z 2)
  | (k+1) => let st := dSumLoop z k; (st.1 + st.1 * st.2, st.2 * st.2)

/-- the s-vector as the verifier computes it (lines 972-983): `s[0] = Π e_j⁻¹` (passed in as `s0`),
    `s[i] = s[i − 2^⌊lg i⌋] · e²_{κ−1−⌊lg i⌋}` -/
def sCodeFrom (s0 : F) (es : List F) : Nat → F
  | 0 => s0
  | (i+1) => sCodeFrom s0 es (i + 1 - 2 ^ Nat.log2 (i+1)) * powF (es.getD (es.length - Nat.log2 (i+1) - 1) 0) 2
decreasing_by
  have : 0 < 2 ^ Nat.log2 (i+1) := Nat.pos_of_ne_zero (by exact Nat.ne_of_gt (Nat.pow_pos (by decide)))
  omega

def prodInv : List F → F
  | [] => 1
  | e :: es => e⁻¹ * prodInv es

def sCode (es : List F) : Nat → F := sCodeFrom (prodInv es) es
end

section
variable [Add F] [Mul F] [Zero F] [One F] [Sub F] [Neg F] [Inv F] [NatCast F]
variable [Add M] [Zero M] [Sub M] [SMul F M]

/-- a range proof as the prover builds it: first message and the WIP transcript -/
structure RangeProofM (F M : Type) where
  A : M
  wipP : WipProof F M

/-- The prover (nonces and challenges are inputs): lines 299-608. -/
def rangeProve (I : RangeInst F M) (v p : Nat → Nat) (r : Nat → Nat → F)
    (α : Nat → F) (dL dR : Nat → Nat → F) (rr ss : F) (d η : Nat → F)
    (y z : F) (es : List F) (e : F) : RangeProofM F M :=
  let N := I.n * I.m
  let aL : Nat → F := aLvec I.n (fun j => v j - p j)
  let yN1 := powF y (N + 1)
  { A := dot N aL I.G + dot N (fun i => aL i - 1) I.H + dot I.t α I.Gb
    wipP := wipProve y I.t I.hb I.Gb dL dR rr ss d η e es 0
      (fun i => aL i - z) (fun i => aL i - 1 + dCode z I.n i * powF y (N - i) + z) I.G I.H
      (fun k => α k + sumTo I.m (fun j => powF z (2 * (j + 1)) * r j k * yN1)) }

def RangeProofM.toProofM (π : RangeProofM F M) : ProofM F M :=
  { A := π.A, A1 := π.wipP.A1, B := π.wipP.B, Ls := π.wipP.Ls, Rs := π.wipP.Rs,
    r1 := π.wipP.r1, s1 := π.wipP.s1, d1 := π.wipP.d1 }

/-! ### Reference relation (DESIGN §8), unoptimised -/

/-- reference reduction `A ↦ Â` -/
def Ahat (I : RangeInst F M) (y z : F) (A : M) : M :=
  let N := I.n * I.m
  let d : Nat → F := fun x => powF z (2 * (x / I.n + 1)) * powF two (x % I.n)
  let ζ : F := (z - powF z 2) * (sumTo N (fun i => powF y (i+1))) - z * powF y (N+1) * (sumTo N d)
  A + dot N (fun _ => -z) I.G + dot N (fun i => d i * powF y (N - i) + z) I.H
    + (sumTo I.m (fun j => (powF y (N+1) * powF z (2*(j+1))) • (I.V j - I.p j • I.hb))) + ζ • I.hb

def foldG (y : F) : List F → (Nat → M) → (Nat → M)
  | [], G => G
  | e :: es, G =>
      let ei := e⁻¹
      let c := e * (powF y (2 ^ es.length))⁻¹
      foldG y es (fun i => ei • G i + c • G (2 ^ es.length + i))

def foldH : List F → (Nat → M) → (Nat → M)
  | [], H => H
  | e :: es, H =>
      let ei := e⁻¹
      foldH es (fun i => e • H i + ei • H (2 ^ es.length + i))

def foldP : List F → List M → List M → M → M
  | e :: es, L :: Ls, R :: Rs, P => foldP es Ls Rs (powF e 2 • L + P + powF (e⁻¹) 2 • R)
  | _, _, _, P => P

/-- reference residual `R_spec = RHS − LHS` -/
def specResidual (I : RangeInst F M) (π : ProofM F M) (y z : F) (es : List F) (e : F) : M :=
  ((π.r1 * e) • foldG y es I.G 0 + (π.s1 * e) • foldH es I.H 0 + (π.r1 * y * π.s1) • I.hb + dot I.t π.d1 I.Gb)
    - (powF e 2 • foldP es π.Ls π.Rs (Ahat I y z π.A) + e • π.A1 + π.B)

/-! ### The optimised verifier, as coded -/

def zipSum (f : F → M → M) : List F → List M → M
  | c :: cs, L :: Ls => f c L + zipSum f cs Ls
  | _, _ => 0

/-- Everything the coded verifier adds to its accumulators for one proof with weight `w`
    (lines 853-1030), using the quantities exactly as the code computes them. -/
def codeContribution (I : RangeInst F M) (π : ProofM F M) (y z : F) (es : List F) (e w : F) : M :=
  let N := I.n * I.m
  let s := sCode es
  let d := dCode z I.n
  let yinv := y⁻¹
  let ynm := powF y N
  let ynm1 := ynm * y
  let ysum := y * (ynm - 1) * (y - 1)⁻¹
  let dsum := (dSumLoop z (Nat.log2 I.m)).1 * (powF two I.n - 1)
  let e2 := powF e 2
  let r1e := π.r1 * e
  let s1e := π.s1 * e
  dot N (fun i => w * (r1e * powF yinv i * s i + e2 * z)) I.G
  + dot N (fun i => w * (s1e * s (N - 1 - i) - e2 * (d i * (ynm * powF yinv i) + z))) I.H
  + (sumTo I.m (fun j => (w * (-e2 * powF z (2 * (j + 1)) * ynm1)) • I.V j))
  + ((-sumTo I.m (fun j => (w * (-e2 * powF z (2 * (j + 1)) * ynm1)) * I.p j))
      + w * (π.r1 * y * π.s1 + e2 * (ynm1 * z * dsum + (powF z 2 - z) * ysum))) • I.hb
  + dot I.t (fun k => w * π.d1 k) I.Gb
  + (w * (-e)) • π.A1 + (-w) • π.B + (w * (-e2)) • π.A
  + zipSum (fun c L => (w * -e2 * powF c 2) • L) es π.Ls
  + zipSum (fun c R => (w * -e2 * powF (c⁻¹) 2) • R) es π.Rs

/-! ### Mask recovery (lines 937-961) -/

def roundNonceSum (dL dR : Nat → Nat → F) : List F → Nat → Nat → F
  | [], _, _ => 0
  | ej :: es, j, k => dL j k * powF ej 2 + dR j k * powF (ej⁻¹) 2 + roundNonceSum dL dR es (j+1) k

def recoverMask (N : Nat) (α0 d η : Nat → F) (dL dR : Nat → Nat → F) (y z : F) (es : List F) (e : F)
    (d1 : Nat → F) (k : Nat) : F :=
  ((d1 k - η k - e * d k) * (powF e 2)⁻¹ - α0 k - roundNonceSum dL dR es 0 k) * (powF z 2 * (powF y N * y))⁻¹
end

/-- bytes of generator output reduced to one scalar by `Scalar::random` (curve25519-dalek: a 64-byte wide reduction,
    so that a draw is statistically uniform on the field) -/
def scalarDrawBytes : Nat := 64

/-- `Scalar::random_not_zero` (src/protocols/scalar_protocol.rs:23-31) on the stream of draws: redraw while zero -/
def firstNonZero {F : Type} [Zero F] [DecidableEq F] : List F → Option F
  | [] => none
  | x :: xs => if x = 0 then firstNonZero xs else some x
end Model
