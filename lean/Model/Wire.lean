import Model.Field
/-! Line-protocol helpers for the driver: `key=value` tokens, scalars as 64 hex chars (little-endian bytes, as
    `Scalar::as_bytes`), sparse vectors as `id:hex;id:hex` (`-` = zero), lists separated by `,`, rows by `/`. -/
namespace Model.Wire
open Model

def hexVal (c : Char) : Option Nat :=
  if '0' ≤ c ∧ c ≤ '9' then some (c.toNat - '0'.toNat)
  else if 'a' ≤ c ∧ c ≤ 'f' then some (c.toNat - 'a'.toNat + 10)
  else if 'A' ≤ c ∧ c ≤ 'F' then some (c.toNat - 'A'.toNat + 10)
  else none

def hexToBytes (s : String) : Option (List UInt8) :=
  let rec go : List Char → Option (List UInt8)
    | [] => some []
    | [_] => none
    | a :: b :: rest => do
      let x ← hexVal a
      let y ← hexVal b
      let r ← go rest
      pure (UInt8.ofNat (16 * x + y) :: r)
  go s.toList

def leNat : List UInt8 → Nat
  | [] => 0
  | b :: bs => b.toNat + 256 * leNat bs

def hexDigit (n : Nat) : Char := if n < 10 then Char.ofNat (48 + n) else Char.ofNat (87 + n)

def bytesToHex (bs : List UInt8) : String :=
  String.ofList (bs.flatMap (fun b => [hexDigit (b.toNat / 16), hexDigit (b.toNat % 16)]))

def natToLe : Nat → Nat → List UInt8
  | 0, _ => []
  | n+1, x => UInt8.ofNat (x % 256) :: natToLe n (x / 256)

def scalarOfHex (s : String) : Option Fl := do
  let bs ← hexToBytes s
  pure ⟨leNat bs % ell⟩

def hexOfScalar (x : Fl) : String := bytesToHex (natToLe 32 x.v)

def splitOn' (s : String) (sep : String) : List String :=
  if s == "-" || s == "" then [] else s.splitOn sep

def scalarList (s : String) : Option (List Fl) := (splitOn' s ",").mapM scalarOfHex
def scalarRows (s : String) : Option (List (List Fl)) := (splitOn' s "/").mapM scalarList
def natList (s : String) : Option (List Nat) := (splitOn' s ",").mapM String.toNat?

def vecOfStr (s : String) : Option SVec := do
  let ts ← (splitOn' s ";").mapM (fun t =>
    match t.splitOn ":" with
    | [i, h] => do
      let i ← i.toNat?
      let x ← scalarOfHex h
      pure (i, x)
    | _ => none)
  pure (SVec.ofList ts)

def vecList (s : String) : Option (List SVec) := (splitOn' s ",").mapM vecOfStr

def strOfVec (v : SVec) : String :=
  let t := v.norm.terms
  if t.isEmpty then "-" else ";".intercalate (t.map (fun p => s!"{p.1}:{hexOfScalar p.2}"))

def strOfVecs (vs : List SVec) : String := if vs.isEmpty then "-" else ",".intercalate (vs.map strOfVec)
def strOfScalars (xs : List Fl) : String := if xs.isEmpty then "-" else ",".intercalate (xs.map hexOfScalar)

/-- `key=value` tokens of a request line -/
def kv (line : String) : List (String × String) :=
  (line.splitOn " ").filterMap (fun tok =>
    match tok.splitOn "=" with
    | [k, v] => some (k, v)
    | _ => none)

def get (m : List (String × String)) (k : String) : Option String := (m.find? (·.1 == k)).map (·.2)

def listFn {α} [Inhabited α] (l : List α) : Nat → α := let a := l.toArray; fun i => a.getD i default
def rowsFn {α} [Inhabited α] (l : List (List α)) : Nat → Nat → α :=
  let a := (l.map List.toArray).toArray
  fun j k => (a.getD j #[]).getD k default

end Model.Wire
