/-! Import-free model of the validating constructors (C17) and of the prover's witness guards (C06):
    `RangeParameters::init` (src/range_parameters.rs:32-58), `RangeStatement::init` (src/range_statement.rs:36-74),
    `RangeWitness::init` / `CommitmentOpening::r_len` (src/range_witness.rs:24-41, src/commitment_opening.rs:29-37),
    `ExtendedMask::assign` (src/extended_mask.rs:21-30), `ExtensionDegree::try_from`, `PedersenGens::commit`
    (src/generators/pedersen_gens.rs:68-123), and `prove_with_rng`'s guards (src/range_proof.rs:246-284, 307-314). -/
namespace Model.Ctors

/-- `usize::is_power_of_two` (exactly one bit set) -/
def isPow2 (x : Nat) : Bool := x != 0 && 2 ^ Nat.log2 x == x

def paramsInit (bits cap : Nat) : Bool := isPow2 cap && isPow2 bits && decide (bits ≤ 64)

def statementInit (cap nCommit nPromise : Nat) (seed : Bool) : Bool :=
  isPow2 nCommit && nPromise == nCommit && decide (nCommit ≤ cap) && !(seed && decide (1 < nCommit))

/-- `ExtensionDegree::try_from(u8 / usize)` -/
def degreeOk (x : Nat) : Bool := decide (1 ≤ x) && decide (x ≤ 6)

/-- `RangeWitness::init` on the list of blinding-vector lengths of the openings -/
def witnessInit : List Nat → Bool
  | [] => false
  | r :: rs => r != 0 && rs.all (fun x => x != 0 && x == r) && degreeOk r

def maskAssign (deg len : Nat) : Bool := len != 0 && len == deg

/-- `PedersenGens::commit` with `nBlind` blinding factors under extension degree `deg` -/
def commitOk (deg nBlind : Nat) : Bool := nBlind != 0 && decide (nBlind ≤ deg)

/-! ### Prover guards (C06) -/

/-- the coded range guard: reject iff `bit_length < 64 && v >> bit_length > 0` -/
def valueFits (bits v : Nat) : Bool := !(decide (bits < 64) && decide (0 < v >>> bits))

structure Opening where
  v : Nat
  rlen : Nat          -- number of blinding factors
  reproduces : Bool   -- commit(v, r) equals the statement's commitment at this position
deriving Repr

/-- all guards of `prove_with_rng` before the first nonce is drawn; `tS`/`tW` = statement / witness degree -/
def proverGuards (bits tS tW : Nat) (nCommit : Nat) (ops : List Opening) (promises : List (Option Nat)) : Bool :=
  ops.length == nCommit && tW == tS &&
  ops.all (fun o => valueFits bits o.v) &&
  ops.all (fun o => commitOk tS o.rlen && o.reproduces) &&
  (List.zip promises ops).all (fun po => match po.1 with | none => true | some p => decide (p ≤ po.2.v))

end Model.Ctors
