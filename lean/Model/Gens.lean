/-! Import-free model of generator derivation and layout (C11, C12):
    `BulletproofGens::new` (src/generators/bulletproof_gens.rs:83-112), `GeneratorsChain` (generators_chain.rs:23-49),
    `AggregatedGensIter` (aggregated_gens_iter.rs), Pedersen masking base points (src/ristretto.rs:86-100).
    The hashes themselves (SHAKE256, SHA3-512, Elligator) are not modelled: the model produces their *inputs*. -/
namespace Model.Gens

abbrev Bytes := List UInt8

inductive Kind where
  | G | H
deriving DecidableEq, Repr

def Kind.byte : Kind → UInt8
  | .G => 71   -- b'G'
  | .H => 72   -- b'H'

/-- 4-byte little-endian encoding (`LittleEndian::write_u32`) -/
def le32 (x : Nat) : Bytes := [UInt8.ofNat (x % 256), UInt8.ofNat (x / 256 % 256), UInt8.ofNat (x / 65536 % 256), UInt8.ofNat (x / 16777216 % 256)]

/-- the bytes of `b"GeneratorsChain"` -/
def chainPrefix : Bytes := [71, 101, 110, 101, 114, 97, 116, 111, 114, 115, 67, 104, 97, 105, 110]

/-- input absorbed by SHAKE256 for the chain of party `party`; note: no capacity argument -/
def chainLabel (k : Kind) (party : Nat) : Bytes := chainPrefix ++ (k.byte :: le32 party)

/-- generator `idx` of a chain is derived from the 64 XOF output bytes at this offset -/
def chainOffset (idx : Nat) : Nat := 64 * idx

/-- the bytes of `"RISTRETTO_MASKING_BASEPOINT_"` -/
def pedersenPrefix : Bytes := [82, 73, 83, 84, 82, 69, 84, 84, 79, 95, 77, 65, 83, 75, 73, 78, 71, 95, 66, 65, 83, 69, 80, 79, 73, 78, 84, 95]

/-- label hashed with SHA3-512 for blinding generator `k` (0-based) -/
def decimal (n : Nat) : Bytes := (Nat.toDigits 10 n).map (fun c => UInt8.ofNat c.toNat)

def pedersenLabel (k : Nat) : Bytes := pedersenPrefix ++ decimal (k + 1)

/-- a vector generator is named by (kind, party, index) -/
structure Gen where
  kind : Kind
  party : Nat
  idx : Nat
deriving DecidableEq, Repr

/-- `AggregatedGensIter { n, m }`: the first `n` generators of each of the first `m` parties, party-major -/
def aggIter (k : Kind) (n m : Nat) : List Gen :=
  (List.range m).flatMap (fun party => (List.range n).map (fun idx => ⟨k, party, idx⟩))

/-- `AggregatedGensIter` as coded (src/generators/aggregated_gens_iter.rs): the state is `(party_idx, gen_idx)`;
    an item is named by its (party, index). `usize` overflow of the two counters is not modelled. -/
structure It where
  n : Nat
  m : Nat
  party : Nat
  gen : Nat
deriving Repr, DecidableEq

def It.start (n m : Nat) : It := ⟨n, m, 0, 0⟩

def It.next (s : It) : It × Option (Nat × Nat) :=
  let s1 : It := if s.gen ≥ s.n then { s with gen := 0, party := s.party + 1 } else s
  if s1.party ≥ s1.m then (s1, none) else ({ s1 with gen := s1.gen + 1 }, some (s1.party, s1.gen))

/-- `size_hint` (lower = upper bound) -/
def It.sizeHint (s : It) : Nat := s.n * (s.m - s.party) - s.gen

/-- `Iterator::nth` as the standard library derives it from `next`: `k` items are dropped (stopping at the first
    `None`), then one more call -/
def It.nth : Nat → It → It × Option (Nat × Nat)
  | 0, s => s.next
  | k + 1, s =>
    match s.next with
    | (s', none) => (s', none)
    | (s', some _) => It.nth k s'

/-- order of the precomputed table: `g_vec` flattened interleaved with `h_vec` flattened -/
def interleave {α : Type} : List α → List α → List α
  | x :: xs, y :: ys => x :: y :: interleave xs ys
  | [], ys => ys
  | xs, [] => xs

def tableOrder (bits cap : Nat) : List Gen := interleave (aggIter .G bits cap) (aggIter .H bits cap)

/-- static scalars handed to the precomputed MSM: interleaved per-generator scalars of the `n·m` used generators,
    then zero padding up to the table size `2·n·cap` (`compute_generator_padding`) -/
def padding (bits m cap : Nat) : Option Nat :=
  if 2 * bits * m ≤ 2 * bits * cap then some (2 * bits * cap - 2 * bits * m) else none

end Model.Gens
