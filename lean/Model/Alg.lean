/-! Import-free executable model fragment (core Lean only). -/
namespace Model
variable {F : Type} {M : Type}

section
variable [Add F] [Mul F] [Zero F] [One F]
def powF (y : F) : Nat → F
  | 0 => 1
  | n+1 => powF y n * y
def sumTo [Add α] [Zero α] (n : Nat) (f : Nat → α) : α := (List.range n).foldl (fun acc i => acc + f i) 0
end

section
variable [Add M] [Zero M] [SMul F M]
def dot (n : Nat) (a : Nat → F) (G : Nat → M) : M := sumTo n (fun i => a i • G i)
end

structure WipProof (F M : Type) where
  Ls : List M
  Rs : List M
  A1 : M
  B  : M
  r1 : F
  s1 : F
  d1 : Nat → F

section
variable [Add F] [Mul F] [Zero F] [One F] [Inv F] [Add M] [Zero M] [SMul F M]

/-- the prover's folding loop, as coded -/
def wipProve (y : F) (t : Nat) (g : M) (Gb : Nat → M) (dL dR : Nat → Nat → F) (r s : F) (d η : Nat → F) (e : F) :
    List F → Nat → (Nat → F) → (Nat → F) → (Nat → M) → (Nat → M) → (Nat → F) → WipProof F M
  | [], _, a, b, G, H, α =>
      { Ls := [], Rs := []
        A1 := r • G 0 + s • H 0 + (r * y * b 0 + s * y * a 0) • g + dot t d Gb
        B := (r * y * s) • g + dot t η Gb
        r1 := r + a 0 * e, s1 := s + b 0 * e
        d1 := fun k => η k + d k * e + α k * powF e 2 }
  | ej :: es, j, a, b, G, H, α =>
      let n := 2 ^ es.length
      let yn := powF y n
      let yni := yn⁻¹
      let ei := ej⁻¹
      let cL := sumTo n (fun i => a i * powF y (i+1) * b (n+i))
      let cR := sumTo n (fun i => a (n+i) * powF y (n+i+1) * b i)
      let L : M := cL • g + dot t (dL j) Gb + dot n (fun i => a i * yni) (fun i => G (n+i)) + dot n (fun i => b (n+i)) H
      let R : M := cR • g + dot t (dR j) Gb + dot n (fun i => a (n+i) * yn) G + dot n b (fun i => H (n+i))
      let π := wipProve y t g Gb dL dR r s d η e es (j+1)
                (fun i => a i * ej + a (n+i) * yn * ei) (fun i => b i * ei + b (n+i) * ej)
                (fun i => ei • G i + (ej * yni) • G (n+i)) (fun i => ej • H i + ei • H (n+i))
                (fun k => α k + dL j k * powF ej 2 + dR j k * powF ei 2)
      { π with Ls := L :: π.Ls, Rs := R :: π.Rs }
end
end Model
