/-! Import-free model of `RangeProof::to_bytes` / `from_bytes` (src/range_proof.rs:1117-1254). -/
namespace Model.Codec

abbrev Bytes := List UInt8

def ell : Nat := 2^252 + 27742317777372353535851937790883648493

/-- little-endian value of a byte string -/
def leVal : Bytes → Nat
  | [] => 0
  | b :: bs => b.toNat + 256 * leVal bs

/-- `n`-byte little-endian encoding -/
def leBytes : Nat → Nat → Bytes
  | 0, _ => []
  | n+1, x => UInt8.ofNat (x % 256) :: leBytes n (x / 256)

/-- split off one 32-byte element -/
def split32 (bs : Bytes) : Option (Bytes × Bytes) :=
  if bs.length < 32 then none else some (bs.take 32, bs.drop 32)

/-- a canonical scalar: 32 bytes, value below the group order -/
def parseScalar (bs : Bytes) : Option (Nat × Bytes) :=
  match split32 bs with
  | none => none
  | some (c, r) => if leVal c < ell then some (leVal c, r) else none

def parseScalars : Nat → Bytes → Option (List Nat × Bytes)
  | 0, bs => some ([], bs)
  | n+1, bs =>
    match parseScalar bs with
    | none => none
    | some (x, r) =>
      match parseScalars n r with
      | none => none
      | some (xs, r') => some (x :: xs, r')

/-- the interleaved L/R tail: must be consumed exactly, in pairs -/
def parsePairs : Nat → Bytes → Option (List Bytes × List Bytes)
  | _, [] => some ([], [])
  | 0, _ :: _ => none
  | fuel+1, bs =>
    match split32 bs with
    | none => none
    | some (l, r1) =>
      match split32 r1 with
      | none => none
      | some (r, rest) =>
        match parsePairs fuel rest with
        | none => none
        | some (ls, rs) => some (l :: ls, r :: rs)

structure Proof where
  tag : Nat
  d1 : List Nat
  a : Bytes
  a1 : Bytes
  b : Bytes
  r1 : Nat
  s1 : Nat
  li : List Bytes
  ri : List Bytes

def encodePairs : List Bytes → List Bytes → Bytes
  | l :: ls, r :: rs => l ++ r ++ encodePairs ls rs
  | _, _ => []

def encodeScalars : List Nat → Bytes
  | [] => []
  | x :: xs => leBytes 32 x ++ encodeScalars xs

def encode (p : Proof) : Bytes :=
  UInt8.ofNat p.tag :: (encodeScalars p.d1 ++ (p.a ++ (p.a1 ++ (p.b ++ (leBytes 32 p.r1 ++ (leBytes 32 p.s1 ++ encodePairs p.li p.ri))))))

def decode (bs : Bytes) : Option Proof :=
  match bs with
  | [] => none
  | t :: rest =>
    let d := t.toNat
    if d < 1 ∨ 6 < d then none else
    match parseScalars d rest with
    | none => none
    | some (d1, r0) =>
    match split32 r0 with
    | none => none
    | some (a, r1) =>
    match split32 r1 with
    | none => none
    | some (a1, r2) =>
    match split32 r2 with
    | none => none
    | some (b, r3) =>
    match parseScalar r3 with
    | none => none
    | some (x1, r4) =>
    match parseScalar r4 with
    | none => none
    | some (x2, r5) =>
    match parsePairs r5.length r5 with
    | none => none
    | some (li, ri) =>
      if li.isEmpty then none else
      some { tag := d, d1 := d1, a := a, a1 := a1, b := b, r1 := x1, s1 := x2, li := li, ri := ri }

/-- `RangeProof::extension_degree_from_proof_bytes`: the extension degree a byte string announces in its first byte -/
def degreeOf (bs : Bytes) : Option Nat :=
  match bs with
  | [] => none
  | t :: _ => if t.toNat < 1 ∨ 6 < t.toNat then none else some t.toNat

/-! ### Theorems (core Lean only) -/

theorem leBytes_leVal (bs : Bytes) : leBytes bs.length (leVal bs) = bs := by
  induction bs with
  | nil => rfl
  | cons b bs ih =>
    simp only [List.length_cons, leBytes, leVal]
    have hb : b.toNat < 256 := b.toNat_lt
    have h1 : (b.toNat + 256 * leVal bs) % 256 = b.toNat := by omega
    have h2 : (b.toNat + 256 * leVal bs) / 256 = leVal bs := by omega
    rw [h1, h2, ih]
    simp

theorem split32_eq {bs c r : Bytes} (h : split32 bs = some (c, r)) : bs = c ++ r ∧ c.length = 32 := by
  unfold split32 at h
  split at h
  · cases h
  · simp only [Option.some.injEq, Prod.mk.injEq] at h
    obtain ⟨rfl, rfl⟩ := h
    constructor
    · exact (List.take_append_drop 32 bs).symm
    · rw [List.length_take]; omega

theorem parseScalar_eq {bs r : Bytes} {x : Nat} (h : parseScalar bs = some (x, r)) :
    bs = leBytes 32 x ++ r ∧ x < ell := by
  unfold parseScalar at h
  split at h
  · cases h
  · rename_i c r' hs
    split at h
    · simp only [Option.some.injEq, Prod.mk.injEq] at h
      obtain ⟨rfl, rfl⟩ := h
      obtain ⟨hbs, hlen⟩ := split32_eq hs
      refine ⟨?_, by assumption⟩
      rw [hbs, ← hlen, leBytes_leVal]
    · cases h

theorem parseScalars_eq : ∀ (n : Nat) {bs r : Bytes} {xs : List Nat}, parseScalars n bs = some (xs, r) →
    bs = encodeScalars xs ++ r ∧ xs.length = n ∧ ∀ x ∈ xs, x < ell
  | 0, bs, r, xs, h => by
    simp only [parseScalars, Option.some.injEq, Prod.mk.injEq] at h
    obtain ⟨rfl, rfl⟩ := h
    simp [encodeScalars]
  | n+1, bs, r, xs, h => by
    simp only [parseScalars] at h
    split at h
    · cases h
    · rename_i x r1 h1
      split at h
      · cases h
      · rename_i xs' r' h2
        simp only [Option.some.injEq, Prod.mk.injEq] at h
        obtain ⟨rfl, rfl⟩ := h
        obtain ⟨hb1, hx⟩ := parseScalar_eq h1
        obtain ⟨hb2, hl, hall⟩ := parseScalars_eq n h2
        refine ⟨?_, by simp [hl], ?_⟩
        · rw [hb1, hb2]; simp [encodeScalars, List.append_assoc]
        · intro y hy
          simp only [List.mem_cons] at hy
          rcases hy with rfl | hy
          · exact hx
          · exact hall y hy

theorem parsePairs_eq : ∀ (fuel : Nat) {bs : Bytes} {ls rs : List Bytes}, parsePairs fuel bs = some (ls, rs) →
    bs = encodePairs ls rs ∧ ls.length = rs.length
  | _, [], ls, rs, h => by
    simp only [parsePairs, Option.some.injEq, Prod.mk.injEq] at h
    obtain ⟨rfl, rfl⟩ := h
    simp [encodePairs]
  | 0, _ :: _, ls, rs, h => by simp [parsePairs] at h
  | fuel+1, b :: bs, ls, rs, h => by
    simp only [parsePairs] at h
    split at h
    · cases h
    · rename_i l r1 h1
      split at h
      · cases h
      · rename_i r rest h2
        split at h
        · cases h
        · rename_i ls' rs' h3
          simp only [Option.some.injEq, Prod.mk.injEq] at h
          obtain ⟨rfl, rfl⟩ := h
          obtain ⟨hb1, _⟩ := split32_eq h1
          obtain ⟨hb2, _⟩ := split32_eq h2
          obtain ⟨hb3, hl⟩ := parsePairs_eq fuel h3
          refine ⟨?_, by simp [hl]⟩
          rw [hb1, hb2, hb3]; simp [encodePairs, List.append_assoc]

/-- **C15 (canonicity).** Whenever decoding succeeds, re-encoding returns the identical bytes. -/
theorem encode_decode {bs : Bytes} {p : Proof} (h : decode bs = some p) : encode p = bs := by
  unfold decode at h
  split at h
  · cases h
  · rename_i t rest
    simp only at h
    split at h
    · cases h
    · rename_i hd
      split at h
      · cases h
      · rename_i d1 r0 h0
        split at h
        · cases h
        · rename_i a r1 h1
          split at h
          · cases h
          · rename_i a1 r2 h2
            split at h
            · cases h
            · rename_i b r3 h3
              split at h
              · cases h
              · rename_i x1 r4 h4
                split at h
                · cases h
                · rename_i x2 r5 h5
                  split at h
                  · cases h
                  · rename_i li ri h6
                    split at h
                    · cases h
                    · simp only [Option.some.injEq] at h
                      subst h
                      obtain ⟨e0, _, _⟩ := parseScalars_eq _ h0
                      obtain ⟨e1, _⟩ := split32_eq h1
                      obtain ⟨e2, _⟩ := split32_eq h2
                      obtain ⟨e3, _⟩ := split32_eq h3
                      obtain ⟨e4, _⟩ := parseScalar_eq h4
                      obtain ⟨e5, _⟩ := parseScalar_eq h5
                      obtain ⟨e6, _⟩ := parsePairs_eq _ h6
                      simp only [encode]
                      rw [e0, e1, e2, e3, e4, e5, e6]
                      simp

/-- **C15 (shape).** A decoded proof has a tag in 1..6, that many canonical `d1` scalars, canonical `r1`, `s1`,
    32-byte points and the same positive number of L and R elements. -/
theorem decode_shape {bs : Bytes} {p : Proof} (h : decode bs = some p) :
    1 ≤ p.tag ∧ p.tag ≤ 6 ∧ p.d1.length = p.tag ∧ (∀ x ∈ p.d1, x < ell) ∧ p.r1 < ell ∧ p.s1 < ell ∧
    p.a.length = 32 ∧ p.a1.length = 32 ∧ p.b.length = 32 ∧ p.li.length = p.ri.length ∧ 1 ≤ p.li.length := by
  unfold decode at h
  split at h
  · cases h
  · rename_i t rest
    simp only at h
    split at h
    · cases h
    · rename_i hd
      split at h
      · cases h
      · rename_i d1 r0 h0
        split at h
        · cases h
        · rename_i a r1 h1
          split at h
          · cases h
          · rename_i a1 r2 h2
            split at h
            · cases h
            · rename_i b r3 h3
              split at h
              · cases h
              · rename_i x1 r4 h4
                split at h
                · cases h
                · rename_i x2 r5 h5
                  split at h
                  · cases h
                  · rename_i li ri h6
                    split at h
                    · cases h
                    · rename_i hne
                      simp only [Option.some.injEq] at h
                      subst h
                      obtain ⟨_, hl0, hall⟩ := parseScalars_eq _ h0
                      obtain ⟨_, l1⟩ := split32_eq h1
                      obtain ⟨_, l2⟩ := split32_eq h2
                      obtain ⟨_, l3⟩ := split32_eq h3
                      obtain ⟨_, hx1⟩ := parseScalar_eq h4
                      obtain ⟨_, hx2⟩ := parseScalar_eq h5
                      obtain ⟨_, hlr⟩ := parsePairs_eq _ h6
                      have hpos : 1 ≤ li.length := by
                        cases li with
                        | nil => simp at hne
                        | cons _ _ => simp
                      refine ⟨?_, ?_, hl0, hall, hx1, hx2, l1, l2, l3, hlr, hpos⟩
                      · show 1 ≤ t.toNat
                        omega
                      · show t.toNat ≤ 6
                        omega

/-! ### Round trip and length -/

theorem leBytes_length (n x : Nat) : (leBytes n x).length = n := by
  induction n generalizing x with
  | zero => rfl
  | succ n ih => simp [leBytes, ih]

theorem leVal_leBytes (n x : Nat) (h : x < 256 ^ n) : leVal (leBytes n x) = x := by
  induction n generalizing x with
  | zero => simp at h; subst h; rfl
  | succ n ih =>
    simp only [leBytes, leVal]
    have h1 : x / 256 < 256 ^ n := by
      rw [Nat.pow_succ] at h
      exact Nat.div_lt_of_lt_mul (by omega)
    rw [ih _ h1]
    have : (UInt8.ofNat (x % 256)).toNat = x % 256 := by
      simp [UInt8.toNat_ofNat, Nat.mod_eq_of_lt (Nat.mod_lt x (by decide : 0 < 256))]
    rw [this]; omega

theorem ell_lt : ell < 256 ^ 32 := by decide

theorem split32_append (c r : Bytes) (h : c.length = 32) : split32 (c ++ r) = some (c, r) := by
  unfold split32
  have : ¬ (c ++ r).length < 32 := by simp [h]
  simp only [this, if_false, Option.some.injEq, Prod.mk.injEq]
  constructor
  · rw [List.take_append_of_le_length (by omega)]; rw [List.take_of_length_le (by omega)]
  · rw [List.drop_append_of_le_length (by omega)]; rw [List.drop_of_length_le (by omega)]; rfl

theorem parseScalar_append (x : Nat) (r : Bytes) (h : x < ell) :
    parseScalar (leBytes 32 x ++ r) = some (x, r) := by
  unfold parseScalar
  rw [split32_append _ _ (leBytes_length 32 x)]
  have hx : x < 256 ^ 32 := Nat.lt_trans h ell_lt
  simp only [leVal_leBytes 32 x hx, h, if_true]

theorem parseScalars_append (xs : List Nat) (r : Bytes) (h : ∀ x ∈ xs, x < ell) :
    parseScalars xs.length (encodeScalars xs ++ r) = some (xs, r) := by
  induction xs with
  | nil => simp [parseScalars, encodeScalars]
  | cons x xs ih =>
    simp only [List.length_cons, parseScalars, encodeScalars, List.append_assoc]
    rw [parseScalar_append x _ (h x (by simp))]
    simp only
    rw [ih (fun y hy => h y (by simp [hy]))]

theorem parsePairs_succ (fuel : Nat) (bs : Bytes) (hne : bs ≠ []) :
    parsePairs (fuel+1) bs =
      match split32 bs with
      | none => none
      | some (l, r1) =>
        match split32 r1 with
        | none => none
        | some (r, rest) =>
          match parsePairs fuel rest with
          | none => none
          | some (ls, rs) => some (l :: ls, r :: rs) := by
  cases bs with
  | nil => exact absurd rfl hne
  | cons b bs => simp only [parsePairs]

theorem parsePairs_encode (ls rs : List Bytes) (hlen : ls.length = rs.length)
    (hl : ∀ l ∈ ls, l.length = 32) (hr : ∀ r ∈ rs, r.length = 32) (fuel : Nat) (hf : ls.length ≤ fuel) :
    parsePairs fuel (encodePairs ls rs) = some (ls, rs) := by
  induction ls generalizing rs fuel with
  | nil =>
    cases rs with
    | nil => simp [encodePairs, parsePairs]
    | cons _ _ => simp at hlen
  | cons l ls ih =>
    cases rs with
    | nil => simp at hlen
    | cons r rs =>
      have hl32 : l.length = 32 := hl l (by simp)
      have hr32 : r.length = 32 := hr r (by simp)
      cases fuel with
      | zero => simp at hf
      | succ fuel =>
        simp only [encodePairs, List.append_assoc]
        have hne : l ++ (r ++ encodePairs ls rs) ≠ [] := by
          intro h0
          have : (l ++ (r ++ encodePairs ls rs)).length = 0 := by rw [h0]; rfl
          simp [hl32] at this
        rw [parsePairs_succ fuel _ hne, split32_append l _ hl32]
        simp only
        rw [split32_append r _ hr32]
        simp only
        rw [ih rs (by simpa using hlen) (fun x hx => hl x (by simp [hx])) (fun x hx => hr x (by simp [hx])) fuel
          (by simpa using hf)]

/-- well-formed proofs: what the encoder is meant to be applied to -/
structure Proof.wf (p : Proof) : Prop where
  tag_lo : 1 ≤ p.tag
  tag_hi : p.tag ≤ 6
  d1_len : p.d1.length = p.tag
  d1_can : ∀ x ∈ p.d1, x < ell
  r1_can : p.r1 < ell
  s1_can : p.s1 < ell
  a_len : p.a.length = 32
  a1_len : p.a1.length = 32
  b_len : p.b.length = 32
  lr_len : p.li.length = p.ri.length
  rounds : 1 ≤ p.li.length
  li_len : ∀ l ∈ p.li, l.length = 32
  ri_len : ∀ r ∈ p.ri, r.length = 32

theorem encodePairs_length (ls rs : List Bytes) (hlen : ls.length = rs.length)
    (hl : ∀ l ∈ ls, l.length = 32) (hr : ∀ r ∈ rs, r.length = 32) :
    (encodePairs ls rs).length = 64 * ls.length := by
  induction ls generalizing rs with
  | nil => cases rs <;> simp [encodePairs]
  | cons l ls ih =>
    cases rs with
    | nil => simp at hlen
    | cons r rs =>
      simp only [encodePairs, List.length_append, List.length_cons]
      rw [ih rs (by simpa using hlen) (fun x hx => hl x (by simp [hx])) (fun x hx => hr x (by simp [hx])),
        hl l (by simp), hr r (by simp)]
      omega

theorem encodeScalars_length (xs : List Nat) : (encodeScalars xs).length = 32 * xs.length := by
  induction xs with
  | nil => rfl
  | cons x xs ih => simp only [encodeScalars, List.length_append, leBytes_length, ih, List.length_cons]; omega

/-- **C15 (round trip).** Encoding then decoding a well-formed proof returns it. -/
theorem decode_encode (p : Proof) (h : p.wf) : decode (encode p) = some p := by
  have htag : (UInt8.ofNat p.tag).toNat = p.tag := by
    have := h.tag_hi
    simp [UInt8.toNat_ofNat, Nat.mod_eq_of_lt (show p.tag < 256 by omega)]
  unfold encode decode
  simp only [htag]
  have hd : ¬ (p.tag < 1 ∨ 6 < p.tag) := by have := h.tag_lo; have := h.tag_hi; omega
  simp only [hd, if_false]
  rw [← h.d1_len, parseScalars_append _ _ h.d1_can]
  simp only
  rw [split32_append _ _ h.a_len]
  simp only
  rw [split32_append _ _ h.a1_len]
  simp only
  rw [split32_append _ _ h.b_len]
  simp only
  rw [parseScalar_append _ _ h.r1_can]
  simp only
  rw [parseScalar_append _ _ h.s1_can]
  simp only
  rw [parsePairs_encode _ _ h.lr_len h.li_len h.ri_len _
    (by rw [encodePairs_length _ _ h.lr_len h.li_len h.ri_len]; omega)]
  simp only
  have hne : p.li.isEmpty = false := by
    cases hli : p.li with
    | nil => have := h.rounds; rw [hli] at this; simp at this
    | cons _ _ => rfl
  simp only [hne, Bool.false_eq_true, if_false, h.d1_len]

/-- **C15 (length).** The encoding of a well-formed proof with extension degree `d` and `k` rounds has
    `1 + 32·(5 + d + 2k)` bytes. -/
theorem encode_length (p : Proof) (h : p.wf) : (encode p).length = 1 + 32 * (5 + p.tag + 2 * p.li.length) := by
  unfold encode
  simp only [List.length_cons, List.length_append, encodeScalars_length, leBytes_length,
    encodePairs_length _ _ h.lr_len h.li_len h.ri_len, h.a_len, h.a1_len, h.b_len, h.d1_len]
  omega

/-- whatever `decode` accepts announces, in its first byte, the degree of the decoded proof -/
theorem degreeOf_decode {bs : Bytes} {p : Proof} (h : decode bs = some p) : degreeOf bs = some p.tag := by
  have hs := decode_shape h
  have he := encode_decode h
  rw [← he]
  simp only [encode, degreeOf]
  have h1 : (UInt8.ofNat p.tag).toNat = p.tag := by
    have : p.tag < 256 := by omega
    simp [UInt8.toNat_ofNat, Nat.mod_eq_of_lt this]
  rw [h1, if_neg (by omega)]

end Model.Codec
