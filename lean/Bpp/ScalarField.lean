import Bpp.Pratt
import Model.Field
import Mathlib.FieldTheory.Finite.Basic
/-! The driver's scalar carrier `Model.Fl` (natural numbers modulo ℓ) is the prime field `ZMod ℓ`: ℓ is prime, and
    on canonical representatives every operation of `Fl` — including the inverse by Fermat exponentiation — is the
    operation of the field. So the executable model computes in a field to which every theorem of `Bpp/*` applies. -/
namespace Bpp
open Model

theorem ell_eq : Model.ell = 7237005577332262213973186563042994240857116359379907606001950938285454250989 := by
  decide +kernel

theorem ell_prime : Nat.Prime Model.ell := by
  rw [ell_eq]; exact Pratt.prime_7237005577332262213973186563042994240857116359379907606001950938285454250989

instance ell_fact : Fact (Nat.Prime Model.ell) := ⟨ell_prime⟩

theorem ell_pos : 0 < Model.ell := ell_prime.pos

/-- the field element a carrier value stands for -/
def toZ (a : Fl) : ZMod Model.ell := (a.v : ZMod Model.ell)
/-- canonical representative -/
def Canon (a : Fl) : Prop := a.v < Model.ell

theorem toZ_inj {a b : Fl} (ha : Canon a) (hb : Canon b) (h : toZ a = toZ b) : a = b := by
  unfold toZ at h
  rw [ZMod.natCast_eq_natCast_iff', Nat.mod_eq_of_lt ha, Nat.mod_eq_of_lt hb] at h
  cases a; cases b; simp_all

theorem canon_mod (n : ℕ) : Canon ⟨n % Model.ell⟩ := Nat.mod_lt _ ell_pos

theorem toZ_add (a b : Fl) : toZ (a + b) = toZ a + toZ b := by
  show ((((a.v + b.v) % Model.ell : ℕ)) : ZMod Model.ell) = _
  rw [ZMod.natCast_mod]; simp [toZ]
theorem canon_add (a b : Fl) : Canon (a + b) := canon_mod _

theorem toZ_mul (a b : Fl) : toZ (a * b) = toZ a * toZ b := by
  show ((((a.v * b.v) % Model.ell : ℕ)) : ZMod Model.ell) = _
  rw [ZMod.natCast_mod]; simp [toZ]
theorem canon_mul (a b : Fl) : Canon (a * b) := canon_mod _

theorem toZ_sub (a b : Fl) (hb : Canon b) : toZ (a - b) = toZ a - toZ b := by
  show ((((a.v + Model.ell - b.v) % Model.ell : ℕ)) : ZMod Model.ell) = _
  rw [ZMod.natCast_mod, Nat.cast_sub (by unfold Canon at hb; omega)]; simp [toZ]
theorem canon_sub (a b : Fl) : Canon (a - b) := canon_mod _

theorem toZ_neg (a : Fl) (ha : Canon a) : toZ (-a) = -toZ a := by
  show ((((Model.ell - a.v) % Model.ell : ℕ)) : ZMod Model.ell) = _
  rw [ZMod.natCast_mod, Nat.cast_sub (le_of_lt ha)]; simp [toZ]
theorem canon_neg (a : Fl) : Canon (-a) := canon_mod _

theorem toZ_zero : toZ (0 : Fl) = 0 := by show ((0 : ℕ) : ZMod Model.ell) = 0; simp
theorem toZ_one : toZ (1 : Fl) = 1 := by show ((1 : ℕ) : ZMod Model.ell) = 1; simp
theorem canon_zero : Canon (0 : Fl) := ell_pos
theorem canon_one : Canon (1 : Fl) := ell_prime.one_lt

theorem toZ_natCast (n : ℕ) : toZ (n : Fl) = (n : ZMod Model.ell) := by
  show (((n % Model.ell : ℕ)) : ZMod Model.ell) = _
  rw [ZMod.natCast_mod]
theorem canon_natCast (n : ℕ) : Canon (n : Fl) := canon_mod _

theorem powAux_eq (fuel : ℕ) : ∀ r b e, Fl.powAux fuel r b e = Pratt.powModAux fuel r b e Model.ell := by
  induction fuel with
  | zero => intro r b e; rfl
  | succ fuel ih => intro r b e; simp only [Fl.powAux, Pratt.powModAux, ih]

theorem powNat_spec (b e : ℕ) (he : e < 2 ^ 256) : Fl.powNat b e % Model.ell = b ^ e % Model.ell := by
  unfold Fl.powNat
  rw [powAux_eq, Pratt.powModAux_spec 256 1 (b % Model.ell) e Model.ell he, one_mul, ← Nat.pow_mod]

theorem powAux_lt (fuel : ℕ) : ∀ r b e, r < Model.ell → Fl.powAux fuel r b e < Model.ell := by
  induction fuel with
  | zero => intro r b e h; exact h
  | succ fuel ih =>
    intro r b e h
    simp only [Fl.powAux]
    split
    · exact h
    · apply ih; split
      · exact Nat.mod_lt _ ell_pos
      · exact h

attribute [local irreducible] Model.Fl.powNat in
theorem inv_v (a : Fl) : (a⁻¹).v = Fl.powNat a.v (Model.ell - 2) := rfl

theorem canon_inv (a : Fl) : Canon (a⁻¹) := by
  unfold Canon; rw [inv_v]; unfold Fl.powNat
  exact powAux_lt 256 1 _ _ ell_prime.one_lt

/-- the driver's inverse (Fermat exponentiation by square-and-multiply) is the inverse of the field, `0⁻¹ = 0` included -/
theorem toZ_inv (a : Fl) : toZ (a⁻¹) = (toZ a)⁻¹ := by
  have he : Model.ell - 2 < 2 ^ 256 := by rw [ell_eq]; decide +kernel
  have h2 : 2 ≤ Model.ell := ell_prime.two_le
  have hpow : toZ (a⁻¹) = (toZ a) ^ (Model.ell - 2) := by
    unfold toZ; rw [inv_v, ← ZMod.natCast_mod, powNat_spec _ _ he, ZMod.natCast_mod, Nat.cast_pow]
  rw [hpow]
  by_cases h0 : toZ a = 0
  · rw [h0, inv_zero, zero_pow]
    have : 2 < Model.ell := by rw [ell_eq]; decide +kernel
    omega
  · have h1 : (toZ a) ^ (Model.ell - 1) = 1 := ZMod.pow_card_sub_one_eq_one h0
    have : (toZ a) ^ (Model.ell - 2) * toZ a = 1 := by
      rw [← pow_succ]; convert h1 using 2; omega
    exact eq_inv_of_mul_eq_one_left this

end Bpp
