import Bpp.RangeSound
import Mathlib.LinearAlgebra.Dual.Lemmas
/-! Extraction of the openings of the commitments (completing the knowledge soundness of `Bpp/RangeSound.lean`):
    the value-generator equation is an identity in `F[X]` (X for the challenge z) for every challenge y, its
    y-coefficients — elements of `F[X]` — vanish by root counting over the integral domain `F[X]`, and the
    coefficients at degrees `2N+3+i` and `N+2+i` force the components of every `V_j` over the vector generators to be zero. -/
open Finset Polynomial

namespace Bpp
open Model (RangeInst)
variable {F : Type} [Field F] {M : Type} [AddCommGroup M] [Module F M]

/-- `poly_vanish` over an integral domain -/
theorem poly_vanish_domain {R : Type} [CommRing R] [IsDomain R] (c : ℕ → R) (d : ℕ) (S : Finset R) (hS : d < S.card)
    (h : ∀ x ∈ S, ∑ k ∈ range (d+1), c k * x ^ k = 0) : ∀ k ≤ d, c k = 0 := by
  classical
  let p : R[X] := ∑ k ∈ range (d+1), C (c k) * X ^ k
  have hdeg : p.degree < S.card := by
    refine lt_of_le_of_lt (degree_sum_le _ _) ?_
    refine (Finset.sup_lt_iff ?_).2 ?_
    · exact WithBot.bot_lt_coe _
    · intro k hk
      refine lt_of_le_of_lt (degree_C_mul_X_pow_le _ _) ?_
      have : k < S.card := by have := Finset.mem_range.mp hk; omega
      exact_mod_cast this
  have hp : p = 0 := eq_zero_of_degree_lt_of_eval_finset_eq_zero S hdeg (by
    intro x hx
    have := h x hx
    simpa [p, eval_finsetSum] using this)
  intro k hk
  have : p.coeff k = c k := by
    simp only [p, finsetSum_coeff, coeff_C_mul, coeff_X_pow]
    rw [Finset.sum_eq_single k]
    · simp
    · intro b _ hb; simp [Ne.symm hb]
    · intro hk'; exact absurd (Finset.mem_range.mpr (by omega)) hk'
  rw [← this, hp]; simp

/-- a module-valued polynomial expression that lies in a submodule at more points than its degree has all its
    coefficients in the submodule -/
theorem module_poly_mem (K : Submodule F M) (X : ℕ → M) (d : ℕ) (S : Finset F) (hS : d < S.card)
    (h : ∀ z ∈ S, ∑ k ∈ range (d+1), z ^ k • X k ∈ K) : ∀ k ≤ d, X k ∈ K := by
  intro k hk
  rw [← Submodule.Quotient.mk_eq_zero]
  rw [← Module.forall_dual_apply_eq_zero_iff F]
  intro φ
  let ψ : M →ₗ[F] F := φ.comp K.mkQ
  have hψ : ∀ x ∈ K, ψ x = 0 := by
    intro x hx
    have : K.mkQ x = 0 := by simpa using hx
    simp [ψ, this]
  have hv := poly_vanish (fun k => ψ (X k)) d S hS (by
    intro z hz
    have h2 := hψ _ (h z hz)
    rw [map_sum] at h2
    rw [← h2]
    apply Finset.sum_congr rfl; intro k _
    rw [map_smul, smul_eq_mul]; ring)
  exact hv k hk

theorem sum_split6 {R : Type} [AddCommMonoid R] (N : ℕ) (f : ℕ → R) :
    ∑ k ∈ range (3*N+2+1), f k
      = f 0 + (∑ i ∈ range N, f (i+1)) + f (N+1) + (∑ i ∈ range N, f (N+2+i)) + f (2*N+2)
        + ∑ i ∈ range N, f (2*N+3+i) := by
  have h : 3*N+2+1 = ((((1 + N) + 1) + N) + 1) + N := by ring
  rw [h, Finset.sum_range_add, Finset.sum_range_add, Finset.sum_range_add, Finset.sum_range_add,
    Finset.sum_range_add]
  simp only [Finset.sum_range_one, add_zero]
  have e1 : ∀ i, 1 + i = i + 1 := fun i => by ring
  have e2 : 1 + N + 0 = N + 1 := by ring
  have e3 : ∀ i, 1 + N + 1 + i = N + 2 + i := fun i => by ring
  have e4 : 1 + N + 1 + N + 0 = 2*N+2 := by ring
  have e5 : ∀ i, 1 + N + 1 + N + 1 + i = 2*N+3+i := fun i => by ring
  have e3' : ∀ x, N + 1 + 1 + x = N + 2 + x := fun x => by ring
  have e4' : N + 1 + 1 + N = 2*N+2 := by ring
  have e5' : ∀ x, N + 1 + 1 + N + 1 + x = 2*N+3+x := fun x => by ring
  simp only [e1, e3', e4', e5']

/-- the six families of `y`-coefficients of the value-generator equation when the commitments are allowed
    components `PA`, `PB` over the vector generators -/
def q6 {R : Type} [CommRing R] (N : ℕ) (X c0 VC : R) (xA xB PA PB D : ℕ → R) (k : ℕ) : R :=
  if k = 0 then -c0
  else if k ≤ N then xA (k-1) * xB (k-1) - (X - X^2)
  else if k = N+1 then (∑ i ∈ range N, xA i * D i) + X * (∑ i ∈ range N, D i) - VC
  else if k ≤ 2*N+1 then xA (k-N-2) * PB (k-N-2) + PA (k-N-2) * xB (k-N-2)
  else if k = 2*N+2 then ∑ i ∈ range N, PA i * D i
  else PA (k-2*N-3) * PB (k-2*N-3)

theorem expand6 {R : Type} [CommRing R] (N : ℕ) (Yv X c0 VC : R) (xA xB PA PB D : ℕ → R) :
    (∑ i ∈ range N, Yv^(i+1) * ((xA i + Yv^(N+1) * PA i) * (xB i + Yv^(N-i) * D i + Yv^(N+1) * PB i)))
      - (c0 + (X - X^2) * (∑ i ∈ range N, Yv^(i+1)) - X * Yv^(N+1) * (∑ i ∈ range N, D i) + Yv^(N+1) * VC)
    = ∑ k ∈ range (3*N+2+1), q6 N X c0 VC xA xB PA PB D k * Yv^k := by
  rw [sum_split6]
  have q0 : q6 N X c0 VC xA xB PA PB D 0 = -c0 := by simp [q6]
  have q1 : ∀ i ∈ range N, q6 N X c0 VC xA xB PA PB D (i+1) * Yv^(i+1)
      = (xA i * xB i - (X - X^2)) * Yv^(i+1) := by
    intro i hi
    have hi' := Finset.mem_range.mp hi
    simp only [q6, if_neg (Nat.succ_ne_zero i), if_pos (show i + 1 ≤ N by omega), Nat.add_sub_cancel]
  have q2 : q6 N X c0 VC xA xB PA PB D (N+1)
      = (∑ i ∈ range N, xA i * D i) + X * (∑ i ∈ range N, D i) - VC := by
    simp only [q6, if_neg (Nat.succ_ne_zero N), if_neg (show ¬ (N + 1 ≤ N) by omega), if_true]
  have q3 : ∀ i ∈ range N, q6 N X c0 VC xA xB PA PB D (N+2+i) * Yv^(N+2+i)
      = (xA i * PB i + PA i * xB i) * Yv^(N+2+i) := by
    intro i hi
    have hi' := Finset.mem_range.mp hi
    have e : N + 2 + i - N - 2 = i := by omega
    simp only [q6, if_neg (show ¬ (N+2+i = 0) by omega), if_neg (show ¬ (N + 2 + i ≤ N) by omega),
      if_neg (show ¬ (N+2+i = N+1) by omega), if_pos (show N+2+i ≤ 2*N+1 by omega), e]
  have q4 : q6 N X c0 VC xA xB PA PB D (2*N+2) = ∑ i ∈ range N, PA i * D i := by
    simp only [q6, if_neg (show ¬ (2*N+2 = 0) by omega), if_neg (show ¬ (2*N+2 ≤ N) by omega),
      if_neg (show ¬ (2*N+2 = N+1) by omega), if_neg (show ¬ (2*N+2 ≤ 2*N+1) by omega), if_true]
  have q5 : ∀ i ∈ range N, q6 N X c0 VC xA xB PA PB D (2*N+3+i) * Yv^(2*N+3+i)
      = (PA i * PB i) * Yv^(2*N+3+i) := by
    intro i _
    have e : 2*N+3+i - 2*N - 3 = i := by omega
    simp only [q6, if_neg (show ¬ (2*N+3+i = 0) by omega), if_neg (show ¬ (2*N+3+i ≤ N) by omega),
      if_neg (show ¬ (2*N+3+i = N+1) by omega), if_neg (show ¬ (2*N+3+i ≤ 2*N+1) by omega),
      if_neg (show ¬ (2*N+3+i = 2*N+2) by omega), e]
  rw [q0, Finset.sum_congr rfl q1, q2, Finset.sum_congr rfl q3, q4, Finset.sum_congr rfl q5]
  have hterm : ∀ i ∈ range N,
      Yv^(i+1) * ((xA i + Yv^(N+1) * PA i) * (xB i + Yv^(N-i) * D i + Yv^(N+1) * PB i))
        = (xA i * xB i) * Yv^(i+1) + Yv^(N+1) * (xA i * D i) + (xA i * PB i + PA i * xB i) * Yv^(N+2+i)
          + Yv^(2*N+2) * (PA i * D i) + (PA i * PB i) * Yv^(2*N+3+i) := by
    intro i hi
    have hi' := Finset.mem_range.mp hi
    have hp : Yv^(i+1) * Yv^(N-i) = Yv^(N+1) := by rw [← pow_add]; congr 1; omega
    have e1 : Yv^(N+2+i) = Yv^(i+1) * Yv^(N+1) := by rw [← pow_add]; congr 1; omega
    have e2 : Yv^(2*N+2) = Yv^(N+1) * Yv^(N+1) := by rw [← pow_add]; congr 1; omega
    have e3 : Yv^(2*N+3+i) = Yv^(i+1) * Yv^(N+1) * Yv^(N+1) := by rw [← pow_add, ← pow_add]; congr 1; omega
    rw [e1, e2, e3]
    linear_combination (xA i * D i + Yv^(N+1) * PA i * D i) * hp
  rw [Finset.sum_congr rfl hterm]
  simp only [Finset.sum_add_distrib]
  have s1 : (∑ i ∈ range N, (xA i * xB i) * Yv^(i+1)) - (X - X^2) * (∑ i ∈ range N, Yv^(i+1))
      = ∑ i ∈ range N, (xA i * xB i - (X - X^2)) * Yv^(i+1) := by
    rw [Finset.mul_sum, ← Finset.sum_sub_distrib]
    apply Finset.sum_congr rfl; intro i _; ring
  have s2 : (∑ i ∈ range N, Yv^(N+1) * (xA i * D i)) = Yv^(N+1) * ∑ i ∈ range N, xA i * D i :=
    (Finset.mul_sum _ _ _).symm
  have s4 : (∑ i ∈ range N, Yv^(2*N+2) * (PA i * D i)) = Yv^(2*N+2) * ∑ i ∈ range N, PA i * D i :=
    (Finset.mul_sum _ _ _).symm
  rw [s2, s4]
  linear_combination s1


theorem dot_sum_mul (N m : ℕ) (c : F) (w : ℕ → F) (v : ℕ → ℕ → F) (G : ℕ → M) :
    dot N (fun i => c * ∑ j ∈ range m, v j i * w j) G = ∑ j ∈ range m, (c * w j) • dot N (v j) G := by
  simp only [dot, Finset.mul_sum, Finset.sum_smul, Finset.smul_sum, smul_smul]
  rw [Finset.sum_comm]
  apply Finset.sum_congr rfl; intro j _
  apply Finset.sum_congr rfl; intro i _
  congr 1; ring

theorem even_tail_sum_smul (X0 : M) (T : ℕ → M) (z : F) (m : ℕ) :
    ∑ k ∈ range (2*m+1+1), z^k • (if k = 0 then X0 else if k = 1 then 0 else if k % 2 = 0 then T (k/2 - 1) else 0)
      = X0 + ∑ j ∈ range m, z^(2*(j+1)) • T j := by
  induction m with
  | zero => simp [Finset.sum_range_succ]
  | succ m ih =>
    have : 2 * (m+1) + 1 + 1 = (2*m+1+1) + 1 + 1 := by ring
    rw [this, Finset.sum_range_succ, Finset.sum_range_succ, ih, Finset.sum_range_succ]
    have h1 : ¬ (2*m+1+1 = 0) := by omega
    have h2 : ¬ (2*m+1+1 = 1) := by omega
    have h3 : (2*m+1+1) % 2 = 0 := by omega
    have h4 : (2*m+1+1)/2 - 1 = m := by omega
    have h5 : ¬ (2*m+1+1+1 = 0) := by omega
    have h6 : ¬ (2*m+1+1+1 = 1) := by omega
    have h7 : ¬ ((2*m+1+1+1) % 2 = 0) := by omega
    rw [if_neg h1, if_neg h2, if_pos h3, h4, if_neg h5, if_neg h6, if_neg h7]
    have h8 : 2*m+1+1 = 2*(m+1) := by ring
    rw [h8, smul_zero, add_zero, add_assoc]

/-- **Extraction of the openings, part 1: everything lies in the span of the generators and the coefficients of
    `Â` are as expected.** -/
theorem tree_reps (I : RangeInst F M) (A : M) (y0 : F) (hy0 : y0 ≠ 0) (S : Finset F) (hS : 2 * I.m + 2 ≤ S.card)
    (hW : ∀ z ∈ S, ∃ a b α : ℕ → F, Ahat I y0 z A = Pcom y0 (I.n * I.m) I.t a b I.G I.H I.hb α I.Gb) :
    A ∈ repSpan (F := F) (I.n * I.m) I.t I.G I.H I.hb I.Gb ∧
    ∀ j < I.m, I.V j ∈ repSpan (F := F) (I.n * I.m) I.t I.G I.H I.hb I.Gb := by
  classical
  set N := I.n * I.m with hN
  set K := repSpan (F := F) N I.t I.G I.H I.hb I.Gb with hK
  have hT : ∀ z ∈ S, A + ∑ j ∈ range I.m, z^(2*(j+1)) • (y0^(N+1) • I.V j) ∈ K := by
    intro z hz
    obtain ⟨a, b, α, h⟩ := hW z hz
    have hmem : Ahat I y0 z A ∈ K := by rw [h, Pcom_eq_ev]; exact ⟨_, rfl⟩
    have e : A + ∑ j ∈ range I.m, z^(2*(j+1)) • (y0^(N+1) • I.V j)
        = Ahat I y0 z A - (dot N (fun _ => -z) I.G + dot N (fun i => dvec z I.n i * y0^(N - i) + z) I.H
            + (((z - z^2) * (∑ i ∈ range N, y0^(i+1)) - z * y0^(N+1) * (∑ i ∈ range N, dvec z I.n i))
                - ∑ j ∈ range I.m, y0^(N+1) * z^(2*(j+1)) * I.p j) • I.hb) := by
      simp only [Ahat, ← hN]
      have : (∑ j ∈ range I.m, (y0^(N+1) * z^(2*(j+1))) • (I.V j - I.p j • I.hb))
          = (∑ j ∈ range I.m, z^(2*(j+1)) • (y0^(N+1) • I.V j))
            - (∑ j ∈ range I.m, y0^(N+1) * z^(2*(j+1)) * I.p j) • I.hb := by
        rw [Finset.sum_smul, ← Finset.sum_sub_distrib]
        apply Finset.sum_congr rfl; intro j _
        simp only [smul_sub, smul_smul]
        congr 1
        rw [mul_comm]
      rw [this]
      module
    rw [e]
    exact K.sub_mem hmem (K.add_mem (K.add_mem (dotG_mem ..) (dotH_mem ..)) (K.smul_mem _ (g_mem ..)))
  have hX := module_poly_mem K
    (fun k => if k = 0 then A else if k = 1 then 0 else if k % 2 = 0 then (fun j => y0^(N+1) • I.V j) (k/2 - 1) else 0)
    (2 * I.m + 1) S (by omega) (by
      intro z hz
      have := even_tail_sum_smul A (fun j => y0^(N+1) • I.V j) z I.m
      rw [this]
      exact hT z hz)
  refine ⟨by simpa using hX 0 (by omega), fun j hj => ?_⟩
  have := hX (2*(j+1)) (by omega)
  have h1 : ¬ (2*(j+1) = 0) := by omega
  have h2 : ¬ (2*(j+1) = 1) := by omega
  have h3 : (2*(j+1)) % 2 = 0 := by omega
  have h4 : (2*(j+1))/2 - 1 = j := by omega
  simp only [if_neg h1, if_neg h2, if_pos h3, h4] at this
  have hy : y0^(N+1) ≠ 0 := pow_ne_zero _ hy0
  have := K.smul_mem (y0^(N+1))⁻¹ this
  rwa [smul_smul, inv_mul_cancel₀ hy, one_smul] at this


instance : Inhabited (Rep F) := ⟨⟨fun _ => 0, fun _ => 0, 0, fun _ => 0⟩⟩

/-- **Extraction of the openings.** If `Â(y, z)` has a weighted-inner-product witness for `3N+3` non-zero `y` and
    `4m+3` values of `z` each, and the generators satisfy no non-trivial relation, then every commitment `V_j`
    is `v_j·hb + Σ_k r_{j,k}·Gb_k` for some `(v_j, r_j)`: it has no component over the vector generators. -/
theorem openings_extract (I : RangeInst F M) (hn : 0 < I.n)
    (hI : Indep (F := F) (I.n * I.m) I.t I.G I.H I.hb I.Gb)
    (A : M) (SY : Finset F) (SZ : F → Finset F)
    (hY0 : ∀ y ∈ SY, y ≠ 0) (hYc : 3 * (I.n * I.m) + 3 ≤ SY.card) (hZc : ∀ y ∈ SY, 4 * I.m + 3 ≤ (SZ y).card)
    (hW : ∀ y ∈ SY, ∀ z ∈ SZ y, ∃ a b α : ℕ → F,
      Ahat I y z A = Pcom y (I.n * I.m) I.t a b I.G I.H I.hb α I.Gb) :
    ∃ (v : ℕ → F) (r : ℕ → ℕ → F), ∀ j < I.m, I.V j = v j • I.hb + dot I.t (r j) I.Gb := by
  classical
  set N := I.n * I.m with hN
  obtain ⟨y0, hy0⟩ := Finset.card_pos.mp (by omega : 0 < SY.card)
  obtain ⟨⟨ρA, hρA⟩, hVmem⟩ := tree_reps I A y0 (hY0 y0 hy0) (SZ y0) (by have := hZc y0 hy0; omega) (hW y0 hy0)
  rw [← hN] at hρA hVmem
  have hVmem' : ∀ j, j < I.m → ∃ ρ : Rep F, ρ.ev N I.t I.G I.H I.hb I.Gb = I.V j :=
    fun j hj => mem_repSpan.mp (hVmem j hj)
  choose! ρV hρV using hVmem'
  choose! a b α hW using hW
  -- the representation of Â(y, z)
  let ρ : F → F → Rep F := fun y z =>
    ⟨fun i => ρA.a i - z + y^(N+1) * ∑ j ∈ range I.m, (ρV j).a i * z^(2*(j+1)),
     fun i => ρA.b i + z + y^(N - i) * (2^(i % I.n) * z^(2*(i / I.n + 1))) + y^(N+1) * ∑ j ∈ range I.m, (ρV j).b i * z^(2*(j+1)),
     ρA.c + (z - z^2) * (∑ i ∈ range N, y^(i+1)) - z * y^(N+1) * (∑ i ∈ range N, 2^(i % I.n) * z^(2*(i / I.n + 1)))
       + y^(N+1) * ∑ j ∈ range I.m, ((ρV j).c - I.p j) * z^(2*(j+1)),
     fun k => ρA.α k + y^(N+1) * ∑ j ∈ range I.m, (ρV j).α k * z^(2*(j+1))⟩
  have hρ : ∀ y z : F, Ahat I y z A = (ρ y z).ev N I.t I.G I.H I.hb I.Gb := by
    intro y z
    have hVs : (∑ j ∈ range I.m, (y^(N+1) * z^(2*(j+1))) • (I.V j - I.p j • I.hb))
        = dot N (fun i => y^(N+1) * ∑ j ∈ range I.m, (ρV j).a i * z^(2*(j+1))) I.G
          + dot N (fun i => y^(N+1) * ∑ j ∈ range I.m, (ρV j).b i * z^(2*(j+1))) I.H
          + (y^(N+1) * ∑ j ∈ range I.m, ((ρV j).c - I.p j) * z^(2*(j+1))) • I.hb
          + dot I.t (fun k => y^(N+1) * ∑ j ∈ range I.m, (ρV j).α k * z^(2*(j+1))) I.Gb := by
      rw [dot_sum_mul, dot_sum_mul, dot_sum_mul, Finset.mul_sum, Finset.sum_smul,
        ← Finset.sum_add_distrib, ← Finset.sum_add_distrib, ← Finset.sum_add_distrib]
      apply Finset.sum_congr rfl; intro j hj
      rw [← hρV j (Finset.mem_range.mp hj)]
      simp only [Rep.ev]
      module
    have hd : ∀ i, dvec z I.n i * y^(N - i) + z = z + y^(N - i) * (2^(i % I.n) * z^(2*(i / I.n + 1))) := by
      intro i; simp only [dvec]; ring
    have hds : (∑ i ∈ range N, dvec z I.n i) = ∑ i ∈ range N, 2^(i % I.n) * z^(2*(i / I.n + 1)) := by
      apply Finset.sum_congr rfl; intro i _; simp only [dvec]; ring
    simp only [Ahat, ← hN, hVs, hds, ρ, Rep.ev, ← hρA]
    have e1 : dot N (fun i => ρA.a i - z + y^(N+1) * ∑ j ∈ range I.m, (ρV j).a i * z^(2*(j+1))) I.G
        = dot N ρA.a I.G + dot N (fun _ => -z) I.G
          + dot N (fun i => y^(N+1) * ∑ j ∈ range I.m, (ρV j).a i * z^(2*(j+1))) I.G := by
      rw [← dot_add, ← dot_add]; apply dot_congr; intro i _; ring
    have e2 : dot N (fun i => ρA.b i + z + y^(N - i) * (2^(i % I.n) * z^(2*(i / I.n + 1)))
          + y^(N+1) * ∑ j ∈ range I.m, (ρV j).b i * z^(2*(j+1))) I.H
        = dot N ρA.b I.H + dot N (fun i => dvec z I.n i * y^(N - i) + z) I.H
          + dot N (fun i => y^(N+1) * ∑ j ∈ range I.m, (ρV j).b i * z^(2*(j+1))) I.H := by
      rw [← dot_add, ← dot_add]; apply dot_congr; intro i _; rw [hd]; ring
    have e3 : dot I.t (fun k => ρA.α k + y^(N+1) * ∑ j ∈ range I.m, (ρV j).α k * z^(2*(j+1))) I.Gb
        = dot I.t ρA.α I.Gb + dot I.t (fun k => y^(N+1) * ∑ j ∈ range I.m, (ρV j).α k * z^(2*(j+1))) I.Gb := by
      rw [← dot_add]
    rw [e1, e2, e3]
    module
  -- coefficient comparison
  have hcmp : ∀ y ∈ SY, ∀ z ∈ SZ y, wip y N (ρ y z).a (ρ y z).b = (ρ y z).c := by
    intro y hy z hz
    have := hI.eq ⟨a y z, b y z, wip y N (a y z) (b y z), α y z⟩ (ρ y z) (by
      rw [← Pcom_eq_ev, ← hW y hy z hz, hρ])
    rw [← this.2.2.1]
    exact (wip_congr y N _ _ _ _ this.1 this.2.1).symm
  -- the value-generator equation as an identity in `F[X]` (X stands for z) for each y
  let xA : ℕ → F[X] := fun i => C (ρA.a i) - X
  let xB : ℕ → F[X] := fun i => C (ρA.b i) + X
  let PA : ℕ → F[X] := fun i => ∑ j ∈ range I.m, C ((ρV j).a i) * X^(2*(j+1))
  let PB : ℕ → F[X] := fun i => ∑ j ∈ range I.m, C ((ρV j).b i) * X^(2*(j+1))
  let D : ℕ → F[X] := fun i => C (2^(i % I.n)) * X^(2*(i / I.n + 1))
  let VC : F[X] := ∑ j ∈ range I.m, C ((ρV j).c - I.p j) * X^(2*(j+1))
  let E : F → F[X] := fun y =>
    (∑ i ∈ range N, (C y)^(i+1) * ((xA i + (C y)^(N+1) * PA i) * (xB i + (C y)^(N-i) * D i + (C y)^(N+1) * PB i)))
      - (C ρA.c + (X - X^2) * (∑ i ∈ range N, (C y)^(i+1)) - X * (C y)^(N+1) * (∑ i ∈ range N, D i) + (C y)^(N+1) * VC)
  have hEval : ∀ y ∈ SY, ∀ z ∈ SZ y, (E y).eval z = 0 := by
    intro y hy z hz
    have h := hcmp y hy z hz
    simp only [wip, ρ] at h
    simp only [E, xA, xB, PA, PB, D, VC, eval_sub, eval_add, eval_mul, eval_pow, eval_C, eval_X, eval_finsetSum]
    rw [sub_eq_zero, ← h]
    apply Finset.sum_congr rfl; intro i _; ring
  have hdeg : ∀ y, (E y).natDegree ≤ 4 * I.m + 2 := by
    intro y
    have subLe : ∀ {p q : F[X]} {n : ℕ}, p.natDegree ≤ n → q.natDegree ≤ n → (p - q).natDegree ≤ n :=
      fun hp hq => (natDegree_sub_le _ _).trans (max_le hp hq)
    have hC : ∀ (c : F) (k : ℕ), ((C c : F[X])^k).natDegree ≤ 0 := by
      intro c k; rw [← C_pow]; exact (natDegree_C _).le
    have hPA : ∀ i, (PA i).natDegree ≤ 2 * I.m := by
      intro i
      refine natDegree_sum_le_of_forall_le _ _ (fun j hj => ?_)
      exact (natDegree_C_mul_X_pow_le _ _).trans (by have := Finset.mem_range.mp hj; omega)
    have hPB : ∀ i, (PB i).natDegree ≤ 2 * I.m := by
      intro i
      refine natDegree_sum_le_of_forall_le _ _ (fun j hj => ?_)
      exact (natDegree_C_mul_X_pow_le _ _).trans (by have := Finset.mem_range.mp hj; omega)
    have hVC : VC.natDegree ≤ 2 * I.m := by
      refine natDegree_sum_le_of_forall_le _ _ (fun j hj => ?_)
      exact (natDegree_C_mul_X_pow_le _ _).trans (by have := Finset.mem_range.mp hj; omega)
    have hD : ∀ i ∈ range N, (D i).natDegree ≤ 2 * I.m := by
      intro i hi
      refine (natDegree_C_mul_X_pow_le _ _).trans ?_
      have hi' : i < I.n * I.m := by rw [← hN]; exact Finset.mem_range.mp hi
      have : i / I.n < I.m := by
        rw [Nat.div_lt_iff_lt_mul hn]; rw [Nat.mul_comm]; exact hi'
      omega
    have hxA : ∀ i, (xA i).natDegree ≤ 1 := fun i =>
      subLe ((natDegree_C _).le.trans (by omega)) natDegree_X_le
    have hxB : ∀ i, (xB i).natDegree ≤ 1 := fun i =>
      natDegree_add_le_of_degree_le ((natDegree_C _).le.trans (by omega)) natDegree_X_le
    refine subLe ?_ ?_
    · refine natDegree_sum_le_of_forall_le _ _ (fun i hi => ?_)
      have f1 : (xA i + (C y)^(N+1) * PA i).natDegree ≤ 2 * I.m + 1 :=
        natDegree_add_le_of_degree_le ((hxA i).trans (by omega))
          ((natDegree_mul_le_of_le (hC y _) (hPA i)).trans (by omega))
      have f2 : (xB i + (C y)^(N-i) * D i + (C y)^(N+1) * PB i).natDegree ≤ 2 * I.m + 1 :=
        natDegree_add_le_of_degree_le
          (natDegree_add_le_of_degree_le ((hxB i).trans (by omega))
            ((natDegree_mul_le_of_le (hC y _) (hD i hi)).trans (by omega)))
          ((natDegree_mul_le_of_le (hC y _) (hPB i)).trans (by omega))
      exact (natDegree_mul_le_of_le (hC y _) (natDegree_mul_le_of_le f1 f2)).trans (by omega)
    · have g1 : ((X : F[X]) - X^2).natDegree ≤ 2 :=
        subLe (natDegree_X_le.trans (by omega)) (natDegree_X_pow_le 2)
      have g2 : (∑ i ∈ range N, (C y : F[X])^(i+1)).natDegree ≤ 0 :=
        natDegree_sum_le_of_forall_le _ _ (fun i _ => hC y _)
      have g3 : (∑ i ∈ range N, D i).natDegree ≤ 2 * I.m :=
        natDegree_sum_le_of_forall_le _ _ hD
      refine natDegree_add_le_of_degree_le (subLe (natDegree_add_le_of_degree_le
        ((natDegree_C _).le.trans (by omega)) ((natDegree_mul_le_of_le g1 g2).trans (by omega)))
        ((natDegree_mul_le_of_le (natDegree_mul_le_of_le natDegree_X_le (hC y _)) g3).trans (by omega)))
        ((natDegree_mul_le_of_le (hC y _) hVC).trans (by omega))
  have hE0 : ∀ y ∈ SY, E y = 0 := by
    intro y hy
    refine eq_zero_of_natDegree_lt_card_of_eval_eq_zero' (E y) (SZ y) (hEval y hy) ?_
    have := hZc y hy; have := hdeg y; omega
  -- all y-coefficients (elements of F[X]) vanish
  have hq : ∀ k ≤ 3*N+2, q6 N X (C ρA.c) VC xA xB PA PB D k = 0 := by
    refine poly_vanish_domain (q6 N X (C ρA.c) VC xA xB PA PB D) (3*N+2) (SY.image C) ?_ ?_
    · rw [Finset.card_image_of_injective _ C_injective]; omega
    · intro x hx
      obtain ⟨y, hy, rfl⟩ := Finset.mem_image.mp hx
      rw [← expand6]
      exact hE0 y hy
  have hPAB : ∀ i < N, PA i = 0 ∧ PB i = 0 := by
    intro i hi
    have h1 := hq (2*N+3+i) (by omega)
    have h2 := hq (N+2+i) (by omega)
    have e1 : 2*N+3+i - 2*N - 3 = i := by omega
    have e2 : N + 2 + i - N - 2 = i := by omega
    simp only [q6, if_neg (show ¬ (2*N+3+i = 0) by omega), if_neg (show ¬ (2*N+3+i ≤ N) by omega),
      if_neg (show ¬ (2*N+3+i = N+1) by omega), if_neg (show ¬ (2*N+3+i ≤ 2*N+1) by omega),
      if_neg (show ¬ (2*N+3+i = 2*N+2) by omega), e1] at h1
    simp only [q6, if_neg (show ¬ (N+2+i = 0) by omega), if_neg (show ¬ (N + 2 + i ≤ N) by omega),
      if_neg (show ¬ (N+2+i = N+1) by omega), if_pos (show N+2+i ≤ 2*N+1 by omega), e2] at h2
    have hxA : xA i ≠ 0 := by
      have : xA i = -(X - C (ρA.a i)) := by simp only [xA]; ring
      rw [this]; exact neg_ne_zero.mpr (X_sub_C_ne_zero _)
    have hxB : xB i ≠ 0 := by
      have : xB i = X - C (-(ρA.b i)) := by simp only [xB, C_neg]; ring
      rw [this]; exact X_sub_C_ne_zero _
    rcases mul_eq_zero.mp h1 with hA | hB
    · rw [hA, zero_mul, add_zero] at h2
      exact ⟨hA, (mul_eq_zero.mp h2).resolve_left hxA⟩
    · rw [hB, mul_zero, zero_add] at h2
      exact ⟨(mul_eq_zero.mp h2).resolve_right hxB, hB⟩
  have hcoef : ∀ (c : ℕ → F) (j : ℕ), j < I.m →
      (∑ j' ∈ range I.m, C (c j') * X^(2*(j'+1)) : F[X]).coeff (2*(j+1)) = c j := by
    intro c j hj
    simp only [finsetSum_coeff, coeff_C_mul, coeff_X_pow]
    rw [Finset.sum_eq_single j]
    · simp
    · intro b _ hb
      have : ¬ (2*(j+1) = 2*(b+1)) := by omega
      simp [this]
    · intro h; exact absurd (Finset.mem_range.mpr hj) h
  refine ⟨fun j => (ρV j).c, fun j => (ρV j).α, fun j hj => ?_⟩
  have ha : ∀ i < N, (ρV j).a i = 0 := by
    intro i hi
    have := hcoef (fun j' => (ρV j').a i) j hj
    rw [show (∑ j' ∈ range I.m, C ((ρV j').a i) * X^(2*(j'+1)) : F[X]) = PA i from rfl, (hPAB i hi).1] at this
    simpa using this.symm
  have hb : ∀ i < N, (ρV j).b i = 0 := by
    intro i hi
    have := hcoef (fun j' => (ρV j').b i) j hj
    rw [show (∑ j' ∈ range I.m, C ((ρV j').b i) * X^(2*(j'+1)) : F[X]) = PB i from rfl, (hPAB i hi).2] at this
    simpa using this.symm
  rw [← hρV j hj, Rep.ev, dot_congr N (ρV j).a (fun _ => 0) I.G ha, dot_congr N (ρV j).b (fun _ => 0) I.H hb]
  simp [dot]

/-- **Soundness of the range reduction, with extraction of the openings**: no assumption on the commitments. -/
theorem range_sound_extract (I : RangeInst F M) (hn : 0 < I.n)
    (hI : Indep (F := F) (I.n * I.m) I.t I.G I.H I.hb I.Gb)
    (A : M) (SY : Finset F) (SZ : F → Finset F)
    (hY0 : ∀ y ∈ SY, y ≠ 0) (hYc : 3 * (I.n * I.m) + 3 ≤ SY.card) (hZc : ∀ y ∈ SY, 4 * I.m + 3 ≤ (SZ y).card)
    (hW : ∀ y ∈ SY, ∀ z ∈ SZ y, ∃ a b α : ℕ → F,
      Ahat I y z A = Pcom y (I.n * I.m) I.t a b I.G I.H I.hb α I.Gb) :
    ∃ (v : ℕ → F) (r : ℕ → ℕ → F) (aL α : ℕ → F),
      (∀ j < I.m, I.V j = v j • I.hb + dot I.t (r j) I.Gb) ∧
      A = dot (I.n * I.m) aL I.G + dot (I.n * I.m) (fun i => aL i - 1) I.H + dot I.t α I.Gb ∧
      (∀ i < I.n * I.m, aL i * (aL i - 1) = 0) ∧
      (∀ j < I.m, ∑ i ∈ range I.n, aL (j * I.n + i) * 2^i = v j - I.p j) := by
  obtain ⟨v, r, hV⟩ := openings_extract I hn hI A SY SZ hY0 hYc hZc hW
  obtain ⟨aL, α, h1, h2, h3⟩ := range_sound I hn hI v r hV A SY SZ hY0 (by omega)
    (fun y hy => by have := hZc y hy; omega) hW
  exact ⟨v, r, aL, α, hV, h1, h2, h3⟩


/-- **Knowledge soundness with extraction (tree form).** From a tree of accepting transcripts of the whole proof
    — `3N+3` non-zero `y`, `4m+3` values of `z` each, the zk-WIP tree below each — and independence of the
    generators alone: every commitment opens as `v_j·hb + Σ_k r_{j,k}·Gb_k` with `v_j = p_j + k_j` for a natural
    number `k_j < 2^n`. Nothing is assumed about the commitments. -/
theorem range_proof_extract (I : RangeInst F M) (hn : 0 < I.n) (κ : ℕ) (hN : I.n * I.m = 2^κ)
    (hI : Indep (F := F) (I.n * I.m) I.t I.G I.H I.hb I.Gb)
    (A : M) (SY : Finset F) (SZ : F → Finset F)
    (hY0 : ∀ y ∈ SY, y ≠ 0) (hYc : 3 * (I.n * I.m) + 3 ≤ SY.card) (hZc : ∀ y ∈ SY, 4 * I.m + 3 ≤ (SZ y).card)
    (hT : ∀ y ∈ SY, ∀ z ∈ SZ y, TreeAcc y I.t I.hb I.Gb κ I.G I.H (Ahat I y z A)) :
    ∃ (v : ℕ → F) (r : ℕ → ℕ → F),
      (∀ j < I.m, I.V j = v j • I.hb + dot I.t (r j) I.Gb) ∧
      ∀ j < I.m, ∃ k : ℕ, k < 2^I.n ∧ v j = I.p j + (k : F) := by
  obtain ⟨v, r, aL, α, hV, -, hbit, hval⟩ := range_sound_extract I hn hI A SY SZ hY0 hYc hZc
    (fun y hy z hz => by
      have := wip_special_sound y (hY0 y hy) I.t I.hb I.Gb κ I.G I.H _ (hN ▸ hI) (hT y hy z hz)
      rwa [← hN] at this)
  refine ⟨v, r, hV, fun j hj => ?_⟩
  obtain ⟨k, hk, hs⟩ := bits_to_nat I.n (fun i => aL (j * I.n + i)) (fun i hi => hbit _ (by
    have : j * I.n + i < (j+1) * I.n := by rw [Nat.succ_mul]; omega
    calc j * I.n + i < (j+1) * I.n := this
      _ ≤ I.m * I.n := Nat.mul_le_mul_right _ hj
      _ = I.n * I.m := Nat.mul_comm _ _))
  refine ⟨k, hk, ?_⟩
  have h := hval j hj
  rw [hs] at h
  linear_combination -h

/-- **Weights that are successive powers of one draw** (a rewrite some verifiers use; H21): if the weighted sum of the
    members' residuals vanishes for more than `k` non-zero values of the draw, every residual is zero. So such weights
    admit no fixed cancelling vector, and a batch with an invalid member passes for at most `k` values of the draw. -/
theorem power_weights_sound (k : ℕ) (R : ℕ → M) (S : Finset F) (hS : k < S.card) (h0 : ∀ ρ ∈ S, ρ ≠ 0)
    (h : ∀ ρ ∈ S, ∑ i ∈ range k, ρ ^ (i + 1) • R i = 0) : ∀ i < k, R i = 0 := by
  cases k with
  | zero => intro i hi; omega
  | succ d =>
    have hm := module_poly_mem (⊥ : Submodule F M) R d S (by omega) (by
      intro z hz
      rw [Submodule.mem_bot]
      have := h z hz
      have e : ∑ i ∈ range (d + 1), z ^ (i + 1) • R i = z • ∑ i ∈ range (d + 1), z ^ i • R i := by
        rw [Finset.smul_sum]; apply Finset.sum_congr rfl; intro i _; rw [smul_smul, pow_succ, mul_comm]
      rw [e] at this
      exact (smul_eq_zero.mp this).resolve_left (h0 z hz))
    intro i hi
    exact (Submodule.mem_bot F).mp (hm i (by omega))

end Bpp
