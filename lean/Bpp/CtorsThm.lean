import Model.Ctors
import Mathlib.Data.Nat.Log
import Mathlib.Tactic.Ring
import Mathlib.Tactic.IntervalCases
/-! C17 / C06: each coded guard is equivalent to the independently written documented domain. -/
namespace Bpp.CtorsThm
open Model.Ctors

theorem isPow2_iff (x : ℕ) : isPow2 x = true ↔ ∃ k, x = 2 ^ k := by
  unfold isPow2
  simp only [Bool.and_eq_true, bne_iff_ne, ne_eq, beq_iff_eq]
  constructor
  · rintro ⟨_, h⟩; exact ⟨Nat.log2 x, h.symm⟩
  · rintro ⟨k, rfl⟩
    refine ⟨Nat.ne_of_gt (Nat.two_pow_pos k), ?_⟩
    rw [Nat.log2_eq_log_two, Nat.log_pow (by norm_num)]

/-- **C17 (parameters).** Accepted exactly when the bit length is a power of two at most 64 and the capacity is a
    power of two. -/
theorem paramsInit_iff (bits cap : ℕ) :
    paramsInit bits cap = true ↔ (∃ k, cap = 2 ^ k) ∧ (bits = 1 ∨ bits = 2 ∨ bits = 4 ∨ bits = 8 ∨ bits = 16 ∨ bits = 32 ∨ bits = 64) := by
  unfold paramsInit
  simp only [Bool.and_eq_true, decide_eq_true_eq, isPow2_iff]
  constructor
  · rintro ⟨⟨hc, ⟨k, hk⟩⟩, hle⟩
    refine ⟨hc, ?_⟩
    subst hk
    have hk7 : k < 7 := by
      by_contra h
      have : 2 ^ 7 ≤ 2 ^ k := Nat.pow_le_pow_right (by norm_num) (by omega)
      omega
    interval_cases k <;> simp
  · rintro ⟨hc, hb⟩
    refine ⟨⟨hc, ?_⟩, ?_⟩
    · rcases hb with rfl | rfl | rfl | rfl | rfl | rfl | rfl
      exacts [⟨0, rfl⟩, ⟨1, rfl⟩, ⟨2, rfl⟩, ⟨3, rfl⟩, ⟨4, rfl⟩, ⟨5, rfl⟩, ⟨6, rfl⟩]
    · rcases hb with rfl | rfl | rfl | rfl | rfl | rfl | rfl <;> norm_num

/-- **C17 (statement).** Commitment count a power of two not above capacity, one promise per commitment, a seed only
    for a single commitment. -/
theorem statementInit_iff (cap nC nP : ℕ) (seed : Bool) :
    statementInit cap nC nP seed = true ↔ (∃ k, nC = 2 ^ k) ∧ nP = nC ∧ nC ≤ cap ∧ (seed = true → nC = 1) := by
  unfold statementInit
  simp only [Bool.and_eq_true, decide_eq_true_eq, isPow2_iff, beq_iff_eq, Bool.not_eq_true', Bool.and_eq_false_iff,
    decide_eq_false_iff_not, not_lt]
  constructor
  · rintro ⟨⟨⟨⟨k, hk⟩, hp⟩, hc⟩, hs⟩
    refine ⟨⟨k, hk⟩, hp, hc, fun h => ?_⟩
    rcases hs with hs | hs
    · rw [h] at hs; exact absurd hs (by simp)
    · have : 0 < nC := by rw [hk]; exact Nat.two_pow_pos k
      omega
  · rintro ⟨hk, hp, hc, hs⟩
    refine ⟨⟨⟨hk, hp⟩, hc⟩, ?_⟩
    cases seed with
    | false => exact Or.inl rfl
    | true => exact Or.inr (by rw [hs rfl])

theorem degreeOk_iff (x : ℕ) : degreeOk x = true ↔ 1 ≤ x ∧ x ≤ 6 := by
  unfold degreeOk; simp

/-- **C17 (witness).** At least one opening, equal non-zero blinding counts forming a valid extension degree. -/
theorem witnessInit_iff (rs : List ℕ) :
    witnessInit rs = true ↔ ∃ t, 1 ≤ t ∧ t ≤ 6 ∧ rs ≠ [] ∧ ∀ r ∈ rs, r = t := by
  cases rs with
  | nil => simp [witnessInit]
  | cons r rs =>
    simp only [witnessInit, Bool.and_eq_true, bne_iff_ne, ne_eq, List.all_eq_true, beq_iff_eq, degreeOk_iff,
      reduceCtorEq, not_false_eq_true, List.mem_cons, forall_eq_or_imp, true_and]
    constructor
    · rintro ⟨⟨_, hall⟩, h1, h6⟩
      exact ⟨r, h1, h6, rfl, fun x hx => (hall x hx).2⟩
    · rintro ⟨t, h1, h6, rfl, hall⟩
      exact ⟨⟨by omega, fun x hx => ⟨by rw [hall x hx]; omega, hall x hx⟩⟩, h1, h6⟩

theorem maskAssign_iff (deg len : ℕ) (hd : 1 ≤ deg) : maskAssign deg len = true ↔ len = deg := by
  unfold maskAssign; simp only [Bool.and_eq_true, bne_iff_ne, ne_eq, beq_iff_eq]
  exact ⟨fun h => h.2, fun h => ⟨by omega, h⟩⟩

theorem commitOk_iff (deg nB : ℕ) : commitOk deg nB = true ↔ 1 ≤ nB ∧ nB ≤ deg := by
  unfold commitOk; simp only [Bool.and_eq_true, bne_iff_ne, ne_eq, decide_eq_true_eq]; omega

/-- **C06 (range guard).** For a 64-bit value and a bit length at most 64 the coded test — with its special case
    for 64 bits — is exactly `v < 2^bits`. -/
theorem valueFits_iff (bits v : ℕ) (hb : bits ≤ 64) (hv : v < 2 ^ 64) : valueFits bits v = true ↔ v < 2 ^ bits := by
  unfold valueFits
  simp only [Bool.not_eq_true', Bool.and_eq_false_iff, decide_eq_false_iff_not, not_lt, Nat.shiftRight_eq_div_pow]
  constructor
  · rintro (h | h)
    · have : bits = 64 := by omega
      subst this; exact hv
    · have := Nat.div_eq_zero_iff.mp (Nat.le_zero.mp h)
      rcases this with h0 | h0
      · exact absurd h0 (Nat.ne_of_gt (Nat.two_pow_pos bits))
      · exact h0
  · intro h
    exact Or.inr (Nat.le_zero.mpr (Nat.div_eq_of_lt h))

/-- the documented witness relation -/
def WitnessValid (bits tS tW nCommit : ℕ) (ops : List Opening) (promises : List (Option ℕ)) : Prop :=
  ops.length = nCommit ∧ tW = tS ∧ (∀ o ∈ ops, o.v < 2 ^ bits) ∧ (∀ o ∈ ops, 1 ≤ o.rlen ∧ o.rlen ≤ tS ∧ o.reproduces = true) ∧
  ∀ po ∈ List.zip promises ops, ∀ p, po.1 = some p → p ≤ po.2.v

/-- **C06 (guards ⇔ valid witness).** The prover's guards pass exactly for valid witnesses. -/
theorem proverGuards_iff (bits tS tW nC : ℕ) (ops : List Opening) (ps : List (Option ℕ))
    (hb : bits ≤ 64) (hv : ∀ o ∈ ops, o.v < 2 ^ 64) :
    proverGuards bits tS tW nC ops ps = true ↔ WitnessValid bits tS tW nC ops ps := by
  unfold proverGuards WitnessValid
  simp only [Bool.and_eq_true, beq_iff_eq, List.all_eq_true, commitOk_iff]
  constructor
  · rintro ⟨⟨⟨⟨h1, h2⟩, h3⟩, h4⟩, h5⟩
    refine ⟨h1, h2, fun o ho => (valueFits_iff bits o.v hb (hv o ho)).mp (h3 o ho),
      fun o ho => ⟨(h4 o ho).1.1, (h4 o ho).1.2, (h4 o ho).2⟩, ?_⟩
    intro po hpo p hp
    have := h5 po hpo
    rw [hp] at this
    simpa using this
  · rintro ⟨h1, h2, h3, h4, h5⟩
    refine ⟨⟨⟨⟨h1, h2⟩, fun o ho => (valueFits_iff bits o.v hb (hv o ho)).mpr (h3 o ho)⟩,
      fun o ho => ⟨⟨(h4 o ho).1, (h4 o ho).2.1⟩, (h4 o ho).2.2⟩⟩, ?_⟩
    intro po hpo
    cases hp : po.1 with
    | none => rfl
    | some p => simpa using h5 po hpo p hp

example : paramsInit 64 32 = true ∧ paramsInit 48 4 = false ∧ paramsInit 128 4 = false ∧ paramsInit 8 0 = false := by decide
example : valueFits 64 (2 ^ 64 - 1) = true ∧ valueFits 8 256 = false ∧ valueFits 8 255 = true := by decide

end Bpp.CtorsThm
