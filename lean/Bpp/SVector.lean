import Bpp.Wip
import Mathlib.Data.Nat.Log
import Mathlib.Algebra.BigOperators.Group.List.Basic
open Finset
namespace Bpp
open Model (WipProof RangeInst RangeProofM ProofM bitN)
variable {F : Type} [Field F] {M : Type} [AddCommGroup M] [Module F M]

/-- reference folding of the G generators: challenges first-round-first, current length `2^es.length` -/
def foldG (y : F) : List F → (ℕ → M) → (ℕ → M)
  | [], G => G
  | e :: es, G => foldG y es (fun i => e⁻¹ • G i + (e * (y ^ (2 ^ es.length))⁻¹) • G (2 ^ es.length + i))

/-- reference folding of the H generators -/
def foldH : List F → (ℕ → M) → (ℕ → M)
  | [], H => H
  | e :: es, H => foldH es (fun i => e • H i + e⁻¹ • H (2 ^ es.length + i))

/-- reference folding of the commitment -/
def foldP : List F → List M → List M → M → M
  | e :: es, L :: Ls, R :: Rs, P => foldP es Ls Rs (e^2 • L + P + (e⁻¹)^2 • R)
  | _, _, _, P => P

/-- product form of the s-vector -/
def sProd : List F → ℕ → F
  | [], _ => 1
  | e :: es, i => if i < 2 ^ es.length then e⁻¹ * sProd es i else e * sProd es (i - 2 ^ es.length)

/-- product form with inverted challenges (coefficients of the folded H) -/
def tProd : List F → ℕ → F
  | [], _ => 1
  | e :: es, i => if i < 2 ^ es.length then e * tProd es i else e⁻¹ * tProd es (i - 2 ^ es.length)

theorem foldG_closed (y : F) (es : List F) (G : ℕ → M) :
    foldG y es G 0 = ∑ i ∈ range (2 ^ es.length), ((y ^ i)⁻¹ * sProd es i) • G i := by
  induction es generalizing G with
  | nil => simp [foldG, sProd]
  | cons e es ih =>
    simp only [foldG, List.length_cons]
    rw [ih]
    have h2 : 2 ^ (es.length + 1) = 2 ^ es.length + 2 ^ es.length := by ring
    rw [h2, Finset.sum_range_add]
    simp only [smul_add, Finset.sum_add_distrib, smul_smul]
    congr 1
    · apply Finset.sum_congr rfl
      intro i hi
      have : i < 2 ^ es.length := Finset.mem_range.mp hi
      simp only [sProd, this, if_true]
      congr 1; ring
    · apply Finset.sum_congr rfl
      intro i hi
      have hlt : ¬ (2 ^ es.length + i < 2 ^ es.length) := by omega
      simp only [sProd, hlt, if_false, Nat.add_sub_cancel_left]
      congr 1
      rw [pow_add, mul_inv]
      ring

theorem foldH_closed (es : List F) (H : ℕ → M) :
    foldH es H 0 = ∑ i ∈ range (2 ^ es.length), tProd es i • H i := by
  induction es generalizing H with
  | nil => simp [foldH, tProd]
  | cons e es ih =>
    simp only [foldH, List.length_cons]
    rw [ih]
    have h2 : 2 ^ (es.length + 1) = 2 ^ es.length + 2 ^ es.length := by ring
    rw [h2, Finset.sum_range_add]
    simp only [smul_add, Finset.sum_add_distrib, smul_smul]
    congr 1
    · apply Finset.sum_congr rfl
      intro i hi
      have : i < 2 ^ es.length := Finset.mem_range.mp hi
      simp only [tProd, this, if_true]
      congr 1; ring
    · apply Finset.sum_congr rfl
      intro i hi
      have hlt : ¬ (2 ^ es.length + i < 2 ^ es.length) := by omega
      simp only [tProd, hlt, if_false, Nat.add_sub_cancel_left]
      congr 1; ring

/-- the folded-H coefficients are the s-vector read backwards (`s.iter().rev()` in the code) -/
theorem tProd_eq_sProd_rev (es : List F) (i : ℕ) (hi : i < 2 ^ es.length) :
    tProd es i = sProd es (2 ^ es.length - 1 - i) := by
  induction es generalizing i with
  | nil => simp [tProd, sProd]
  | cons e es ih =>
    simp only [List.length_cons] at hi ⊢
    have h2 : 2 ^ (es.length + 1) = 2 ^ es.length + 2 ^ es.length := by ring
    have hpos : 0 < 2 ^ es.length := Nat.pos_of_ne_zero (by positivity)
    by_cases h : i < 2 ^ es.length
    · have h' : ¬ (2 ^ (es.length + 1) - 1 - i < 2 ^ es.length) := by omega
      simp only [tProd, sProd, h, h', if_true, if_false]
      rw [ih i h]
      congr 2; omega
    · have h' : 2 ^ (es.length + 1) - 1 - i < 2 ^ es.length := by omega
      simp only [tProd, sProd, h, h', if_true, if_false]
      rw [ih (i - 2 ^ es.length) (by omega)]
      congr 2; omega

/-- folded commitment in closed form -/
theorem foldP_closed (es : List F) (Ls Rs : List M) (P : M) (hL : Ls.length = es.length) (hR : Rs.length = es.length) :
    foldP es Ls Rs P = P + ((List.zipWith (fun e L => e^2 • L) es Ls).sum
                           + (List.zipWith (fun e R => (e⁻¹)^2 • R) es Rs).sum) := by
  induction es generalizing Ls Rs P with
  | nil =>
    cases Ls <;> cases Rs <;> simp_all [foldP]
  | cons e es ih =>
    cases Ls with
    | nil => simp at hL
    | cons L Ls =>
      cases Rs with
      | nil => simp at hR
      | cons R Rs =>
        simp only [List.length_cons, add_left_inj] at hL hR
        simp only [foldP, List.zipWith_cons_cons, List.sum_cons]
        rw [ih Ls Rs _ hL hR]
        module

/-- the s-vector as the verifier computes it: `s[0] = Π e_j⁻¹`, `s[i] = s[i − 2^⌊lg i⌋] · e²_{κ−1−⌊lg i⌋}` -/
def sCode (es : List F) : ℕ → F
  | 0 => (es.map (·⁻¹)).prod
  | (i+1) => sCode es (i + 1 - 2 ^ Nat.log 2 (i+1)) * (es.getD (es.length - Nat.log 2 (i+1) - 1) 0) ^ 2
decreasing_by
  have : 0 < 2 ^ Nat.log 2 (i+1) := Nat.pos_of_ne_zero (by positivity)
  omega

theorem sCode_cons_low (e : F) (es : List F) (i : ℕ) (hi : i < 2 ^ es.length) :
    sCode (e :: es) i = e⁻¹ * sCode es i := by
  induction i using Nat.strong_induction_on with
  | _ i ih =>
    cases i with
    | zero => simp [sCode]
    | succ i =>
      have hlog : Nat.log 2 (i+1) < es.length := by
        by_contra hc
        have : 2 ^ es.length ≤ 2 ^ Nat.log 2 (i+1) := Nat.pow_le_pow_right (by norm_num) (by omega)
        have := Nat.pow_log_le_self 2 (show i + 1 ≠ 0 by omega)
        omega
      have hpos : 0 < 2 ^ Nat.log 2 (i+1) := Nat.pos_of_ne_zero (by positivity)
      rw [sCode, sCode]
      rw [ih (i + 1 - 2 ^ Nat.log 2 (i+1)) (by omega) (by omega)]
      have hidx : (e :: es).length - Nat.log 2 (i+1) - 1 = (es.length - Nat.log 2 (i+1) - 1) + 1 := by
        simp only [List.length_cons]; omega
      rw [hidx, List.getD_cons_succ]
      ring

theorem sCode_cons_high (e : F) (he : e ≠ 0) (es : List F) (i : ℕ)
    (hlo : 2 ^ es.length ≤ i) (hhi : i < 2 ^ (es.length + 1)) :
    sCode (e :: es) i = e * sCode es (i - 2 ^ es.length) := by
  have hpos : 0 < 2 ^ es.length := Nat.pos_of_ne_zero (by positivity)
  obtain ⟨k, rfl⟩ : ∃ k, i = k + 1 := ⟨i - 1, by omega⟩
  have hlog : Nat.log 2 (k+1) = es.length := by
    apply Nat.log_eq_of_pow_le_of_lt_pow hlo hhi
  rw [sCode, hlog]
  have hidx : (e :: es).length - es.length - 1 = 0 := by simp
  rw [hidx, List.getD_cons_zero, sCode_cons_low e es (k + 1 - 2 ^ es.length) (by omega)]
  field_simp

theorem sCode_eq_sProd (es : List F) (hes : ∀ x ∈ es, x ≠ 0) (i : ℕ) (hi : i < 2 ^ es.length) :
    sCode es i = sProd es i := by
  induction es generalizing i with
  | nil =>
    simp only [List.length_nil, pow_zero, Nat.lt_one_iff] at hi
    subst hi; simp [sCode, sProd]
  | cons e es ih =>
    have he : e ≠ 0 := hes e (by simp)
    have hes' : ∀ x ∈ es, x ≠ 0 := fun x hx => hes x (by simp [hx])
    simp only [List.length_cons] at hi
    by_cases h : i < 2 ^ es.length
    · rw [sCode_cons_low e es i h, ih hes' i h]; simp [sProd, h]
    · rw [sCode_cons_high e he es i (by omega) hi, ih hes' _ (by omega)]; simp [sProd, h]

end Bpp
