import Model.Lifecycle
import Mathlib.Tactic.Ring
/-! C20 theorems about the buffer life-cycle model. -/
namespace Bpp.LifecycleThm
open Model.Lifecycle Model.Nonce

theorem filter_map_const {α β : Type} (l : List α) (f : α → β) (p : β → Bool) (b : Bool) (h : ∀ a, p (f a) = b) :
    ((l.map f).filter p).length = if b then l.length else 0 := by
  induction l with
  | nil => cases b <;> simp
  | cons a l ih =>
    cases b
    · simp_all
    · simp_all

def roundPos (t k : ℕ) : List Pos :=
  (List.range k).flatMap (fun j => (List.range t).map (Pos.dL j) ++ (List.range t).map (Pos.dR j))

theorem roundPos_length (t k : ℕ) : (roundPos t k).length = 2 * t * k := by
  unfold roundPos
  induction k with
  | zero => simp
  | succ k ih =>
    rw [List.range_succ, List.flatMap_append, List.length_append, ih]
    simp; ring

theorem roundPos_all_seed (t k κ : ℕ) : ∀ p ∈ roundPos t k, isSeed (source true t κ p) = true := by
  intro p hp
  unfold roundPos at hp
  simp only [List.mem_flatMap, List.mem_range, List.mem_append, List.mem_map] at hp
  obtain ⟨j, _, h | h⟩ := hp
  · obtain ⟨i, _, rfl⟩ := h; rfl
  · obtain ⟨i, _, rfl⟩ := h; rfl

/-- with a seed every position except `r`, `s` is seed-derived: `t(3 + 2κ)` derivations; without a seed none -/
theorem seedDerivations_eq (t κ : ℕ) : seedDerivations true t κ = t * (3 + 2 * κ) ∧ seedDerivations false t κ = 0 := by
  unfold seedDerivations allPos
  constructor
  · simp only [List.filter_append, List.length_append]
    have hα : (((List.range t).map Pos.alpha).filter (fun p => isSeed (source true t κ p))).length = t := by
      rw [filter_map_const _ _ _ true (fun a => rfl)]; simp
    have hd : (((List.range t).map Pos.d).filter (fun p => isSeed (source true t κ p))).length = t := by
      rw [filter_map_const _ _ _ true (fun a => rfl)]; simp
    have hη : (((List.range t).map Pos.eta).filter (fun p => isSeed (source true t κ p))).length = t := by
      rw [filter_map_const _ _ _ true (fun a => rfl)]; simp
    have hrs : ([Pos.r, Pos.s].filter (fun p => isSeed (source true t κ p))).length = 0 := by simp [source, isSeed]
    have hround : ((roundPos t κ).filter (fun p => isSeed (source true t κ p))).length = 2 * t * κ := by
      rw [List.filter_eq_self.mpr (roundPos_all_seed t κ κ), roundPos_length]
    unfold roundPos at hround
    rw [hα, hd, hη, hrs, hround]; ring
  · have : ∀ p, isSeed (source false t κ p) = false := by
      intro p; cases p <;> simp [source, isSeed]
    simp [this]

theorem unwiped_flatten_replicate (n : ℕ) (l : List Buf) : unwiped (List.replicate n l).flatten = n * unwiped l := by
  unfold unwiped
  induction n with
  | zero => simp
  | succ n ih => rw [List.replicate_succ, List.flatten_cons, List.filter_append, List.length_append, ih]; ring

/-- **C20 (wiped).** In the repaired flow no secret-bearing buffer of prove or of mask recovery is released un-wiped,
    for every aggregation, degree, round count, seeded or not. -/
theorem prove_all_wiped (seeded : Bool) (m t κ : ℕ) : unwiped (proveBufs true seeded m t κ) = 0 := by
  unfold proveBufs
  have h1 : unwiped (List.replicate (2 * κ + 2) (⟨.nonceVector, 32 * t, true⟩ : Buf)) = 0 := by
    unfold unwiped; simp
  have h2 := unwiped_flatten_replicate (seedDerivations seeded t κ) (nonceCall true)
  have h3 : unwiped (nonceCall true) = 0 := by simp [unwiped, nonceCall]
  unfold unwiped at *
  simp only [List.filter_cons, Bool.not_true, Bool.false_eq_true, if_false, List.filter_append, List.length_append]
  rw [h1, h2, h3]; simp

theorem recover_all_wiped (t κ : ℕ) : unwiped (recoverBufs true t κ) = 0 := by
  unfold recoverBufs
  have h2 := unwiped_flatten_replicate (seedDerivations true t κ) (nonceCall true)
  have h3 : unwiped (nonceCall true) = 0 := by simp [unwiped, nonceCall]
  unfold unwiped at *
  simp only [List.filter_cons, Bool.not_true, Bool.false_eq_true, if_false]
  rw [h2, h3]; simp

/-- **C20 (the repaired defect, by name).** Before the `fix:` commit a seeded prove released exactly `t(3 + 2κ)`
    un-wiped 32-byte copies of the seed, and every mask recovery as many again — the count the allocator run
    measured (9 / 54 / 30 for (bits, degree) = (8,1) / (8,6) / (64,2)). -/
theorem prefix_leak_count (m t κ : ℕ) :
    unwiped (proveBufs false true m t κ) = t * (3 + 2 * κ) ∧ unwiped (recoverBufs false t κ) = t * (3 + 2 * κ) := by
  have hn : unwiped (nonceCall false) = 1 := by simp [unwiped, nonceCall]
  have h1 : unwiped (List.replicate (2 * κ + 2) (⟨.nonceVector, 32 * t, true⟩ : Buf)) = 0 := by
    unfold unwiped; simp
  have h2 := unwiped_flatten_replicate (seedDerivations true t κ) (nonceCall false)
  rw [hn] at h2
  have hs := (seedDerivations_eq t κ).1
  constructor
  · unfold proveBufs
    unfold unwiped at *
    simp only [List.filter_cons, Bool.not_true, Bool.false_eq_true, if_false, List.filter_append, List.length_append]
    rw [h1, h2, hs]; ring
  · unfold recoverBufs
    unfold unwiped at *
    simp only [List.filter_cons, Bool.not_true, Bool.false_eq_true, if_false]
    rw [h2, hs]; ring

example : unwiped (proveBufs false true 1 1 3) = 9 ∧ unwiped (proveBufs false true 1 6 3) = 54 ∧ unwiped (proveBufs false true 1 2 6) = 30 := by
  refine ⟨?_, ?_, ?_⟩ <;> rw [(prefix_leak_count _ _ _).1]

end Bpp.LifecycleThm
