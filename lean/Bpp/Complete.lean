import Bpp.Range
import Mathlib.Algebra.Order.Ring.Nat
import Mathlib.Data.Nat.Cast.Basic
open Finset
namespace Bpp
open Model (WipProof RangeInst RangeProofM ProofM bitN)
variable {F : Type} [Field F] {M : Type} [AddCommGroup M] [Module F M]


theorem bitN_le_one (x i : ℕ) : bitN x i = 0 ∨ bitN x i = 1 := by
  unfold bitN; omega

theorem sum_bits (x n : ℕ) : ∑ i ∈ range n, bitN x i * 2 ^ i = x % 2 ^ n := by
  induction n with
  | zero => simp [Nat.mod_one]
  | succ n ih =>
    rw [Finset.sum_range_succ, ih, Nat.mod_pow_succ]
    unfold bitN; ring

/-- the bit vector a_L of the prover: party-major, `n` bits of `off j = v j - p j` each -/
def aLvec (n : ℕ) (off : ℕ → ℕ) (x : ℕ) : F := (bitN (off (x / n)) (x % n) : ℕ)

theorem aLvec_at (n : ℕ) (hn : 0 < n) (off : ℕ → ℕ) (j i : ℕ) (hi : i < n) :
    (aLvec n off (j * n + i) : F) = (bitN (off j) i : ℕ) := by
  unfold aLvec
  have h1 : (j * n + i) / n = j := by
    rw [Nat.add_comm, Nat.add_mul_div_right _ _ hn, Nat.div_eq_of_lt hi, Nat.zero_add]
  have h2 : (j * n + i) % n = i := by
    rw [Nat.add_comm, Nat.add_mul_mod_self_right, Nat.mod_eq_of_lt hi]
  rw [h1, h2]

theorem aLvec_bit (n : ℕ) (off : ℕ → ℕ) (x : ℕ) :
    (aLvec n off x : F) * (aLvec n off x - 1) = 0 := by
  unfold aLvec
  rcases bitN_le_one (off (x / n)) (x % n) with h | h <;> rw [h] <;> simp

theorem aLvec_val (n : ℕ) (hn : 0 < n) (v p : ℕ → ℕ) (j : ℕ)
    (hp : p j ≤ v j) (hv : v j - p j < 2 ^ n) :
    ∑ i ∈ range n, (aLvec n (fun j => v j - p j) (j * n + i) : F) * 2 ^ i = (v j : F) - (p j : F) := by
  have h : ∀ i ∈ range n, (aLvec n (fun j => v j - p j) (j * n + i) : F) * 2 ^ i
      = ((bitN (v j - p j) i * 2 ^ i : ℕ) : F) := by
    intro i hi
    rw [aLvec_at n hn _ j i (Finset.mem_range.mp hi)]
    push_cast; ring
  rw [Finset.sum_congr rfl h, ← Nat.cast_sum, sum_bits, Nat.mod_eq_of_lt hv, Nat.cast_sub hp]


/-- The prover, Math layer (nonces and challenges are inputs). -/
def rangeProve (I : RangeInst F M) (v p : ℕ → ℕ) (r : ℕ → ℕ → F)
    (α : ℕ → F) (dL dR : ℕ → ℕ → F) (rr ss : F) (d η : ℕ → F)
    (y z : F) (es : List F) (e : F) : RangeProofM F M :=
  let N := I.n * I.m
  let aL : ℕ → F := aLvec I.n (fun j => v j - p j)
  { A := dot N aL I.G + dot N (fun i => aL i - 1) I.H + dot I.t α I.Gb
    wipP := wipProve y I.t I.hb I.Gb dL dR rr ss d η e es 0
      (fun i => aL i - z) (fun i => aL i - 1 + dvec z I.n i * y^(N - i) + z) I.G I.H
      (fun k => α k + ∑ j ∈ range I.m, z^(2*(j+1)) * r j k * y^(N + 1)) }

/-- The reference relation (DESIGN §8). -/
def specAccepts (I : RangeInst F M) (π : RangeProofM F M) (y z : F) (es : List F) (e : F) : Prop :=
  wipAccepts y I.t I.hb I.Gb e π.wipP.A1 π.wipP.B π.wipP.r1 π.wipP.s1 π.wipP.d1 es π.wipP.Ls π.wipP.Rs
    I.G I.H (Ahat I y z π.A)

/-- **C01 (reference level).** Every honest proof satisfies the published relation: all bit lengths,
    aggregation factors, extension degrees, values, promises, blindings, nonces, and all challenges with
    `y ≠ 0`, `e_j ≠ 0`. -/
theorem spec_complete (I : RangeInst F M) (hn : 0 < I.n) (v p : ℕ → ℕ) (r : ℕ → ℕ → F)
    (α : ℕ → F) (dL dR : ℕ → ℕ → F) (rr ss : F) (d η : ℕ → F)
    (y z : F) (es : List F) (e : F)
    (hN : I.n * I.m = 2 ^ es.length)
    (hp : ∀ j < I.m, p j ≤ v j) (hv : ∀ j < I.m, v j - p j < 2 ^ I.n)
    (hpF : ∀ j < I.m, I.p j = (p j : F))
    (hV : ∀ j < I.m, I.V j = (v j : F) • I.hb + dot I.t (r j) I.Gb)
    (hy : y ≠ 0) (hes : ∀ x ∈ es, x ≠ 0) :
    specAccepts I (rangeProve I v p r α dL dR rr ss d η y z es e) y z es e := by
  unfold specAccepts rangeProve
  simp only
  rw [range_reduction I hn y z (aLvec I.n (fun j => v j - p j)) α (fun j => (v j : F)) r
    (fun i _ => aLvec_bit I.n _ i)
    (fun j hj => by rw [hpF j hj]; exact aLvec_val I.n hn v p j (hp j hj) (hv j hj))
    hV]
  rw [hN]
  exact wip_complete y hy I.t I.hb I.Gb dL dR rr ss d η e es hes 0 _ _ I.G I.H _

end Bpp
