import Bpp.ScalarsThm
import Mathlib.Tactic.Abel
/-! The whole chunk as coded: per-member scalar vectors accumulated element-wise into shared vectors of the largest
    member's length, dynamic scalars/points concatenated member after member, Pedersen scalars accumulated, one
    multiscalar multiplication over the interleaved zero-padded static scalars and the dynamic ones — evaluates to
    the sum of the members' coded contributions, hence (C02) to `Σ_k w_k • R_spec,k`. -/
open Finset
namespace Bpp
open Model (RangeInst ProofM msmList interleaveL)
variable {F : Type} [Field F] {M : Type} [AddCommGroup M] [Module F M]

/-- one member of a chunk: its statement-side data, proof, challenges and weight -/
structure MemberData (F M : Type) where
  I : RangeInst F M
  π : ProofM F M
  y : F
  z : F
  es : List F
  e : F
  w : F

def MemberData.scalars (x : MemberData F M) : Model.ProofScalars F :=
  Model.proofScalars x.I.n x.I.m x.I.t x.I.p x.π.r1 x.π.s1 x.π.d1 x.y x.z x.es x.e x.w

def MemberData.contribution (x : MemberData F M) : M := Model.codeContribution x.I x.π x.y x.z x.es x.e x.w

/-- the per-member pieces of `scalars_eval`, separately -/
theorem contribution_pieces (x : MemberData F M) (hL : x.π.Ls.length = x.es.length) (hR : x.π.Rs.length = x.es.length) :
    x.contribution =
      msmList x.scalars.gi ((List.range (x.I.n * x.I.m)).map x.I.G) + msmList x.scalars.hi ((List.range (x.I.n * x.I.m)).map x.I.H)
      + msmList x.scalars.dyn (Model.proofPoints x.I.m x.I.V x.π)
      + msmList x.scalars.gb ((List.range x.I.t).map x.I.Gb) + x.scalars.hb • x.I.hb := by
  have h := scalars_eval x.I x.π x.y x.z x.es x.e x.w 0 hL hR
  simp only [Nat.mul_zero, Nat.add_zero] at h
  unfold MemberData.contribution
  rw [← h]
  have hs : Model.staticScalars x.scalars.gi x.scalars.hi 0 = interleaveL x.scalars.gi x.scalars.hi := by
    simp [Model.staticScalars]
  have hgi : x.scalars.gi.length = x.I.n * x.I.m := by simp [MemberData.scalars, Model.proofScalars]
  have hhi : x.scalars.hi.length = x.I.n * x.I.m := by simp [MemberData.scalars, Model.proofScalars]
  have hdyn : x.scalars.dyn.length = (Model.proofPoints x.I.m x.I.V x.π).length := by
    simp [MemberData.scalars, Model.proofScalars, Model.proofPoints, hL, hR]
  have hgb : x.scalars.gb.length = ((List.range x.I.t).map x.I.Gb).length := by
    simp [MemberData.scalars, Model.proofScalars]
  change msmList (Model.staticScalars x.scalars.gi x.scalars.hi 0)
      (interleaveL ((List.range (x.I.n * x.I.m)).map x.I.G) ((List.range (x.I.n * x.I.m)).map x.I.H))
    + msmList (x.scalars.dyn ++ (x.scalars.gb ++ [x.scalars.hb]))
      (Model.proofPoints x.I.m x.I.V x.π ++ ((List.range x.I.t).map x.I.Gb ++ [x.I.hb])) = _
  rw [hs, msmList_interleave _ _ _ _ (by rw [hgi, hhi]) (by simp [hgi]) (by simp [hgi]),
    msmList_append _ _ _ _ hdyn, msmList_append _ _ _ _ hgb]
  simp only [msmList, add_zero]
  abel

theorem msmList_flatten (ss : List (List F)) (pp : List (List M)) (h : List.Forall₂ (fun s p => s.length = p.length) ss pp) :
    msmList ss.flatten pp.flatten = (List.zipWith msmList ss pp).sum := by
  induction h with
  | nil => simp [msmList]
  | cons hsp _ ih =>
    simp only [List.flatten_cons, List.zipWith_cons_cons, List.sum_cons]
    rw [msmList_append _ _ _ _ hsp, ih]

theorem flatten_length_of_forall₂ (ss : List (List F)) (pp : List (List M))
    (h : List.Forall₂ (fun s p => s.length = p.length) ss pp) : ss.flatten.length = pp.flatten.length := by
  induction h with
  | nil => rfl
  | cons hsp _ ih => simp only [List.flatten_cons, List.length_append, hsp, ih]

theorem regroup (ms : List (MemberData F M)) (f1 f2 f4 : MemberData F M → M) (c : MemberData F M → F) (hb : M)
    (ss : MemberData F M → List F) (pp : MemberData F M → List M) :
    (ms.map f1).sum + (ms.map f2).sum
      + ((List.zipWith msmList (ms.map ss) (ms.map pp)).sum + ((ms.map f4).sum + (ms.map c).sum • hb))
    = (ms.map (fun x => f1 x + f2 x + msmList (ss x) (pp x) + f4 x + c x • hb)).sum := by
  induction ms with
  | nil => simp
  | cons x xs ih =>
    simp only [List.map_cons, List.sum_cons, List.zipWith_cons_cons, add_smul]
    rw [← ih]
    abel

theorem take_map_range (G : ℕ → M) (N K : ℕ) (h : N ≤ K) : ((List.range K).map G).take N = (List.range N).map G := by
  rw [← List.map_take, List.take_range, Nat.min_eq_left h]

/-- **C03 / C12 (a whole chunk as coded).** Members share the vector generators, the value generator and the
    blinding generators (checked by the consistency function), may differ in aggregation (`n·m_k ≤ maxN`), and the
    table may have any spare capacity. The single multiscalar multiplication of the chunk equals the sum of the
    members' coded contributions. -/
theorem chunk_eval (ms : List (MemberData F M)) (G H : ℕ → M) (hb : M) (Gb : ℕ → M) (n t maxN extra : ℕ)
    (hshare : ∀ x ∈ ms, x.I.G = G ∧ x.I.H = H ∧ x.I.hb = hb ∧ x.I.Gb = Gb ∧ x.I.n = n ∧ x.I.t = t)
    (hsize : ∀ x ∈ ms, x.I.n * x.I.m ≤ maxN)
    (hL : ∀ x ∈ ms, x.π.Ls.length = x.es.length) (hR : ∀ x ∈ ms, x.π.Rs.length = x.es.length) :
    msmList (Model.staticScalars (Model.accumulate maxN (ms.map (fun x => x.scalars.gi)))
                                 (Model.accumulate maxN (ms.map (fun x => x.scalars.hi))) (2 * extra))
        (interleaveL ((List.range (maxN + extra)).map G) ((List.range (maxN + extra)).map H))
      + msmList ((ms.map (fun x => x.scalars.dyn)).flatten ++
                  (Model.accumulate t (ms.map (fun x => x.scalars.gb)) ++ [(ms.map (fun x => x.scalars.hb)).sum]))
                ((ms.map (fun x => Model.proofPoints x.I.m x.I.V x.π)).flatten ++ ((List.range t).map Gb ++ [hb]))
      = (ms.map MemberData.contribution).sum := by
  have hgi : ∀ x ∈ ms, x.scalars.gi.length = x.I.n * x.I.m := fun x _ => by simp [MemberData.scalars, Model.proofScalars]
  have hhi : ∀ x ∈ ms, x.scalars.hi.length = x.I.n * x.I.m := fun x _ => by simp [MemberData.scalars, Model.proofScalars]
  have hgb : ∀ x ∈ ms, x.scalars.gb.length = x.I.t := fun x _ => by simp [MemberData.scalars, Model.proofScalars]
  have hgiLe : ∀ c ∈ ms.map (fun x => x.scalars.gi), c.length ≤ maxN := by
    intro c hc; obtain ⟨x, hx, rfl⟩ := List.mem_map.mp hc; rw [hgi x hx]; exact hsize x hx
  have hhiLe : ∀ c ∈ ms.map (fun x => x.scalars.hi), c.length ≤ maxN := by
    intro c hc; obtain ⟨x, hx, rfl⟩ := List.mem_map.mp hc; rw [hhi x hx]; exact hsize x hx
  have hgbLe : ∀ c ∈ ms.map (fun x => x.scalars.gb), c.length ≤ t := by
    intro c hc; obtain ⟨x, hx, rfl⟩ := List.mem_map.mp hc; rw [hgb x hx, (hshare x hx).2.2.2.2.2]
  -- static part
  have hstatic : msmList (Model.staticScalars (Model.accumulate maxN (ms.map (fun x => x.scalars.gi)))
        (Model.accumulate maxN (ms.map (fun x => x.scalars.hi))) (2 * extra))
        (interleaveL ((List.range (maxN + extra)).map G) ((List.range (maxN + extra)).map H))
      = (ms.map (fun x => msmList x.scalars.gi ((List.range (x.I.n * x.I.m)).map G))).sum
        + (ms.map (fun x => msmList x.scalars.hi ((List.range (x.I.n * x.I.m)).map H))).sum := by
    unfold Model.staticScalars
    rw [List.range_add, List.map_append, List.map_append,
      interleaveL_append _ _ _ _ (by simp),
      msmList_append _ _ _ _ (by simp [interleaveL_length, accumulate_length maxN _ hgiLe, accumulate_length maxN _ hhiLe]),
      msmList_interleave _ _ _ _ (by rw [accumulate_length maxN _ hgiLe, accumulate_length maxN _ hhiLe])
        (by simp [accumulate_length maxN _ hgiLe]) (by simp [accumulate_length maxN _ hgiLe]),
      msmList_zeros, add_zero,
      accumulate_msm maxN _ _ (by simp) hgiLe, accumulate_msm maxN _ _ (by simp) hhiLe]
    simp only [List.map_map]
    congr 1
    · congr 1
      apply List.map_congr_left
      intro x hx
      simp only [Function.comp]
      rw [hgi x hx, take_map_range G _ _ (hsize x hx)]
    · congr 1
      apply List.map_congr_left
      intro x hx
      simp only [Function.comp]
      rw [hhi x hx, take_map_range H _ _ (hsize x hx)]
  -- dynamic part
  have hforall : List.Forall₂ (fun (s : List F) (p : List M) => s.length = p.length)
      (ms.map (fun x => x.scalars.dyn)) (ms.map (fun x => Model.proofPoints x.I.m x.I.V x.π)) := by
    rw [List.forall₂_map_left_iff, List.forall₂_map_right_iff]
    apply List.forall₂_same.mpr
    intro x hx
    simp [MemberData.scalars, Model.proofScalars, Model.proofPoints, hL x hx, hR x hx]
  have hdynlen := flatten_length_of_forall₂ _ _ hforall
  rw [hstatic, msmList_append _ _ _ _ hdynlen, msmList_flatten _ _ hforall,
    msmList_append _ _ _ _ (by simp [accumulate_length t _ hgbLe]),
    accumulate_msm t _ _ (by simp) hgbLe]
  simp only [msmList, add_zero, List.map_map]
  -- regroup member by member
  have hmember : ∀ x ∈ ms, x.contribution =
      msmList x.scalars.gi ((List.range (x.I.n * x.I.m)).map G) + msmList x.scalars.hi ((List.range (x.I.n * x.I.m)).map H)
      + msmList x.scalars.dyn (Model.proofPoints x.I.m x.I.V x.π)
      + msmList x.scalars.gb (((List.range t).map Gb).take x.scalars.gb.length) + x.scalars.hb • hb := by
    intro x hx
    obtain ⟨h1, h2, h3, h4, _, h6⟩ := hshare x hx
    rw [contribution_pieces x (hL x hx) (hR x hx), h1, h2, h3, h4, hgb x hx, h6]
    congr 2
    rw [List.take_of_length_le (by simp)]
  have hrhs : ms.map MemberData.contribution = ms.map (fun x =>
      msmList x.scalars.gi ((List.range (x.I.n * x.I.m)).map G) + msmList x.scalars.hi ((List.range (x.I.n * x.I.m)).map H)
      + msmList x.scalars.dyn (Model.proofPoints x.I.m x.I.V x.π)
      + msmList x.scalars.gb (((List.range t).map Gb).take x.scalars.gb.length) + x.scalars.hb • hb) :=
    List.map_congr_left hmember
  rw [hrhs]
  exact regroup ms _ _ _ _ hb _ _

end Bpp
