import Model.Alg
import Model.Range
import Bpp.Verdict
import Bpp.RecoveryThm
import Mathlib.Data.Nat.Log
/-! Bridge: every import-free executable definition of `Model/*` (what the native driver runs and the
    correspondence check compares with the Rust code) equals its Math-layer twin (what the theorems are about). -/
open Finset
namespace Bpp
open Model (WipProof RangeInst RangeProofM ProofM bitN)
variable {F : Type} [Field F] {M : Type} [AddCommGroup M] [Module F M]

@[simp] theorem powF_eq (y : F) (n : ℕ) : Model.powF y n = y ^ n := by
  induction n with
  | zero => simp [Model.powF]
  | succ n ih => simp [Model.powF, ih, pow_succ]

@[simp] theorem sumTo_eq {β : Type} [AddCommMonoid β] (n : ℕ) (f : ℕ → β) : Model.sumTo n f = ∑ i ∈ range n, f i := by
  unfold Model.sumTo
  induction n with
  | zero => simp
  | succ n ih => rw [List.range_succ, List.foldl_append, ih, Finset.sum_range_succ]; simp

@[simp] theorem dot_eq (n : ℕ) (a : ℕ → F) (G : ℕ → M) : Model.dot n a G = dot n a G := by
  simp [Model.dot, dot]

@[simp] theorem two_eq : (Model.two : F) = 2 := by
  unfold Model.two; exact one_add_one_eq_two

@[simp] theorem aLvec_eq (n : ℕ) (off : ℕ → ℕ) (x : ℕ) : (Model.aLvec n off x : F) = aLvec n off x := rfl

/-- the executable prover loop *is* the Math-layer prover -/
@[simp] theorem wipProve_bridge (y : F) (t : ℕ) (g : M) (Gb : ℕ → M) (dL dR : ℕ → ℕ → F) (r s : F) (d η : ℕ → F) (e : F)
    (es : List F) (j : ℕ) (a b : ℕ → F) (G H : ℕ → M) (α : ℕ → F) :
    Model.wipProve y t g Gb dL dR r s d η e es j a b G H α
      = wipProve y t g Gb dL dR r s d η e es j a b G H α := by
  induction es generalizing j a b G H α with
  | nil => simp [Model.wipProve, wipProve]
  | cons ej es ih =>
    simp only [Model.wipProve, wipProve]
    simp only [powF_eq, sumTo_eq, dot_eq]
    rw [ih]

@[simp] theorem dCode_bridge (z : F) (n x : ℕ) : Model.dCode z n x = dCode z n x := by
  induction x using Nat.strong_induction_on with
  | _ x ih =>
    cases x with
    | zero => simp [Model.dCode, dCode]
    | succ x =>
      rw [Model.dCode, dCode]
      by_cases h : x + 1 < n
      · simp only [h, if_true, two_eq, ih x (by omega)]
      · by_cases hn : n = 0
        · simp [h, hn]
        · simp only [h, if_false, hn, dite_false, powF_eq]
          rw [ih (x + 1 - n) (by omega)]

@[simp] theorem dSumLoop_bridge (z : F) (k : ℕ) : Model.dSumLoop z k = dSumLoop z k := by
  induction k with
  | zero => simp [Model.dSumLoop, dSumLoop]
  | succ k ih => simp only [Model.dSumLoop, dSumLoop, ih]

theorem prodInv_eq (es : List F) : Model.prodInv es = (es.map (·⁻¹)).prod := by
  induction es with
  | nil => simp [Model.prodInv]
  | cons e es ih => simp [Model.prodInv, ih]

@[simp] theorem sCode_bridge (es : List F) (i : ℕ) : Model.sCode es i = sCode es i := by
  unfold Model.sCode
  induction i using Nat.strong_induction_on with
  | _ i ih =>
    cases i with
    | zero => rw [Model.sCodeFrom, sCode, prodInv_eq]
    | succ i =>
      rw [Model.sCodeFrom, sCode]
      have hpos : 0 < 2 ^ Nat.log 2 (i+1) := Nat.pos_of_ne_zero (by positivity)
      simp only [Nat.log2_eq_log_two, powF_eq]
      rw [ih (i + 1 - 2 ^ Nat.log 2 (i+1)) (by omega)]

@[simp] theorem foldG_bridge (y : F) (es : List F) (G : ℕ → M) : Model.foldG y es G = foldG y es G := by
  induction es generalizing G with
  | nil => rfl
  | cons e es ih => simp only [Model.foldG, foldG, powF_eq, ih]

@[simp] theorem foldH_bridge (es : List F) (H : ℕ → M) : Model.foldH es H = foldH es H := by
  induction es generalizing H with
  | nil => rfl
  | cons e es ih => simp only [Model.foldH, foldH, ih]

@[simp] theorem foldP_bridge (es : List F) (Ls Rs : List M) (P : M) : Model.foldP es Ls Rs P = foldP es Ls Rs P := by
  induction es generalizing Ls Rs P with
  | nil => cases Ls <;> cases Rs <;> simp [Model.foldP, foldP]
  | cons e es ih =>
    cases Ls with
    | nil => simp [Model.foldP, foldP]
    | cons L Ls =>
      cases Rs with
      | nil => simp [Model.foldP, foldP]
      | cons R Rs => simp only [Model.foldP, foldP, powF_eq, ih]

theorem zipSum_eq (f : F → M → M) (es : List F) (Ls : List M) :
    Model.zipSum f es Ls = (List.zipWith f es Ls).sum := by
  induction es generalizing Ls with
  | nil => simp [Model.zipSum]
  | cons c cs ih =>
    cases Ls with
    | nil => simp [Model.zipSum]
    | cons L Ls => simp [Model.zipSum, ih]

@[simp] theorem Ahat_bridge (I : RangeInst F M) (y z : F) (A : M) : Model.Ahat I y z A = Ahat I y z A := by
  simp only [Model.Ahat, Ahat, powF_eq, sumTo_eq, dot_eq, two_eq, dvec]

@[simp] theorem specResidual_bridge (I : RangeInst F M) (π : ProofM F M) (y z : F) (es : List F) (e : F) :
    Model.specResidual I π y z es e = specResidual I π y z es e := by
  simp only [Model.specResidual, specResidual, powF_eq, dot_eq, foldG_bridge, foldH_bridge, foldP_bridge, Ahat_bridge]

@[simp] theorem codeContribution_bridge (I : RangeInst F M) (π : ProofM F M) (y z : F) (es : List F) (e w : F) :
    Model.codeContribution I π y z es e w = codeContribution I π y z es e w := by
  simp only [Model.codeContribution, codeContribution, powF_eq, sumTo_eq, dot_eq, two_eq, zipSum_eq,
    Nat.log2_eq_log_two]
  have hs : Model.sCode es = sCode es := funext (sCode_bridge es)
  have hd : Model.dCode z I.n = dCode z I.n := funext (dCode_bridge z I.n)
  rw [hs, hd, dSumLoop_bridge]

@[simp] theorem roundNonceSum_bridge (dL dR : ℕ → ℕ → F) (es : List F) (j k : ℕ) :
    Model.roundNonceSum dL dR es j k = roundNonceSum dL dR es j k := by
  induction es generalizing j with
  | nil => rfl
  | cons e es ih => simp only [Model.roundNonceSum, roundNonceSum, powF_eq, ih]

@[simp] theorem recoverMask_bridge (N : ℕ) (α0 d η : ℕ → F) (dL dR : ℕ → ℕ → F) (y z : F) (es : List F) (e : F)
    (d1 : ℕ → F) (k : ℕ) :
    Model.recoverMask N α0 d η dL dR y z es e d1 k = recoverMask N α0 d η dL dR y z es e d1 k := by
  simp only [Model.recoverMask, recoverMask, powF_eq, roundNonceSum_bridge]

/-- the executable prover equals the Math-layer prover (which uses the closed form of `d`) -/
theorem rangeProve_bridge (I : RangeInst F M) (hn : 0 < I.n) (v p : ℕ → ℕ) (r : ℕ → ℕ → F)
    (α : ℕ → F) (dL dR : ℕ → ℕ → F) (rr ss : F) (d η : ℕ → F) (y z : F) (es : List F) (e : F) :
    Model.rangeProve I v p r α dL dR rr ss d η y z es e = rangeProve I v p r α dL dR rr ss d η y z es e := by
  simp only [Model.rangeProve, rangeProve, powF_eq, sumTo_eq, dot_eq, wipProve_bridge, dCode_bridge]
  have hd : ∀ i, dCode z I.n i = dvec z I.n i := dCode_eq_dvec z I.n hn
  simp only [hd]
  rfl

end Bpp
