import Bpp.Verdict
open Finset
namespace Bpp
open Model (WipProof RangeInst RangeProofM ProofM bitN)
variable {F : Type} [Field F] {M : Type} [AddCommGroup M] [Module F M]

/-- the blinding accumulated over the rounds -/
def alphaFinal (dL dR : ℕ → ℕ → F) : List F → ℕ → (ℕ → F) → (ℕ → F)
  | [], _, α => α
  | ej :: es, j, α => alphaFinal dL dR es (j+1) (fun k => α k + dL j k * ej^2 + dR j k * (ej⁻¹)^2)

theorem wipProve_d1 (y : F) (t : ℕ) (g : M) (Gb : ℕ → M) (dL dR : ℕ → ℕ → F) (r s : F) (d η : ℕ → F) (e : F)
    (es : List F) (j : ℕ) (a b : ℕ → F) (G H : ℕ → M) (α : ℕ → F) (k : ℕ) :
    (wipProve y t g Gb dL dR r s d η e es j a b G H α).d1 k
      = η k + d k * e + alphaFinal dL dR es j α k * e^2 := by
  induction es generalizing j a b G H α with
  | nil => simp [wipProve, alphaFinal]
  | cons ej es ih => simp only [wipProve, alphaFinal]; exact ih _ _ _ _ _ _

/-- Σ_j over the rounds of the nonce terms, as the verifier recomputes them -/
def roundNonceSum (dL dR : ℕ → ℕ → F) : List F → ℕ → ℕ → F
  | [], _, _ => 0
  | ej :: es, j, k => dL j k * ej^2 + dR j k * (ej⁻¹)^2 + roundNonceSum dL dR es (j+1) k

theorem alphaFinal_eq (dL dR : ℕ → ℕ → F) (es : List F) (j : ℕ) (α : ℕ → F) (k : ℕ) :
    alphaFinal dL dR es j α k = α k + roundNonceSum dL dR es j k := by
  induction es generalizing j α with
  | nil => simp [alphaFinal, roundNonceSum]
  | cons ej es ih => simp only [alphaFinal, roundNonceSum]; rw [ih]; ring

/-- the verifier's mask recovery formula (src/range_proof.rs:943-957), single commitment -/
def recoverMask (N : ℕ) (α0 d η : ℕ → F) (dL dR : ℕ → ℕ → F) (y z : F) (es : List F) (e : F) (d1 : ℕ → F) (k : ℕ) : F :=
  ((d1 k - η k - e * d k) * (e^2)⁻¹ - α0 k - roundNonceSum dL dR es 0 k) * (z^2 * (y^N * y))⁻¹

/-- **C09.** Recovery returns the blinding factor of the commitment, component by component, whatever the
    nonce family is, for every bit length, extension degree and number of rounds. -/
theorem recover_correct (I : RangeInst F M) (hm : I.m = 1) (v p : ℕ → ℕ) (r : ℕ → ℕ → F)
    (α0 : ℕ → F) (dL dR : ℕ → ℕ → F) (rr ss : F) (d η : ℕ → F)
    (y z : F) (es : List F) (e : F) (hy : y ≠ 0) (hz : z ≠ 0) (he : e ≠ 0) (k : ℕ) :
    recoverMask (I.n * I.m) α0 d η dL dR y z es e
      (rangeProve I v p r α0 dL dR rr ss d η y z es e).wipP.d1 k = r 0 k := by
  unfold recoverMask rangeProve
  simp only
  rw [wipProve_d1, alphaFinal_eq, hm]
  simp only [Finset.sum_range_one, mul_one, zero_add]
  have hyN : y ^ I.n ≠ 0 := pow_ne_zero _ hy
  rw [pow_succ y I.n]
  field_simp
  ring

/-- **C10.** With another nonce family (another seed) the recovered value is the true mask plus an explicit
    linear form in the nonce differences. -/
theorem recover_wrong_seed (I : RangeInst F M) (hm : I.m = 1) (v p : ℕ → ℕ) (r : ℕ → ℕ → F)
    (α0 α0' : ℕ → F) (dL dR dL' dR' : ℕ → ℕ → F) (rr ss : F) (d η d' η' : ℕ → F)
    (y z : F) (es : List F) (e : F) (hy : y ≠ 0) (hz : z ≠ 0) (he : e ≠ 0) (k : ℕ) :
    recoverMask (I.n * I.m) α0' d' η' dL' dR' y z es e
      (rangeProve I v p r α0 dL dR rr ss d η y z es e).wipP.d1 k
      = r 0 k + (((η k - η' k) + e * (d k - d' k)) * (e^2)⁻¹ + (α0 k - α0' k)
          + (roundNonceSum dL dR es 0 k - roundNonceSum dL' dR' es 0 k)) * (z^2 * (y^(I.n * I.m) * y))⁻¹ := by
  unfold recoverMask rangeProve
  simp only
  rw [wipProve_d1, alphaFinal_eq, hm]
  simp only [Finset.sum_range_one, mul_one, zero_add]
  have hyN : y ^ I.n ≠ 0 := pow_ne_zero _ hy
  rw [pow_succ y I.n]
  field_simp
  ring

end Bpp
