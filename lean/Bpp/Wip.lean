import Bpp.Basic
open Finset
namespace Bpp
open Model (WipProof RangeInst RangeProofM ProofM bitN)
variable {F : Type} [Field F] {M : Type} [AddCommGroup M] [Module F M]

/-- One folding round, `t` blinding coordinates. `ei`, `yni` are the inverses the code computes. -/
theorem fold_round (y e ei yni : F) (n t : ℕ) (hei : e * ei = 1) (hyni : y^n * yni = 1)
    (a b : ℕ → F) (G H : ℕ → M) (g : M) (Gb : ℕ → M) (α dL dR : ℕ → F) :
    let cL := ∑ i ∈ range n, a i * y^(i+1) * b (n+i)
    let cR := ∑ i ∈ range n, a (n+i) * y^(n+i+1) * b i
    let L : M := cL • g + dot t dL Gb + dot n (fun i => a i * yni) (fun i => G (n+i)) + dot n (fun i => b (n+i)) H
    let R : M := cR • g + dot t dR Gb + dot n (fun i => a (n+i) * y^n) G + dot n b (fun i => H (n+i))
    let G' : ℕ → M := fun i => ei • G i + (e * yni) • G (n+i)
    let H' : ℕ → M := fun i => e • H i + ei • H (n+i)
    let a' : ℕ → F := fun i => a i * e + a (n+i) * y^n * ei
    let b' : ℕ → F := fun i => b i * ei + b (n+i) * e
    (e^2) • L + Pcom y (n+n) t a b G H g α Gb + (ei^2) • R
      = Pcom y n t a' b' G' H' g (fun k => α k + dL k * e^2 + dR k * ei^2) Gb := by
  intro cL cR L R G' H' a' b'
  have hw : wip y n a' b' = wip y n a b + e^2 * cL + ei^2 * cR
        + ∑ i ∈ range n, a (n+i) * y^(n+i+1) * b (n+i) := by
    simp only [wip, cL, cR, a', b', Finset.mul_sum, ← Finset.sum_add_distrib]
    apply Finset.sum_congr rfl; intro i _
    have : y^(n+i+1) = y^n * y^(i+1) := by ring
    rw [this]
    linear_combination (a i * y^(i+1) * b i + a (n+i) * y^n * y^(i+1) * b (n+i)) * hei
  have hG : dot n a' G' = dot n a G + (ei^2) • dot n (fun i => a (n+i) * y^n) G
      + (e^2) • dot n (fun i => a i * yni) (fun i => G (n+i)) + dot n (fun i => a (n+i)) (fun i => G (n+i)) := by
    simp only [dot, a', G', Finset.smul_sum, ← Finset.sum_add_distrib]
    apply Finset.sum_congr rfl; intro i _
    simp only [smul_add, smul_smul]
    have e1 : ((a i * e + a (n + i) * y ^ n * ei) * ei) = a i + ei^2 * (a (n+i) * y^n) := by
      linear_combination (a i) * hei
    have e2 : ((a i * e + a (n + i) * y ^ n * ei) * (e * yni)) = e^2 * (a i * yni) + a (n+i) := by
      linear_combination (a (n+i) * y^n * yni) * hei + a (n+i) * hyni
    rw [e1, e2]
    module
  have hH : dot n b' H' = dot n b H + (e^2) • dot n (fun i => b (n+i)) H
      + (ei^2) • dot n b (fun i => H (n+i)) + dot n (fun i => b (n+i)) (fun i => H (n+i)) := by
    simp only [dot, b', H', Finset.smul_sum, ← Finset.sum_add_distrib]
    apply Finset.sum_congr rfl; intro i _
    simp only [smul_add, smul_smul]
    have e1 : ((b i * ei + b (n + i) * e) * e) = b i + e^2 * b (n+i) := by
      linear_combination (b i) * hei
    have e2 : ((b i * ei + b (n + i) * e) * ei) = ei^2 * b i + b (n+i) := by
      linear_combination (b (n+i)) * hei
    rw [e1, e2]
    module
  have hα : dot t (fun k => α k + dL k * e^2 + dR k * ei^2) Gb
      = dot t α Gb + (e^2) • dot t dL Gb + (ei^2) • dot t dR Gb := by
    simp only [dot, Finset.smul_sum, ← Finset.sum_add_distrib]
    apply Finset.sum_congr rfl; intro k _
    simp only [smul_smul]; module
  simp only [Pcom, dot_split, wip_split, hw, hG, hH, hα, L, R]
  module


/-- Prover as coded (rounds as structural recursion on the list of round challenges, first round first;
    vectors have length `2 ^ es.length`). `j` is the index of the current round; `dL j k`, `dR j k` the
    round nonces, `r s d η` the final-round nonces, `e` the final challenge. -/
def wipProve (y : F) (t : ℕ) (g : M) (Gb : ℕ → M) (dL dR : ℕ → ℕ → F) (r s : F) (d η : ℕ → F) (e : F) :
    List F → ℕ → (ℕ → F) → (ℕ → F) → (ℕ → M) → (ℕ → M) → (ℕ → F) → WipProof F M
  | [], _, a, b, G, H, α =>
      { Ls := [], Rs := []
        A1 := r • G 0 + s • H 0 + (r * y * b 0 + s * y * a 0) • g + dot t d Gb
        B := (r * y * s) • g + dot t η Gb
        r1 := r + a 0 * e, s1 := s + b 0 * e
        d1 := fun k => η k + d k * e + α k * e^2 }
  | ej :: es, j, a, b, G, H, α =>
      let n := 2 ^ es.length
      let yni := (y^n)⁻¹
      let ei := ej⁻¹
      let cL := ∑ i ∈ range n, a i * y^(i+1) * b (n+i)
      let cR := ∑ i ∈ range n, a (n+i) * y^(n+i+1) * b i
      let L : M := cL • g + dot t (dL j) Gb + dot n (fun i => a i * yni) (fun i => G (n+i)) + dot n (fun i => b (n+i)) H
      let R : M := cR • g + dot t (dR j) Gb + dot n (fun i => a (n+i) * y^n) G + dot n b (fun i => H (n+i))
      let π := wipProve y t g Gb dL dR r s d η e es (j+1)
                (fun i => a i * ej + a (n+i) * y^n * ei) (fun i => b i * ei + b (n+i) * ej)
                (fun i => ei • G i + (ej * yni) • G (n+i)) (fun i => ej • H i + ei • H (n+i))
                (fun k => α k + dL j k * ej^2 + dR j k * ei^2)
      { π with Ls := L :: π.Ls, Rs := R :: π.Rs }

/-- Reference verifier of the zk-WIP argument: fold `P` and the generators round by round, then the final check. -/
def wipAccepts (y : F) (t : ℕ) (g : M) (Gb : ℕ → M) (e : F) (A1 B : M) (r1 s1 : F) (d1 : ℕ → F) :
    List F → List M → List M → (ℕ → M) → (ℕ → M) → M → Prop
  | [], [], [], G, H, P =>
      e^2 • P + e • A1 + B = (r1 * e) • G 0 + (s1 * e) • H 0 + (r1 * y * s1) • g + dot t d1 Gb
  | ej :: es, L :: Ls, R :: Rs, G, H, P =>
      let n := 2 ^ es.length
      wipAccepts y t g Gb e A1 B r1 s1 d1 es Ls Rs
        (fun i => ej⁻¹ • G i + (ej * (y^n)⁻¹) • G (n+i)) (fun i => ej • H i + ej⁻¹ • H (n+i))
        (ej^2 • L + P + (ej⁻¹)^2 • R)
  | _, _, _, _, _, _ => False

theorem wip_complete (y : F) (hy : y ≠ 0) (t : ℕ) (g : M) (Gb : ℕ → M) (dL dR : ℕ → ℕ → F)
    (r s : F) (d η : ℕ → F) (e : F)
    (es : List F) (hes : ∀ x ∈ es, x ≠ 0) (j : ℕ) (a b : ℕ → F) (G H : ℕ → M) (α : ℕ → F) :
    let π := wipProve y t g Gb dL dR r s d η e es j a b G H α
    wipAccepts y t g Gb e π.A1 π.B π.r1 π.s1 π.d1 es π.Ls π.Rs G H
      (Pcom y (2 ^ es.length) t a b G H g α Gb) := by
  induction es generalizing j a b G H α with
  | nil =>
    simp only [wipProve, wipAccepts, Pcom, wip, List.length_nil, pow_zero]
    have hd : dot t (fun k => η k + d k * e + α k * e ^ 2) Gb
        = dot t η Gb + e • dot t d Gb + (e^2) • dot t α Gb := by
      simp only [dot, Finset.smul_sum, ← Finset.sum_add_distrib]
      apply Finset.sum_congr rfl; intro k _
      simp only [smul_smul]; module
    rw [hd]
    simp only [dot, Finset.sum_range_one, zero_add, pow_one]
    module
  | cons ej es ih =>
    have hej : ej ≠ 0 := hes ej (by simp)
    have hes' : ∀ x ∈ es, x ≠ 0 := fun x hx => hes x (by simp [hx])
    have hyn : y ^ (2 ^ es.length) ≠ 0 := pow_ne_zero _ hy
    simp only [wipProve, wipAccepts, List.length_cons]
    have h2 : 2 ^ (es.length + 1) = 2 ^ es.length + 2 ^ es.length := by ring
    rw [h2]
    have key := fold_round (M := M) y ej ej⁻¹ (y ^ (2 ^ es.length))⁻¹ (2 ^ es.length) t
      (mul_inv_cancel₀ hej) (mul_inv_cancel₀ hyn) a b G H g Gb α (dL j) (dR j)
    simp only at key
    rw [key]
    exact ih hes' _ _ _ _ _ _

end Bpp
