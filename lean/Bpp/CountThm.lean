import Bpp.Basic
import Mathlib.Data.Fintype.BigOperators
import Mathlib.Data.Fintype.Pi
/-! Counting form of batch soundness: how many weight vectors can make the weighted sum of the members' residuals
    vanish when some residual is not zero. -/
open Finset

namespace Bpp
variable {F : Type} [Field F] [Fintype F] [DecidableEq F] {M : Type} [AddCommGroup M] [Module F M] [DecidableEq M]

/-- **Counting form of batch soundness.** If at least one of `k` residuals is non-zero, at most `|F|^(k-1)` of the
    `|F|^k` weight vectors make the weighted sum vanish (the solutions inject into the weight vectors with the
    coordinate of a non-zero residual forgotten). -/
theorem cancelling_weights_card (k : ℕ) (R : Fin k → M) (i0 : Fin k) (h0 : R i0 ≠ 0) :
    (Finset.univ.filter (fun w : Fin k → F => ∑ i, w i • R i = 0)).card ≤ Fintype.card F ^ (k - 1) := by
  classical
  have hinj : Set.InjOn (fun (w : Fin k → F) (j : {j : Fin k // j ≠ i0}) => w j.1)
      (Finset.univ.filter (fun w : Fin k → F => ∑ i, w i • R i = 0) : Finset (Fin k → F)) := by
    intro w hw w' hw' heq
    simp only [Finset.coe_filter, Finset.mem_univ, true_and, Set.mem_setOf_eq] at hw hw'
    have hagree : ∀ j, j ≠ i0 → w j = w' j := fun j hj => congrFun heq ⟨j, hj⟩
    have hdiff : (w i0 - w' i0) • R i0 = 0 := by
      have e : ∑ i, (w i - w' i) • R i = 0 := by
        simp only [sub_smul, Finset.sum_sub_distrib, hw, hw', sub_zero]
      rw [Finset.sum_eq_single i0] at e
      · exact e
      · intro j _ hj; rw [hagree j hj, sub_self, zero_smul]
      · intro h; exact absurd (Finset.mem_univ i0) h
    have : w i0 = w' i0 := by
      rcases smul_eq_zero.mp hdiff with h | h
      · exact sub_eq_zero.mp h
      · exact absurd h h0
    funext j
    by_cases hj : j = i0
    · rw [hj]; exact this
    · exact hagree j hj
  have := Finset.card_le_card_of_injOn _ (fun w _ => Finset.mem_univ _) hinj
  refine this.trans ?_
  rw [Finset.card_univ, Fintype.card_fun, Fintype.card_subtype_compl, Fintype.card_fin]
  simp

end Bpp
