import Bpp.Basic
import Mathlib.Data.Fintype.BigOperators
import Mathlib.Data.Fintype.Pi
import Mathlib.LinearAlgebra.Basis.VectorSpace
import Mathlib.LinearAlgebra.Pi
/-! Counting form of batch soundness: how many weight vectors can make the weighted sum of the members' residuals
    vanish when some residual is not zero. -/
open Finset

namespace Bpp
variable {F : Type} [Field F] [Fintype F] [DecidableEq F] {M : Type} [AddCommGroup M] [Module F M] [DecidableEq M]

/-- **Counting form of batch soundness.** If at least one of `k` residuals is non-zero, at most `|F|^(k-1)` of the
    `|F|^k` weight vectors make the weighted sum vanish (the solutions inject into the weight vectors with the
    coordinate of a non-zero residual forgotten). -/
theorem cancelling_weights_card (k : ℕ) (R : Fin k → M) (i0 : Fin k) (h0 : R i0 ≠ 0) :
    (Finset.univ.filter (fun w : Fin k → F => ∑ i, w i • R i = 0)).card ≤ Fintype.card F ^ (k - 1) := by
  classical
  have hinj : Set.InjOn (fun (w : Fin k → F) (j : {j : Fin k // j ≠ i0}) => w j.1)
      (Finset.univ.filter (fun w : Fin k → F => ∑ i, w i • R i = 0) : Finset (Fin k → F)) := by
    intro w hw w' hw' heq
    simp only [Finset.coe_filter, Finset.mem_univ, true_and, Set.mem_setOf_eq] at hw hw'
    have hagree : ∀ j, j ≠ i0 → w j = w' j := fun j hj => congrFun heq ⟨j, hj⟩
    have hdiff : (w i0 - w' i0) • R i0 = 0 := by
      have e : ∑ i, (w i - w' i) • R i = 0 := by
        simp only [sub_smul, Finset.sum_sub_distrib, hw, hw', sub_zero]
      rw [Finset.sum_eq_single i0] at e
      · exact e
      · intro j _ hj; rw [hagree j hj, sub_self, zero_smul]
      · intro h; exact absurd (Finset.mem_univ i0) h
    have : w i0 = w' i0 := by
      rcases smul_eq_zero.mp hdiff with h | h
      · exact sub_eq_zero.mp h
      · exact absurd h h0
    funext j
    by_cases hj : j = i0
    · rw [hj]; exact this
    · exact hagree j hj
  have := Finset.card_le_card_of_injOn _ (fun w _ => Finset.mem_univ _) hinj
  refine this.trans ?_
  rw [Finset.card_univ, Fintype.card_fun, Fintype.card_subtype_compl, Fintype.card_fin]
  simp

/-- **Cancellation over any number of members.** Let `W r` be the vector of the members' factors on run `r` (one
    run per choice of the batch's contents). A fixed non-zero vector of defects `E` that the factors annihilate on every
    run exists exactly when the factor vectors do not span the whole space: factors that depend on the batch through
    fewer independent quantities than there are members (a progression `a + i*b`, a short period) admit such an `E`,
    independent draws (and the powers of one draw) do not. -/
theorem fixed_cancel_iff_not_spanning {F : Type} [Field F] {ι : Type} (k : ℕ) (W : ι → (Fin k → F)) :
    (∃ E : Fin k → F, E ≠ 0 ∧ ∀ r, ∑ i, W r i * E i = 0) ↔ Submodule.span F (Set.range W) ≠ ⊤ := by
  constructor
  · rintro ⟨E, hE, hW⟩ htop
    apply hE
    let f : (Fin k → F) →ₗ[F] F :=
      { toFun := fun v => ∑ i, v i * E i
        map_add' := by intro a b; simp [add_mul, Finset.sum_add_distrib]
        map_smul' := by intro c a; simp [Finset.mul_sum, mul_assoc] }
    have hle : Submodule.span F (Set.range W) ≤ LinearMap.ker f := by
      rw [Submodule.span_le]; rintro _ ⟨r, rfl⟩; exact hW r
    rw [htop] at hle
    funext i
    have := hle (Submodule.mem_top (x := Pi.single i (1 : F)))
    simpa [f, Pi.single_apply] using this
  · intro hne
    obtain ⟨f, hf, hle⟩ := Submodule.exists_le_ker_of_lt_top _ (lt_top_iff_ne_top.mpr hne)
    refine ⟨fun i => f (Pi.single i 1), ?_, ?_⟩
    · intro h0
      apply hf
      ext i
      simpa using congrFun h0 i
    · intro r
      have := hle (Submodule.subset_span ⟨r, rfl⟩)
      rw [LinearMap.mem_ker, LinearMap.pi_apply_eq_sum_univ] at this
      simp only [smul_eq_mul] at this
      convert this using 3
      show f (Pi.single _ 1) = _
      congr 1; funext j; simp [Pi.single_apply, eq_comm]

end Bpp
