import Bpp.Complete
import Bpp.SVector
import Bpp.ClosedForms
open Finset
namespace Bpp
open Model (WipProof RangeInst RangeProofM ProofM bitN)
variable {F : Type} [Field F] {M : Type} [AddCommGroup M] [Module F M]


/-- Reference residual `R_spec = RHS − LHS` of DESIGN §8, with explicit folds. -/
def specResidual (I : RangeInst F M) (π : ProofM F M) (y z : F) (es : List F) (e : F) : M :=
  ((π.r1 * e) • foldG y es I.G 0 + (π.s1 * e) • foldH es I.H 0 + (π.r1 * y * π.s1) • I.hb + dot I.t π.d1 I.Gb)
    - (e^2 • foldP es π.Ls π.Rs (Ahat I y z π.A) + e • π.A1 + π.B)

/-- Everything the coded verifier adds to its accumulators for one proof with weight `w`
    (src/range_proof.rs:853-1030), using the quantities exactly as the code computes them. -/
def codeContribution (I : RangeInst F M) (π : ProofM F M) (y z : F) (es : List F) (e w : F) : M :=
  let N := I.n * I.m
  let s := sCode es
  let d := dCode z I.n
  let yinv := y⁻¹
  let ynm := y ^ N
  let ynm1 := ynm * y
  let ysum := y * (ynm - 1) * (y - 1)⁻¹
  let dsum := (dSumLoop z (Nat.log 2 I.m)).1 * (2 ^ I.n - 1)
  let e2 := e ^ 2
  dot N (fun i => w * (π.r1 * e * yinv ^ i * s i + e2 * z)) I.G
  + dot N (fun i => w * (π.s1 * e * s (N - 1 - i) - e2 * (d i * (ynm * yinv ^ i) + z))) I.H
  + (∑ j ∈ range I.m, (w * (-e2 * z ^ (2 * (j + 1)) * ynm1)) • I.V j)
  + ((-∑ j ∈ range I.m, (w * (-e2 * z ^ (2 * (j + 1)) * ynm1)) * I.p j)
      + w * (π.r1 * y * π.s1 + e2 * (ynm1 * z * dsum + (z ^ 2 - z) * ysum))) • I.hb
  + dot I.t (fun k => w * π.d1 k) I.Gb
  + (w * (-e)) • π.A1 + (-w) • π.B + (w * (-e2)) • π.A
  + (List.zipWith (fun c L => (w * -e2 * c ^ 2) • L) es π.Ls).sum
  + (List.zipWith (fun c R => (w * -e2 * (c⁻¹) ^ 2) • R) es π.Rs).sum

theorem zipWith_smul_sum (c : F) (f : F → F) (es : List F) (Ls : List M) :
    (List.zipWith (fun x L => (c * f x) • L) es Ls).sum = c • (List.zipWith (fun x L => f x • L) es Ls).sum := by
  induction es generalizing Ls with
  | nil => simp
  | cons x es ih =>
    cases Ls with
    | nil => simp
    | cons L Ls => simp only [List.zipWith_cons_cons, List.sum_cons, ih, smul_add, smul_smul]

/-- **C02 (core identity).** For arbitrary proof elements and scalars, the coded contribution is `w` times the
    reference residual. -/
theorem contribution_eq (I : RangeInst F M) (hn : 0 < I.n) (π : ProofM F M) (y z : F) (es : List F) (e w : F)
    (k : ℕ) (hm : I.m = 2 ^ k) (hN : I.n * I.m = 2 ^ es.length)
    (hL : π.Ls.length = es.length) (hR : π.Rs.length = es.length)
    (hy0 : y ≠ 0) (hy1 : y ≠ 1) (hes : ∀ x ∈ es, x ≠ 0) :
    codeContribution I π y z es e w = w • specResidual I π y z es e := by
  have hlog : Nat.log 2 I.m = k := by rw [hm]; exact Nat.log_pow (by norm_num) k
  unfold codeContribution specResidual
  simp only [hlog]
  rw [foldG_closed, foldH_closed, foldP_closed es π.Ls π.Rs _ hL hR, ← hN]
  simp only [Ahat]
  set N := I.n * I.m with hNdef
  have hNk : N = I.n * 2 ^ k := by rw [hNdef, hm]
  -- G part
  have hGpart : dot N (fun i => w * (π.r1 * e * y⁻¹ ^ i * sCode es i + e ^ 2 * z)) I.G
      = (w * (π.r1 * e)) • (∑ i ∈ range N, ((y ^ i)⁻¹ * sProd es i) • I.G i)
        - (w * e ^ 2) • dot N (fun _ => -z) I.G := by
    simp only [dot, Finset.smul_sum, smul_smul, ← Finset.sum_sub_distrib, ← sub_smul]
    apply Finset.sum_congr rfl; intro i hi
    have hiN : i < 2 ^ es.length := by rw [← hN]; exact Finset.mem_range.mp hi
    rw [sCode_eq_sProd es hes i hiN, inv_pow]
    congr 1; ring
  -- H part
  have hHpart : dot N (fun i => w * (π.s1 * e * sCode es (N - 1 - i)
        - e ^ 2 * (dCode z I.n i * (y ^ N * y⁻¹ ^ i) + z))) I.H
      = (w * (π.s1 * e)) • (∑ i ∈ range N, tProd es i • I.H i)
        - (w * e ^ 2) • dot N (fun i => dvec z I.n i * y ^ (N - i) + z) I.H := by
    simp only [dot, Finset.smul_sum, smul_smul, ← Finset.sum_sub_distrib, ← sub_smul]
    apply Finset.sum_congr rfl; intro i hi
    have hiN' : i < N := Finset.mem_range.mp hi
    have hiN : i < 2 ^ es.length := by rw [← hN]; exact hiN'
    rw [tProd_eq_sProd_rev es i hiN, ← hN,
      sCode_eq_sProd es hes (N - 1 - i) (by rw [← hN]; omega),
      dCode_eq_dvec z I.n hn, yNm_code y hy0 N i (by omega)]
    congr 1; ring
  -- commitments and promises
  have hV : (∑ j ∈ range I.m, (w * (-e ^ 2 * z ^ (2 * (j + 1)) * (y ^ N * y))) • I.V j)
      - (∑ j ∈ range I.m, (w * (-e ^ 2 * z ^ (2 * (j + 1)) * (y ^ N * y))) * I.p j) • I.hb
      = (-(w * e ^ 2)) • ∑ j ∈ range I.m, (y ^ (N + 1) * z ^ (2 * (j + 1))) • (I.V j - I.p j • I.hb) := by
    rw [Finset.sum_smul, ← Finset.sum_sub_distrib, Finset.smul_sum]
    apply Finset.sum_congr rfl; intro j _
    rw [pow_succ]; module
  -- closed forms
  have hds : (dSumLoop z k).1 * (2 ^ I.n - 1) = ∑ x ∈ range N, dvec z I.n x := by
    rw [hNk]; exact dSum_code z I.n k hn
  have hys : y * (y ^ N - 1) * (y - 1)⁻¹ = ∑ i ∈ range N, y ^ (i + 1) := ySum_code y hy1 N
  -- L / R terms
  have hLs : (List.zipWith (fun c L => (w * -e ^ 2 * c ^ 2) • L) es π.Ls).sum
      = (w * -e ^ 2) • (List.zipWith (fun c L => c ^ 2 • L) es π.Ls).sum :=
    zipWith_smul_sum (w * -e ^ 2) (fun c => c ^ 2) es π.Ls
  have hRs : (List.zipWith (fun c R => (w * -e ^ 2 * c⁻¹ ^ 2) • R) es π.Rs).sum
      = (w * -e ^ 2) • (List.zipWith (fun c R => c⁻¹ ^ 2 • R) es π.Rs).sum :=
    zipWith_smul_sum (w * -e ^ 2) (fun c => c⁻¹ ^ 2) es π.Rs
  have hd1 : dot I.t (fun k => w * π.d1 k) I.Gb = w • dot I.t π.d1 I.Gb := dot_smul _ _ _ _
  rw [hGpart, hHpart, hds, hys, hLs, hRs, hd1]
  -- isolate the commitment / promise block, then the rest is linear algebra over atoms
  have hsplit : ∀ (X Y : M) (a b : F), X + (-a + b) • I.hb = (X - a • I.hb) + b • I.hb := by
    intro X Y a b; module
  generalize hSV : (∑ j ∈ range I.m, (w * (-e ^ 2 * z ^ (2 * (j + 1)) * (y ^ N * y))) • I.V j) = SV at hV ⊢
  generalize hSP : (∑ j ∈ range I.m, (w * (-e ^ 2 * z ^ (2 * (j + 1)) * (y ^ N * y))) * I.p j) = SP at hV ⊢
  generalize hSC : (∑ j ∈ range I.m, (y ^ (N + 1) * z ^ (2 * (j + 1))) • (I.V j - I.p j • I.hb)) = SC at hV ⊢
  have hSV' : SV = (-(w * e ^ 2)) • SC + SP • I.hb := by rw [← hV]; module
  rw [hSV', pow_succ y N]
  module

end Bpp
