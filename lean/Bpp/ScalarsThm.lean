import Model.VerifierScalars
import Bpp.Bridge
/-! The scalar lists the verifier hands to its final multiscalar multiplication (static: interleaved, zero-padded;
    dynamic: per-proof terms then the Pedersen generators) evaluate to `Model.codeContribution`. Together with
    `C02_contribution_eq` this connects the *lists as coded* to `w • R_spec`. -/
open Finset
namespace Bpp
open Model (RangeInst ProofM msmList interleaveL)
variable {F : Type} [Field F] {M : Type} [AddCommGroup M] [Module F M]

theorem msmList_nil_left (ps : List M) : msmList ([] : List F) ps = 0 := by cases ps <;> rfl
theorem msmList_nil_right (ss : List F) : msmList ss ([] : List M) = 0 := by cases ss <;> rfl

theorem msmList_append (as bs : List F) (ps qs : List M) (h : as.length = ps.length) :
    msmList (as ++ bs) (ps ++ qs) = msmList as ps + msmList bs qs := by
  induction as generalizing ps with
  | nil => cases ps with
    | nil => simp [msmList]
    | cons _ _ => simp at h
  | cons a as ih => cases ps with
    | nil => simp at h
    | cons p ps =>
      simp only [List.cons_append, msmList]
      rw [ih ps (by simpa using h), add_assoc]

theorem msmList_zeros (k : ℕ) (ps : List M) : msmList (List.replicate k (0 : F)) ps = 0 := by
  induction k generalizing ps with
  | zero => exact msmList_nil_left ps
  | succ k ih => cases ps with
    | nil => rfl
    | cons p ps => simp [List.replicate_succ, msmList, ih]

theorem msmList_map_range (N : ℕ) (a : ℕ → F) (G : ℕ → M) :
    msmList ((List.range N).map a) ((List.range N).map G) = dot N a G := by
  induction N with
  | zero => simp [msmList, dot]
  | succ N ih =>
    rw [List.range_succ, List.map_append, List.map_append, msmList_append _ _ _ _ (by simp), ih]
    simp [msmList, dot, Finset.sum_range_succ]

theorem msmList_interleave (xs ys : List F) (ps qs : List M) (h1 : xs.length = ys.length) (h2 : ps.length = xs.length)
    (h3 : qs.length = xs.length) :
    msmList (interleaveL xs ys) (interleaveL ps qs) = msmList xs ps + msmList ys qs := by
  induction xs generalizing ys ps qs with
  | nil =>
    cases ys <;> cases ps <;> cases qs <;> simp_all [interleaveL, msmList]
  | cons x xs ih =>
    cases ys with
    | nil => simp at h1
    | cons y ys => cases ps with
      | nil => simp at h2
      | cons p ps => cases qs with
        | nil => simp at h3
        | cons q qs =>
          simp only [interleaveL, msmList]
          rw [ih ys ps qs (by simpa using h1) (by simpa using h2) (by simpa using h3)]
          module

theorem interleaveL_append {α : Type} (xs ys xs' ys' : List α) (h : xs.length = ys.length) :
    interleaveL (xs ++ xs') (ys ++ ys') = interleaveL xs ys ++ interleaveL xs' ys' := by
  induction xs generalizing ys with
  | nil => cases ys with
    | nil => rfl
    | cons _ _ => simp at h
  | cons x xs ih => cases ys with
    | nil => simp at h
    | cons y ys =>
      simp only [List.cons_append, interleaveL]
      rw [ih ys (by simpa using h)]

theorem interleaveL_length {α : Type} (xs ys : List α) : (interleaveL xs ys).length = xs.length + ys.length := by
  induction xs generalizing ys with
  | nil => cases ys <;> simp [interleaveL]
  | cons x xs ih => cases ys with
    | nil => simp [interleaveL]
    | cons y ys => simp [interleaveL, ih]; omega

theorem msmList_map_zipWith (f : F → F) (es : List F) (Ls : List M) :
    msmList (es.map f) Ls = (List.zipWith (fun c L => f c • L) es Ls).sum := by
  induction es generalizing Ls with
  | nil => simp [msmList_nil_left]
  | cons c cs ih => cases Ls with
    | nil => simp [msmList]
    | cons L Ls => simp [msmList, ih]

/-- the static part: interleaved per-generator scalars and zero padding against the interleaved table of any
    capacity `cap ≥ m` give the two generator sums over the first `N = n·m` generators -/
theorem static_msm (N extra : ℕ) (a b : ℕ → F) (G H : ℕ → M) :
    msmList (Model.staticScalars ((List.range N).map a) ((List.range N).map b) (2 * extra))
        (interleaveL ((List.range (N + extra)).map G) ((List.range (N + extra)).map H))
      = dot N a G + dot N b H := by
  unfold Model.staticScalars
  rw [List.range_add, List.map_append, List.map_append,
    interleaveL_append _ _ _ _ (by simp), msmList_append _ _ _ _ (by simp [interleaveL_length]),
    msmList_interleave _ _ _ _ (by simp) (by simp) (by simp), msmList_map_range, msmList_map_range, msmList_zeros, add_zero]

/-- **The lists as coded evaluate to the coded contribution.** One proof with weight `w`, parameters of capacity
    `n·m + extra` generators per kind: static scalars (interleaved + `2·extra` zeros) against the interleaved table,
    plus dynamic scalars (per-proof terms, then `g_base_scalars`, then `h_base_scalar`) against the dynamic points
    (commitments, A1, B, A, L's, R's, then the Pedersen generators). -/
theorem scalars_eval (I : RangeInst F M) (π : ProofM F M) (y z : F) (es : List F) (e w : F) (extra : ℕ)
    (hL : π.Ls.length = es.length) (hR : π.Rs.length = es.length) :
    let ps := Model.proofScalars I.n I.m I.t I.p π.r1 π.s1 π.d1 y z es e w
    msmList (Model.staticScalars ps.gi ps.hi (2 * extra))
        (interleaveL ((List.range (I.n * I.m + extra)).map I.G) ((List.range (I.n * I.m + extra)).map I.H))
      + msmList (ps.dyn ++ (ps.gb ++ [ps.hb])) (Model.proofPoints I.m I.V π ++ ((List.range I.t).map I.Gb ++ [I.hb]))
      = Model.codeContribution I π y z es e w := by
  intro ps
  rw [codeContribution_bridge]
  simp only [ps, Model.proofScalars, Model.proofPoints]
  rw [static_msm]
  rw [msmList_append _ _ _ _ (by simp [hL, hR])]
  rw [msmList_append ((List.range I.m).map _) _ ((List.range I.m).map I.V) _ (by simp), msmList_map_range]
  rw [msmList_append [_, _, _] _ [π.A1, π.B, π.A] _ (by simp)]
  rw [msmList_append (es.map _) _ π.Ls _ (by simp [hL])]
  rw [msmList_append ((List.range I.t).map _) _ ((List.range I.t).map I.Gb) _ (by simp), msmList_map_range]
  rw [msmList_map_zipWith, msmList_map_zipWith]
  simp only [msmList, add_zero, powF_eq, sumTo_eq, two_eq, Nat.log2_eq_log_two]
  have hs : Model.sCode es = sCode es := funext (sCode_bridge es)
  have hd : Model.dCode z I.n = dCode z I.n := funext (dCode_bridge z I.n)
  rw [hs, hd, dSumLoop_bridge]
  unfold codeContribution
  simp only [dot]
  module

/-- element-wise accumulation of per-member scalar vectors into the shared vector (members with fewer generators
    touch only a prefix) evaluates to the sum of the members' products -/
theorem msmList_zipWith_add (as bs : List F) (ps : List M) (h1 : as.length = ps.length) (h2 : bs.length = ps.length) :
    msmList (List.zipWith (· + ·) as bs) ps = msmList as ps + msmList bs ps := by
  induction ps generalizing as bs with
  | nil => simp [msmList_nil_right]
  | cons p ps ih =>
    cases as with
    | nil => simp at h1
    | cons a as => cases bs with
      | nil => simp at h2
      | cons b bs =>
        simp only [List.zipWith_cons_cons, msmList, add_smul]
        rw [ih as bs (by simpa using h1) (by simpa using h2)]
        module

theorem accumulate_length (maxN : ℕ) (cs : List (List F)) (h : ∀ c ∈ cs, c.length ≤ maxN) :
    (Model.accumulate maxN cs).length = maxN := by
  induction cs with
  | nil => simp [Model.accumulate]
  | cons c cs ih =>
    have hc := h c (by simp)
    simp only [Model.accumulate, List.length_zipWith, List.length_append, List.length_replicate]
    rw [ih (fun x hx => h x (by simp [hx]))]
    omega

theorem msmList_prefix (c : List F) (k : ℕ) (ps : List M) (h : c.length + k = ps.length) :
    msmList (c ++ List.replicate k 0) ps = msmList c (ps.take c.length) := by
  conv_lhs => rw [← List.take_append_drop c.length ps]
  rw [msmList_append _ _ _ _ (by simp; omega), msmList_zeros, add_zero]

/-- **Shared table (C12, C03).** Accumulating the members' scalar vectors into one vector of the largest member's
    length and multiplying once equals the sum of the members' own products over their own prefixes. -/
theorem accumulate_msm (maxN : ℕ) (cs : List (List F)) (ps : List M) (hp : ps.length = maxN)
    (h : ∀ c ∈ cs, c.length ≤ maxN) :
    msmList (Model.accumulate maxN cs) ps = (cs.map (fun c => msmList c (ps.take c.length))).sum := by
  induction cs with
  | nil => simp [Model.accumulate, msmList_zeros]
  | cons c cs ih =>
    have hc := h c (by simp)
    have hrest : ∀ x ∈ cs, x.length ≤ maxN := fun x hx => h x (by simp [hx])
    simp only [Model.accumulate, List.map_cons, List.sum_cons]
    rw [msmList_zipWith_add _ _ _ (by rw [accumulate_length maxN cs hrest, hp]) (by simp; omega),
      ih hrest, msmList_prefix c _ ps (by omega), add_comm]

/-- the prover's `A` as coded (interleaved bit scalars, zero padding, precomputed table of any capacity, plus the
    blinding terms) is the `A` of the model prover -/
theorem proverA_eval (I : RangeInst F M) (v p : ℕ → ℕ) (r : ℕ → ℕ → F) (α : ℕ → F) (dL dR : ℕ → ℕ → F) (rr ss : F)
    (d η : ℕ → F) (y z : F) (es : List F) (e : F) (extra : ℕ) :
    msmList (Model.proverAStatic (F := F) I.n I.m (2 * extra) (fun j => v j - p j))
        (interleaveL ((List.range (I.n * I.m + extra)).map I.G) ((List.range (I.n * I.m + extra)).map I.H))
      + msmList ((List.range I.t).map α) ((List.range I.t).map I.Gb)
      = (Model.rangeProve I v p r α dL dR rr ss d η y z es e).A := by
  unfold Model.proverAStatic
  rw [static_msm, msmList_map_range]
  simp only [Model.rangeProve, dot_eq]

end Bpp
