import Model.Batch
import Model.Range
import Mathlib.Data.Nat.Log
/-! C16: the places where the Rust verifier indexes (`s.get(i - j)`, `challenges_sq.get(rounds - log_i - 1)`) or shifts
    (`1 << rounds`) are in range once the shape checks have passed, so the `ok_or(SizeOverflow)` branches are dead and
    no index can panic; the work is bounded by the statement size. -/
namespace Bpp.TotalityThm
open Model.Batch

/-- the s-vector recurrence reads only earlier entries and only existing challenges -/
theorem s_index_in_range (κ i : ℕ) (h1 : 1 ≤ i) (h2 : i < 2 ^ κ) :
    i - 2 ^ Nat.log2 i < i ∧ κ - Nat.log2 i - 1 < κ ∧ 2 ^ Nat.log2 i ≤ i := by
  have hne : i ≠ 0 := by omega
  have hlog : Nat.log2 i < κ := by
    rw [Nat.log2_eq_log_two]
    exact (Nat.log_lt_iff_lt_pow (by decide) hne).mpr h2
  have hle : 2 ^ Nat.log2 i ≤ i := by
    rw [Nat.log2_eq_log_two]; exact Nat.pow_log_le_self 2 hne
  have hpos : 0 < 2 ^ Nat.log2 i := Nat.two_pow_pos _
  omega

/-- after the shape check the round count fits a shift and the s-vector has exactly `n·m` entries -/
theorem shape_bounds (x : Member) (h : shapeOk x = true) : x.rounds < 64 ∧ 2 ^ x.rounds = x.n * x.m := by
  unfold shapeOk at h
  simp only [Bool.and_eq_true, decide_eq_true_eq, beq_iff_eq] at h
  exact ⟨h.1.2, h.2⟩

/-- the verifier's per-proof loops (s-vector, generator scalars, `d`) run `n·m` iterations — bounded by the
    statement, never by the attacker-chosen round count alone -/
theorem work_bounded (x : Member) (cap : ℕ) (h : shapeOk x = true) (hn : x.n ≤ 64) (hm : x.m ≤ cap) :
    2 ^ x.rounds ≤ 64 * cap := by
  rw [(shape_bounds x h).2]; exact Nat.mul_le_mul hn hm

/-- a hostile round count is refused before any allocation proportional to `2^rounds` -/
theorem huge_rounds_refused (x : Member) (h : 64 ≤ x.rounds) : shapeOk x = false := by
  unfold shapeOk
  have : ¬ x.rounds < 64 := by omega
  simp [this]

end Bpp.TotalityThm
