import Bpp.Bridge
import Bpp.BatchThm
import Bpp.RecoveryThm
import Bpp.PromiseThm
import Bpp.BatchFlow
import Bpp.CodecThm
import Bpp.CtorsThm
import Model.Transcript
import Bpp.GensThm
import Bpp.BindingThm
import Bpp.NonceThm
import Bpp.TotalityThm
import Bpp.ApiThm
import Bpp.LifecycleThm
import Bpp.ScalarsThm
import Bpp.BatchScalarsThm
import Bpp.GenTableThm
import Bpp.RangeSound
import Bpp.Hiding
import Bpp.Extract
import Bpp.CountThm
import Bpp.ScalarField
import Bpp.FreeModule
import Bpp.WireThm
/-! # Property theorems

Only the property statements live here, one block per C-id, each about the **executable** model functions of
`Model/*` (the functions the native driver runs and the correspondence check compares with the Rust code) and each
followed by a non-vacuity `example`. Helper lemmas live in the other `Bpp/*` files. Hypothesis "ND" = the
non-degeneracy events `y ≠ 0`, `y ≠ 1`, `e_j ≠ 0` (the code turns zero challenges into errors; `y = 1` has
probability 2⁻²⁵²). -/
open Finset
namespace Bpp
open Model (WipProof RangeInst RangeProofM ProofM bitN)
variable {F : Type} [Field F] {M : Type} [AddCommGroup M] [Module F M]

/-! ## C01 Completeness -/

/-- the statement's commitments open to the witness: `V_j = v_j·hb + Σ_k r_{j,k}·Gb_k`, promises cast into the field -/
structure Opens (I : RangeInst F M) (v p : ℕ → ℕ) (r : ℕ → ℕ → F) : Prop where
  promise_le : ∀ j < I.m, p j ≤ v j
  in_range : ∀ j < I.m, v j - p j < 2 ^ I.n
  promise_cast : ∀ j < I.m, I.p j = (p j : F)
  commit : ∀ j < I.m, I.V j = (v j : F) • I.hb + Model.dot I.t (r j) I.Gb

/-- **C01 (reference level).** For every bit length `n ≥ 1`, aggregation `m`, extension degree `t` with
    `n·m = 2^κ`, every valid witness, *all* nonces and all challenges with `y ≠ 0`, `e_j ≠ 0`, the model prover's
    output satisfies the published relation: its reference residual is zero. -/
theorem C01_spec_complete (I : RangeInst F M) (hn : 0 < I.n) (v p : ℕ → ℕ) (r : ℕ → ℕ → F)
    (α : ℕ → F) (dL dR : ℕ → ℕ → F) (rr ss : F) (d η : ℕ → F) (y z : F) (es : List F) (e : F)
    (hN : I.n * I.m = 2 ^ es.length) (hw : Opens I v p r) (hy : y ≠ 0) (hes : ∀ x ∈ es, x ≠ 0) :
    Model.specResidual I (Model.rangeProve I v p r α dL dR rr ss d η y z es e).toProofM y z es e = 0 := by
  rw [rangeProve_bridge I hn, specResidual_bridge]
  have hV : ∀ j < I.m, I.V j = (v j : F) • I.hb + dot I.t (r j) I.Gb := fun j hj => by
    rw [hw.commit j hj, dot_eq]
  have hs := spec_complete I hn v p r α dL dR rr ss d η y z es e hN hw.promise_le hw.in_range hw.promise_cast hV hy hes
  have hlen := wipProve_lengths y I.t I.hb I.Gb dL dR rr ss d η e es 0
    (fun i => aLvec I.n (fun j => v j - p j) i - z)
    (fun i => aLvec I.n (fun j => v j - p j) i - 1 + dvec z I.n i * y ^ (I.n * I.m - i) + z) I.G I.H
    (fun k => α k + ∑ j ∈ range I.m, z ^ (2 * (j + 1)) * r j k * y ^ (I.n * I.m + 1))
  exact (specAcceptsP_iff_residual I _ y z es e hlen.1 hlen.2).mp hs

/-- **C01 (code level).** Under ND the optimised verifier's whole contribution for an honest proof is zero, for
    every weight — so it is accepted alone and inside any batch, in every mode that checks. -/
theorem C01_code_accepts (I : RangeInst F M) (hn : 0 < I.n) (v p : ℕ → ℕ) (r : ℕ → ℕ → F)
    (α : ℕ → F) (dL dR : ℕ → ℕ → F) (rr ss : F) (d η : ℕ → F) (y z : F) (es : List F) (e w : F)
    (k : ℕ) (hm : I.m = 2 ^ k) (hN : I.n * I.m = 2 ^ es.length) (hw : Opens I v p r)
    (hy0 : y ≠ 0) (hy1 : y ≠ 1) (hes : ∀ x ∈ es, x ≠ 0) :
    Model.codeContribution I (Model.rangeProve I v p r α dL dR rr ss d η y z es e).toProofM y z es e w = 0 := by
  rw [rangeProve_bridge I hn, codeContribution_bridge]
  have hV : ∀ j < I.m, I.V j = (v j : F) • I.hb + dot I.t (r j) I.Gb := fun j hj => by
    rw [hw.commit j hj, dot_eq]
  exact code_accepts_honest I hn v p r α dL dR rr ss d η y z es e w k hm hN hw.promise_le hw.in_range
    hw.promise_cast hV hy0 hy1 hes

/-- non-vacuity: a one-bit, one-commitment instance with value 1 over ℚ-like fields meets `Opens` -/
example (hb g : M) : Opens (F := F) (M := M)
    { n := 1, m := 1, t := 1, G := fun _ => g, H := fun _ => g, hb := hb, Gb := fun _ => g,
      V := fun _ => (1 : F) • hb + Model.dot 1 (fun _ => (0 : F)) (fun _ => g), p := fun _ => 0 }
    (fun _ => 1) (fun _ => 0) (fun _ _ => 0) :=
  ⟨fun _ _ => by omega, fun _ _ => by norm_num, fun _ _ => by simp, fun _ _ => by simp⟩

/-! ## C02 The verifier enforces exactly the published relation -/

/-- **C02 (core identity).** For *arbitrary* proof elements and response scalars (honest or hostile), with the
    shape checks passed (`|L| = |R| = κ`, `n·m = 2^κ`) and ND, everything the coded verifier accumulates for the
    proof equals `w •` the reference residual. -/
theorem C02_contribution_eq (I : RangeInst F M) (hn : 0 < I.n) (π : ProofM F M) (y z : F) (es : List F) (e w : F)
    (k : ℕ) (hm : I.m = 2 ^ k) (hN : I.n * I.m = 2 ^ es.length)
    (hL : π.Ls.length = es.length) (hR : π.Rs.length = es.length)
    (hy0 : y ≠ 0) (hy1 : y ≠ 1) (hes : ∀ x ∈ es, x ≠ 0) :
    Model.codeContribution I π y z es e w = w • Model.specResidual I π y z es e := by
  rw [codeContribution_bridge, specResidual_bridge]
  exact contribution_eq I hn π y z es e w k hm hN hL hR hy0 hy1 hes

/-- **C02 (verdict).** With a non-zero weight the coded contribution vanishes exactly when the reference residual
    does. -/
theorem C02_verdict_iff (I : RangeInst F M) (hn : 0 < I.n) (π : ProofM F M) (y z : F) (es : List F) (e w : F)
    (k : ℕ) (hm : I.m = 2 ^ k) (hN : I.n * I.m = 2 ^ es.length)
    (hL : π.Ls.length = es.length) (hR : π.Rs.length = es.length)
    (hy0 : y ≠ 0) (hy1 : y ≠ 1) (hes : ∀ x ∈ es, x ≠ 0) (hw : w ≠ 0) :
    Model.codeContribution I π y z es e w = 0 ↔ Model.specResidual I π y z es e = 0 := by
  rw [C02_contribution_eq I hn π y z es e w k hm hN hL hR hy0 hy1 hes, smul_eq_zero]
  exact ⟨fun h => h.resolve_left hw, Or.inr⟩

/-- **C02 (the residual is the round-by-round relation).** Zero reference residual ⇔ the recursive reference
    verifier of the zk-WIP argument (fold generators and `P` one round at a time, then the final check) accepts. -/
theorem C02_residual_iff_recursive (I : RangeInst F M) (π : ProofM F M) (y z : F) (es : List F) (e : F)
    (hL : π.Ls.length = es.length) (hR : π.Rs.length = es.length) :
    Model.specResidual I π y z es e = 0 ↔ specAcceptsP I π y z es e := by
  rw [specResidual_bridge]; exact (specAcceptsP_iff_residual I π y z es e hL hR).symm

/-- **C02 (no slack in `r1`).** Two proofs differing only in `r1`, both satisfying the relation at the same
    challenges, force a non-trivial relation among the generators. -/
theorem C02_response_r1_unique (I : RangeInst F M) (π : ProofM F M) (r1' : F) (y z : F) (es : List F) (e : F)
    (h : Model.specResidual I π y z es e = 0) (h' : Model.specResidual I { π with r1 := r1' } y z es e = 0) :
    π.r1 = r1' ∨ e • foldG y es I.G 0 + (y * π.s1) • I.hb = 0 := by
  rw [specResidual_bridge] at h h'
  exact response_r1_unique I π r1' y z es e h h'

/-- **C02 (no slack in `d1`).** Two accepted proofs differing only in `d1` agree on `Σ d1_k·Gb_k`. -/
theorem C02_response_d1_unique (I : RangeInst F M) (π : ProofM F M) (d1' : ℕ → F) (y z : F) (es : List F) (e : F)
    (h : Model.specResidual I π y z es e = 0) (h' : Model.specResidual I { π with d1 := d1' } y z es e = 0) :
    Model.dot I.t π.d1 I.Gb = Model.dot I.t d1' I.Gb := by
  rw [specResidual_bridge] at h h'
  rw [dot_eq, dot_eq]
  exact response_d1_unique I π d1' y z es e h h'

/-- **C02 (special soundness of the zk-WIP argument).** From a tree of accepting transcripts — at every folding
    round one `(L, R)` and four non-zero challenges with distinct squares, at the leaves one `(A1, B)` and five
    distinct challenges whose responses satisfy the final check of `wipAccepts` — a witness of the
    weighted-inner-product relation is extracted, provided the generators satisfy no non-trivial linear relation
    (`Indep`: the discrete-logarithm assumption in algebraic form). Conversely every statement with a witness has
    such a tree. -/
theorem C02_wip_special_sound (y : F) (hy : y ≠ 0) (t : ℕ) (g : M) (Gb : ℕ → M) (S4 S5 : Finset F)
    (h4 : 4 ≤ S4.card) (h40 : ∀ e ∈ S4, e ≠ 0) (hinj : Set.InjOn (fun e : F => e^2) S4) (h5 : 5 ≤ S5.card)
    (κ : ℕ) (G H : ℕ → M) (P : M) (hI : Indep (F := F) (2^κ) t G H g Gb) :
    TreeAcc y t g Gb κ G H P ↔ ∃ a b α : ℕ → F, P = Pcom y (2^κ) t a b G H g α Gb :=
  wip_tree_iff y hy t g Gb S4 S5 h4 h40 hinj h5 κ G H P hI

/-- every branch of such a tree is a transcript the recursive reference verifier accepts (the relation of
    `C02_residual_iff_recursive`, hence of the coded verifier by `C02_verdict_iff`) -/
theorem C02_tree_branch_accepts (y : F) (t : ℕ) (g : M) (Gb : ℕ → M) (κ : ℕ) (G H : ℕ → M) (P : M)
    (hT : TreeAcc y t g Gb κ G H P) :
    ∃ (es : List F) (Ls Rs : List M) (e : F) (A1 B : M) (r1 s1 : F) (d1 : ℕ → F),
      es.length = κ ∧ wipAccepts y t g Gb e A1 B r1 s1 d1 es Ls Rs G H P :=
  TreeAcc.path y t g Gb κ G H P hT

/-- **C02 (soundness of the range reduction).** If `Â(y, z)` has a weighted-inner-product witness for `N+1`
    non-zero `y` and `2m+2` values of `z` each, then `A` commits to bits `aL`, to `aL − 1`, and the `j`-th block of
    bits is the binary expansion of `v_j − p_j`, for whatever opening `(v_j, r_j)` the commitment `V_j` has. -/
theorem C02_range_sound (I : RangeInst F M) (hn : 0 < I.n)
    (hI : Indep (F := F) (I.n * I.m) I.t I.G I.H I.hb I.Gb)
    (v : ℕ → F) (r : ℕ → ℕ → F) (hV : ∀ j < I.m, I.V j = v j • I.hb + dot I.t (r j) I.Gb)
    (A : M) (SY : Finset F) (SZ : F → Finset F)
    (hY0 : ∀ y ∈ SY, y ≠ 0) (hYc : I.n * I.m + 1 ≤ SY.card) (hZc : ∀ y ∈ SY, 2 * I.m + 2 ≤ (SZ y).card)
    (hW : ∀ y ∈ SY, ∀ z ∈ SZ y, ∃ a b α : ℕ → F,
      Ahat I y z A = Pcom y (I.n * I.m) I.t a b I.G I.H I.hb α I.Gb) :
    ∃ aL α : ℕ → F,
      A = dot (I.n * I.m) aL I.G + dot (I.n * I.m) (fun i => aL i - 1) I.H + dot I.t α I.Gb ∧
      (∀ i < I.n * I.m, aL i * (aL i - 1) = 0) ∧
      (∀ j < I.m, ∑ i ∈ range I.n, aL (j * I.n + i) * 2^i = v j - I.p j) :=
  range_sound I hn hI v r hV A SY SZ hY0 hYc hZc hW

/-- **C02 / C07 (no proof for a value outside the range).** A tree of accepting transcripts of the whole proof
    (`N+1` non-zero `y`, `2m+2` values `z` each, the zk-WIP tree below each) for commitments opening to natural
    numbers `v_j` under promises `p_j` exists only if `p_j ≤ v_j` and `v_j − p_j < 2^n` — in a field of
    characteristic `q > v_j, p_j + 2^n`, with independent generators. -/
theorem C02_knowledge_sound (I : RangeInst F M) (hn : 0 < I.n) (κ : ℕ) (hN : I.n * I.m = 2^κ)
    (hI : Indep (F := F) (I.n * I.m) I.t I.G I.H I.hb I.Gb)
    (q : ℕ) [CharP F q] (vn pn : ℕ → ℕ) (r : ℕ → ℕ → F)
    (hvq : ∀ j < I.m, vn j < q) (hpq : ∀ j < I.m, pn j + 2^I.n ≤ q)
    (hp : ∀ j < I.m, I.p j = (pn j : F))
    (hV : ∀ j < I.m, I.V j = (vn j : F) • I.hb + dot I.t (r j) I.Gb)
    (A : M) (SY : Finset F) (SZ : F → Finset F)
    (hY0 : ∀ y ∈ SY, y ≠ 0) (hYc : I.n * I.m + 1 ≤ SY.card) (hZc : ∀ y ∈ SY, 2 * I.m + 2 ≤ (SZ y).card)
    (hT : ∀ y ∈ SY, ∀ z ∈ SZ y, TreeAcc y I.t I.hb I.Gb κ I.G I.H (Ahat I y z A)) :
    ∀ j < I.m, pn j ≤ vn j ∧ vn j - pn j < 2^I.n :=
  range_proof_sound I hn κ hN hI q vn pn r hvq hpq hp hV A SY SZ hY0 hYc hZc hT

/-- **C02 / C07 (knowledge soundness with extraction of the openings).** Nothing is assumed about the commitments:
    from a tree of accepting transcripts with `3N+3` non-zero `y`, `4m+3` values of `z` each and the zk-WIP tree
    below each, and independence of the generators, every commitment is `v_j·hb + Σ_k r_{j,k}·Gb_k` (no component
    over the vector generators) and `v_j = p_j + k_j` with a natural number `k_j < 2^n`. -/
theorem C02_knowledge_extract (I : RangeInst F M) (hn : 0 < I.n) (κ : ℕ) (hN : I.n * I.m = 2^κ)
    (hI : Indep (F := F) (I.n * I.m) I.t I.G I.H I.hb I.Gb)
    (A : M) (SY : Finset F) (SZ : F → Finset F)
    (hY0 : ∀ y ∈ SY, y ≠ 0) (hYc : 3 * (I.n * I.m) + 3 ≤ SY.card) (hZc : ∀ y ∈ SY, 4 * I.m + 3 ≤ (SZ y).card)
    (hT : ∀ y ∈ SY, ∀ z ∈ SZ y, TreeAcc y I.t I.hb I.Gb κ I.G I.H (Ahat I y z A)) :
    ∃ (v : ℕ → F) (r : ℕ → ℕ → F),
      (∀ j < I.m, I.V j = v j • I.hb + dot I.t (r j) I.Gb) ∧
      ∀ j < I.m, ∃ k : ℕ, k < 2^I.n ∧ v j = I.p j + (k : F) :=
  range_proof_extract I hn κ hN hI A SY SZ hY0 hYc hZc hT

/-- **C02 over the scalar field of the shipped instantiation.** ℓ = 2²⁵² + 27742317777372353535851937790883648493
    is prime (Pratt certificate checked by the kernel), so `ZMod ℓ` is a field and everything above applies to it. With
    promises that are 64-bit numbers and a bit length of at most 64, the extracted values are *integers* below 2⁶⁵
    (no wrap-around modulo ℓ) with `promise ≤ value` and `value − promise < 2^bits` as integers. -/
theorem C02_knowledge_extract_scalar_field {M : Type} [AddCommGroup M] [Module (ZMod Model.ell) M]
    (I : RangeInst (ZMod Model.ell) M) (hn : 0 < I.n) (hn64 : I.n ≤ 64) (κ : ℕ) (hN : I.n * I.m = 2^κ)
    (hI : Indep (F := ZMod Model.ell) (I.n * I.m) I.t I.G I.H I.hb I.Gb)
    (pn : ℕ → ℕ) (hpn : ∀ j < I.m, pn j < 2^64) (hp : ∀ j < I.m, I.p j = (pn j : ZMod Model.ell))
    (A : M) (SY : Finset (ZMod Model.ell)) (SZ : ZMod Model.ell → Finset (ZMod Model.ell))
    (hY0 : ∀ y ∈ SY, y ≠ 0) (hYc : 3 * (I.n * I.m) + 3 ≤ SY.card) (hZc : ∀ y ∈ SY, 4 * I.m + 3 ≤ (SZ y).card)
    (hT : ∀ y ∈ SY, ∀ z ∈ SZ y, TreeAcc y I.t I.hb I.Gb κ I.G I.H (Ahat I y z A)) :
    ∃ (vn : ℕ → ℕ) (r : ℕ → ℕ → ZMod Model.ell),
      (∀ j < I.m, I.V j = (vn j : ZMod Model.ell) • I.hb + dot I.t (r j) I.Gb) ∧
      ∀ j < I.m, vn j < 2^65 ∧ 2^65 < Model.ell ∧ pn j ≤ vn j ∧ vn j - pn j < 2^I.n := by
  obtain ⟨v, r, hV, hk⟩ := C02_knowledge_extract I hn κ hN hI A SY SZ hY0 hYc hZc hT
  choose! k hk2 hkv using hk
  refine ⟨fun j => pn j + k j, r, ?_, ?_⟩
  · intro j hj
    rw [hV j hj, hkv j hj, hp j hj]; push_cast; rfl
  · intro j hj
    have h1 := hpn j hj
    have h2 : k j < 2^64 := lt_of_lt_of_le (hk2 j hj) (Nat.pow_le_pow_right (by norm_num) hn64)
    have hell : 2^65 < Model.ell := by rw [ell_eq]; decide +kernel
    refine ⟨?_, hell, Nat.le_add_right _ _, ?_⟩
    · show pn j + k j < 2^65
      calc pn j + k j < 2^64 + 2^64 := Nat.add_lt_add h1 h2
        _ = 2^65 := by norm_num
    · show pn j + k j - pn j < 2^I.n
      rw [Nat.add_sub_cancel_left]; exact hk2 j hj

/-- **The driver's scalar carrier is that field.** On canonical representatives (which every operation returns)
    `Model.Fl` with its `+ * - ⁻¹` (the inverse by Fermat exponentiation, `0⁻¹ = 0`) is `ZMod ℓ`: the map to the field
    is injective and commutes with every operation. -/
theorem C02_driver_field :
    Nat.Prime Model.ell ∧
    (∀ a b : Model.Fl, Canon a → Canon b → toZ a = toZ b → a = b) ∧
    (∀ a b : Model.Fl, toZ (a + b) = toZ a + toZ b ∧ Canon (a + b)) ∧
    (∀ a b : Model.Fl, toZ (a * b) = toZ a * toZ b ∧ Canon (a * b)) ∧
    (∀ a b : Model.Fl, Canon b → toZ (a - b) = toZ a - toZ b ∧ Canon (a - b)) ∧
    (∀ a : Model.Fl, Canon a → toZ (-a) = -toZ a ∧ Canon (-a)) ∧
    (∀ a : Model.Fl, toZ (a⁻¹) = (toZ a)⁻¹ ∧ Canon (a⁻¹)) ∧
    (∀ n : ℕ, toZ (n : Model.Fl) = (n : ZMod Model.ell) ∧ Canon (n : Model.Fl)) :=
  ⟨ell_prime, fun _ _ ha hb h => toZ_inj ha hb h, fun a b => ⟨toZ_add a b, canon_add a b⟩,
   fun a b => ⟨toZ_mul a b, canon_mul a b⟩, fun a b hb => ⟨toZ_sub a b hb, canon_sub a b⟩,
   fun a ha => ⟨toZ_neg a ha, canon_neg a⟩, fun a => ⟨toZ_inv a, canon_inv a⟩,
   fun n => ⟨toZ_natCast n, canon_natCast n⟩⟩

/-- **The driver's group carrier is the free module.** `Model.SVec` (sorted sparse vectors over `Model.Fl`) with its
    `+ - • 0 basis`: the coefficient map into functions `ℕ → ZMod ℓ` commutes with every operation, the operations
    preserve the representation invariant (canonical coefficients, strictly increasing ids), and under it the printed
    normal form is empty exactly when every coefficient vanishes — which is the test "residual = 0" of the reference
    verifier the correspondence check runs. -/
theorem C02_driver_module :
    (∀ (a b : Model.SVec) i, coeffZ (a + b) i = coeffZ a i + coeffZ b i) ∧
    (∀ (a b : Model.SVec) i, WFV b → coeffZ (a - b) i = coeffZ a i - coeffZ b i) ∧
    (∀ (c : Model.Fl) (a : Model.SVec) i, coeffZ (c • a) i = toZ c * coeffZ a i) ∧
    (∀ i, coeffZ (0 : Model.SVec) i = 0) ∧
    (∀ j i, coeffZ (Model.SVec.basis j) i = if j = i then 1 else 0) ∧
    (∀ (a : Model.SVec) i, coeffZ a.norm i = coeffZ a i) ∧
    (∀ a b : Model.SVec, WFV a → WFV b → WFV (a + b) ∧ WFV (a - b)) ∧
    (∀ (c : Model.Fl) (a : Model.SVec), WFV a → WFV (c • a)) ∧
    WFV (0 : Model.SVec) ∧ (∀ j, WFV (Model.SVec.basis j)) ∧
    (∀ a : Model.SVec, WFV a → (a.norm.terms = [] ↔ ∀ i, coeffZ a i = 0)) :=
  ⟨coeffZ_add, fun a b i hb => coeffZ_sub a b hb.1 i, coeffZ_smul, coeffZ_zero, coeffZ_basis, coeffZ_norm,
   fun a b ha hb => ⟨wf_add a b ha hb, wf_sub a b ha hb⟩, wf_smul, wf_zero, wf_basis, norm_empty_iff⟩

/-- non-vacuity of `C02_knowledge_sound`: a valid witness yields such a tree at every challenge pair -/
theorem C02_tree_satisfiable (I : RangeInst F M) (hn : 0 < I.n) (κ : ℕ) (hN : I.n * I.m = 2^κ)
    (y z : F) (hy : y ≠ 0) (S4 S5 : Finset F)
    (h4 : 4 ≤ S4.card) (h40 : ∀ e ∈ S4, e ≠ 0) (hinj : Set.InjOn (fun e : F => e^2) S4) (h5 : 5 ≤ S5.card)
    (aL : ℕ → F) (α : ℕ → F) (v : ℕ → F) (r : ℕ → ℕ → F)
    (hbit : ∀ i < I.n * I.m, aL i * (aL i - 1) = 0)
    (hval : ∀ j < I.m, ∑ i ∈ range I.n, aL (j * I.n + i) * 2^i = v j - I.p j)
    (hV : ∀ j < I.m, I.V j = v j • I.hb + dot I.t (r j) I.Gb) :
    TreeAcc y I.t I.hb I.Gb κ I.G I.H
      (Ahat I y z (dot (I.n * I.m) aL I.G + dot (I.n * I.m) (fun i => aL i - 1) I.H + dot I.t α I.Gb)) :=
  range_tree_complete I hn κ hN y z hy S4 S5 h4 h40 hinj h5 aL α v r hbit hval hV

/-- non-vacuity of `Indep`: coordinate vectors, for every length and degree -/
theorem C02_indep_satisfiable (N t : ℕ) :
    Indep (F := F) (M := ℕ → F) N t (fun i => Pi.single (4*i) 1) (fun i => Pi.single (4*i+1) 1)
      (Pi.single 3 1) (fun k => Pi.single (4*k+2) 1) :=
  indep_example N t

/-- four non-zero rationals with distinct squares, five distinct rationals -/
example : 4 ≤ ({1, 2, 3, 4} : Finset ℚ).card ∧ (∀ e ∈ ({1, 2, 3, 4} : Finset ℚ), e ≠ 0) ∧
    Set.InjOn (fun e : ℚ => e^2) ({1, 2, 3, 4} : Finset ℚ) ∧ 5 ≤ ({0, 1, 2, 3, 4} : Finset ℚ).card := by
  refine ⟨by decide, by decide, ?_, by decide⟩
  intro a ha b hb h
  simp only [Finset.coe_insert, Finset.coe_singleton, Set.mem_insert_iff, Set.mem_singleton_iff] at ha hb
  rcases ha with rfl | rfl | rfl | rfl <;> rcases hb with rfl | rfl | rfl | rfl <;> first | rfl | (exfalso; norm_num at h)

/-- non-vacuity of C02's hypotheses: one bit, two commitments, one round -/
example : (1 : ℕ) * 2 = 2 ^ [(3 : ℚ)].length ∧ (2 : ℕ) = 2 ^ 1 ∧ (5 : ℚ) ≠ 0 ∧ (5 : ℚ) ≠ 1 ∧ ∀ x ∈ [(3 : ℚ)], x ≠ 0 := by
  refine ⟨by simp, by simp, by norm_num, by norm_num, ?_⟩
  intro x hx; simp at hx; subst hx; norm_num

/-! ## C03 Batch verification

Two layers. *Algebra*: a chunk's check is `Σ_i w_i • R_i = 0` where, by `C02_contribution_eq`, `R_i` is member `i`'s
reference residual. *Control flow*: `Model.Batch.verifyBatch` (chunking, consistency, result assembly), where the
algebra is abstracted to the bit `valid` under the random-weight idealisation justified by the algebra layer. -/

/-- **C03 (if).** Every member valid ⇒ the chunk sum vanishes, for any weights. -/
theorem C03_chunk_all_valid (k : ℕ) (w : ℕ → F) (R : ℕ → M) (h : ∀ i < k, R i = 0) :
    Model.sumTo k (fun i => w i • R i) = 0 := by
  rw [sumTo_eq]; exact batch_all_valid k w R h

/-- **C03 (only if, one bad member).** With a non-zero weight a single invalid member cannot be hidden. -/
theorem C03_chunk_one_invalid (k : ℕ) (w : ℕ → F) (R : ℕ → M) (j : ℕ) (hj : j < k)
    (hRj : R j ≠ 0) (hw : w j ≠ 0) (hothers : ∀ i < k, i ≠ j → R i = 0) :
    Model.sumTo k (fun i => w i • R i) ≠ 0 := by
  rw [sumTo_eq]; exact batch_one_invalid k w R j hj hRj hw hothers

/-- **C03/C08 (only if, general).** Fix the residuals with member `j` invalid and fix every other weight: at most one
    value of `w j` makes the chunk sum vanish (probability ≤ 1/ℓ for a weight unpredictable once the proofs are fixed). -/
theorem C03_chunk_at_most_one_weight (k : ℕ) (w w' : ℕ → F) (R : ℕ → M) (j : ℕ) (hj : j < k)
    (hRj : R j ≠ 0) (hagree : ∀ i, i ≠ j → w i = w' i)
    (h0 : Model.sumTo k (fun i => w i • R i) = 0) (h0' : Model.sumTo k (fun i => w' i • R i) = 0) : w j = w' j := by
  rw [sumTo_eq] at h0 h0'; exact batch_at_most_one_weight k w w' R j hj hRj hagree h0 h0'

open Model.Batch in
/-- **C03 (shape).** On success there is exactly one result per member and the i-th belongs to the i-th triple —
    for every chunk size and batch size. -/
theorem C03_result_aligned (c : ℕ) (a : Action) (nT nP : ℕ) (ms : List Member) (r : List Bool)
    (h : verifyBatch c a nT nP ms = some r) :
    r.length = ms.length ∧ ∀ i (hi : i < ms.length), r[i]? = some (maskOf a ms[i]) :=
  BatchFlow.verifyBatch_aligned c a nT nP ms r h

open Model.Batch in
/-- **C03 (iff).** A batch call succeeds iff the three sequences are non-empty and equally long, the members agree on
    Pedersen generators, bit length and extension degree (with proofs of that degree and promises in range), every
    proof has the right shape, and — unless only recovering — every member is valid on its own. No chunk size, batch
    size or position enters the condition. -/
theorem C03_accept_iff (c : ℕ) (a : Action) (nT nP : ℕ) (ms : List Member) :
    (verifyBatch c a nT nP ms).isSome = true ↔ BatchFlow.Acceptable a nT nP ms :=
  BatchFlow.verifyBatch_isSome_iff c a nT nP ms

open Model.Batch in
/-- **C03 (refusal).** -/
theorem C03_refuses (c : ℕ) (a : Action) (nT nP : ℕ) (ms : List Member)
    (h : ms = [] ∨ nT ≠ ms.length ∨ nP ≠ ms.length ∨
      (∃ x ∈ ms, ∃ y ∈ ms, x.ped ≠ y.ped ∨ x.n ≠ y.n ∨ x.t ≠ y.t ∨ y.d1 ≠ x.t) ∨ (∃ x ∈ ms, x.promisesFit = false)) :
    verifyBatch c a nT nP ms = none :=
  BatchFlow.verifyBatch_refuses c a nT nP ms h

open Model.Batch in
/-- **C03 (any order, any chunk size).** -/
theorem C03_perm_chunk (c c' : ℕ) (a : Action) (nT nP : ℕ) {ms ms' : List Member} (hp : ms.Perm ms') :
    (verifyBatch c a nT nP ms).isSome = (verifyBatch c' a nT nP ms').isSome := by
  rw [BatchFlow.verifyBatch_chunk_irrelevant c c', BatchFlow.verifyBatch_perm c' a nT nP hp]

/-- the pre-fix control flow (first chunk only) violates `C03_result_aligned` and `C03_accept_iff` -/
theorem C03_prefix_defect :
    Model.Batch.verifyBatchPrefix 2 .verifyOnly 3 3 [BatchFlow.good, BatchFlow.good, BatchFlow.bad] = some [false, false] ∧
    Model.Batch.verifyBatch 2 .verifyOnly 3 3 [BatchFlow.good, BatchFlow.good, BatchFlow.bad] = none :=
  BatchFlow.verifyBatchPrefix_counterexample

/-! ## C15 Encoding (core Lean, bytes as `List UInt8`; model `Model.Codec`) -/

open Model.Codec in
/-- **C15 (exact acceptance set + decoded value).** `decode b = some p` iff `p` is well-formed (tag `d ∈ 1..6`, `d`
    canonical `d1` scalars, canonical `r1`, `s1`, 32-byte points, `k ≥ 1` L/R pairs) and `b` is its encoding. -/
theorem C15_accept_iff (bs : Bytes) (p : Proof) : decode bs = some p ↔ p.wf ∧ encode p = bs :=
  decode_eq_some_iff bs p

open Model.Codec in
/-- **C15 (canonical).** Whenever decoding succeeds, re-encoding returns the identical bytes — for every byte string. -/
theorem C15_reencode {bs : Bytes} {p : Proof} (h : decode bs = some p) : encode p = bs := encode_decode h

open Model.Codec in
/-- **C15 (round trip).** -/
theorem C15_roundtrip (p : Proof) (h : p.wf) : decode (encode p) = some p := decode_encode p h

open Model.Codec in
/-- **C15 (length).** Accepted strings have length `1 + 32·(5 + d + 2k)`, `k ≥ 1`, first byte `d`. -/
theorem C15_length {bs : Bytes} {p : Proof} (h : decode bs = some p) :
    bs.length = 1 + 32 * (5 + p.tag + 2 * p.li.length) ∧ 1 ≤ p.li.length ∧ bs.head? = some (UInt8.ofNat p.tag) :=
  decode_length h

open Model.Codec in
/-- **C15 (announced degree).** `extension_degree_from_proof_bytes` returns, for every byte string the decoder
    accepts, the degree of the decoded proof. -/
theorem C15_degree_of {bs : Bytes} {p : Proof} (h : decode bs = some p) : degreeOf bs = some p.tag :=
  degreeOf_decode h

open Model.Codec in
/-- **C15 (zero rounds: the known finding as the exact boundary).** -/
theorem C15_zero_rounds (p : Proof) (h : p.li = []) : decode (encode p) ≠ some p := zero_rounds_refused p h

/-! ## C06 The prover emits a proof exactly when the witness is valid -/

open Model.Ctors in
/-- **C06 (guards ⇔ documented validity).** For bit length ≤ 64 and 64-bit values the prover's guards
    (`Model.Ctors.proverGuards`: counts, degree, the `n < 64 ∧ v >> n > 0` test, commitment re-computation with
    1 ≤ |r| ≤ t, `checked_sub` of the promise) pass exactly when: as many openings as commitments, equal degrees,
    every value below 2^bits, every opening reproducing its commitment, every promise ≤ its value. -/
theorem C06_guard_iff (bits tS tW nC : ℕ) (ops : List Opening) (ps : List (Option ℕ))
    (hb : bits ≤ 64) (hv : ∀ o ∈ ops, o.v < 2 ^ 64) :
    proverGuards bits tS tW nC ops ps = true ↔ CtorsThm.WitnessValid bits tS tW nC ops ps :=
  CtorsThm.proverGuards_iff bits tS tW nC ops ps hb hv

open Model.Ctors in
/-- **C06 (the 64-bit special case).** -/
theorem C06_range_guard (bits v : ℕ) (hb : bits ≤ 64) (hv : v < 2 ^ 64) : valueFits bits v = true ↔ v < 2 ^ bits :=
  CtorsThm.valueFits_iff bits v hb hv

/-- **C06 (Ok ⇒ verifies).** Whenever the guards pass — i.e. `Opens` holds — the proof the model prover builds has
    zero coded contribution (it is `C01_code_accepts`; restated here because C06 asks for it). -/
theorem C06_ok_verifies (I : RangeInst F M) (hn : 0 < I.n) (v p : ℕ → ℕ) (r : ℕ → ℕ → F)
    (α : ℕ → F) (dL dR : ℕ → ℕ → F) (rr ss : F) (d η : ℕ → F) (y z : F) (es : List F) (e w : F)
    (k : ℕ) (hm : I.m = 2 ^ k) (hN : I.n * I.m = 2 ^ es.length) (hw : Opens I v p r)
    (hy0 : y ≠ 0) (hy1 : y ≠ 1) (hes : ∀ x ∈ es, x ≠ 0) :
    Model.codeContribution I (Model.rangeProve I v p r α dL dR rr ss d η y z es e).toProofM y z es e w = 0 :=
  C01_code_accepts I hn v p r α dL dR rr ss d η y z es e w k hm hN hw hy0 hy1 hes

/-! ## C17 Constructors accept exactly the documented parameter space -/

open Model.Ctors in
theorem C17_params (bits cap : ℕ) :
    paramsInit bits cap = true ↔ (∃ k, cap = 2 ^ k) ∧ (bits = 1 ∨ bits = 2 ∨ bits = 4 ∨ bits = 8 ∨ bits = 16 ∨ bits = 32 ∨ bits = 64) :=
  CtorsThm.paramsInit_iff bits cap

open Model.Ctors in
theorem C17_statement (cap nC nP : ℕ) (seed : Bool) :
    statementInit cap nC nP seed = true ↔ (∃ k, nC = 2 ^ k) ∧ nP = nC ∧ nC ≤ cap ∧ (seed = true → nC = 1) :=
  CtorsThm.statementInit_iff cap nC nP seed

open Model.Ctors in
theorem C17_witness (rs : List ℕ) : witnessInit rs = true ↔ ∃ t, 1 ≤ t ∧ t ≤ 6 ∧ rs ≠ [] ∧ ∀ r ∈ rs, r = t :=
  CtorsThm.witnessInit_iff rs

open Model.Ctors in
theorem C17_degree (x : ℕ) : degreeOk x = true ↔ 1 ≤ x ∧ x ≤ 6 := CtorsThm.degreeOk_iff x

open Model.Ctors in
theorem C17_mask (deg len : ℕ) (hd : 1 ≤ deg) : maskAssign deg len = true ↔ len = deg := CtorsThm.maskAssign_iff deg len hd

open Model.Ctors in
theorem C17_commit (deg nB : ℕ) : commitOk deg nB = true ↔ 1 ≤ nB ∧ nB ≤ deg := CtorsThm.commitOk_iff deg nB

/-- **C03 / C08 (how unlikely a wrongful batch acceptance is, as a count).** Over a finite field, if at least one of
    the `k` members' reference residuals is not zero, then at most `|F|^(k-1)` of the `|F|^k` weight vectors make
    the chunk's weighted sum vanish: a fraction `1/|F|`. (With weights as random-oracle outputs this is the
    acceptance probability of a batch containing an invalid member; `C03_chunk_at_most_one_weight` is the
    one-coordinate version.) -/
theorem C03_cancelling_weights_count {F : Type} [Field F] [Fintype F] [DecidableEq F] {M : Type} [AddCommGroup M]
    [Module F M] [DecidableEq M] (k : ℕ) (R : Fin k → M) (i0 : Fin k) (h0 : R i0 ≠ 0) :
    (Finset.univ.filter (fun w : Fin k → F => ∑ i, w i • R i = 0)).card ≤ Fintype.card F ^ (k - 1) :=
  cancelling_weights_card k R i0 h0

/-! ## C04 Fiat–Shamir binding (event model `Model.Transcript`; merlin/STROBE idealised as a random oracle with
injective framing: "changes the challenge" = "changes the oracle's input", which is what is proved) -/

open Model.Transcript in
/-- **C04 (y, z).** For a fixed caller history, the history in front of `y`, `z` determines both kinds of commitment
    generator, bit length, extension degree, aggregation factor, every commitment, every promise, and `A`. -/
theorem C04_data_yz (ctx : List Event) (x x' : Pub) (hx : x.ok) (hx' : x'.ok) (A A' : Bytes)
    (h : beforeY ctx x A = beforeY ctx x' A') : x = x' ∧ A = A' := beforeY_inj_data ctx x x' hx hx' A A' h

open Model.Transcript in
/-- **C04 (round challenge e_j).** … and every `L`, `R` up to and including round `j`. -/
theorem C04_data_round (ctx : List Event) (x x' : Pub) (hx : x.ok) (hx' : x'.ok) (A A' : Bytes)
    (lrs lrs' : List (Bytes × Bytes)) (l r l' r' : Bytes)
    (h : beforeE ctx x A lrs l r = beforeE ctx x' A' lrs' l' r') :
    x = x' ∧ A = A' ∧ lrs = lrs' ∧ l = l' ∧ r = r' := beforeE_inj_data ctx x x' hx hx' A A' lrs lrs' l r l' r' h

open Model.Transcript in
/-- **C04 (final challenge e).** … and every `L`, `R`, `A1`, `B`. -/
theorem C04_data_final (ctx : List Event) (x x' : Pub) (hx : x.ok) (hx' : x'.ok) (A A' : Bytes)
    (lrs lrs' : List (Bytes × Bytes)) (a1 b a1' b' : Bytes)
    (h : beforeFinal ctx x A lrs a1 b = beforeFinal ctx x' A' lrs' a1' b') :
    x = x' ∧ A = A' ∧ lrs = lrs' ∧ a1 = a1' ∧ b = b' := beforeFinal_inj_data ctx x x' hx hx' A A' lrs lrs' a1 b a1' b' h

open Model.Transcript in
/-- **C04 (context).** For fixed data, every challenge's history determines the caller-supplied history: a proof is
    bound to the transcript state it was created in. -/
theorem C04_context (ctx ctx' : List Event) (x : Pub) (A : Bytes) (lrs : List (Bytes × Bytes)) (a1 b : Bytes)
    (h : beforeFinal ctx x A lrs a1 b = beforeFinal ctx' x A lrs a1 b) : ctx = ctx' := by
  unfold beforeFinal beforeY at h
  exact List.append_cancel_right (List.append_cancel_right h)

open Model.Transcript in
/-- **C04 (nesting).** The history of a later challenge extends that of every earlier one, so a change visible to
    one challenge is visible to all later ones; the caller's history is a prefix of all of them. -/
theorem C04_nested (ctx : List Event) (x : Pub) (A : Bytes) (lrs : List (Bytes × Bytes)) (l r a1 b : Bytes) :
    ctx <+: beforeY ctx x A ∧ beforeY ctx x A <+: beforeE ctx x A lrs l r ∧
    beforeY ctx x A <+: beforeFinal ctx x A lrs a1 b := by
  refine ⟨List.prefix_append _ _, beforeY_prefix_beforeE ctx x A lrs l r, ?_⟩
  unfold beforeFinal; exact List.prefix_append _ _

open Model.Transcript in
/-- **C04 (what the caller keeps).** The history left in the caller's transcript by a successful prover call extends
    the caller's own history and determines the statement and every prover message: whatever the caller derives from
    the transcript afterwards (a second proof, a challenge of an enclosing protocol) depends on all of them. The
    correspondence check reads the caller's object after the call and compares. -/
theorem C04_post_state (ctx : List Event) (x x' : Pub) (hx : x.ok) (hx' : x'.ok) (A A' : Bytes)
    (lrs lrs' : List (Bytes × Bytes)) (a1 b a1' b' : Bytes) :
    ctx <+: proverPost ctx x A lrs a1 b ∧ ctx ≠ proverPost ctx x A lrs a1 b ∧
    (proverPost ctx x A lrs a1 b = proverPost ctx x' A' lrs' a1' b' →
      x = x' ∧ A = A' ∧ lrs = lrs' ∧ a1 = a1' ∧ b = b') := by
  refine ⟨?_, ?_, ?_⟩
  · unfold proverPost beforeFinal beforeY
    simp only [List.append_assoc]; exact List.prefix_append _ _
  · intro h
    have := congrArg List.length h
    unfold proverPost beforeFinal beforeY at this
    simp only [List.length_append, List.length_cons, List.length_nil] at this
    omega
  · intro h
    unfold proverPost at h
    exact beforeFinal_inj_data ctx x x' hx hx' A A' lrs lrs' a1 b a1' b' (List.append_cancel_right h)

open Model.Transcript in
/-- non-vacuity: a small statement satisfies `Pub.ok` -/
example : ({ hb := [1], gb := [[2]], n := 8, t := 1, m := 1, cs := [[3]], ps := [0] } : Pub).ok :=
  ⟨by decide, by decide, by decide, rfl, rfl, by simp⟩

/-! ## C07 Minimum-value promises -/

/-- **C07 (shift).** Changing only the promise vector changes the reference residual by an explicit multiple of the
    value generator: `e²·y^{N+1}·Σ_j z^{2(j+1)}(p_j − p′_j)`. -/
theorem C07_shift (I : RangeInst F M) (p' : ℕ → F) (π : ProofM F M) (y z : F) (es : List F) (e : F) :
    Model.specResidual I π y z es e - Model.specResidual { I with p := p' } π y z es e
      = (e ^ 2 * ∑ j ∈ range I.m, y ^ (I.n * I.m + 1) * z ^ (2 * (j + 1)) * (I.p j - p' j)) • I.hb := by
  rw [specResidual_bridge, specResidual_bridge]; exact promise_shift I p' π y z es e

/-- **C07 (binding, one commitment).** One proof accepted under promises `p` and `p′` at the same non-zero
    challenges, with a non-zero value generator: `p = p′` (in the field; 64-bit promises inject into it). -/
theorem C07_bind_single (I : RangeInst F M) (hm : I.m = 1) (p' : ℕ → F) (π : ProofM F M)
    (y z : F) (es : List F) (e : F) (hy : y ≠ 0) (hz : z ≠ 0) (he : e ≠ 0) (hhb : I.hb ≠ 0)
    (h : Model.specResidual I π y z es e = 0) (h' : Model.specResidual { I with p := p' } π y z es e = 0) :
    I.p 0 = p' 0 := by
  rw [specResidual_bridge] at h h'; exact promise_unique_single I hm p' π y z es e hy hz he hhb h h'

/-- **C07 (binding, aggregate).** … for `m` commitments `z²` is a root of the polynomial with coefficients
    `p_j − p′_j`; `z` is drawn after every promise is absorbed (C04), so a non-zero difference survives for at most
    `m` values of `z²`. (At a *fixed* `z` equality of all promises does not follow algebraically and is not claimed.) -/
theorem C07_bind_poly (I : RangeInst F M) (p' : ℕ → F) (π : ProofM F M)
    (y z : F) (es : List F) (e : F) (hy : y ≠ 0) (he : e ≠ 0) (hhb : I.hb ≠ 0)
    (h : Model.specResidual I π y z es e = 0) (h' : Model.specResidual { I with p := p' } π y z es e = 0) :
    ∑ j ∈ range I.m, z ^ (2 * (j + 1)) * (I.p j - p' j) = 0 := by
  rw [specResidual_bridge] at h h'; exact promise_poly I p' π y z es e hy he hhb h h'

open Model.Batch in
/-- **C07 (range).** Any statement anywhere in a batch with a promise that does not fit the bit length makes the
    verifier return an error. -/
theorem C07_promise_range (c : ℕ) (a : Action) (nT nP : ℕ) (ms : List Member) (x : Member) (hx : x ∈ ms)
    (h : x.promisesFit = false) : verifyBatch c a nT nP ms = none :=
  BatchFlow.verifyBatch_refuses c a nT nP ms (Or.inr (Or.inr (Or.inr (Or.inr ⟨x, hx, h⟩))))

open Model.Ctors in
/-- **C07 (prover).** `value = promise` passes the promise guard, `value < promise` does not (part of `C06_guard_iff`). -/
theorem C07_prover_boundary (v : ℕ) :
    proverGuards 64 1 1 1 [⟨v, 1, true⟩] [some v] = (valueFits 64 v) ∧
    proverGuards 64 1 1 1 [⟨v, 1, true⟩] [some (v + 1)] = false := by
  simp [proverGuards, commitOk]

/-! ## C09 Mask recovery correctness -/

/-- **C09.** For one commitment, any bit length, extension degree and number of rounds, any nonce family (the hash
    is a parameter), any prover randomness `r`, `s`, and non-zero `y`, `z`, `e`: the recovery formula applied to the
    model prover's `d1` returns the blinding factor of the commitment, component by component in order. -/
theorem C09_recover (I : RangeInst F M) (hn : 0 < I.n) (hm : I.m = 1) (v p : ℕ → ℕ) (r : ℕ → ℕ → F)
    (α0 : ℕ → F) (dL dR : ℕ → ℕ → F) (rr ss : F) (d η : ℕ → F)
    (y z : F) (es : List F) (e : F) (hy : y ≠ 0) (hz : z ≠ 0) (he : e ≠ 0) (k : ℕ) :
    Model.recoverMask (I.n * I.m) α0 d η dL dR y z es e
      (Model.rangeProve I v p r α0 dL dR rr ss d η y z es e).wipP.d1 k = r 0 k := by
  rw [rangeProve_bridge I hn, recoverMask_bridge]
  exact recover_correct I hm v p r α0 dL dR rr ss d η y z es e hy hz he k

open Model.Batch in
/-- **C09 (positions).** In a successful batch call entry `i` is a mask exactly when the mode recovers and member
    `i` carries a seed (seeded statements have one commitment, `C17_statement`). -/
theorem C09_positions (c : ℕ) (a : Action) (nT nP : ℕ) (ms : List Member) (r : List Bool)
    (h : verifyBatch c a nT nP ms = some r) (i : ℕ) (hi : i < ms.length) :
    r[i]? = some (a ≠ .verifyOnly && ms[i].seeded) := by
  rw [(BatchFlow.verifyBatch_aligned c a nT nP ms r h).2 i hi]
  cases a <;> simp [maskOf]

/-! ## C10 Recovery is keyed by the seed and never changes the verdict -/

/-- **C10 (keyed).** With another nonce family (another seed) the recovered value is the true mask plus an explicit
    linear form in the nonce differences; it equals the true mask iff that form vanishes. -/
theorem C10_wrong_seed (I : RangeInst F M) (hn : 0 < I.n) (hm : I.m = 1) (v p : ℕ → ℕ) (r : ℕ → ℕ → F)
    (α0 α0' : ℕ → F) (dL dR dL' dR' : ℕ → ℕ → F) (rr ss : F) (d η d' η' : ℕ → F)
    (y z : F) (es : List F) (e : F) (hy : y ≠ 0) (hz : z ≠ 0) (he : e ≠ 0) (k : ℕ) :
    Model.recoverMask (I.n * I.m) α0' d' η' dL' dR' y z es e
      (Model.rangeProve I v p r α0 dL dR rr ss d η y z es e).wipP.d1 k
      = r 0 k + (((η k - η' k) + e * (d k - d' k)) * (e^2)⁻¹ + (α0 k - α0' k)
          + (roundNonceSum dL dR es 0 k - roundNonceSum dL' dR' es 0 k)) * (z^2 * (y^(I.n * I.m) * y))⁻¹ := by
  rw [rangeProve_bridge I hn, recoverMask_bridge]
  exact recover_wrong_seed I hm v p r α0 α0' dL dR dL' dR' rr ss d η d' η' y z es e hy hz he k

open Model.Batch in
/-- **C10 (verdict).** The accept/reject verdict is the same whether or not statements carry seeds and whichever
    verifying mode is requested. -/
theorem C10_verdict (c : ℕ) (nT nP : ℕ) (ms ms' : List Member)
    (hsame : ms'.map (fun x => { x with seeded := false }) = ms.map (fun x => { x with seeded := false })) :
    (verifyBatch c .verifyOnly nT nP ms).isSome = (verifyBatch c .recoverAndVerify nT nP ms').isSome :=
  BatchFlow.verdict_seed_mode_independent c nT nP ms ms' hsame

open Model.Batch in
/-- **C10 (modes).** Recover-only returns, for every batch that recover-and-verify accepts, the same results. -/
theorem C10_modes (c : ℕ) (nT nP : ℕ) (ms : List Member) (r : List Bool)
    (h : verifyBatch c .recoverAndVerify nT nP ms = some r) : verifyBatch c .recoverOnly nT nP ms = some r :=
  BatchFlow.recoverOnly_same_masks c nT nP ms r h

/-! ## C08 Batch weighting -/

/-- **C08 (non-zero factor).** Whatever the RNG returns, a weight obtained by rejection sampling is non-zero. -/
theorem C08_weight_nonzero [DecidableEq F] (draws : List F) (w : F) (h : Model.firstNonZero draws = some w) : w ≠ 0 := by
  induction draws with
  | nil => simp [Model.firstNonZero] at h
  | cons x xs ih =>
    simp only [Model.firstNonZero] at h
    split at h
    · exact ih h
    · injection h with h; subst h; assumption

/-- **C08 (the factor is the weight).** Each member enters the batch sum as its weight times its reference residual
    (`C02_contribution_eq`), so a k-member chunk computes `Σ_i w_i • R_spec,i`. -/
theorem C08_factor (I : RangeInst F M) (hn : 0 < I.n) (π : ProofM F M) (y z : F) (es : List F) (e w : F)
    (k : ℕ) (hm : I.m = 2 ^ k) (hN : I.n * I.m = 2 ^ es.length)
    (hL : π.Ls.length = es.length) (hR : π.Rs.length = es.length)
    (hy0 : y ≠ 0) (hy1 : y ≠ 1) (hes : ∀ x ∈ es, x ≠ 0) :
    Model.codeContribution I π y z es e w = w • Model.specResidual I π y z es e :=
  C02_contribution_eq I hn π y z es e w k hm hN hL hR hy0 hy1 hes

/-- **C08 (no cancellation).** With the residuals fixed and member `j` invalid, at most one value of `w_j` makes the
    sum vanish whatever the other weights are — so defects in different proofs cancel only with probability ≤ 1/ℓ
    over a weight that is re-randomised by any change to a response scalar (`C08_weight_input`). -/
theorem C08_no_cancel (k : ℕ) (w w' : ℕ → F) (R : ℕ → M) (j : ℕ) (hj : j < k)
    (hRj : R j ≠ 0) (hagree : ∀ i, i ≠ j → w i = w' i)
    (h0 : Model.sumTo k (fun i => w i • R i) = 0) (h0' : Model.sumTo k (fun i => w' i • R i) = 0) : w j = w' j :=
  C03_chunk_at_most_one_weight k w w' R j hj hRj hagree h0 h0'

open Model.Transcript in
/-- **C08 (what the weight depends on).** The history each member contributes to the weight derivation determines
    its whole statement, every proof point and the response scalars `r1`, `s1`, every `d1_k`: changing any response
    scalar of any member changes the random oracle's input for every weight. -/
theorem C08_weight_input (ctx : List Event) (x x' : Pub) (hx : x.ok) (hx' : x'.ok) (A A' : Bytes)
    (lrs lrs' : List (Bytes × Bytes)) (a1 b a1' b' r1 s1 r1' s1' : Bytes) (d1 d1' : List Bytes)
    (hd : d1.length = d1'.length)
    (h : beforeWeight ctx x A lrs a1 b r1 s1 d1 = beforeWeight ctx x' A' lrs' a1' b' r1' s1' d1') :
    x = x' ∧ A = A' ∧ lrs = lrs' ∧ a1 = a1' ∧ b = b' ∧ r1 = r1' ∧ s1 = s1' ∧ d1 = d1' :=
  beforeWeight_inj_data ctx x x' hx hx' A A' lrs lrs' a1 b a1' b' r1 s1 r1' s1' d1 d1' hd h

/-- **C08 (a rewrite that keeps the property).** Weights taken as successive powers of ONE non-zero draw (harmless
    rewrite H21) still let no defects cancel: a weighted sum of residuals that vanishes for more than `k` values of
    the draw has all residuals zero. The factor vectors `(ρ, ρ², …, ρ^k)` span `F^k` (Vandermonde), which is why the
    common-kernel attack finds nothing on such a verifier — as it must not. -/
theorem C08_power_weights_sound (k : ℕ) (R : ℕ → M) (S : Finset F) (hS : k < S.card) (h0 : ∀ ρ ∈ S, ρ ≠ 0)
    (h : ∀ ρ ∈ S, ∑ i ∈ range k, ρ ^ (i + 1) • R i = 0) : ∀ i < k, R i = 0 :=
  power_weights_sound k R S hS h0 h

open Model.Transcript in
/-- **C08 (the weight generator's input).** The weight transcript carries one digest per member, in batch order, and
    determines every one of them; a digest has `8 · weightDigestBytes = 64` bits, the width the correspondence check
    measures at the merlin boundary (bits of the weight generator's history that move with one member's responses). -/
theorem C08_weight_transcript (ds ds' : List Bytes) (h : weightEvents ds = weightEvents ds') :
    ds = ds' ∧ 8 * weightDigestBytes = 64 :=
  ⟨weightEvents_inj ds ds' h, rfl⟩

/-- **C08 (cancellation over any number of members).** With `W r` the vector of the `k` members' factors on run `r`:
    a fixed non-zero vector of defects annihilated by the factors on *every* run exists if and only if the factor
    vectors do not span `F^k`. (The correspondence check reads the factor vectors of `k+3` runs from the free-module
    residual, computes their common kernel and, when it is not trivial, submits the cancelling batch.) -/
theorem C08_fixed_cancel_iff_not_spanning {F : Type} [Field F] {ι : Type} (k : ℕ) (W : ι → (Fin k → F)) :
    (∃ E : Fin k → F, E ≠ 0 ∧ ∀ r, ∑ i, W r i * E i = 0) ↔ Submodule.span F (Set.range W) ≠ ⊤ :=
  fixed_cancel_iff_not_spanning k W

/-! ## C11 Generators / C12 capacity independence (model `Model.Gens`; hashes are parameters) -/

open Model.Gens in
/-- **C11 (labels).** (kind, party < 2³², index) ↦ (SHAKE input, byte offset) is injective. The label has no capacity
    argument (C12). -/
theorem C11_chain_inj (k k' : Kind) (p p' i i' : ℕ) (hp : p < 2 ^ 32) (hp' : p' < 2 ^ 32)
    (h : chainLabel k p = chainLabel k' p' ∧ chainOffset i = chainOffset i') : k = k' ∧ p = p' ∧ i = i' :=
  GensThm.chain_inj k k' p p' i i' hp hp' h

open Model.Gens in
theorem C11_chain_ne_pedersen (k : Kind) (p j : ℕ) : chainLabel k p ≠ pedersenLabel j := GensThm.chain_ne_pedersen k p j

open Model.Gens in
theorem C11_pedersen_inj : ∀ j < 6, ∀ j' < 6, pedersenLabel j = pedersenLabel j' → j = j' := GensThm.pedersen_inj

open Model.Gens in
/-- **C11 (table).** Position `2i` / `2i+1` of the precomputed table is the i-th `G` / `H` generator in party-major
    order. -/
theorem C11_table_positions (bits cap i : ℕ) (hi : i < cap * bits) :
    (tableOrder bits cap)[2 * i]? = (aggIter .G bits cap)[i]? ∧ (tableOrder bits cap)[2 * i + 1]? = (aggIter .H bits cap)[i]? :=
  GensThm.interleave_get _ _ (by rw [GensThm.aggIter_length, GensThm.aggIter_length]) i (by rw [GensThm.aggIter_length]; exact hi)

open Model.Gens in
/-- **C11 (the public generator iterators).** The iterator *as coded* (state `(party_idx, gen_idx)`, `Model.Gens.It`),
    started afresh, yields on its `k`-th call the `k`-th element of the party-major list — generator `k % n` of party
    `k / n` — and `None` from call `m·n` on, for ever; `size_hint` is exact at every reachable state; `nth(j)` after
    `k` items is item `k + j`; and that list is `aggIter` (of which the table theorems speak). -/
theorem C11_iterator (kind : Kind) (n m : ℕ) (hn : 0 < n) (k j : ℕ) :
    ((GensThm.It.after k (It.start n m)).next.2 = if k < m * n then some (k / n, k % n) else none) ∧
    ((It.nth j (GensThm.It.after k (It.start n m))).2 =
      if k + j < m * n then some ((k + j) / n, (k + j) % n) else none) ∧
    (k ≤ m * n → (GensThm.It.after k (It.start n m)).sizeHint = m * n - k) ∧
    (k < m * n → (aggIter kind n m)[k]? = some ⟨kind, k / n, k % n⟩) :=
  ⟨GensThm.next_after n m hn k, GensThm.nth_after n m hn j k, GensThm.sizeHint_after n m hn k,
   GensThm.aggIter_get kind n m k hn⟩

open Model.Gens in
theorem C11_table_length (bits cap : ℕ) : (tableOrder bits cap).length = 2 * bits * cap := GensThm.tableOrder_length bits cap

open Model.Gens in
/-- **C12 (same generators whatever the capacity).** -/
theorem C12_aggIter_prefix (k : Kind) (n m cap : ℕ) (h : m ≤ cap) : aggIter k n m <+: aggIter k n cap :=
  GensThm.aggIter_prefix k n m cap h

/-- **C12 (padding is neutral).** -/
theorem C12_padding_neutral (N pad : ℕ) (a : ℕ → F) (G : ℕ → M) :
    Model.dot (N + pad) (fun i => if i < N then a i else 0) G = Model.dot N a G := GensThm.dot_padding N pad a G

open Model.Gens in
/-- **C12/C16 (padding fills the table).** -/
theorem C12_padding_fills (bits m cap p : ℕ) (h : padding bits m cap = some p) :
    2 * (bits * m) + p = (tableOrder bits cap).length := GensThm.padding_fills bits m cap p h

/-- **C12 (verifier sees a prefix only).** -/
theorem C12_verifier_prefix (I : RangeInst F M) (G' H' : ℕ → M) (π : ProofM F M) (y z : F) (es : List F) (e w : F)
    (hG : ∀ i < I.n * I.m, I.G i = G' i) (hH : ∀ i < I.n * I.m, I.H i = H' i) :
    Model.codeContribution { I with G := G', H := H' } π y z es e w = Model.codeContribution I π y z es e w :=
  GensThm.codeContribution_prefix I G' H' π y z es e w hG hH

/-! ## C05 Statement binding

Every component of a (statement, proof, transcript) triple is in one of three classes:
* absorbed before a later challenge (C04): context, H, every G_k, bit length, extension degree, aggregation factor,
  every commitment (hence their order) and promise, A, every L_j, R_j, A1, B — a change re-randomises that challenge;
* in the final equation with a *unique* accepting value at fixed challenges: r1, s1, every d1_k, and again A, A1, B
  (theorems below; for the promises `C07_bind_single/poly`);
* in a shape check: number of rounds and the extension tag (`C03_accept_iff`: `shapeOk`, `d1 = t`; `C15_accept_iff`). -/

theorem C05_A1_unique (I : RangeInst F M) (π : ProofM F M) (A1' : M) (y z : F) (es : List F) (e : F) (he : e ≠ 0)
    (h : Model.specResidual I π y z es e = 0) (h' : Model.specResidual I { π with A1 := A1' } y z es e = 0) : π.A1 = A1' := by
  rw [specResidual_bridge] at h h'; exact point_A1_unique I π A1' y z es e he h h'

theorem C05_B_unique (I : RangeInst F M) (π : ProofM F M) (B' : M) (y z : F) (es : List F) (e : F)
    (h : Model.specResidual I π y z es e = 0) (h' : Model.specResidual I { π with B := B' } y z es e = 0) : π.B = B' := by
  rw [specResidual_bridge] at h h'; exact point_B_unique I π B' y z es e h h'

theorem C05_A_unique (I : RangeInst F M) (π : ProofM F M) (A' : M) (y z : F) (es : List F) (e : F) (he : e ≠ 0)
    (h : Model.specResidual I π y z es e = 0) (h' : Model.specResidual I { π with A := A' } y z es e = 0) : π.A = A' := by
  rw [specResidual_bridge] at h h'; exact point_A_unique I π A' y z es e he h h'

theorem C05_s1_unique (I : RangeInst F M) (π : ProofM F M) (s1' : F) (y z : F) (es : List F) (e : F)
    (h : Model.specResidual I π y z es e = 0) (h' : Model.specResidual I { π with s1 := s1' } y z es e = 0) :
    π.s1 = s1' ∨ e • foldH es I.H 0 + (π.r1 * y) • I.hb = 0 := by
  rw [specResidual_bridge] at h h'; exact response_s1_unique I π s1' y z es e h h'

theorem C05_d1k_unique (I : RangeInst F M) (π : ProofM F M) (k : ℕ) (hk : k < I.t) (x : F) (y z : F) (es : List F) (e : F)
    (h : Model.specResidual I π y z es e = 0)
    (h' : Model.specResidual I { π with d1 := fun i => if i = k then x else π.d1 i } y z es e = 0) :
    π.d1 k = x ∨ I.Gb k = 0 := by
  rw [specResidual_bridge] at h h'; exact response_d1k_unique I π k hk x y z es e h h'

/-! ## C13 (what the nonces are for) -/

/-- **C13 (what the nonces buy: no transcript excludes any witness).** In a group generated by the first blinding
    generator (every non-identity Ristretto point generates the group), for two valid witnesses of the same
    statement — the same commitments opened with other values and masks — and *any* nonces for the first, there
    are nonces for the second that give the same `A`, the same `L_j`, `R_j`, `A1`, `B`, `r1`, `s1` and the same
    `d1_k` for `k < t`, at the same challenges. Each message is moved onto the other witness's message by
    shifting its own nonce (`α₀`, `dL_{j,0}`, `dR_{j,0}`, `η₀`, `r`, `s`, `d_k`), which is why every one of them has
    to be fresh and secret. -/
theorem C13_witness_independent (I : RangeInst F M) (hn : 0 < I.n) (ht : 0 < I.t)
    (hgen : ∀ X : M, ∃ c : F, X = c • I.Gb 0)
    (v v' p : ℕ → ℕ) (r r' : ℕ → ℕ → F) (y z : F) (es : List F) (e : F)
    (hN : I.n * I.m = 2 ^ es.length)
    (hp : ∀ j < I.m, p j ≤ v j) (hv : ∀ j < I.m, v j - p j < 2 ^ I.n)
    (hp' : ∀ j < I.m, p j ≤ v' j) (hv' : ∀ j < I.m, v' j - p j < 2 ^ I.n)
    (hpF : ∀ j < I.m, I.p j = (p j : F))
    (hV : ∀ j < I.m, I.V j = (v j : F) • I.hb + dot I.t (r j) I.Gb)
    (hV' : ∀ j < I.m, I.V j = (v' j : F) • I.hb + dot I.t (r' j) I.Gb)
    (hy : y ≠ 0) (hes : ∀ x ∈ es, x ≠ 0) (he : e ≠ 0)
    (α : ℕ → F) (dL dR : ℕ → ℕ → F) (rr ss : F) (d η : ℕ → F) :
    ∃ (α' : ℕ → F) (dL' dR' : ℕ → ℕ → F) (rr' ss' : F) (d' η' : ℕ → F),
      (rangeProve I v p r α dL dR rr ss d η y z es e).A = (rangeProve I v' p r' α' dL' dR' rr' ss' d' η' y z es e).A ∧
      SameTranscript I.t (rangeProve I v p r α dL dR rr ss d η y z es e).wipP
        (rangeProve I v' p r' α' dL' dR' rr' ss' d' η' y z es e).wipP :=
  range_witness_independent I hn ht hgen v v' p r r' y z es e hN hp hv hp' hv' hpF hV hV' hy hes he α dL dR rr ss d η

/-- **C13 (identical distributions).** The same with a *bijection* `Φ` of the whole nonce space: translations of
    `α`, of every round nonce, of `r` and `s` by constants and of `d`, `η` by amounts depending on `(r, s)` only. The
    first witness with nonces `ν` and the second with `Φ ν` give the same `A` and the same zk-WIP transcript, so
    uniformly distributed nonces give identically distributed proofs for the two witnesses: the proof is
    perfectly witness-indistinguishable at fixed challenges (the core of honest-verifier zero knowledge). -/
theorem C13_nonce_bijection (I : RangeInst F M) (hn : 0 < I.n) (ht : 0 < I.t)
    (hgen : ∀ X : M, ∃ c : F, X = c • I.Gb 0)
    (v v' p : ℕ → ℕ) (r r' : ℕ → ℕ → F) (y z : F) (es : List F) (e : F)
    (hN : I.n * I.m = 2 ^ es.length)
    (hp : ∀ j < I.m, p j ≤ v j) (hv : ∀ j < I.m, v j - p j < 2 ^ I.n)
    (hp' : ∀ j < I.m, p j ≤ v' j) (hv' : ∀ j < I.m, v' j - p j < 2 ^ I.n)
    (hpF : ∀ j < I.m, I.p j = (p j : F))
    (hV : ∀ j < I.m, I.V j = (v j : F) • I.hb + dot I.t (r j) I.Gb)
    (hV' : ∀ j < I.m, I.V j = (v' j : F) • I.hb + dot I.t (r' j) I.Gb)
    (hy : y ≠ 0) (hes : ∀ x ∈ es, x ≠ 0) (he : e ≠ 0) :
    ∃ Φ : RangeNonces F → RangeNonces F, Function.Bijective Φ ∧ ∀ ν : RangeNonces F,
      (rangeProveN I v p r ν y z es e).A = (rangeProveN I v' p r' (Φ ν) y z es e).A ∧
      SameTranscript I.t (rangeProveN I v p r ν y z es e).wipP (rangeProveN I v' p r' (Φ ν) y z es e).wipP :=
  range_shift I hn ht hgen v v' p r r' y z es e hN hp hv hp' hv' hpF hV hV' hy hes he

/-- non-vacuity: in the one-dimensional module `ℚ` over itself with `Gb 0 = 1` every element is a multiple of
    the first blinding generator, and the value 3 with mask 5 and the value 1 with mask 11 open the same
    commitment under `hb = 3` -/
example : (∀ X : ℚ, ∃ c : ℚ, X = c • (1 : ℚ)) ∧ ((3 : ℚ) • (3 : ℚ) + (5 : ℚ) • (1 : ℚ) = (1 : ℚ) • (3 : ℚ) + (11 : ℚ) • (1 : ℚ)) :=
  ⟨fun X => ⟨X, by simp⟩, by norm_num⟩

/-! ## C13 Nonces fresh / C14 hedged randomness (model `Model.Nonce`; STROBE and Blake2b are parameters, their
PRF behaviour is outside the proof: what is proved is that distinct positions, witnesses and histories give distinct
*inputs* to them) -/

open Model.Nonce in
/-- **C13 (schedule).** Every nonce position of a proof (`α_k`, `dL_{j,k}`, `dR_{j,k}`, `r`, `s`, `d_k`, `η_k`) is
    fed by its own source: a distinct (RNG instance, draw) without a seed; with a seed a distinct (label, j, k) for
    all but `r`, `s`. No position is constant, none is shared. -/
theorem C13_schedule_inj (seeded : Bool) (t κ : ℕ) (p q : Pos) (hp : p.valid t κ) (hq : q.valid t κ)
    (h : source seeded t κ p = source seeded t κ q) : p = q := NonceThm.source_inj seeded t κ p q hp hq h

open Model.Nonce in
/-- **C13 (`r`, `s` always from the RNG).** -/
theorem C13_r_s_from_rng (seeded : Bool) (t κ : ℕ) :
    source seeded t κ .r = .rng (κ + 1) 0 ∧ source seeded t κ .s = .rng (κ + 1) 1 := NonceThm.r_s_from_rng seeded t κ

open Model.Nonce Model.Transcript in
/-- **C13 (seed key layout).** The MAC key is injective in (seed, j, k); the label is the persona. -/
theorem C13_key_inj (s s' : Bytes) (hs : s.length = 32) (hs' : s'.length = 32) (j j' k k' : Option ℕ)
    (hj : ∀ x, j = some x → x < 2 ^ 32) (hj' : ∀ x, j' = some x → x < 2 ^ 32)
    (hk : ∀ x, k = some x → x < 2 ^ 32) (hk' : ∀ x, k' = some x → x < 2 ^ 32)
    (h : nonceKey s j k = nonceKey s' j' k') : s = s' ∧ j = j' ∧ k = k' :=
  NonceThm.nonceKey_inj s s' hs hs' j j' k k' hj hj' hk hk' h

/-- **C13 (draws are non-zero).** = `C08_weight_nonzero` (same `random_not_zero`). -/
theorem C13_nonzero [DecidableEq F] (draws : List F) (w : F) (h : Model.firstNonZero draws = some w) : w ≠ 0 :=
  C08_weight_nonzero draws w h

open Model.Nonce Model.Transcript in
/-- **C14 (hedging).** The construction input of every prover RNG instance determines the transcript history it was
    forked from, the serialised witness and the external bytes: runs differing in the witness or in any absorbed
    public datum have different inputs whatever the external RNG returns; identical runs have identical inputs. -/
theorem C14_rng_input_inj (h h' : List Event) (w w' e e' : Bytes) (heq : rngInput h w e = rngInput h' w' e') :
    h = h' ∧ w = w' ∧ e = e' := NonceThm.rngInput_inj h h' w w' e e' heq

/-! ## C16 No panics on untrusted input

The model functions are total (Lean accepts them: loops are structural or on a decreasing measure), every `get` /
`checked_*` of the Rust is an explicit branch. What is proved: the guarded index expressions are in range after the
shape checks, hostile round counts are refused before any work, and the work is bounded by the statement size.
Panics inside dalek / merlin / the allocator are outside the model (partial). -/

theorem C16_s_index (κ i : ℕ) (h1 : 1 ≤ i) (h2 : i < 2 ^ κ) :
    i - 2 ^ Nat.log2 i < i ∧ κ - Nat.log2 i - 1 < κ ∧ 2 ^ Nat.log2 i ≤ i := TotalityThm.s_index_in_range κ i h1 h2

open Model.Batch in
theorem C16_shape_bounds (x : Member) (h : shapeOk x = true) : x.rounds < 64 ∧ 2 ^ x.rounds = x.n * x.m :=
  TotalityThm.shape_bounds x h

open Model.Batch in
theorem C16_work_bounded (x : Member) (cap : ℕ) (h : shapeOk x = true) (hn : x.n ≤ 64) (hm : x.m ≤ cap) :
    2 ^ x.rounds ≤ 64 * cap := TotalityThm.work_bounded x cap h hn hm

open Model.Batch in
theorem C16_huge_rounds_refused (x : Member) (h : 64 ≤ x.rounds) : shapeOk x = false := TotalityThm.huge_rounds_refused x h

open Model.Gens in
/-- the static-scalar count handed to the precomputed MSM always equals the table size (dalek `assert_eq!`s it) -/
theorem C16_static_length (bits m cap p : ℕ) (h : padding bits m cap = some p) :
    2 * (bits * m) + p = (tableOrder bits cap).length := GensThm.padding_fills bits m cap p h

/-! ## C18 Purity, repeatability, thread-safety (refinement to a stateless spec + once-cell machine; real schedules
are sampled by the harness, the model cannot exhibit a data race — partial) -/

open Model.Api in
/-- **C18 (stateless).** Any history of API calls returns, call by call, the pure function of each call's own
    arguments. -/
theorem C18_stateless {Op Res : Type} (f : Op → Res) (ops : List Op) : run f () ops = ops.map f :=
  ApiThm.run_eq_map f () ops

open Model.Api in
/-- **C18 (no call observes another).** -/
theorem C18_history_independent {Op Res : Type} (f : Op → Res) (pre pre' post post' : List Op) (op : Op) :
    (run f () (pre ++ op :: post))[pre.length]? = (run f () (pre' ++ op :: post'))[pre'.length]? :=
  ApiThm.result_independent_of_history f pre pre' post post' op

open Model.Api in
/-- **C18 (once-initialised tables).** Under every interleaving of any number of threads racing the first use, every
    completed read returns `derive` and the cell only ever holds `derive`. -/
theorem C18_once (derive threads : ℕ) (sched : List ℕ) : ApiThm.Inv derive (runCell derive (init threads) sched) :=
  ApiThm.once_cell_deterministic derive threads sched

/-! ## C20 Zeroisation (life-cycle model `Model.Lifecycle`; what the compiled program allocates is observed by the
allocator run at opt-level 0 — partial) -/

open Model.Lifecycle in
/-- **C20 (wiped).** In the repaired flow no secret-bearing heap buffer of `prove` is released un-wiped. -/
theorem C20_prove_wiped (seeded : Bool) (m t κ : ℕ) : unwiped (proveBufs true seeded m t κ) = 0 :=
  LifecycleThm.prove_all_wiped seeded m t κ

open Model.Lifecycle in
theorem C20_recover_wiped (t κ : ℕ) : unwiped (recoverBufs true t κ) = 0 := LifecycleThm.recover_all_wiped t κ

open Model.Lifecycle in
/-- **C20 (number of seed derivations).** A seeded prove, and each mask recovery, derive `t(3 + 2κ)` nonces from the
    seed (α, d, η: t each; dL, dR: t per round); `r`, `s` are never seed-derived. -/
theorem C20_seed_derivations (t κ : ℕ) : seedDerivations true t κ = t * (3 + 2 * κ) ∧ seedDerivations false t κ = 0 :=
  LifecycleThm.seedDerivations_eq t κ

open Model.Lifecycle in
/-- **C20 (the repaired defect, recognisable if it returns).** -/
theorem C20_prefix_count (m t κ : ℕ) :
    unwiped (proveBufs false true m t κ) = t * (3 + 2 * κ) ∧ unwiped (recoverBufs false t κ) = t * (3 + 2 * κ) :=
  LifecycleThm.prefix_leak_count m t κ

/-! ## C19 Wire compatibility (translation validation)

The layouts are constants of the model, stated literally so that any change to the model is a visible diff here.
The tie to the code is behavioural: the hash-boundary inputs of the real code equal the model's (C04, C11, C13
ties); recorded vectors of the pinned release still verify; a reference prover and verifier whose protocol logic is
this model (the harness only supplies merlin, Blake2b and Ristretto arithmetic) interoperate with the library over
Ristretto byte for byte. -/

open Model.Transcript in
/-- transcript labels and order of the statement block -/
theorem C19_layout_statement (x : Pub) :
    stmtEvents x =
      [Event.append "dom-sep" "Bulletproofs+ Range Proof".toUTF8.toList, Event.append "H" x.hb]
      ++ (x.gb.map (Event.append "G")
      ++ ([Event.append "N" (le64 x.n), Event.append "T" (le64 x.t), Event.append "M" (le64 x.m)]
      ++ (x.cs.map (Event.append "Ci")
      ++ x.ps.map (fun p => Event.append "vi - minimum_value" (le64 p))))) := rfl

open Model.Transcript in
/-- labels and order of the proof messages and challenges, and of the verifier's weight path -/
theorem C19_layout_messages (ctx : List Event) (x : Pub) (A l r a1 b r1 s1 d : Bytes) :
    fullEvents ctx x A [(l, r)] a1 b r1 s1 [d] =
      ctx ++ (stmtEvents x ++ [Event.append "A" A]) ++
        ([Event.challenge "y" 64, Event.challenge "z" 64] ++
          ([Event.append "L" l, Event.append "R" r, Event.challenge "e" 64] ++ [Event.append "A1" a1, Event.append "B" b])) ++
        [Event.challenge "e" 64, Event.append "r1" r1, Event.append "s1" s1, Event.append "d1" d] := rfl

open Model.Nonce in
/-- seed-derived nonce key: `0 ‖ seed ‖ 'j' ‖ LE32 j ‖ 'k' ‖ LE32 k` (here j = 1, k = 258) -/
theorem C19_layout_nonce_key (seed : Model.Transcript.Bytes) :
    nonceKey seed (some 1) (some 258) = 0 :: (seed ++ [106, 1, 0, 0, 0, 107, 2, 1, 0, 0]) := by
  simp [nonceKey, le32]

open Model.Gens in
/-- vector-generator chain label: `"GeneratorsChain" ‖ kind ‖ LE32 party` (here H, party 258), block offset 64·index -/
theorem C19_layout_chain : chainLabel .H 258 = chainPrefix ++ [72, 2, 1, 0, 0] ∧ chainOffset 3 = 192 := by
  constructor
  · simp [chainLabel, le32, Kind.byte]
  · rfl

open Model.Codec in
/-- proof bytes: degree byte, d1, A, A1, B, r1, s1, interleaved L/R -/
theorem C19_layout_proof (p : Proof) :
    encode p = UInt8.ofNat p.tag :: (encodeScalars p.d1 ++ (p.a ++ (p.a1 ++ (p.b ++ (leBytes 32 p.r1 ++ (leBytes 32 p.s1 ++ encodePairs p.li p.ri)))))) := rfl

open Model Model.Wire in
/-- **C19 (the text tie itself).** Every scalar crossing the line protocol between harness and driver — each proof
    element, challenge, nonce and mask of every `prove` / `verify` / `recover` / `encode` request of the correspondence
    check and of the reference prover and verifier — is printed by the driver as the 32 little-endian bytes of its
    canonical representative, i.e. exactly the proof encoding's scalar bytes (`Model.Codec.leBytes 32`, what
    `Scalar::as_bytes` yields), as 64 hex characters; parsing that text returns the same scalar, and distinct canonical
    scalars have distinct texts. (Splitting request lines into tokens is not covered.) -/
theorem C19_driver_scalar_text (x y : Fl) (hx : x.v < ell) (hy : y.v < ell) :
    scalarOfHex (hexOfScalar x) = some x ∧
    hexOfScalar x = bytesToHex (Model.Codec.leBytes 32 x.v) ∧
    (hexOfScalar x).toList.length = 64 ∧
    (hexOfScalar x = hexOfScalar y → x = y) ∧
    (∀ bs : List UInt8, hexToBytes (bytesToHex bs) = some bs) :=
  ⟨WireThm.scalar_roundtrip x hx, by rw [hexOfScalar, WireThm.natToLe_eq_leBytes], WireThm.hexOfScalar_length x,
   WireThm.hexOfScalar_inj x y hx hy, WireThm.hexToBytes_bytesToHex⟩

open Model Model.Wire in
/-- **C19 (inputs of the driver are canonical).** Whatever text arrives, a scalar the driver accepts is a canonical
    representative `< ℓ` — the hypothesis under which `C02_driver_field` identifies the driver's arithmetic with `ZMod ℓ`
    and `C19_driver_scalar_text` gives the round trip — and a non-canonical 32-byte string is read as its residue, as
    `Scalar::from_bytes_mod_order` does. -/
theorem C19_driver_scalar_canonical (s : String) (x : Fl) (h : scalarOfHex s = some x) : x.v < ell :=
  WireThm.scalarOfHex_canonical s x h

/-- non-vacuity: the scalar ℓ − 1 is canonical, and its bytes are the well-known little-endian string `ecd3f55c…10` -/
example : (⟨Model.ell - 1⟩ : Model.Fl).v < Model.ell ∧
    Model.Codec.leBytes 32 (Model.ell - 1) =
      [236, 211, 245, 92, 26, 99, 18, 88, 214, 156, 247, 162, 222, 249, 222, 20,
       0, 0, 0, 0, 0, 0, 0, 0, 0, 0, 0, 0, 0, 0, 0, 16] := by
  constructor
  · decide
  · decide +kernel

/-! ## Scalar-level layer (C01, C02, C12, C16): the lists handed to the multiscalar multiplications

The Rust never forms a per-proof contribution as a group element: it fills scalar vectors and makes one multiscalar
multiplication over the interleaved, zero-padded static scalars and the dynamic ones. `Model.proofScalars`,
`Model.staticScalars`, `Model.accumulate`, `Model.proverAStatic` model those lists (the harness compares them with the
lists the real code passes to the MSM, element by element); the theorems below evaluate them. -/

open Model in
/-- **C02 (lists as coded).** For one proof, any capacity `n·m + extra` per generator kind: the static scalars
    (interleaved, `2·extra` zeros) against the interleaved table plus the dynamic scalars against the dynamic points
    evaluate to `Model.codeContribution` — hence, by `C02_contribution_eq`, to `w • R_spec`. -/
theorem C02_scalars_eval (I : RangeInst F M) (π : ProofM F M) (y z : F) (es : List F) (e w : F) (extra : ℕ)
    (hL : π.Ls.length = es.length) (hR : π.Rs.length = es.length) :
    msmList (staticScalars (proofScalars I.n I.m I.t I.p π.r1 π.s1 π.d1 y z es e w).gi
                           (proofScalars I.n I.m I.t I.p π.r1 π.s1 π.d1 y z es e w).hi (2 * extra))
        (interleaveL ((List.range (I.n * I.m + extra)).map I.G) ((List.range (I.n * I.m + extra)).map I.H))
      + msmList ((proofScalars I.n I.m I.t I.p π.r1 π.s1 π.d1 y z es e w).dyn ++
                  ((proofScalars I.n I.m I.t I.p π.r1 π.s1 π.d1 y z es e w).gb ++
                   [(proofScalars I.n I.m I.t I.p π.r1 π.s1 π.d1 y z es e w).hb]))
                (proofPoints I.m I.V π ++ ((List.range I.t).map I.Gb ++ [I.hb]))
      = Model.codeContribution I π y z es e w :=
  scalars_eval I π y z es e w extra hL hR

open Model in
/-- **C12 / C03 (shared table).** Accumulating the members' scalar vectors element-wise into one vector of the
    largest member's length and multiplying once equals the sum of the members' own products over their own
    prefixes of the table — members of different aggregation share one precomputed table. -/
theorem C12_shared_table (maxN : ℕ) (cs : List (List F)) (ps : List M) (hp : ps.length = maxN)
    (h : ∀ c ∈ cs, c.length ≤ maxN) :
    msmList (accumulate maxN cs) ps = (cs.map (fun c => msmList c (ps.take c.length))).sum :=
  accumulate_msm maxN cs ps hp h

open Model in
/-- **C01 / C12 (prover's first message as coded).** Interleaved bit scalars, zero padding and a table of any
    capacity give the model prover's `A`. -/
theorem C01_proverA_eval (I : RangeInst F M) (v p : ℕ → ℕ) (r : ℕ → ℕ → F) (α : ℕ → F) (dL dR : ℕ → ℕ → F) (rr ss : F)
    (d η : ℕ → F) (y z : F) (es : List F) (e : F) (extra : ℕ) :
    msmList (proverAStatic (F := F) I.n I.m (2 * extra) (fun j => v j - p j))
        (interleaveL ((List.range (I.n * I.m + extra)).map I.G) ((List.range (I.n * I.m + extra)).map I.H))
      + msmList ((List.range I.t).map α) ((List.range I.t).map I.Gb)
      = (Model.rangeProve I v p r α dL dR rr ss d η y z es e).A :=
  proverA_eval I v p r α dL dR rr ss d η y z es e extra

/-- well-shaped member under non-degenerate challenges (what the shape checks and the transcript guarantee) -/
structure MemberData.ok (x : MemberData F M) : Prop where
  n_pos : 0 < x.I.n
  m_pow : ∃ k, x.I.m = 2 ^ k
  rounds : x.I.n * x.I.m = 2 ^ x.es.length
  lenL : x.π.Ls.length = x.es.length
  lenR : x.π.Rs.length = x.es.length
  y0 : x.y ≠ 0
  y1 : x.y ≠ 1
  es0 : ∀ c ∈ x.es, c ≠ 0

open Model in
/-- **C03 / C08 / C12 (a whole chunk, as coded, is the weighted sum of the members' reference residuals).** Members
    share generators (consistency check), may differ in aggregation and capacity; scalar vectors are accumulated
    into shared vectors of the largest member's length, dynamic terms are concatenated, the table may have spare
    capacity. The chunk's single multiscalar multiplication equals `Σ_k w_k • R_spec,k` — so, with
    `C03_chunk_all_valid` / `C03_chunk_one_invalid` / `C03_chunk_at_most_one_weight`, the chunk is accepted when every
    member satisfies the reference relation and rejected otherwise except for at most one value of any one weight. -/
theorem C03_chunk_is_weighted_sum (ms : List (MemberData F M)) (G H : ℕ → M) (hb : M) (Gb : ℕ → M) (n t maxN extra : ℕ)
    (hshare : ∀ x ∈ ms, x.I.G = G ∧ x.I.H = H ∧ x.I.hb = hb ∧ x.I.Gb = Gb ∧ x.I.n = n ∧ x.I.t = t)
    (hsize : ∀ x ∈ ms, x.I.n * x.I.m ≤ maxN) (hok : ∀ x ∈ ms, x.ok) :
    msmList (staticScalars (accumulate maxN (ms.map (fun x => x.scalars.gi)))
                           (accumulate maxN (ms.map (fun x => x.scalars.hi))) (2 * extra))
        (interleaveL ((List.range (maxN + extra)).map G) ((List.range (maxN + extra)).map H))
      + msmList ((ms.map (fun x => x.scalars.dyn)).flatten ++
                  (accumulate t (ms.map (fun x => x.scalars.gb)) ++ [(ms.map (fun x => x.scalars.hb)).sum]))
                ((ms.map (fun x => proofPoints x.I.m x.I.V x.π)).flatten ++ ((List.range t).map Gb ++ [hb]))
      = (ms.map (fun x => x.w • Model.specResidual x.I x.π x.y x.z x.es x.e)).sum := by
  rw [chunk_eval ms G H hb Gb n t maxN extra hshare hsize (fun x hx => (hok x hx).lenL) (fun x hx => (hok x hx).lenR)]
  congr 1
  apply List.map_congr_left
  intro x hx
  obtain ⟨k, hk⟩ := (hok x hx).m_pow
  exact C02_contribution_eq x.I (hok x hx).n_pos x.π x.y x.z x.es x.e x.w k hk (hok x hx).rounds (hok x hx).lenL
    (hok x hx).lenR (hok x hx).y0 (hok x hx).y1 (hok x hx).es0

/-! ## Further theorems (C12 prover side, C14 witness serialisation, C15 prover output shape) -/

/-- **C12 (prover sees a prefix only).** -/
theorem C12_prover_prefix (I : RangeInst F M) (hn : 0 < I.n) (G' H' : ℕ → M) (v p : ℕ → ℕ) (r : ℕ → ℕ → F)
    (α : ℕ → F) (dL dR : ℕ → ℕ → F) (rr ss : F) (d η : ℕ → F) (y z : F) (es : List F) (e : F)
    (hN : I.n * I.m = 2 ^ es.length)
    (hG : ∀ i < I.n * I.m, I.G i = G' i) (hH : ∀ i < I.n * I.m, I.H i = H' i) :
    Model.rangeProve { I with G := G', H := H' } v p r α dL dR rr ss d η y z es e
      = Model.rangeProve I v p r α dL dR rr ss d η y z es e :=
  GensThm.rangeProve_prefix I hn G' H' v p r α dL dR rr ss d η y z es e hN hG hH

open Model.Nonce Model.Transcript in
/-- **C14 (witness serialisation is injective).** For a fixed number of openings and extension degree the bytes that
    key the transcript RNG determine every value and every blinding factor. -/
theorem C14_witness_bytes_inj (t : ℕ) (ws ws' : List (ℕ × List Bytes)) (hlen : ws.length = ws'.length)
    (hw : ∀ w ∈ ws, w.1 < 2 ^ 64 ∧ w.2.length = t ∧ ∀ r ∈ w.2, r.length = 32)
    (hw' : ∀ w ∈ ws', w.1 < 2 ^ 64 ∧ w.2.length = t ∧ ∀ r ∈ w.2, r.length = 32)
    (h : witnessBytes ws = witnessBytes ws') : ws = ws' :=
  NonceThm.witnessBytes_inj t ws ws' hlen hw hw' h

/-- **C15 (prover outputs have κ rounds).** The model prover emits exactly as many L and R elements as there are
    round challenges, so its encoding has `5 + t + 2κ` elements (`C15_length`); for κ = 0 it is not decodable
    (`C15_zero_rounds`). -/
theorem C15_prover_rounds (I : RangeInst F M) (hn : 0 < I.n) (v p : ℕ → ℕ) (r : ℕ → ℕ → F)
    (α : ℕ → F) (dL dR : ℕ → ℕ → F) (rr ss : F) (d η : ℕ → F) (y z : F) (es : List F) (e : F) :
    (Model.rangeProve I v p r α dL dR rr ss d η y z es e).wipP.Ls.length = es.length ∧
    (Model.rangeProve I v p r α dL dR rr ss d η y z es e).wipP.Rs.length = es.length := by
  rw [rangeProve_bridge I hn]
  exact wipProve_lengths y I.t I.hb I.Gb dL dR rr ss d η e es 0 _ _ I.G I.H _

/-- **C11 (finite table, kernel-checked).** The 2·64·32 + 6 + 1 = 4103 compressed generator encodings of the largest
    parameter set — dumped from the real accessors into `Generated/GenTable.lean` and re-dumped and compared on every
    run of the C11 check — are pairwise distinct, and none is the identity encoding. `decide +kernel` over the whole
    table, lifted by `sortedAbove_nodup`. -/
theorem C11_table : Generated.genTable.Nodup ∧ (0 ∉ Generated.genTable) ∧ Generated.genTable.length = 4103 :=
  GenTableThm.table_nodup

open Model.Nonce Model.Transcript in
/-- **C14 (rebuilt after every transcript update).** The histories the prover's RNG instances are forked from are
    strictly nested: the instance built after the statement is a strict prefix of the one built after `A`, which is a
    strict prefix of every later one — later nonces see later messages and challenges. -/
theorem C14_rebuilt (ctx : List Event) (x : Pub) (A : Bytes) (lrs : List (Bytes × Bytes)) (a1 b : Bytes) :
    ∃ h0 h1 rest, rngHistories ctx x A lrs a1 b = h0 :: h1 :: rest ∧ h0 <+: h1 ∧ h0.length < h1.length ∧
      (∀ h ∈ rest, h1 <+: h ∧ h1.length < h.length) :=
  NonceThm.rngHistories_first_two ctx x A lrs a1 b

open Model in
/-- **C01 / C03 (a batch of honest proofs, as coded, is accepted).** If every member of a chunk satisfies the reference
    relation — in particular if every member is an honest proof (`C01_spec_complete`) — the chunk's single multiscalar
    multiplication over the lists as coded is the identity, whatever the weights, aggregation factors and capacities. -/
theorem C01_chunk_accepts (ms : List (MemberData F M)) (G H : ℕ → M) (hb : M) (Gb : ℕ → M) (n t maxN extra : ℕ)
    (hshare : ∀ x ∈ ms, x.I.G = G ∧ x.I.H = H ∧ x.I.hb = hb ∧ x.I.Gb = Gb ∧ x.I.n = n ∧ x.I.t = t)
    (hsize : ∀ x ∈ ms, x.I.n * x.I.m ≤ maxN) (hok : ∀ x ∈ ms, x.ok)
    (hvalid : ∀ x ∈ ms, Model.specResidual x.I x.π x.y x.z x.es x.e = 0) :
    msmList (staticScalars (accumulate maxN (ms.map (fun x => x.scalars.gi)))
                           (accumulate maxN (ms.map (fun x => x.scalars.hi))) (2 * extra))
        (interleaveL ((List.range (maxN + extra)).map G) ((List.range (maxN + extra)).map H))
      + msmList ((ms.map (fun x => x.scalars.dyn)).flatten ++
                  (accumulate t (ms.map (fun x => x.scalars.gb)) ++ [(ms.map (fun x => x.scalars.hb)).sum]))
                ((ms.map (fun x => proofPoints x.I.m x.I.V x.π)).flatten ++ ((List.range t).map Gb ++ [hb]))
      = 0 := by
  rw [C03_chunk_is_weighted_sum ms G H hb Gb n t maxN extra hshare hsize hok]
  apply List.sum_eq_zero
  intro v hv
  obtain ⟨x, hx, rfl⟩ := List.mem_map.mp hv
  rw [hvalid x hx, smul_zero]

end Bpp
