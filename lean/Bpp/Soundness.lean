import Mathlib.LinearAlgebra.Lagrange
import Bpp.Wip
/-! Special soundness of the zk-WIP argument (the extraction of Bulletproofs+ Theorem 1, with `t` blinding
    coordinates): from a tree of accepting transcripts — 4 challenges with distinct squares per folding round,
    5 challenges in the final round — a witness `(a, b, α)` of the weighted-inner-product relation is computed,
    provided the generators satisfy no non-trivial linear relation (`Indep`, the discrete-log assumption in
    algebraic form). -/
open Finset Polynomial

namespace Bpp
variable {F : Type} [Field F] {M : Type} [AddCommGroup M] [Module F M]

/-- A polynomial expression `Σ_{k≤d} c k * x^k` that vanishes on more than `d` points has all coefficients zero. -/
theorem poly_vanish (c : ℕ → F) (d : ℕ) (S : Finset F) (hS : d < S.card)
    (h : ∀ x ∈ S, ∑ k ∈ range (d+1), c k * x ^ k = 0) : ∀ k ≤ d, c k = 0 := by
  classical
  let p : F[X] := ∑ k ∈ range (d+1), C (c k) * X ^ k
  have hdeg : p.degree < S.card := by
    refine lt_of_le_of_lt (degree_sum_le _ _) ?_
    refine (Finset.sup_lt_iff ?_).2 ?_
    · exact WithBot.bot_lt_coe _
    · intro k hk
      refine lt_of_le_of_lt (degree_C_mul_X_pow_le _ _) ?_
      have : k < S.card := by have := Finset.mem_range.mp hk; omega
      exact_mod_cast this
  have hp : p = 0 := eq_zero_of_degree_lt_of_eval_finset_eq_zero S hdeg (by
    intro x hx
    have := h x hx
    simpa [p, eval_finsetSum] using this)
  intro k hk
  have : p.coeff k = c k := by
    simp only [p, finsetSum_coeff, coeff_C_mul, coeff_X_pow]
    rw [Finset.sum_eq_single k]
    · simp
    · intro b _ hb; simp [Ne.symm hb]
    · intro hk'; exact absurd (Finset.mem_range.mpr (by omega)) hk'
  rw [← this, hp]; simp

/-- Coefficients of a group element over the generators `(G_0.., H_0.., g, Gb_0..)`. -/
structure Rep (F : Type) where
  a : ℕ → F
  b : ℕ → F
  c : F
  α : ℕ → F

def Rep.ev (N t : ℕ) (G H : ℕ → M) (g : M) (Gb : ℕ → M) (ρ : Rep F) : M :=
  dot N ρ.a G + dot N ρ.b H + ρ.c • g + dot t ρ.α Gb

def Rep.add (ρ σ : Rep F) : Rep F :=
  ⟨fun i => ρ.a i + σ.a i, fun i => ρ.b i + σ.b i, ρ.c + σ.c, fun k => ρ.α k + σ.α k⟩
def Rep.smul (x : F) (ρ : Rep F) : Rep F :=
  ⟨fun i => x * ρ.a i, fun i => x * ρ.b i, x * ρ.c, fun k => x * ρ.α k⟩

theorem Rep.ev_add (N t : ℕ) (G H : ℕ → M) (g : M) (Gb : ℕ → M) (ρ σ : Rep F) :
    (ρ.add σ).ev N t G H g Gb = ρ.ev N t G H g Gb + σ.ev N t G H g Gb := by
  simp only [Rep.ev, Rep.add, dot_add]; module

theorem Rep.ev_smul (N t : ℕ) (G H : ℕ → M) (g : M) (Gb : ℕ → M) (x : F) (ρ : Rep F) :
    (Rep.smul x ρ).ev N t G H g Gb = x • ρ.ev N t G H g Gb := by
  simp only [Rep.ev, Rep.smul, dot_smul]; module

theorem Pcom_eq_ev (y : F) (n t : ℕ) (a b : ℕ → F) (G H : ℕ → M) (g : M) (α : ℕ → F) (Gb : ℕ → M) :
    Pcom y n t a b G H g α Gb = Rep.ev n t G H g Gb ⟨a, b, wip y n a b, α⟩ := rfl

/-- No non-trivial linear relation among the first `N` of `G`, of `H`, `g` and the first `t` of `Gb`. -/
def Indep (N t : ℕ) (G H : ℕ → M) (g : M) (Gb : ℕ → M) : Prop :=
  ∀ ρ : Rep F, ρ.ev N t G H g Gb = 0 →
    (∀ i < N, ρ.a i = 0) ∧ (∀ i < N, ρ.b i = 0) ∧ ρ.c = 0 ∧ ∀ k < t, ρ.α k = 0

theorem Indep.eq {N t : ℕ} {G H : ℕ → M} {g : M} {Gb : ℕ → M} (h : Indep (F := F) N t G H g Gb)
    (ρ σ : Rep F) (e : ρ.ev N t G H g Gb = σ.ev N t G H g Gb) :
    (∀ i < N, ρ.a i = σ.a i) ∧ (∀ i < N, ρ.b i = σ.b i) ∧ ρ.c = σ.c ∧ ∀ k < t, ρ.α k = σ.α k := by
  have h0 : (ρ.add (Rep.smul (-1) σ)).ev N t G H g Gb = 0 := by
    rw [Rep.ev_add, Rep.ev_smul, e]; module
  obtain ⟨ha, hb, hc, hα⟩ := h _ h0
  simp only [Rep.add, Rep.smul] at ha hb hc hα
  refine ⟨fun i hi => ?_, fun i hi => ?_, ?_, fun k hk => ?_⟩
  · linear_combination ha i hi
  · linear_combination hb i hi
  · linear_combination hc
  · linear_combination hα k hk

/-- The elements with a representation form a submodule. -/
def repSpan (N t : ℕ) (G H : ℕ → M) (g : M) (Gb : ℕ → M) : Submodule F M where
  carrier := {X | ∃ ρ : Rep F, ρ.ev N t G H g Gb = X}
  zero_mem' := ⟨Rep.smul 0 ⟨fun _ => 0, fun _ => 0, 0, fun _ => 0⟩, by rw [Rep.ev_smul, zero_smul]⟩
  add_mem' := by
    rintro X Y ⟨ρ, rfl⟩ ⟨σ, rfl⟩; exact ⟨ρ.add σ, Rep.ev_add ..⟩
  smul_mem' := by
    rintro x X ⟨ρ, rfl⟩; exact ⟨Rep.smul x ρ, Rep.ev_smul ..⟩

theorem mem_repSpan {N t : ℕ} {G H : ℕ → M} {g : M} {Gb : ℕ → M} {X : M} :
    X ∈ repSpan (F := F) N t G H g Gb ↔ ∃ ρ : Rep F, ρ.ev N t G H g Gb = X := Iff.rfl

/-- Three evaluations of `u² X + u Y + Z` at distinct `u` determine `X`, `Y`, `Z` inside any submodule. -/
theorem vandermonde3 (K : Submodule F M) (u1 u2 u3 : F) (h12 : u1 ≠ u2) (h13 : u1 ≠ u3) (h23 : u2 ≠ u3)
    (X Y Z : M) (h1 : u1^2 • X + u1 • Y + Z ∈ K) (h2 : u2^2 • X + u2 • Y + Z ∈ K)
    (h3 : u3^2 • X + u3 • Y + Z ∈ K) : X ∈ K ∧ Y ∈ K ∧ Z ∈ K := by
  set W1 := u1^2 • X + u1 • Y + Z with hW1
  set W2 := u2^2 • X + u2 • Y + Z with hW2
  set W3 := u3^2 • X + u3 • Y + Z with hW3
  have hD : (u1 - u2) * (u1 - u3) * (u2 - u3) ≠ 0 :=
    mul_ne_zero (mul_ne_zero (sub_ne_zero.2 h12) (sub_ne_zero.2 h13)) (sub_ne_zero.2 h23)
  have hX : ((u1 - u2) * (u1 - u3) * (u2 - u3)) • X
      = (u2 - u3) • W1 - (u1 - u3) • W2 + (u1 - u2) • W3 := by
    simp only [hW1, hW2, hW3]; module
  have hY : ((u1 - u2) * (u1 - u3) * (u2 - u3)) • Y
      = -(u2^2 - u3^2) • W1 + (u1^2 - u3^2) • W2 - (u1^2 - u2^2) • W3 := by
    simp only [hW1, hW2, hW3]; module
  have hZ : ((u1 - u2) * (u1 - u3) * (u2 - u3)) • Z
      = (u2 * u3 * (u2 - u3)) • W1 - (u1 * u3 * (u1 - u3)) • W2 + (u1 * u2 * (u1 - u2)) • W3 := by
    simp only [hW1, hW2, hW3]; module
  have key : ∀ T : M, ((u1 - u2) * (u1 - u3) * (u2 - u3)) • T ∈ K → T ∈ K := by
    intro T hT
    have := K.smul_mem ((u1 - u2) * (u1 - u3) * (u2 - u3))⁻¹ hT
    rwa [smul_smul, inv_mul_cancel₀ hD, one_smul] at this
  refine ⟨key X ?_, key Y ?_, key Z ?_⟩
  · rw [hX]; exact K.add_mem (K.sub_mem (K.smul_mem _ h1) (K.smul_mem _ h2)) (K.smul_mem _ h3)
  · rw [hY]; exact K.sub_mem (K.add_mem (K.smul_mem _ h1) (K.smul_mem _ h2)) (K.smul_mem _ h3)
  · rw [hZ]; exact K.add_mem (K.sub_mem (K.smul_mem _ h1) (K.smul_mem _ h2)) (K.smul_mem _ h3)

/-- folded generators, as in `wipAccepts` -/
def foldG1 (y : F) (n : ℕ) (e : F) (G : ℕ → M) : ℕ → M := fun i => e⁻¹ • G i + (e * (y^n)⁻¹) • G (n+i)
def foldH1 (n : ℕ) (e : F) (H : ℕ → M) : ℕ → M := fun i => e • H i + e⁻¹ • H (n+i)

/-- coefficients over `(G, H)` of length `2n` of an element given over the folded generators of length `n` -/
def Rep.unfold (y : F) (n : ℕ) (e : F) (ρ : Rep F) : Rep F :=
  ⟨fun i => if i < n then ρ.a i * e⁻¹ else ρ.a (i - n) * (e * (y^n)⁻¹),
   fun i => if i < n then ρ.b i * e else ρ.b (i - n) * e⁻¹, ρ.c, ρ.α⟩

theorem Rep.ev_unfold (y : F) (n t : ℕ) (e : F) (G H : ℕ → M) (g : M) (Gb : ℕ → M) (ρ : Rep F) :
    ρ.ev n t (foldG1 y n e G) (foldH1 n e H) g Gb = (ρ.unfold y n e).ev (n+n) t G H g Gb := by
  have hG : dot (n+n) (ρ.unfold y n e).a G = dot n ρ.a (foldG1 y n e G) := by
    rw [dot_split]
    simp only [dot, foldG1, Rep.unfold, smul_add, smul_smul, Finset.sum_add_distrib]
    congr 1
    · exact Finset.sum_congr rfl (fun i hi => by rw [if_pos (Finset.mem_range.mp hi)])
    · exact Finset.sum_congr rfl (fun i hi => by
        rw [if_neg (by omega), Nat.add_sub_cancel_left])
  have hH : dot (n+n) (ρ.unfold y n e).b H = dot n ρ.b (foldH1 n e H) := by
    rw [dot_split]
    simp only [dot, foldH1, Rep.unfold, smul_add, smul_smul, Finset.sum_add_distrib]
    congr 1
    · exact Finset.sum_congr rfl (fun i hi => by rw [if_pos (Finset.mem_range.mp hi)])
    · exact Finset.sum_congr rfl (fun i hi => by
        rw [if_neg (by omega), Nat.add_sub_cancel_left])
  simp only [Rep.ev, hG, hH]
  rfl

theorem Indep.fold {y : F} {n t : ℕ} {e : F} (he : e ≠ 0) {G H : ℕ → M} {g : M} {Gb : ℕ → M}
    (h : Indep (F := F) (n+n) t G H g Gb) : Indep (F := F) n t (foldG1 y n e G) (foldH1 n e H) g Gb := by
  intro ρ h0
  rw [Rep.ev_unfold] at h0
  obtain ⟨ha, hb, hc, hα⟩ := h _ h0
  refine ⟨fun i hi => ?_, fun i hi => ?_, hc, hα⟩
  · have := ha i (by omega)
    simp only [Rep.unfold, if_pos hi] at this
    exact (mul_eq_zero.mp this).resolve_right (inv_ne_zero he)
  · have := hb i (by omega)
    simp only [Rep.unfold, if_pos hi] at this
    exact (mul_eq_zero.mp this).resolve_right he

/-- weighted inner product of the folded vectors -/
theorem wip_fold (y e ei : F) (n : ℕ) (hei : e * ei = 1) (a b : ℕ → F) :
    wip y n (fun i => a i * e + a (n+i) * y^n * ei) (fun i => b i * ei + b (n+i) * e)
      = wip y (n+n) a b + e^2 * (∑ i ∈ range n, a i * y^(i+1) * b (n+i))
          + ei^2 * (∑ i ∈ range n, a (n+i) * y^(n+i+1) * b i) := by
  rw [wip_split]
  simp only [wip, Finset.mul_sum, ← Finset.sum_add_distrib]
  apply Finset.sum_congr rfl; intro i _
  have : y^(n+i+1) = y^n * y^(i+1) := by ring
  rw [this]
  linear_combination (a i * y^(i+1) * b i + a (n+i) * y^n * y^(i+1) * b (n+i)) * hei

theorem wip_congr (y : F) (n : ℕ) (a a' b b' : ℕ → F) (ha : ∀ i < n, a i = a' i) (hb : ∀ i < n, b i = b' i) :
    wip y n a b = wip y n a' b' := by
  unfold wip
  exact Finset.sum_congr rfl (fun i hi => by
    rw [ha i (Finset.mem_range.mp hi), hb i (Finset.mem_range.mp hi)])

/-- **One folding round of the extractor.** If for four challenges with distinct squares the folded statement
    `e²·L + P + e⁻²·R` has a witness over the folded generators, then `P` has a witness over `(G, H)`. -/
theorem round_extract (y : F) (hy : y ≠ 0) (n t : ℕ) (G H : ℕ → M) (g : M) (Gb : ℕ → M)
    (hI : Indep (F := F) (n+n) t G H g Gb) (L P R : M) (S : Finset F)
    (h0 : ∀ e ∈ S, e ≠ 0) (hinj : Set.InjOn (fun e : F => e^2) S) (hcard : 4 ≤ S.card)
    (hW : ∀ e ∈ S, ∃ a' b' α' : ℕ → F,
      e^2 • L + P + (e⁻¹)^2 • R = Pcom y n t a' b' (foldG1 y n e G) (foldH1 n e H) g α' Gb) :
    ∃ a b α : ℕ → F, P = Pcom y (n+n) t a b G H g α Gb := by
  classical
  choose! a' b' α' hW using hW
  set yni : F := (y^n)⁻¹ with hyni
  have hyn : y^n ≠ 0 := pow_ne_zero _ hy
  -- the folded statement, multiplied by u = e², over the unfolded generators
  let ρe : F → Rep F := fun e => Rep.smul (e^2) (Rep.unfold y n e ⟨a' e, b' e, wip y n (a' e) (b' e), α' e⟩)
  have hρ : ∀ e ∈ S, (e^2)^2 • L + (e^2) • P + R = (ρe e).ev (n+n) t G H g Gb := by
    intro e he
    have he0 := h0 e he
    simp only [ρe]
    rw [Rep.ev_smul, ← Rep.ev_unfold, ← Pcom_eq_ev, ← hW e he]
    simp only [smul_add, smul_smul]
    have : e^2 * (e⁻¹)^2 = 1 := by field_simp
    rw [this, one_smul, pow_two (e^2)]
  -- three challenges give representations of L, P, R
  obtain ⟨e1, m1, e2, m2, e3, m3, n12, n13, n23⟩ := Finset.two_lt_card.mp (by omega : 2 < S.card)
  have sq_ne : ∀ x ∈ S, ∀ z ∈ S, x ≠ z → x^2 ≠ z^2 := fun x hx z hz hxz hsq => hxz (hinj hx hz hsq)
  obtain ⟨⟨ρL, hL⟩, ⟨ρP, hP⟩, ⟨ρR, hR⟩⟩ := vandermonde3 (repSpan (F := F) (n+n) t G H g Gb) (e1^2) (e2^2) (e3^2)
    (sq_ne _ m1 _ m2 n12) (sq_ne _ m1 _ m3 n13) (sq_ne _ m2 _ m3 n23) L P R
    ⟨ρe e1, (hρ e1 m1).symm⟩ ⟨ρe e2, (hρ e2 m2).symm⟩ ⟨ρe e3, (hρ e3 m3).symm⟩
  -- coefficient comparison at every challenge
  have hcmp : ∀ e ∈ S,
      (∀ i < n+n, (e^2)^2 * ρL.a i + e^2 * ρP.a i + ρR.a i = (ρe e).a i) ∧
      (∀ i < n+n, (e^2)^2 * ρL.b i + e^2 * ρP.b i + ρR.b i = (ρe e).b i) ∧
      ((e^2)^2 * ρL.c + e^2 * ρP.c + ρR.c = (ρe e).c) := by
    intro e he
    have := hI.eq (((Rep.smul ((e^2)^2) ρL).add (Rep.smul (e^2) ρP)).add ρR) (ρe e) (by
      rw [Rep.ev_add, Rep.ev_add, Rep.ev_smul, Rep.ev_smul, hL, hP, hR, hρ e he])
    exact ⟨this.1, this.2.1, this.2.2.1⟩
  -- the set of squares
  let U : Finset F := S.image (fun e => e^2)
  have hU : U.card = S.card := Finset.card_image_of_injOn hinj
  -- G side: a cubic in u vanishing on U
  have hGside : ∀ i < n, ρL.a i = 0 ∧ ρL.a (n+i) = yni * ρP.a i ∧ ρP.a (n+i) = yni * ρR.a i ∧ ρR.a (n+i) = 0 := by
    intro i hi
    have hv := poly_vanish (fun k => match k with
        | 0 => - ρR.a (n+i) | 1 => yni * ρR.a i - ρP.a (n+i) | 2 => yni * ρP.a i - ρL.a (n+i) | _ => yni * ρL.a i)
      3 U (by omega) (by
        intro u hu
        obtain ⟨e, he, rfl⟩ := Finset.mem_image.mp hu
        have he0 := h0 e he
        obtain ⟨hA, -, -⟩ := hcmp e he
        have A1 := hA i (by omega)
        have A2 := hA (n+i) (by omega)
        simp only [ρe, Rep.smul, Rep.unfold, if_pos hi, if_neg (show ¬ (n+i < n) by omega),
          Nat.add_sub_cancel_left] at A1 A2
        simp only [Finset.sum_range_succ, Finset.sum_range_zero]
        have hee : e * e⁻¹ = 1 := mul_inv_cancel₀ he0
        linear_combination (e^2 * yni) * A1 - A2 + (e^3 * a' e i * yni) * hee)
    have h0' := hv 0 (by omega); have h1' := hv 1 (by omega)
    have h2' := hv 2 (by omega); have h3' := hv 3 (by omega)
    simp only at h0' h1' h2' h3'
    have hyni0 : yni ≠ 0 := inv_ne_zero hyn
    refine ⟨(mul_eq_zero.mp h3').resolve_left hyni0, ?_, ?_, ?_⟩
    · linear_combination -h2'
    · linear_combination -h1'
    · linear_combination -h0'
  -- H side
  have hHside : ∀ i < n, ρL.b (n+i) = 0 ∧ ρL.b i = ρP.b (n+i) ∧ ρP.b i = ρR.b (n+i) ∧ ρR.b i = 0 := by
    intro i hi
    have hv := poly_vanish (fun k => match k with
        | 0 => - ρR.b i | 1 => ρR.b (n+i) - ρP.b i | 2 => ρP.b (n+i) - ρL.b i | _ => ρL.b (n+i))
      3 U (by omega) (by
        intro u hu
        obtain ⟨e, he, rfl⟩ := Finset.mem_image.mp hu
        have he0 := h0 e he
        obtain ⟨-, hB, -⟩ := hcmp e he
        have B1 := hB i (by omega)
        have B2 := hB (n+i) (by omega)
        simp only [ρe, Rep.smul, Rep.unfold, if_pos hi, if_neg (show ¬ (n+i < n) by omega),
          Nat.add_sub_cancel_left] at B1 B2
        simp only [Finset.sum_range_succ, Finset.sum_range_zero]
        have hee : e * e⁻¹ = 1 := mul_inv_cancel₀ he0
        linear_combination (e^2) * B2 - B1 + (e^3 * b' e i) * hee)
    have h0' := hv 0 (by omega); have h1' := hv 1 (by omega)
    have h2' := hv 2 (by omega); have h3' := hv 3 (by omega)
    simp only at h0' h1' h2' h3'
    refine ⟨h3', ?_, ?_, ?_⟩
    · linear_combination -h2'
    · linear_combination -h1'
    · linear_combination -h0'
  -- the responses are the honest folds of (ρP.a, ρP.b)
  have hfold : ∀ e ∈ S, ∀ i < n,
      a' e i = ρP.a i * e + ρP.a (n+i) * y^n * e⁻¹ ∧ b' e i = ρP.b i * e⁻¹ + ρP.b (n+i) * e := by
    intro e he i hi
    have he0 := h0 e he
    obtain ⟨hA, hB, -⟩ := hcmp e he
    have A1 := hA i (by omega)
    have B1 := hB i (by omega)
    simp only [ρe, Rep.smul, Rep.unfold, if_pos hi] at A1 B1
    obtain ⟨gL, -, gP, -⟩ := hGside i hi
    obtain ⟨-, kL, -, kR⟩ := hHside i hi
    rw [gL] at A1; rw [kL, kR] at B1
    have hR' : ρR.a i = y^n * ρP.a (n+i) := by
      rw [gP, hyni, ← mul_assoc, mul_inv_cancel₀ hyn, one_mul]
    rw [hR'] at A1
    have hee : e * e⁻¹ = 1 := mul_inv_cancel₀ he0
    constructor
    · apply mul_left_cancel₀ he0
      linear_combination -A1 - (e * a' e i + y^n * ρP.a (n+i)) * hee
    · apply mul_left_cancel₀ (pow_ne_zero 3 he0)
      linear_combination -B1 - (e^2 * ρP.b i) * hee
  -- g side: a quadratic in u
  have hc : ρP.c = wip y (n+n) ρP.a ρP.b := by
    have hv := poly_vanish (fun k => match k with
        | 0 => ρR.c - ∑ i ∈ range n, ρP.a (n+i) * y^(n+i+1) * ρP.b i
        | 1 => ρP.c - wip y (n+n) ρP.a ρP.b
        | _ => ρL.c - ∑ i ∈ range n, ρP.a i * y^(i+1) * ρP.b (n+i))
      2 U (by omega) (by
        intro u hu
        obtain ⟨e, he, rfl⟩ := Finset.mem_image.mp hu
        have he0 := h0 e he
        obtain ⟨-, -, hC⟩ := hcmp e he
        simp only [ρe, Rep.smul, Rep.unfold] at hC
        have hw : wip y n (a' e) (b' e) = _ :=
          (wip_congr y n _ _ _ _ (fun i hi => (hfold e he i hi).1) (fun i hi => (hfold e he i hi).2)).trans
            (wip_fold y e e⁻¹ n (mul_inv_cancel₀ he0) ρP.a ρP.b)
        rw [hw] at hC
        simp only [Finset.sum_range_succ, Finset.sum_range_zero]
        have hee : e^2 * (e⁻¹)^2 = 1 := by field_simp
        linear_combination hC + (∑ i ∈ range n, ρP.a (n+i) * y^(n+i+1) * ρP.b i) * hee)
    have := hv 1 (by omega)
    simp only at this
    linear_combination this
  refine ⟨ρP.a, ρP.b, ρP.α, ?_⟩
  rw [Pcom_eq_ev, ← hc, ← hP]

/-- **The final round of the extractor.** Five accepting responses to distinct challenges for the same
    `(P, A1, B)` give a witness for `P` over one pair of generators. -/
theorem final_extract (y : F) (t : ℕ) (G H : ℕ → M) (g : M) (Gb : ℕ → M)
    (hI : Indep (F := F) 1 t G H g Gb) (P A1 B : M) (S : Finset F) (hcard : 5 ≤ S.card)
    (hacc : ∀ e ∈ S, ∃ (r1 s1 : F) (d1 : ℕ → F),
      e^2 • P + e • A1 + B = (r1 * e) • G 0 + (s1 * e) • H 0 + (r1 * y * s1) • g + dot t d1 Gb) :
    ∃ a b α : ℕ → F, P = Pcom y 1 t a b G H g α Gb := by
  classical
  choose! r1 s1 d1 hacc using hacc
  let ρe : F → Rep F := fun e => ⟨fun _ => r1 e * e, fun _ => s1 e * e, r1 e * y * s1 e, d1 e⟩
  have hρ : ∀ e ∈ S, e^2 • P + e • A1 + B = (ρe e).ev 1 t G H g Gb := by
    intro e he
    rw [hacc e he]
    simp only [ρe, Rep.ev, dot, Finset.sum_range_one]
  obtain ⟨e1, m1, e2, m2, e3, m3, n12, n13, n23⟩ := Finset.two_lt_card.mp (by omega : 2 < S.card)
  obtain ⟨⟨ρP, hP⟩, ⟨ρA, hA⟩, ⟨ρB, hB⟩⟩ := vandermonde3 (repSpan (F := F) 1 t G H g Gb) e1 e2 e3
    n12 n13 n23 P A1 B ⟨ρe e1, (hρ e1 m1).symm⟩ ⟨ρe e2, (hρ e2 m2).symm⟩ ⟨ρe e3, (hρ e3 m3).symm⟩
  have hcmp : ∀ e ∈ S,
      (e^2 * ρP.a 0 + e * ρA.a 0 + ρB.a 0 = r1 e * e) ∧
      (e^2 * ρP.b 0 + e * ρA.b 0 + ρB.b 0 = s1 e * e) ∧
      (e^2 * ρP.c + e * ρA.c + ρB.c = r1 e * y * s1 e) := by
    intro e he
    have := hI.eq (((Rep.smul (e^2) ρP).add (Rep.smul e ρA)).add ρB) (ρe e) (by
      rw [Rep.ev_add, Rep.ev_add, Rep.ev_smul, Rep.ev_smul, hP, hA, hB, hρ e he])
    exact ⟨this.1 0 (by omega), this.2.1 0 (by omega), this.2.2.1⟩
  -- y·(G-coefficient)·(H-coefficient) = e²·(g-coefficient): a quartic in e vanishing on S
  have hv := poly_vanish (fun k => match k with
      | 0 => y * ρB.a 0 * ρB.b 0
      | 1 => y * (ρA.a 0 * ρB.b 0 + ρB.a 0 * ρA.b 0)
      | 2 => y * (ρP.a 0 * ρB.b 0 + ρA.a 0 * ρA.b 0 + ρB.a 0 * ρP.b 0) - ρB.c
      | 3 => y * (ρP.a 0 * ρA.b 0 + ρA.a 0 * ρP.b 0) - ρA.c
      | _ => y * ρP.a 0 * ρP.b 0 - ρP.c)
    4 S (by omega) (by
      intro e he
      obtain ⟨ca, cb, cc⟩ := hcmp e he
      simp only [Finset.sum_range_succ, Finset.sum_range_zero]
      linear_combination (y * (e^2 * ρP.b 0 + e * ρA.b 0 + ρB.b 0)) * ca + (y * r1 e * e) * cb - e^2 * cc)
  have h4 := hv 4 (by omega)
  simp only at h4
  refine ⟨ρP.a, ρP.b, ρP.α, ?_⟩
  have hc : ρP.c = wip y 1 ρP.a ρP.b := by
    simp only [wip, Finset.sum_range_one]
    linear_combination -h4
  rw [Pcom_eq_ev, ← hc, ← hP]

/-- A tree of accepting zk-WIP transcripts with `κ` folding rounds for the statement `P` over generators
    `(G, H)` of length `2^κ`: at each folding round one `(L, R)` and four non-zero challenges with distinct
    squares, each continuing with the folded statement exactly as `wipAccepts` folds it; at the leaves one
    `(A1, B)` and five distinct challenges with accepted responses. -/
def TreeAcc (y : F) (t : ℕ) (g : M) (Gb : ℕ → M) : ℕ → (ℕ → M) → (ℕ → M) → M → Prop
  | 0, G, H, P => ∃ (A1 B : M) (S : Finset F), 5 ≤ S.card ∧ ∀ e ∈ S, ∃ (r1 s1 : F) (d1 : ℕ → F),
      e^2 • P + e • A1 + B = (r1 * e) • G 0 + (s1 * e) • H 0 + (r1 * y * s1) • g + dot t d1 Gb
  | κ+1, G, H, P => ∃ (L R : M) (S : Finset F), 4 ≤ S.card ∧ (∀ e ∈ S, e ≠ 0) ∧
      Set.InjOn (fun e : F => e^2) S ∧
      ∀ e ∈ S, TreeAcc y t g Gb κ (foldG1 y (2^κ) e G) (foldH1 (2^κ) e H) (e^2 • L + P + (e⁻¹)^2 • R)

/-- **Special soundness of the zk-WIP argument.** -/
theorem wip_special_sound (y : F) (hy : y ≠ 0) (t : ℕ) (g : M) (Gb : ℕ → M) (κ : ℕ) (G H : ℕ → M) (P : M)
    (hI : Indep (F := F) (2^κ) t G H g Gb) (hT : TreeAcc y t g Gb κ G H P) :
    ∃ a b α : ℕ → F, P = Pcom y (2^κ) t a b G H g α Gb := by
  induction κ generalizing G H P with
  | zero =>
    obtain ⟨A1, B, S, hcard, hacc⟩ := hT
    exact final_extract y t G H g Gb hI P A1 B S hcard hacc
  | succ κ ih =>
    obtain ⟨L, R, S, hcard, h0, hinj, hsub⟩ := hT
    have h2 : 2 ^ (κ + 1) = 2 ^ κ + 2 ^ κ := by ring
    rw [h2] at hI ⊢
    exact round_extract y hy (2^κ) t G H g Gb hI L P R S h0 hinj hcard
      (fun e he => ih _ _ _ (hI.fold (h0 e he)) (hsub e he))

/-- A path through the tree is a transcript the reference verifier `wipAccepts` accepts. -/
theorem TreeAcc.path (y : F) (t : ℕ) (g : M) (Gb : ℕ → M) (κ : ℕ) (G H : ℕ → M) (P : M)
    (hT : TreeAcc y t g Gb κ G H P) :
    ∃ (es : List F) (Ls Rs : List M) (e : F) (A1 B : M) (r1 s1 : F) (d1 : ℕ → F),
      es.length = κ ∧ wipAccepts y t g Gb e A1 B r1 s1 d1 es Ls Rs G H P := by
  induction κ generalizing G H P with
  | zero =>
    obtain ⟨A1, B, S, hcard, hacc⟩ := hT
    obtain ⟨e, he⟩ := Finset.card_pos.mp (by omega : 0 < S.card)
    obtain ⟨r1, s1, d1, h⟩ := hacc e he
    exact ⟨[], [], [], e, A1, B, r1, s1, d1, rfl, h⟩
  | succ κ ih =>
    obtain ⟨L, R, S, hcard, h0, hinj, hsub⟩ := hT
    obtain ⟨ej, hej⟩ := Finset.card_pos.mp (by omega : 0 < S.card)
    obtain ⟨es, Ls, Rs, e, A1, B, r1, s1, d1, hlen, h⟩ := ih _ _ _ (hsub ej hej)
    refine ⟨ej :: es, L :: Ls, R :: Rs, e, A1, B, r1, s1, d1, by simp [hlen], ?_⟩
    simp only [wipAccepts, hlen]
    exact h

/-- Conversely every statement with a witness has such a tree, over any challenge sets of the required shape:
    the tree predicate is satisfiable exactly by the relation (non-vacuity of `wip_special_sound`). -/
theorem TreeAcc.of_witness (y : F) (hy : y ≠ 0) (t : ℕ) (g : M) (Gb : ℕ → M) (S4 S5 : Finset F)
    (h4 : 4 ≤ S4.card) (h40 : ∀ e ∈ S4, e ≠ 0) (hinj : Set.InjOn (fun e : F => e^2) S4) (h5 : 5 ≤ S5.card)
    (κ : ℕ) (G H : ℕ → M) (a b α : ℕ → F) :
    TreeAcc y t g Gb κ G H (Pcom y (2^κ) t a b G H g α Gb) := by
  induction κ generalizing G H a b α with
  | zero =>
    refine ⟨0, 0, S5, h5, fun e _ => ⟨a 0 * e, b 0 * e, fun k => α k * e^2, ?_⟩⟩
    have hd : dot t (fun k => α k * e ^ 2) Gb = (e^2) • dot t α Gb := dot_smul' t (e^2) α Gb
    rw [hd]
    simp only [Pcom, wip, dot, Finset.sum_range_one, pow_zero, zero_add, pow_one]
    module
  | succ κ ih =>
    have hyn : y ^ (2 ^ κ) ≠ 0 := pow_ne_zero _ hy
    have h2 : 2 ^ (κ + 1) = 2 ^ κ + 2 ^ κ := by ring
    rw [h2]
    set n := 2 ^ κ
    refine ⟨(∑ i ∈ range n, a i * y^(i+1) * b (n+i)) • g + dot t (fun _ => (0:F)) Gb
        + dot n (fun i => a i * (y ^ n)⁻¹) (fun i => G (n+i)) + dot n (fun i => b (n+i)) H,
      (∑ i ∈ range n, a (n+i) * y^(n+i+1) * b i) • g + dot t (fun _ => (0:F)) Gb
        + dot n (fun i => a (n+i) * y^n) G + dot n b (fun i => H (n+i)),
      S4, h4, h40, hinj, fun e he => ?_⟩
    have key := fold_round (M := M) y e e⁻¹ (y ^ n)⁻¹ n t (mul_inv_cancel₀ (h40 e he))
      (mul_inv_cancel₀ hyn) a b G H g Gb α (fun _ => 0) (fun _ => 0)
    simp only at key
    rw [key]
    exact ih _ _ _ _ _

theorem wip_tree_iff (y : F) (hy : y ≠ 0) (t : ℕ) (g : M) (Gb : ℕ → M) (S4 S5 : Finset F)
    (h4 : 4 ≤ S4.card) (h40 : ∀ e ∈ S4, e ≠ 0) (hinj : Set.InjOn (fun e : F => e^2) S4) (h5 : 5 ≤ S5.card)
    (κ : ℕ) (G H : ℕ → M) (P : M) (hI : Indep (F := F) (2^κ) t G H g Gb) :
    TreeAcc y t g Gb κ G H P ↔ ∃ a b α : ℕ → F, P = Pcom y (2^κ) t a b G H g α Gb :=
  ⟨wip_special_sound y hy t g Gb κ G H P hI, by
    rintro ⟨a, b, α, rfl⟩
    exact TreeAcc.of_witness y hy t g Gb S4 S5 h4 h40 hinj h5 κ G H a b α⟩

/-- `Indep` is satisfiable for every length: coordinate functions in `ℕ → F`. -/
theorem indep_example (N t : ℕ) :
    Indep (F := F) (M := ℕ → F) N t (fun i => Pi.single (4*i) 1) (fun i => Pi.single (4*i+1) 1)
      (Pi.single 3 1) (fun k => Pi.single (4*k+2) 1) := by
  classical
  intro ρ h0
  have hev : ∀ j : ℕ, (ρ.ev N t (fun i => (Pi.single (4*i) 1 : ℕ → F)) (fun i => Pi.single (4*i+1) 1)
      (Pi.single 3 1) (fun k => Pi.single (4*k+2) 1)) j
      = (∑ i ∈ range N, ρ.a i * (if j = 4*i then 1 else 0)) + (∑ i ∈ range N, ρ.b i * (if j = 4*i+1 then 1 else 0))
        + ρ.c * (if j = 3 then 1 else 0) + ∑ k ∈ range t, ρ.α k * (if j = 4*k+2 then 1 else 0) := by
    intro j
    simp only [Rep.ev, dot, Pi.add_apply, Finset.sum_apply, Pi.smul_apply, Pi.single_apply, smul_eq_mul]
  refine ⟨fun i hi => ?_, fun i hi => ?_, ?_, fun k hk => ?_⟩
  · have := hev (4*i); rw [h0] at this
    simp only [Pi.zero_apply] at this
    rw [Finset.sum_eq_single i (fun b _ hb => by rw [if_neg (by omega), mul_zero])
        (fun h => absurd (Finset.mem_range.mpr hi) h),
      Finset.sum_eq_zero (fun b _ => by rw [if_neg (by omega), mul_zero]),
      Finset.sum_eq_zero (fun b _ => by rw [if_neg (by omega), mul_zero]),
      if_neg (show ¬ (4*i = 3) by omega)] at this
    simpa using this.symm
  · have := hev (4*i+1); rw [h0] at this
    simp only [Pi.zero_apply] at this
    rw [Finset.sum_eq_zero (fun b _ => by rw [if_neg (by omega), mul_zero]),
      Finset.sum_eq_single i (fun b _ hb => by rw [if_neg (by omega), mul_zero])
        (fun h => absurd (Finset.mem_range.mpr hi) h),
      Finset.sum_eq_zero (fun b _ => by rw [if_neg (by omega), mul_zero]),
      if_neg (show ¬ (4*i+1 = 3) by omega)] at this
    simpa using this.symm
  · have := hev 3; rw [h0] at this
    simp only [Pi.zero_apply] at this
    rw [Finset.sum_eq_zero (fun b _ => by rw [if_neg (by omega), mul_zero]),
      Finset.sum_eq_zero (fun b _ => by rw [if_neg (by omega), mul_zero]),
      Finset.sum_eq_zero (fun b _ => by rw [if_neg (by omega), mul_zero])] at this
    simpa using this.symm
  · have := hev (4*k+2); rw [h0] at this
    simp only [Pi.zero_apply] at this
    rw [Finset.sum_eq_zero (fun b _ => by rw [if_neg (by omega), mul_zero]),
      Finset.sum_eq_zero (fun b _ => by rw [if_neg (by omega), mul_zero]),
      Finset.sum_eq_single k (fun b _ hb => by rw [if_neg (by omega), mul_zero])
        (fun h => absurd (Finset.mem_range.mpr hk) h),
      if_neg (show ¬ (4*k+2 = 3) by omega)] at this
    simpa using this.symm

end Bpp
