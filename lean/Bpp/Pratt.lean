import Mathlib.NumberTheory.LucasPrimality
import Mathlib.Tactic.NormNum.Prime

/-! Primality of the order ℓ of the Ristretto group's scalar field, by a Pratt certificate: for every prime of the
    tree a primitive root and the factorisation of `p - 1`, checked by the kernel with square-and-multiply
    (`decide +kernel`; no `native_decide`), combined by Lucas' criterion (`lucas_primality`). The certificate
    tree was computed outside Lean; nothing about it is trusted. -/
namespace Bpp.Pratt

/-- square-and-multiply with an explicit bound on the number of steps (structural recursion: the kernel evaluates
    it on literals with its big-number arithmetic) -/
def powModAux : ℕ → ℕ → ℕ → ℕ → ℕ → ℕ
  | 0, r, _, _, _ => r
  | fuel + 1, r, b, e, m =>
    if e = 0 then r else powModAux fuel (if e % 2 = 1 then r * b % m else r) (b * b % m) (e / 2) m

def powMod (a e m : ℕ) : ℕ := powModAux 300 1 (a % m) e m % m

theorem powModAux_spec (fuel : ℕ) : ∀ (r b e m : ℕ), e < 2 ^ fuel → powModAux fuel r b e m % m = r * b ^ e % m := by
  induction fuel with
  | zero =>
    intro r b e m he
    have : e = 0 := by simpa using he
    subst this; simp [powModAux]
  | succ fuel ih =>
    intro r b e m he
    unfold powModAux
    split
    · next h0 => subst h0; simp
    · next h0 =>
      have he2 : e / 2 < 2 ^ fuel := by
        rw [Nat.div_lt_iff_lt_mul (by norm_num)]; rw [pow_succ] at he; exact he
      rw [ih _ _ _ _ he2]
      have hsplit : e = 2 * (e / 2) + e % 2 := (Nat.div_add_mod e 2).symm
      have B : (b * b % m) ^ (e / 2) ≡ (b * b) ^ (e / 2) [MOD m] := (Nat.mod_modEq _ _).pow _
      split
      · next h1 =>
        have A : r * b % m ≡ r * b [MOD m] := Nat.mod_modEq _ _
        have hE : r * b ^ e = r * b * (b * b) ^ (e / 2) := by
          conv_lhs => rw [hsplit, h1]
          rw [pow_succ, pow_mul, pow_two]; ring
        rw [hE]; exact A.mul B
      · next h1 =>
        have h1' : e % 2 = 0 := by omega
        have hE : r * b ^ e = r * (b * b) ^ (e / 2) := by
          conv_lhs => rw [hsplit, h1', add_zero]
          rw [pow_mul, pow_two]
        rw [hE]; exact (Nat.ModEq.refl r).mul B

theorem powMod_eq (a e m : ℕ) (he : e < 2 ^ 300) : powMod a e m = a ^ e % m := by
  unfold powMod
  rw [powModAux_spec 300 1 (a % m) e m he, one_mul, ← Nat.pow_mod]

/-- Pratt certificate: `fs` lists the prime factors of `p - 1` with their exponents, `a` is a primitive root -/
theorem prime_of_cert (p a : ℕ) (fs : List (ℕ × ℕ)) (hp : 1 < p) (hsz : p < 2 ^ 300)
    (hfact : (fs.map (fun f => f.1 ^ f.2)).prod = p - 1)
    (hprime : ∀ f ∈ fs, Nat.Prime f.1)
    (h1 : powMod a (p - 1) p = 1)
    (hd : fs.all (fun f => powMod a ((p - 1) / f.1) p != 1) = true) : p.Prime := by
  have hlt : ∀ e, e ≤ p - 1 → e < 2 ^ 300 := fun e he => lt_of_le_of_lt he (lt_of_le_of_lt (Nat.sub_le _ _) hsz)
  have cast : ∀ e, e ≤ p - 1 → ((a : ZMod p) ^ e = 1 ↔ powMod a e p = 1) := by
    intro e he
    rw [powMod_eq a e p (hlt e he), ← Nat.cast_pow, ← Nat.cast_one (R := ZMod p), ZMod.natCast_eq_natCast_iff']
    rw [Nat.mod_eq_of_lt hp]
  apply lucas_primality p (a : ZMod p)
  · exact (cast _ le_rfl).mpr h1
  · intro q hq hdvd
    rw [← hfact] at hdvd
    -- q divides one of the listed prime powers, hence equals that prime
    have : ∃ f ∈ fs, q = f.1 := by
      clear hfact hd
      induction fs with
      | nil => simp at hdvd; exact absurd hdvd hq.one_lt.ne'
      | cons f fs ih =>
        rw [List.map_cons, List.prod_cons] at hdvd
        rcases (Nat.Prime.dvd_mul hq).mp hdvd with h | h
        · have := (Nat.prime_dvd_prime_iff_eq hq (hprime f (by simp))).mp (hq.dvd_of_dvd_pow h)
          exact ⟨f, by simp, this⟩
        · obtain ⟨g, hg, hqg⟩ := ih (fun g hg => hprime g (by simp [hg])) h
          exact ⟨g, by simp [hg], hqg⟩
    obtain ⟨f, hf, rfl⟩ := this
    rw [List.all_eq_true] at hd
    have := hd f hf
    intro hc
    rw [cast _ (Nat.div_le_self _ _)] at hc
    simp [hc] at this

theorem prime_1361 : Nat.Prime 1361 := by
  refine prime_of_cert 1361 3 [(2, 4), (5, 1), (17, 1)] (by decide +kernel) (by decide +kernel) (by decide +kernel) ?_
    (by decide +kernel) (by decide +kernel)
  intro f hf
  simp only [List.mem_cons, List.not_mem_nil, or_false] at hf
  rcases hf with rfl | rfl | rfl
  · norm_num
  · norm_num
  · norm_num

theorem prime_1723 : Nat.Prime 1723 := by
  refine prime_of_cert 1723 3 [(2, 1), (3, 1), (7, 1), (41, 1)] (by decide +kernel) (by decide +kernel) (by decide +kernel) ?_
    (by decide +kernel) (by decide +kernel)
  intro f hf
  simp only [List.mem_cons, List.not_mem_nil, or_false] at hf
  rcases hf with rfl | rfl | rfl | rfl
  · norm_num
  · norm_num
  · norm_num
  · norm_num

theorem prime_2551 : Nat.Prime 2551 := by
  refine prime_of_cert 2551 6 [(2, 1), (3, 1), (5, 2), (17, 1)] (by decide +kernel) (by decide +kernel) (by decide +kernel) ?_
    (by decide +kernel) (by decide +kernel)
  intro f hf
  simp only [List.mem_cons, List.not_mem_nil, or_false] at hf
  rcases hf with rfl | rfl | rfl | rfl
  · norm_num
  · norm_num
  · norm_num
  · norm_num

theorem prime_2851 : Nat.Prime 2851 := by
  refine prime_of_cert 2851 2 [(2, 1), (3, 1), (5, 2), (19, 1)] (by decide +kernel) (by decide +kernel) (by decide +kernel) ?_
    (by decide +kernel) (by decide +kernel)
  intro f hf
  simp only [List.mem_cons, List.not_mem_nil, or_false] at hf
  rcases hf with rfl | rfl | rfl | rfl
  · norm_num
  · norm_num
  · norm_num
  · norm_num

theorem prime_2939 : Nat.Prime 2939 := by
  refine prime_of_cert 2939 2 [(2, 1), (13, 1), (113, 1)] (by decide +kernel) (by decide +kernel) (by decide +kernel) ?_
    (by decide +kernel) (by decide +kernel)
  intro f hf
  simp only [List.mem_cons, List.not_mem_nil, or_false] at hf
  rcases hf with rfl | rfl | rfl
  · norm_num
  · norm_num
  · norm_num

theorem prime_3797 : Nat.Prime 3797 := by
  refine prime_of_cert 3797 2 [(2, 2), (13, 1), (73, 1)] (by decide +kernel) (by decide +kernel) (by decide +kernel) ?_
    (by decide +kernel) (by decide +kernel)
  intro f hf
  simp only [List.mem_cons, List.not_mem_nil, or_false] at hf
  rcases hf with rfl | rfl | rfl
  · norm_num
  · norm_num
  · norm_num

theorem prime_5879 : Nat.Prime 5879 := by
  refine prime_of_cert 5879 11 [(2, 1), (2939, 1)] (by decide +kernel) (by decide +kernel) (by decide +kernel) ?_
    (by decide +kernel) (by decide +kernel)
  intro f hf
  simp only [List.mem_cons, List.not_mem_nil, or_false] at hf
  rcases hf with rfl | rfl
  · norm_num
  · exact prime_2939

theorem prime_17231 : Nat.Prime 17231 := by
  refine prime_of_cert 17231 13 [(2, 1), (5, 1), (1723, 1)] (by decide +kernel) (by decide +kernel) (by decide +kernel) ?_
    (by decide +kernel) (by decide +kernel)
  intro f hf
  simp only [List.mem_cons, List.not_mem_nil, or_false] at hf
  rcases hf with rfl | rfl | rfl
  · norm_num
  · norm_num
  · exact prime_1723

theorem prime_22111 : Nat.Prime 22111 := by
  refine prime_of_cert 22111 6 [(2, 1), (3, 1), (5, 1), (11, 1), (67, 1)] (by decide +kernel) (by decide +kernel) (by decide +kernel) ?_
    (by decide +kernel) (by decide +kernel)
  intro f hf
  simp only [List.mem_cons, List.not_mem_nil, or_false] at hf
  rcases hf with rfl | rfl | rfl | rfl | rfl
  · norm_num
  · norm_num
  · norm_num
  · norm_num
  · norm_num

theorem prime_30703 : Nat.Prime 30703 := by
  refine prime_of_cert 30703 3 [(2, 1), (3, 1), (7, 1), (17, 1), (43, 1)] (by decide +kernel) (by decide +kernel) (by decide +kernel) ?_
    (by decide +kernel) (by decide +kernel)
  intro f hf
  simp only [List.mem_cons, List.not_mem_nil, or_false] at hf
  rcases hf with rfl | rfl | rfl | rfl | rfl
  · norm_num
  · norm_num
  · norm_num
  · norm_num
  · norm_num

theorem prime_34123 : Nat.Prime 34123 := by
  refine prime_of_cert 34123 2 [(2, 1), (3, 1), (11, 2), (47, 1)] (by decide +kernel) (by decide +kernel) (by decide +kernel) ?_
    (by decide +kernel) (by decide +kernel)
  intro f hf
  simp only [List.mem_cons, List.not_mem_nil, or_false] at hf
  rcases hf with rfl | rfl | rfl | rfl
  · norm_num
  · norm_num
  · norm_num
  · norm_num

theorem prime_41081 : Nat.Prime 41081 := by
  refine prime_of_cert 41081 3 [(2, 3), (5, 1), (13, 1), (79, 1)] (by decide +kernel) (by decide +kernel) (by decide +kernel) ?_
    (by decide +kernel) (by decide +kernel)
  intro f hf
  simp only [List.mem_cons, List.not_mem_nil, or_false] at hf
  rcases hf with rfl | rfl | rfl | rfl
  · norm_num
  · norm_num
  · norm_num
  · norm_num

theorem prime_82163 : Nat.Prime 82163 := by
  refine prime_of_cert 82163 2 [(2, 1), (41081, 1)] (by decide +kernel) (by decide +kernel) (by decide +kernel) ?_
    (by decide +kernel) (by decide +kernel)
  intro f hf
  simp only [List.mem_cons, List.not_mem_nil, or_false] at hf
  rcases hf with rfl | rfl
  · norm_num
  · exact prime_41081

theorem prime_132667 : Nat.Prime 132667 := by
  refine prime_of_cert 132667 5 [(2, 1), (3, 1), (22111, 1)] (by decide +kernel) (by decide +kernel) (by decide +kernel) ?_
    (by decide +kernel) (by decide +kernel)
  intro f hf
  simp only [List.mem_cons, List.not_mem_nil, or_false] at hf
  rcases hf with rfl | rfl | rfl
  · norm_num
  · norm_num
  · exact prime_22111

theorem prime_137849 : Nat.Prime 137849 := by
  refine prime_of_cert 137849 3 [(2, 3), (17231, 1)] (by decide +kernel) (by decide +kernel) (by decide +kernel) ?_
    (by decide +kernel) (by decide +kernel)
  intro f hf
  simp only [List.mem_cons, List.not_mem_nil, or_false] at hf
  rcases hf with rfl | rfl
  · norm_num
  · exact prime_17231

theorem prime_409477 : Nat.Prime 409477 := by
  refine prime_of_cert 409477 2 [(2, 2), (3, 1), (34123, 1)] (by decide +kernel) (by decide +kernel) (by decide +kernel) ?_
    (by decide +kernel) (by decide +kernel)
  intro f hf
  simp only [List.mem_cons, List.not_mem_nil, or_false] at hf
  rcases hf with rfl | rfl | rfl
  · norm_num
  · norm_num
  · exact prime_34123

theorem prime_531581 : Nat.Prime 531581 := by
  refine prime_of_cert 531581 2 [(2, 2), (5, 1), (7, 1), (3797, 1)] (by decide +kernel) (by decide +kernel) (by decide +kernel) ?_
    (by decide +kernel) (by decide +kernel)
  intro f hf
  simp only [List.mem_cons, List.not_mem_nil, or_false] at hf
  rcases hf with rfl | rfl | rfl | rfl
  · norm_num
  · norm_num
  · norm_num
  · exact prime_3797

theorem prime_1224481 : Nat.Prime 1224481 := by
  refine prime_of_cert 1224481 13 [(2, 5), (3, 1), (5, 1), (2551, 1)] (by decide +kernel) (by decide +kernel) (by decide +kernel) ?_
    (by decide +kernel) (by decide +kernel)
  intro f hf
  simp only [List.mem_cons, List.not_mem_nil, or_false] at hf
  rcases hf with rfl | rfl | rfl | rfl
  · norm_num
  · norm_num
  · norm_num
  · exact prime_2551

theorem prime_14741173 : Nat.Prime 14741173 := by
  refine prime_of_cert 14741173 2 [(2, 2), (3, 2), (409477, 1)] (by decide +kernel) (by decide +kernel) (by decide +kernel) ?_
    (by decide +kernel) (by decide +kernel)
  intro f hf
  simp only [List.mem_cons, List.not_mem_nil, or_false] at hf
  rcases hf with rfl | rfl | rfl
  · norm_num
  · norm_num
  · exact prime_409477

theorem prime_58964693 : Nat.Prime 58964693 := by
  refine prime_of_cert 58964693 2 [(2, 2), (14741173, 1)] (by decide +kernel) (by decide +kernel) (by decide +kernel) ?_
    (by decide +kernel) (by decide +kernel)
  intro f hf
  simp only [List.mem_cons, List.not_mem_nil, or_false] at hf
  rcases hf with rfl | rfl
  · norm_num
  · exact prime_14741173

theorem prime_292386187 : Nat.Prime 292386187 := by
  refine prime_of_cert 292386187 2 [(2, 1), (3, 4), (307, 1), (5879, 1)] (by decide +kernel) (by decide +kernel) (by decide +kernel) ?_
    (by decide +kernel) (by decide +kernel)
  intro f hf
  simp only [List.mem_cons, List.not_mem_nil, or_false] at hf
  rcases hf with rfl | rfl | rfl | rfl
  · norm_num
  · norm_num
  · norm_num
  · exact prime_5879

theorem prime_213441916511 : Nat.Prime 213441916511 := by
  refine prime_of_cert 213441916511 13 [(2, 1), (5, 1), (73, 1), (292386187, 1)] (by decide +kernel) (by decide +kernel) (by decide +kernel) ?_
    (by decide +kernel) (by decide +kernel)
  intro f hf
  simp only [List.mem_cons, List.not_mem_nil, or_false] at hf
  rcases hf with rfl | rfl | rfl | rfl
  · norm_num
  · norm_num
  · norm_num
  · exact prime_292386187

theorem prime_1257559732178653 : Nat.Prime 1257559732178653 := by
  refine prime_of_cert 1257559732178653 2 [(2, 2), (3, 1), (7, 1), (23, 1), (531581, 1), (1224481, 1)] (by decide +kernel) (by decide +kernel) (by decide +kernel) ?_
    (by decide +kernel) (by decide +kernel)
  intro f hf
  simp only [List.mem_cons, List.not_mem_nil, or_false] at hf
  rcases hf with rfl | rfl | rfl | rfl | rfl | rfl
  · norm_num
  · norm_num
  · norm_num
  · norm_num
  · exact prime_531581
  · exact prime_1224481

theorem prime_4434155615661930479 : Nat.Prime 4434155615661930479 := by
  refine prime_of_cert 4434155615661930479 17 [(2, 1), (41, 1), (43, 1), (1257559732178653, 1)] (by decide +kernel) (by decide +kernel) (by decide +kernel) ?_
    (by decide +kernel) (by decide +kernel)
  intro f hf
  simp only [List.mem_cons, List.not_mem_nil, or_false] at hf
  rcases hf with rfl | rfl | rfl | rfl
  · norm_num
  · norm_num
  · norm_num
  · exact prime_1257559732178653

theorem prime_3044861653679985063343 : Nat.Prime 3044861653679985063343 := by
  refine prime_of_cert 3044861653679985063343 5 [(2, 1), (3, 1), (11, 1), (30703, 1), (82163, 1), (132667, 1), (137849, 1)] (by decide +kernel) (by decide +kernel) (by decide +kernel) ?_
    (by decide +kernel) (by decide +kernel)
  intro f hf
  simp only [List.mem_cons, List.not_mem_nil, or_false] at hf
  rcases hf with rfl | rfl | rfl | rfl | rfl | rfl | rfl
  · norm_num
  · norm_num
  · norm_num
  · exact prime_30703
  · exact prime_82163
  · exact prime_132667
  · exact prime_137849

theorem prime_172054593956031949258510691 : Nat.Prime 172054593956031949258510691 := by
  refine prime_of_cert 172054593956031949258510691 2 [(2, 1), (5, 1), (1361, 1), (2851, 1), (4434155615661930479, 1)] (by decide +kernel) (by decide +kernel) (by decide +kernel) ?_
    (by decide +kernel) (by decide +kernel)
  intro f hf
  simp only [List.mem_cons, List.not_mem_nil, or_false] at hf
  rcases hf with rfl | rfl | rfl | rfl | rfl
  · norm_num
  · norm_num
  · exact prime_1361
  · exact prime_2851
  · exact prime_4434155615661930479

theorem prime_198211423230930754013084525763697 : Nat.Prime 198211423230930754013084525763697 := by
  refine prime_of_cert 198211423230930754013084525763697 5 [(2, 4), (3, 1), (23, 1), (58964693, 1), (3044861653679985063343, 1)] (by decide +kernel) (by decide +kernel) (by decide +kernel) ?_
    (by decide +kernel) (by decide +kernel)
  intro f hf
  simp only [List.mem_cons, List.not_mem_nil, or_false] at hf
  rcases hf with rfl | rfl | rfl | rfl | rfl
  · norm_num
  · norm_num
  · norm_num
  · exact prime_58964693
  · exact prime_3044861653679985063343

theorem prime_19757330305831588566944191468367130476339 : Nat.Prime 19757330305831588566944191468367130476339 := by
  refine prime_of_cert 19757330305831588566944191468367130476339 2 [(2, 1), (269, 1), (213441916511, 1), (172054593956031949258510691, 1)] (by decide +kernel) (by decide +kernel) (by decide +kernel) ?_
    (by decide +kernel) (by decide +kernel)
  intro f hf
  simp only [List.mem_cons, List.not_mem_nil, or_false] at hf
  rcases hf with rfl | rfl | rfl | rfl
  · norm_num
  · norm_num
  · exact prime_213441916511
  · exact prime_172054593956031949258510691

theorem prime_276602624281642239937218680557139826668747 : Nat.Prime 276602624281642239937218680557139826668747 := by
  refine prime_of_cert 276602624281642239937218680557139826668747 2 [(2, 1), (7, 1), (19757330305831588566944191468367130476339, 1)] (by decide +kernel) (by decide +kernel) (by decide +kernel) ?_
    (by decide +kernel) (by decide +kernel)
  intro f hf
  simp only [List.mem_cons, List.not_mem_nil, or_false] at hf
  rcases hf with rfl | rfl | rfl
  · norm_num
  · norm_num
  · exact prime_19757330305831588566944191468367130476339

theorem prime_7237005577332262213973186563042994240857116359379907606001950938285454250989 : Nat.Prime 7237005577332262213973186563042994240857116359379907606001950938285454250989 := by
  refine prime_of_cert 7237005577332262213973186563042994240857116359379907606001950938285454250989 2 [(2, 2), (3, 1), (11, 1), (198211423230930754013084525763697, 1), (276602624281642239937218680557139826668747, 1)] (by decide +kernel) (by decide +kernel) (by decide +kernel) ?_
    (by decide +kernel) (by decide +kernel)
  intro f hf
  simp only [List.mem_cons, List.not_mem_nil, or_false] at hf
  rcases hf with rfl | rfl | rfl | rfl | rfl
  · norm_num
  · norm_num
  · norm_num
  · exact prime_198211423230930754013084525763697
  · exact prime_276602624281642239937218680557139826668747

end Bpp.Pratt
