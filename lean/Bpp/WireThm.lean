import Model.Wire
import Model.Codec
/-! The scalar layer of the driver's text protocol (`Model/Wire.lean`): what the driver prints for a canonical scalar
    is read back as the same scalar, byte for byte (hex digits, byte pairs, little-endian 32-byte encoding). This is
    the part of the text protocol every `prove` / `verify` / `recover` reply of the correspondence check passes
    through. Core Lean only. -/
namespace Bpp.WireThm
open Model Model.Wire

theorem hexVal_hexDigit : ∀ n : Fin 16, hexVal (hexDigit n.val) = some n.val := by decide

theorem hexVal_hexDigit' (n : Nat) (h : n < 16) : hexVal (hexDigit n) = some n := hexVal_hexDigit ⟨n, h⟩

theorem go_flatMap (bs : List UInt8) :
    hexToBytes.go (bs.flatMap (fun b => [hexDigit (b.toNat / 16), hexDigit (b.toNat % 16)])) = some bs := by
  induction bs with
  | nil => rfl
  | cons b bs ih =>
    have hb : b.toNat < 256 := b.toNat_lt
    have h1 : hexVal (hexDigit (b.toNat / 16)) = some (b.toNat / 16) := hexVal_hexDigit' _ (by omega)
    have h2 : hexVal (hexDigit (b.toNat % 16)) = some (b.toNat % 16) := hexVal_hexDigit' _ (by omega)
    have h3 : UInt8.ofNat (16 * (b.toNat / 16) + b.toNat % 16) = b := by
      have : 16 * (b.toNat / 16) + b.toNat % 16 = b.toNat := by omega
      rw [this]; exact UInt8.ofNat_toNat
    simp only [List.flatMap_cons, List.cons_append, List.nil_append, hexToBytes.go, h1, h2, ih]
    show some (UInt8.ofNat (16 * (b.toNat / 16) + b.toNat % 16) :: bs) = some (b :: bs)
    rw [h3]

/-- hex printing then hex parsing is the identity on byte strings -/
theorem hexToBytes_bytesToHex (bs : List UInt8) : hexToBytes (bytesToHex bs) = some bs := by
  unfold hexToBytes bytesToHex
  simp only [String.toList_ofList]
  exact go_flatMap bs

theorem natToLe_length (n x : Nat) : (natToLe n x).length = n := by
  induction n generalizing x with
  | zero => rfl
  | succ n ih => simp [natToLe, ih]

/-- the `n`-byte little-endian encoding is read back exactly for every value below `256^n` -/
theorem leNat_natToLe (n x : Nat) (h : x < 256 ^ n) : leNat (natToLe n x) = x := by
  induction n generalizing x with
  | zero => simp at h; subst h; rfl
  | succ n ih =>
    have hx : x / 256 < 256 ^ n := by
      rw [Nat.pow_succ] at h
      exact Nat.div_lt_of_lt_mul (by rw [Nat.mul_comm]; exact h)
    have hb : (UInt8.ofNat (x % 256)).toNat = x % 256 := by
      simp [UInt8.toNat_ofNat']
    simp only [natToLe, leNat, ih _ hx, hb]
    omega

theorem ell_lt : ell < 256 ^ 32 := by decide

/-- **Scalar wire round trip.** A canonical scalar printed by the driver (`hexOfScalar`, 64 hex characters,
    little-endian, as `Scalar::as_bytes`) is parsed back (`scalarOfHex`) as the same scalar. -/
theorem scalar_roundtrip (x : Fl) (h : x.v < ell) : scalarOfHex (hexOfScalar x) = some x := by
  unfold scalarOfHex hexOfScalar
  rw [hexToBytes_bytesToHex]
  have h2 : x.v < 256 ^ 32 := Nat.lt_trans h ell_lt
  simp only [Option.bind_eq_bind, Option.bind_some, Option.pure_def, leNat_natToLe 32 x.v h2, Nat.mod_eq_of_lt h]

/-- what the driver prints is 64 characters per scalar -/
theorem hexOfScalar_length (x : Fl) : (hexOfScalar x).toList.length = 64 := by
  unfold hexOfScalar bytesToHex
  simp only [String.toList_ofList]
  have : ∀ bs : List UInt8,
      (bs.flatMap (fun b => [hexDigit (b.toNat / 16), hexDigit (b.toNat % 16)])).length = 2 * bs.length := by
    intro bs; induction bs with
    | nil => rfl
    | cons b bs ih => simp only [List.flatMap_cons, List.length_append, ih, List.length_cons, List.length_nil]; omega
  rw [this, natToLe_length]

/-- distinct canonical scalars are printed differently -/
theorem hexOfScalar_inj (x y : Fl) (hx : x.v < ell) (hy : y.v < ell) (h : hexOfScalar x = hexOfScalar y) : x = y := by
  have := scalar_roundtrip x hx
  rw [h, scalar_roundtrip y hy] at this
  exact (Option.some.inj this).symm

/-- the driver's scalar bytes are the proof encoding's scalar bytes (`Model.Codec.leBytes`, the layout of C15/C19) -/
theorem natToLe_eq_leBytes (n x : Nat) : natToLe n x = Model.Codec.leBytes n x := by
  induction n generalizing x with
  | zero => rfl
  | succ n ih => simp only [natToLe, Model.Codec.leBytes, ih]

theorem ell_pos : 0 < ell := by decide

/-- every scalar the driver reads is a canonical representative, whatever 64 (or any number of) hex characters were sent -/
theorem scalarOfHex_canonical (s : String) (x : Fl) (h : scalarOfHex s = some x) : x.v < ell := by
  unfold scalarOfHex at h
  cases hb : hexToBytes s with
  | none => simp [hb] at h
  | some bs =>
    simp only [hb, Option.bind_eq_bind, Option.bind_some, Option.pure_def, Option.some.injEq] at h
    subst h
    exact Nat.mod_lt _ ell_pos

end Bpp.WireThm
