import Bpp.ScalarField
/-! The driver's sparse vectors `Model.SVec` are (a computable representation of) the free module over `ZMod ℓ` on
    named basis elements: the coefficient map `coeffZ` turns `+`, `-`, `•`, `0`, `basis` into the pointwise operations,
    the operations keep ids strictly increasing and coefficients canonical, and under those invariants the printed
    normal form is empty exactly when every coefficient is zero (this is the driver's "residual = 0" test). -/
namespace Bpp
open Model

/-- coefficient of basis element `i`: the sum over all entries with that id -/
def coeffL : List (ℕ × Fl) → ℕ → ZMod Model.ell
  | [], _ => 0
  | (j, c) :: r, i => (if j = i then toZ c else 0) + coeffL r i

def coeffZ (v : SVec) (i : ℕ) : ZMod Model.ell := coeffL v.terms i

/-- every coefficient is a canonical representative -/
def CanonL (l : List (ℕ × Fl)) : Prop := ∀ p ∈ l, Canon p.2
/-- ids strictly increasing -/
def SortedL (l : List (ℕ × Fl)) : Prop := l.Pairwise (fun a b => a.1 < b.1)
/-- invariant of the vectors the driver computes with -/
def WFV (v : SVec) : Prop := CanonL v.terms ∧ SortedL v.terms

theorem coeffL_map (f : Fl → Fl) (g : ZMod Model.ell → ZMod Model.ell) (hg0 : g 0 = 0)
    (hadd : ∀ a b, g (a + b) = g a + g b) (l : List (ℕ × Fl)) (hf : ∀ p ∈ l, toZ (f p.2) = g (toZ p.2)) (i : ℕ) :
    coeffL (l.map (fun p => (p.1, f p.2))) i = g (coeffL l i) := by
  induction l with
  | nil => simp [coeffL, hg0]
  | cons p r ih =>
    obtain ⟨j, c⟩ := p
    simp only [List.map_cons, coeffL]
    rw [ih (fun q hq => hf q (List.mem_cons_of_mem _ hq)), hadd]
    congr 1
    split
    · exact hf (j, c) (by simp)
    · exact hg0.symm

/-- the merge adds coefficients: `coeff (merge f a b) = coeff a + g (coeff b)` when `f` represents the additive map `g` -/
theorem coeffL_merge (f : Fl → Fl) (g : ZMod Model.ell → ZMod Model.ell) (hg0 : g 0 = 0)
    (hadd : ∀ a b, g (a + b) = g a + g b) (i : ℕ) :
    ∀ (xs ys : List (ℕ × Fl)), (∀ p ∈ ys, toZ (f p.2) = g (toZ p.2)) →
      coeffL (SVec.mergeL f xs ys) i = coeffL xs i + g (coeffL ys i) := by
  intro xs ys
  induction xs, ys using SVec.mergeL.induct with
  | case1 ys =>
    intro hf
    rw [SVec.mergeL, coeffL_map f g hg0 hadd ys hf]; simp [coeffL]
  | case2 x xs =>
    intro _
    rw [SVec.mergeL]; simp [coeffL, hg0]
  | case3 ia va xs ib vb ys hlt ih =>
    intro hf
    rw [SVec.mergeL, if_pos hlt]
    simp only [coeffL]
    rw [ih hf]; simp only [coeffL]; ring
  | case4 ia va xs ib vb ys hlt hgt ih =>
    intro hf
    rw [SVec.mergeL, if_neg hlt, if_pos hgt]
    simp only [coeffL]
    rw [ih (fun q hq => hf q (List.mem_cons_of_mem _ hq)), hadd]
    have := hf (ib, vb) (by simp)
    simp only at this
    split
    · rw [this]; simp only [coeffL]; ring
    · rw [hg0]; simp only [coeffL]; ring
  | case5 ia va xs ib vb ys hlt hgt ih =>
    intro hf
    have heq : ia = ib := by omega
    subst heq
    rw [SVec.mergeL, if_neg hlt, if_neg hgt]
    simp only [coeffL]
    rw [ih (fun q hq => hf q (List.mem_cons_of_mem _ hq)), hadd]
    have := hf (ia, vb) (by simp)
    simp only at this
    split
    · rw [toZ_add, this]; ring
    · rw [hg0]; ring

theorem coeffZ_add (a b : SVec) (i : ℕ) : coeffZ (a + b) i = coeffZ a i + coeffZ b i := by
  show coeffL (SVec.mergeL id a.terms b.terms) i = _
  rw [coeffL_merge id id rfl (fun _ _ => rfl) i a.terms b.terms (fun _ _ => rfl)]; rfl

theorem coeffZ_sub (a b : SVec) (hb : CanonL b.terms) (i : ℕ) : coeffZ (a - b) i = coeffZ a i - coeffZ b i := by
  show coeffL (SVec.mergeL (fun x => -x) a.terms b.terms) i = _
  rw [coeffL_merge (fun x => -x) (fun z => -z) neg_zero (fun a b => neg_add a b) i a.terms b.terms
    (fun p hp => toZ_neg p.2 (hb p hp))]
  show _ + -coeffL b.terms i = coeffL a.terms i - coeffL b.terms i
  ring

theorem coeffZ_smul (c : Fl) (a : SVec) (i : ℕ) : coeffZ (c • a) i = toZ c * coeffZ a i := by
  show coeffL (a.terms.map (fun p => (p.1, c * p.2))) i = _
  exact coeffL_map (fun x => c * x) (fun z => toZ c * z) (mul_zero _) (fun a b => mul_add _ a b) a.terms
    (fun p _ => toZ_mul c p.2) i

theorem coeffZ_zero (i : ℕ) : coeffZ (0 : SVec) i = 0 := rfl

theorem coeffZ_basis (j i : ℕ) : coeffZ (SVec.basis j) i = if j = i then 1 else 0 := by
  show coeffL [(j, (1 : Fl))] i = _
  simp [coeffL, toZ_one]

theorem coeffZ_norm (a : SVec) (i : ℕ) : coeffZ a.norm i = coeffZ a i := by
  show coeffL (a.terms.filter (fun p => p.2.v != 0)) i = coeffL a.terms i
  induction a.terms with
  | nil => rfl
  | cons p r ih =>
    obtain ⟨j, c⟩ := p
    by_cases h : c.v = 0
    · have hz : toZ c = 0 := by simp [toZ, h]
      rw [List.filter_cons_of_neg (by simp [h])]
      simp [coeffL, ih, hz]
    · rw [List.filter_cons_of_pos (by simp [h])]
      simp [coeffL, ih]

/-! ### invariants -/

theorem canon_mergeL (f : Fl → Fl) :
    ∀ (xs ys : List (ℕ × Fl)), CanonL xs → (∀ p ∈ ys, Canon (f p.2)) → CanonL (SVec.mergeL f xs ys) := by
  intro xs ys
  induction xs, ys using SVec.mergeL.induct with
  | case1 ys =>
    intro _ hf p hp
    rw [SVec.mergeL] at hp
    obtain ⟨q, hq, rfl⟩ := List.mem_map.mp hp
    exact hf q hq
  | case2 x xs => intro h _; rw [SVec.mergeL]; exact h
  | case3 ia va xs ib vb ys hlt ih =>
    intro h hf
    rw [SVec.mergeL, if_pos hlt]
    intro p hp
    rcases List.mem_cons.mp hp with rfl | hp
    · exact h _ (by simp)
    · exact ih (fun q hq => h q (List.mem_cons_of_mem _ hq)) hf p hp
  | case4 ia va xs ib vb ys hlt hgt ih =>
    intro h hf
    rw [SVec.mergeL, if_neg hlt, if_pos hgt]
    intro p hp
    rcases List.mem_cons.mp hp with rfl | hp
    · exact hf (ib, vb) (by simp)
    · exact ih h (fun q hq => hf q (List.mem_cons_of_mem _ hq)) p hp
  | case5 ia va xs ib vb ys hlt hgt ih =>
    intro h hf
    rw [SVec.mergeL, if_neg hlt, if_neg hgt]
    intro p hp
    rcases List.mem_cons.mp hp with rfl | hp
    · exact canon_add _ _
    · exact ih (fun q hq => h q (List.mem_cons_of_mem _ hq)) (fun q hq => hf q (List.mem_cons_of_mem _ hq)) p hp

/-- every id of the merge comes from one of the two lists -/
theorem ids_mergeL (f : Fl → Fl) : ∀ (xs ys : List (ℕ × Fl)) (p : ℕ × Fl), p ∈ SVec.mergeL f xs ys →
    (∃ q ∈ xs, q.1 = p.1) ∨ (∃ q ∈ ys, q.1 = p.1) := by
  intro xs ys
  induction xs, ys using SVec.mergeL.induct with
  | case1 ys =>
    intro p hp
    rw [SVec.mergeL] at hp
    obtain ⟨q, hq, rfl⟩ := List.mem_map.mp hp
    exact Or.inr ⟨q, hq, rfl⟩
  | case2 x xs => intro p hp; rw [SVec.mergeL] at hp; exact Or.inl ⟨p, hp, rfl⟩
  | case3 ia va xs ib vb ys hlt ih =>
    intro p hp
    rw [SVec.mergeL, if_pos hlt] at hp
    rcases List.mem_cons.mp hp with rfl | hp
    · exact Or.inl ⟨_, by simp, rfl⟩
    · rcases ih p hp with ⟨q, hq, h⟩ | h
      · exact Or.inl ⟨q, List.mem_cons_of_mem _ hq, h⟩
      · exact Or.inr h
  | case4 ia va xs ib vb ys hlt hgt ih =>
    intro p hp
    rw [SVec.mergeL, if_neg hlt, if_pos hgt] at hp
    rcases List.mem_cons.mp hp with rfl | hp
    · exact Or.inr ⟨(ib, vb), by simp, rfl⟩
    · rcases ih p hp with h | ⟨q, hq, h⟩
      · exact Or.inl h
      · exact Or.inr ⟨q, List.mem_cons_of_mem _ hq, h⟩
  | case5 ia va xs ib vb ys hlt hgt ih =>
    intro p hp
    rw [SVec.mergeL, if_neg hlt, if_neg hgt] at hp
    rcases List.mem_cons.mp hp with rfl | hp
    · exact Or.inl ⟨(ia, va), by simp, rfl⟩
    · rcases ih p hp with ⟨q, hq, h⟩ | ⟨q, hq, h⟩
      · exact Or.inl ⟨q, List.mem_cons_of_mem _ hq, h⟩
      · exact Or.inr ⟨q, List.mem_cons_of_mem _ hq, h⟩

theorem sorted_mergeL (f : Fl → Fl) : ∀ (xs ys : List (ℕ × Fl)), SortedL xs → SortedL ys →
    SortedL (SVec.mergeL f xs ys) := by
  intro xs ys
  induction xs, ys using SVec.mergeL.induct with
  | case1 ys =>
    intro _ hy
    rw [SVec.mergeL]
    exact List.Pairwise.map _ (fun a b h => h) hy
  | case2 x xs => intro hx _; rw [SVec.mergeL]; exact hx
  | case3 ia va xs ib vb ys hlt ih =>
    intro hx hy
    rw [SVec.mergeL, if_pos hlt]
    have hx' := List.pairwise_cons.mp hx
    refine List.pairwise_cons.mpr ⟨?_, ih hx'.2 hy⟩
    intro p hp
    rcases ids_mergeL f _ _ p hp with ⟨q, hq, h⟩ | ⟨q, hq, h⟩
    · rw [← h]; exact hx'.1 q hq
    · rw [← h]
      rcases List.mem_cons.mp hq with rfl | hq
      · exact hlt
      · exact lt_trans hlt ((List.pairwise_cons.mp hy).1 q hq)
  | case4 ia va xs ib vb ys hlt hgt ih =>
    intro hx hy
    rw [SVec.mergeL, if_neg hlt, if_pos hgt]
    have hy' := List.pairwise_cons.mp hy
    refine List.pairwise_cons.mpr ⟨?_, ih hx hy'.2⟩
    intro p hp
    rcases ids_mergeL f _ _ p hp with ⟨q, hq, h⟩ | ⟨q, hq, h⟩
    · rw [← h]
      rcases List.mem_cons.mp hq with rfl | hq
      · exact hgt
      · exact lt_trans hgt ((List.pairwise_cons.mp hx).1 q hq)
    · rw [← h]; exact hy'.1 q hq
  | case5 ia va xs ib vb ys hlt hgt ih =>
    intro hx hy
    have heq : ia = ib := by omega
    subst heq
    rw [SVec.mergeL, if_neg hlt, if_neg hgt]
    have hx' := List.pairwise_cons.mp hx
    have hy' := List.pairwise_cons.mp hy
    refine List.pairwise_cons.mpr ⟨?_, ih hx'.2 hy'.2⟩
    intro p hp
    rcases ids_mergeL f _ _ p hp with ⟨q, hq, h⟩ | ⟨q, hq, h⟩
    · rw [← h]; exact hx'.1 q hq
    · rw [← h]; exact hy'.1 q hq

theorem wf_add (a b : SVec) (ha : WFV a) (hb : WFV b) : WFV (a + b) :=
  ⟨canon_mergeL id a.terms b.terms ha.1 hb.1, sorted_mergeL id a.terms b.terms ha.2 hb.2⟩

theorem wf_sub (a b : SVec) (ha : WFV a) (hb : WFV b) : WFV (a - b) :=
  ⟨canon_mergeL (fun x => -x) a.terms b.terms ha.1 (fun p _ => canon_neg p.2),
   sorted_mergeL (fun x => -x) a.terms b.terms ha.2 hb.2⟩

theorem wf_smul (c : Fl) (a : SVec) (ha : WFV a) : WFV (c • a) := by
  constructor
  · intro p hp
    obtain ⟨q, _, rfl⟩ := List.mem_map.mp hp
    exact canon_mul _ _
  · exact List.Pairwise.map _ (fun a b h => h) ha.2

theorem wf_zero : WFV (0 : SVec) := ⟨fun p (hp : p ∈ ([] : List (ℕ × Fl))) => absurd hp List.not_mem_nil, List.Pairwise.nil⟩

theorem wf_basis (j : ℕ) : WFV (SVec.basis j) :=
  ⟨fun p hp => by
      have : p = (j, (1 : Fl)) := by simpa [SVec.basis] using hp
      rw [this]; exact canon_one,
   List.pairwise_singleton _ _⟩

/-- under the invariant, the coefficient of an id that occurs is its entry -/
theorem coeffL_of_mem (l : List (ℕ × Fl)) (hs : SortedL l) (p : ℕ × Fl) (hp : p ∈ l) : coeffL l p.1 = toZ p.2 := by
  induction l with
  | nil => cases hp
  | cons q r ih =>
    obtain ⟨j, c⟩ := q
    have hs' := List.pairwise_cons.mp hs
    have hnone : ∀ (l' : List (ℕ × Fl)) (k : ℕ), (∀ q ∈ l', q.1 ≠ k) → coeffL l' k = 0 := by
      intro l' k
      induction l' with
      | nil => intro _; rfl
      | cons q' r' ih' =>
        intro h
        obtain ⟨j', c'⟩ := q'
        simp only [coeffL]
        rw [if_neg (h (j', c') (by simp)), ih' (fun q hq => h q (List.mem_cons_of_mem _ hq))]; simp
    rcases List.mem_cons.mp hp with rfl | hp
    · simp only [coeffL, if_true]
      rw [hnone r j (fun q hq => (ne_of_gt (hs'.1 q hq)))]; simp
    · simp only [coeffL]
      rw [if_neg (ne_of_lt (hs'.1 p hp)), ih hs'.2 hp]; simp

/-- **the zero test.** For a well-formed vector the printed normal form is empty iff every coefficient is zero. -/
theorem norm_empty_iff (a : SVec) (ha : WFV a) : a.norm.terms = [] ↔ ∀ i, coeffZ a i = 0 := by
  constructor
  · intro h i
    rw [← coeffZ_norm, coeffZ, h]; rfl
  · intro h
    show a.terms.filter (fun p => p.2.v != 0) = []
    rw [List.filter_eq_nil_iff]
    intro p hp
    have hz : toZ p.2 = 0 := by rw [← coeffL_of_mem a.terms ha.2 p hp]; exact h p.1
    have hc := ha.1 p hp
    have : p.2.v = 0 := by
      unfold toZ at hz
      rw [ZMod.natCast_eq_zero_iff] at hz
      exact Nat.eq_zero_of_dvd_of_lt hz hc
    simp [this]

end Bpp
