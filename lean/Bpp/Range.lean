import Bpp.Wip
open Finset
namespace Bpp
open Model (WipProof RangeInst RangeProofM ProofM bitN)
variable {F : Type} [Field F] {M : Type} [AddCommGroup M] [Module F M]

/-- Σ_{x < m*n} f x = Σ_{j<m} Σ_{i<n} f (j*n + i) -/
theorem sum_range_mul' {β : Type} [AddCommMonoid β] (m n : ℕ) (f : ℕ → β) :
    ∑ x ∈ range (m * n), f x = ∑ j ∈ range m, ∑ i ∈ range n, f (j * n + i) := by
  induction m with
  | zero => simp
  | succ m ih =>
    rw [Nat.succ_mul, Finset.sum_range_add, ih, Finset.sum_range_succ]

/-- the `d` vector in closed form: d (j*n+i) = z^(2(j+1)) * 2^i -/
def dvec (z : F) (n : ℕ) (x : ℕ) : F := z ^ (2 * (x / n + 1)) * 2 ^ (x % n)

theorem dvec_at (z : F) (n : ℕ) (hn : 0 < n) (j i : ℕ) (hi : i < n) :
    dvec z n (j * n + i) = z ^ (2 * (j + 1)) * 2 ^ i := by
  unfold dvec
  have h1 : (j * n + i) / n = j := by
    rw [Nat.add_comm, Nat.add_mul_div_right _ _ hn, Nat.div_eq_of_lt hi, Nat.zero_add]
  have h2 : (j * n + i) % n = i := by
    rw [Nat.add_comm, Nat.add_mul_mod_self_right, Nat.mod_eq_of_lt hi]
  rw [h1, h2]


/-- Reference reduction  A ↦ Â  (DESIGN §8). -/
def Ahat (I : RangeInst F M) (y z : F) (A : M) : M :=
  let N := I.n * I.m
  let d := dvec z I.n
  let ζ : F := (z - z^2) * (∑ i ∈ range N, y^(i+1)) - z * y^(N+1) * (∑ i ∈ range N, d i)
  A + dot N (fun _ => -z) I.G + dot N (fun i => d i * y^(N - i) + z) I.H
    + (∑ j ∈ range I.m, (y^(N+1) * z^(2*(j+1))) • (I.V j - I.p j • I.hb)) + ζ • I.hb

/-- Honest range reduction: with bit vector `aL` of the shifted values, the reference `Â` is the WIP
    commitment to the vectors the prover folds. -/
theorem range_reduction (I : RangeInst F M) (hn : 0 < I.n) (y z : F)
    (aL : ℕ → F) (α : ℕ → F) (v : ℕ → F) (r : ℕ → ℕ → F)
    (hbit : ∀ i < I.n * I.m, aL i * (aL i - 1) = 0)
    (hval : ∀ j < I.m, ∑ i ∈ range I.n, aL (j * I.n + i) * 2^i = v j - I.p j)
    (hV : ∀ j < I.m, I.V j = v j • I.hb + dot I.t (r j) I.Gb) :
    Ahat I y z (dot (I.n * I.m) aL I.G + dot (I.n * I.m) (fun i => aL i - 1) I.H + dot I.t α I.Gb) =
      Pcom y (I.n * I.m) I.t (fun i => aL i - z)
        (fun i => aL i - 1 + dvec z I.n i * y^(I.n * I.m - i) + z) I.G I.H I.hb
        (fun k => α k + ∑ j ∈ range I.m, z^(2*(j+1)) * r j k * y^(I.n * I.m + 1)) I.Gb := by
  simp only [Ahat, Pcom]
  set N := I.n * I.m with hN
  set d := dvec z I.n with hd
  -- G part
  have hG : dot N (fun i => aL i - z) I.G = dot N aL I.G + dot N (fun _ => -z) I.G := by
    rw [← dot_add]; apply dot_congr; intro i _; ring
  have hH : dot N (fun i => aL i - 1 + d i * y^(N - i) + z) I.H
      = dot N (fun i => aL i - 1) I.H + dot N (fun i => d i * y^(N - i) + z) I.H := by
    rw [← dot_add]; apply dot_congr; intro i _; ring
  -- blinding part
  have hα : dot I.t (fun k => α k + ∑ j ∈ range I.m, z^(2*(j+1)) * r j k * y^(N+1)) I.Gb
      = dot I.t α I.Gb + ∑ j ∈ range I.m, (y^(N+1) * z^(2*(j+1))) • dot I.t (r j) I.Gb := by
    simp only [dot, add_smul, Finset.sum_add_distrib, Finset.sum_smul, Finset.smul_sum, smul_smul]
    congr 1
    rw [Finset.sum_comm]
    apply Finset.sum_congr rfl; intro j _
    apply Finset.sum_congr rfl; intro k _
    congr 1; ring
  -- commitments
  have hVs : (∑ j ∈ range I.m, (y^(N+1) * z^(2*(j+1))) • (I.V j - I.p j • I.hb))
      = (∑ j ∈ range I.m, (y^(N+1) * z^(2*(j+1)) * (v j - I.p j))) • I.hb
        + ∑ j ∈ range I.m, (y^(N+1) * z^(2*(j+1))) • dot I.t (r j) I.Gb := by
    rw [Finset.sum_smul, ← Finset.sum_add_distrib]
    apply Finset.sum_congr rfl; intro j hj
    rw [hV j (Finset.mem_range.mp hj)]
    module
  -- scalar identity for the value generator
  have hdsum : ∑ i ∈ range N, d i * aL i = ∑ j ∈ range I.m, z^(2*(j+1)) * (v j - I.p j) := by
    rw [hN, Nat.mul_comm, sum_range_mul']
    apply Finset.sum_congr rfl; intro j hj
    rw [← hval j (Finset.mem_range.mp hj), Finset.mul_sum]
    apply Finset.sum_congr rfl; intro i hi
    rw [hd, dvec_at z I.n hn j i (Finset.mem_range.mp hi)]
    ring
  have hw : wip y N (fun i => aL i - z) (fun i => aL i - 1 + d i * y^(N - i) + z)
      = (∑ j ∈ range I.m, (y^(N+1) * z^(2*(j+1)) * (v j - I.p j)))
        + ((z - z^2) * (∑ i ∈ range N, y^(i+1)) - z * y^(N+1) * (∑ i ∈ range N, d i)) := by
    have h1 : ∀ i ∈ range N, (aL i - z) * y^(i+1) * (aL i - 1 + d i * y^(N - i) + z)
        = y^(N+1) * (d i * aL i) + ((z - z^2) * y^(i+1) - z * y^(N+1) * d i) := by
      intro i hi
      have hiN : i < N := Finset.mem_range.mp hi
      have hp : y^(i+1) * y^(N - i) = y^(N+1) := by
        rw [← pow_add]; congr 1; omega
      have hb' := hbit i hiN
      linear_combination (y^(i+1)) * hb' + (d i * aL i - z * d i) * hp
    have h2 : (∑ j ∈ range I.m, (y^(N+1) * z^(2*(j+1)) * (v j - I.p j)))
        = y^(N+1) * ∑ i ∈ range N, d i * aL i := by
      rw [hdsum, Finset.mul_sum]; apply Finset.sum_congr rfl; intro j _; ring
    unfold wip
    rw [Finset.sum_congr rfl h1, h2]
    simp only [Finset.sum_add_distrib, Finset.sum_sub_distrib, Finset.mul_sum]
  rw [hG, hH, hα, hVs, hw]
  module

end Bpp
