import Model.Gens
import Model.Range
import Bpp.Bridge
import Mathlib.Data.List.Basic
/-! C11 / C12: the label scheme is injective and capacity-free, the iterator of a smaller aggregation factor is a
    prefix of the larger one's, table position `2i` / `2i+1` is `G_i` / `H_i`, zero padding is neutral, and prover
    and verifier depend on the vector generators only through their first `n·m` entries. -/
namespace Bpp.GensThm
open Model.Gens

theorem le32_inj (a b : ℕ) (ha : a < 2 ^ 32) (hb : b < 2 ^ 32) (h : le32 a = le32 b) : a = b := by
  unfold le32 at h
  simp only [List.cons.injEq, and_true] at h
  obtain ⟨h0, h1, h2, h3⟩ := h
  have e : ∀ x y : ℕ, x < 256 → y < 256 → UInt8.ofNat x = UInt8.ofNat y → x = y := by
    intro x y hx hy hxy
    have := congrArg UInt8.toNat hxy
    simpa [UInt8.toNat_ofNat, Nat.mod_eq_of_lt hx, Nat.mod_eq_of_lt hy] using this
  have g0 := e _ _ (Nat.mod_lt _ (by decide)) (Nat.mod_lt _ (by decide)) h0
  have g1 := e _ _ (Nat.mod_lt _ (by decide)) (Nat.mod_lt _ (by decide)) h1
  have g2 := e _ _ (Nat.mod_lt _ (by decide)) (Nat.mod_lt _ (by decide)) h2
  have g3 := e _ _ (Nat.mod_lt _ (by decide)) (Nat.mod_lt _ (by decide)) h3
  omega

/-- **C11 (labels).** Distinct (kind, party) give distinct SHAKE inputs; within a chain distinct indices read
    disjoint 64-byte blocks. -/
theorem chain_inj (k k' : Kind) (p p' i i' : ℕ) (hp : p < 2 ^ 32) (hp' : p' < 2 ^ 32)
    (h : chainLabel k p = chainLabel k' p' ∧ chainOffset i = chainOffset i') : k = k' ∧ p = p' ∧ i = i' := by
  obtain ⟨hl, ho⟩ := h
  unfold chainLabel at hl
  have := List.append_cancel_left hl
  simp only [List.cons.injEq] at this
  obtain ⟨hk, hle⟩ := this
  refine ⟨?_, le32_inj p p' hp hp' hle, by unfold chainOffset at ho; omega⟩
  cases k <;> cases k' <;> simp_all [Kind.byte]

/-- **C11 (vector generators vs Pedersen labels).** No chain label is a Pedersen label (domain separation). -/
theorem chain_ne_pedersen (k : Kind) (p j : ℕ) : chainLabel k p ≠ pedersenLabel j := by
  intro h
  have h0 := congrArg (fun l => l.head?) h
  simp [chainLabel, chainPrefix, pedersenLabel, pedersenPrefix] at h0

/-- the six Pedersen labels (extension degrees 1..6) are pairwise distinct -/
theorem pedersen_inj : ∀ j < 6, ∀ j' < 6, pedersenLabel j = pedersenLabel j' → j = j' := by decide

/-- **C12 (capacity independence of the layout).** The generators used for an aggregate of `m` commitments are a
    prefix of those of any larger capacity: same (kind, party, index) at the same position. -/
theorem aggIter_prefix (k : Kind) (n m cap : ℕ) (h : m ≤ cap) : aggIter k n m <+: aggIter k n cap := by
  obtain ⟨d, rfl⟩ := Nat.exists_eq_add_of_le h
  unfold aggIter
  rw [List.range_add, List.flatMap_append]
  exact List.prefix_append _ _

theorem aggIter_length (k : Kind) (n m : ℕ) : (aggIter k n m).length = m * n := by
  unfold aggIter
  induction m with
  | zero => simp
  | succ m ih => rw [List.range_succ, List.flatMap_append, List.length_append, ih]; simp; ring

theorem interleave_length {α : Type} (xs ys : List α) : (interleave xs ys).length = xs.length + ys.length := by
  induction xs generalizing ys with
  | nil => cases ys <;> simp [interleave]
  | cons x xs ih => cases ys with
    | nil => simp [interleave]
    | cons y ys => simp [interleave, ih]; omega

/-- **C11 (table order).** In the interleaved table, position `2i` holds the i-th `G` generator and `2i+1` the
    i-th `H` generator of the party-major order — what the prover's and verifier's interleaved scalars assume. -/
theorem interleave_get {α : Type} (xs ys : List α) (h : xs.length = ys.length) (i : ℕ) (hi : i < xs.length) :
    (interleave xs ys)[2 * i]? = xs[i]? ∧ (interleave xs ys)[2 * i + 1]? = ys[i]? := by
  induction xs generalizing ys i with
  | nil => simp at hi
  | cons x xs ih =>
    cases ys with
    | nil => simp at h
    | cons y ys =>
      cases i with
      | zero => simp [interleave]
      | succ i =>
        have := ih ys (by simpa using h) i (by simpa using hi)
        simp only [interleave, show 2 * (i + 1) = 2 * i + 1 + 1 by ring, List.getElem?_cons_succ]
        exact this

theorem tableOrder_length (bits cap : ℕ) : (tableOrder bits cap).length = 2 * bits * cap := by
  unfold tableOrder; rw [interleave_length, aggIter_length, aggIter_length]; ring

/-- **C12/C16 (padding).** Used scalars plus padding always fill the table exactly. -/
theorem padding_fills (bits m cap p : ℕ) (h : padding bits m cap = some p) :
    2 * (bits * m) + p = (tableOrder bits cap).length := by
  unfold padding at h
  split at h
  · injection h with h; rw [tableOrder_length]; subst h; rename_i hle; have : 2 * (bits * m) = 2 * bits * m := by ring
    omega
  · exact absurd h (by simp)

theorem padding_some_iff (bits m cap : ℕ) (hb : 0 < bits) : (padding bits m cap).isSome = true ↔ m ≤ cap := by
  unfold padding
  have : 2 * bits * m ≤ 2 * bits * cap ↔ m ≤ cap := Nat.mul_le_mul_left_iff (by omega)
  split <;> simp_all

/-! ### Prefix dependence and padding (C12) -/
section
open Finset Bpp
open Model (RangeInst ProofM)
variable {F : Type} [Field F] {M : Type} [AddCommGroup M] [Module F M]

theorem dot_congr_gen (n : ℕ) (a : ℕ → F) (G G' : ℕ → M) (h : ∀ i < n, G i = G' i) : dot n a G = dot n a G' := by
  unfold dot; exact Finset.sum_congr rfl (fun i hi => by rw [h i (Finset.mem_range.mp hi)])

/-- **C12 (padding is neutral).** A multiscalar product over the whole table with zero scalars beyond the first `N`
    positions equals the product over the first `N` generators. -/
theorem dot_padding (N pad : ℕ) (a : ℕ → F) (G : ℕ → M) :
    Model.dot (N + pad) (fun i => if i < N then a i else 0) G = Model.dot N a G := by
  rw [dot_eq, dot_eq]
  unfold dot
  rw [Finset.sum_range_add]
  have h1 : ∑ i ∈ range N, (if i < N then a i else 0) • G i = ∑ i ∈ range N, a i • G i :=
    Finset.sum_congr rfl (fun i hi => by rw [if_pos (Finset.mem_range.mp hi)])
  have h2 : ∑ i ∈ range pad, (if N + i < N then a (N + i) else 0) • G (N + i) = 0 :=
    Finset.sum_eq_zero (fun i _ => by rw [if_neg (by omega), zero_smul])
  rw [h1, h2, add_zero]

/-- **C12 (verifier).** The coded verifier depends on the vector generators only through their first `n·m`
    entries: two parameter sets that agree there (any capacities) give the same contribution. -/
theorem codeContribution_prefix (I : RangeInst F M) (G' H' : ℕ → M) (π : ProofM F M) (y z : F) (es : List F) (e w : F)
    (hG : ∀ i < I.n * I.m, I.G i = G' i) (hH : ∀ i < I.n * I.m, I.H i = H' i) :
    Model.codeContribution { I with G := G', H := H' } π y z es e w = Model.codeContribution I π y z es e w := by
  rw [codeContribution_bridge, codeContribution_bridge]
  unfold codeContribution
  simp only
  rw [dot_congr_gen (I.n * I.m) _ G' I.G (fun i hi => (hG i hi).symm),
    dot_congr_gen (I.n * I.m) _ H' I.H (fun i hi => (hH i hi).symm)]

/-- the folding prover reads the vector generators only below the current vector length -/
theorem wipProve_prefix (y : F) (t : ℕ) (g : M) (Gb : ℕ → M) (dL dR : ℕ → ℕ → F) (r s : F) (d η : ℕ → F) (e : F)
    (es : List F) (j : ℕ) (a b : ℕ → F) (G H G' H' : ℕ → M) (α : ℕ → F)
    (hG : ∀ i < 2 ^ es.length, G i = G' i) (hH : ∀ i < 2 ^ es.length, H i = H' i) :
    wipProve y t g Gb dL dR r s d η e es j a b G H α = wipProve y t g Gb dL dR r s d η e es j a b G' H' α := by
  induction es generalizing j a b G H G' H' α with
  | nil =>
    simp only [wipProve]
    rw [hG 0 (by simp), hH 0 (by simp)]
  | cons ej es ih =>
    simp only [wipProve]
    have hpos : 0 < 2 ^ es.length := Nat.two_pow_pos _
    have h2 : 2 ^ (ej :: es).length = 2 ^ es.length + 2 ^ es.length := by simp [pow_succ]; ring
    have hGlo : ∀ i < 2 ^ es.length, G i = G' i := fun i hi => hG i (by rw [h2]; omega)
    have hGhi : ∀ i < 2 ^ es.length, G (2 ^ es.length + i) = G' (2 ^ es.length + i) := fun i hi => hG _ (by rw [h2]; omega)
    have hHlo : ∀ i < 2 ^ es.length, H i = H' i := fun i hi => hH i (by rw [h2]; omega)
    have hHhi : ∀ i < 2 ^ es.length, H (2 ^ es.length + i) = H' (2 ^ es.length + i) := fun i hi => hH _ (by rw [h2]; omega)
    rw [ih (j + 1) _ _ _ _ (fun i => ej⁻¹ • G' i + (ej * (y ^ 2 ^ es.length)⁻¹) • G' (2 ^ es.length + i))
      (fun i => ej • H' i + ej⁻¹ • H' (2 ^ es.length + i)) _
      (fun i hi => by rw [hGlo i hi, hGhi i hi]) (fun i hi => by rw [hHlo i hi, hHhi i hi])]
    rw [dot_congr_gen _ _ (fun i => G (2 ^ es.length + i)) (fun i => G' (2 ^ es.length + i)) hGhi,
      dot_congr_gen _ _ H H' hHlo, dot_congr_gen _ _ G G' hGlo,
      dot_congr_gen _ _ (fun i => H (2 ^ es.length + i)) (fun i => H' (2 ^ es.length + i)) hHhi]

/-- **C12 (prover).** The model prover depends on the vector generators only through their first `n·m` entries. -/
theorem rangeProve_prefix (I : RangeInst F M) (hn : 0 < I.n) (G' H' : ℕ → M) (v p : ℕ → ℕ) (r : ℕ → ℕ → F)
    (α : ℕ → F) (dL dR : ℕ → ℕ → F) (rr ss : F) (d η : ℕ → F) (y z : F) (es : List F) (e : F)
    (hN : I.n * I.m = 2 ^ es.length)
    (hG : ∀ i < I.n * I.m, I.G i = G' i) (hH : ∀ i < I.n * I.m, I.H i = H' i) :
    Model.rangeProve { I with G := G', H := H' } v p r α dL dR rr ss d η y z es e
      = Model.rangeProve I v p r α dL dR rr ss d η y z es e := by
  rw [rangeProve_bridge { I with G := G', H := H' } hn, rangeProve_bridge I hn]
  unfold rangeProve
  simp only
  rw [dot_congr_gen _ _ G' I.G (fun i hi => (hG i hi).symm), dot_congr_gen _ _ H' I.H (fun i hi => (hH i hi).symm)]
  congr 1
  exact wipProve_prefix y I.t I.hb I.Gb dL dR rr ss d η e es 0 _ _ G' H' I.G I.H _
    (fun i hi => (hG i (by rw [hN]; exact hi)).symm) (fun i hi => (hH i (by rw [hN]; exact hi)).symm)

end

end Bpp.GensThm
