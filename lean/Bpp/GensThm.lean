import Model.Gens
import Model.Range
import Bpp.Bridge
import Mathlib.Data.List.Basic
/-! C11 / C12: the label scheme is injective and capacity-free, the iterator of a smaller aggregation factor is a
    prefix of the larger one's, table position `2i` / `2i+1` is `G_i` / `H_i`, zero padding is neutral, and prover
    and verifier depend on the vector generators only through their first `n·m` entries. -/
namespace Bpp.GensThm
open Model.Gens

theorem le32_inj (a b : ℕ) (ha : a < 2 ^ 32) (hb : b < 2 ^ 32) (h : le32 a = le32 b) : a = b := by
  unfold le32 at h
  simp only [List.cons.injEq, and_true] at h
  obtain ⟨h0, h1, h2, h3⟩ := h
  have e : ∀ x y : ℕ, x < 256 → y < 256 → UInt8.ofNat x = UInt8.ofNat y → x = y := by
    intro x y hx hy hxy
    have := congrArg UInt8.toNat hxy
    simpa [UInt8.toNat_ofNat, Nat.mod_eq_of_lt hx, Nat.mod_eq_of_lt hy] using this
  have g0 := e _ _ (Nat.mod_lt _ (by decide)) (Nat.mod_lt _ (by decide)) h0
  have g1 := e _ _ (Nat.mod_lt _ (by decide)) (Nat.mod_lt _ (by decide)) h1
  have g2 := e _ _ (Nat.mod_lt _ (by decide)) (Nat.mod_lt _ (by decide)) h2
  have g3 := e _ _ (Nat.mod_lt _ (by decide)) (Nat.mod_lt _ (by decide)) h3
  omega

/-- **C11 (labels).** Distinct (kind, party) give distinct SHAKE inputs; within a chain distinct indices read
    disjoint 64-byte blocks. -/
theorem chain_inj (k k' : Kind) (p p' i i' : ℕ) (hp : p < 2 ^ 32) (hp' : p' < 2 ^ 32)
    (h : chainLabel k p = chainLabel k' p' ∧ chainOffset i = chainOffset i') : k = k' ∧ p = p' ∧ i = i' := by
  obtain ⟨hl, ho⟩ := h
  unfold chainLabel at hl
  have := List.append_cancel_left hl
  simp only [List.cons.injEq] at this
  obtain ⟨hk, hle⟩ := this
  refine ⟨?_, le32_inj p p' hp hp' hle, by unfold chainOffset at ho; omega⟩
  cases k <;> cases k' <;> simp_all [Kind.byte]

/-- **C11 (vector generators vs Pedersen labels).** No chain label is a Pedersen label (domain separation). -/
theorem chain_ne_pedersen (k : Kind) (p j : ℕ) : chainLabel k p ≠ pedersenLabel j := by
  intro h
  have h0 := congrArg (fun l => l.head?) h
  simp [chainLabel, chainPrefix, pedersenLabel, pedersenPrefix] at h0

/-- the six Pedersen labels (extension degrees 1..6) are pairwise distinct -/
theorem pedersen_inj : ∀ j < 6, ∀ j' < 6, pedersenLabel j = pedersenLabel j' → j = j' := by decide

/-- **C12 (capacity independence of the layout).** The generators used for an aggregate of `m` commitments are a
    prefix of those of any larger capacity: same (kind, party, index) at the same position. -/
theorem aggIter_prefix (k : Kind) (n m cap : ℕ) (h : m ≤ cap) : aggIter k n m <+: aggIter k n cap := by
  obtain ⟨d, rfl⟩ := Nat.exists_eq_add_of_le h
  unfold aggIter
  rw [List.range_add, List.flatMap_append]
  exact List.prefix_append _ _

theorem aggIter_length (k : Kind) (n m : ℕ) : (aggIter k n m).length = m * n := by
  unfold aggIter
  induction m with
  | zero => simp
  | succ m ih => rw [List.range_succ, List.flatMap_append, List.length_append, ih]; simp; ring

theorem interleave_length {α : Type} (xs ys : List α) : (interleave xs ys).length = xs.length + ys.length := by
  induction xs generalizing ys with
  | nil => cases ys <;> simp [interleave]
  | cons x xs ih => cases ys with
    | nil => simp [interleave]
    | cons y ys => simp [interleave, ih]; omega

/-- **C11 (table order).** In the interleaved table, position `2i` holds the i-th `G` generator and `2i+1` the
    i-th `H` generator of the party-major order — what the prover's and verifier's interleaved scalars assume. -/
theorem interleave_get {α : Type} (xs ys : List α) (h : xs.length = ys.length) (i : ℕ) (hi : i < xs.length) :
    (interleave xs ys)[2 * i]? = xs[i]? ∧ (interleave xs ys)[2 * i + 1]? = ys[i]? := by
  induction xs generalizing ys i with
  | nil => simp at hi
  | cons x xs ih =>
    cases ys with
    | nil => simp at h
    | cons y ys =>
      cases i with
      | zero => simp [interleave]
      | succ i =>
        have := ih ys (by simpa using h) i (by simpa using hi)
        simp only [interleave, show 2 * (i + 1) = 2 * i + 1 + 1 by ring, List.getElem?_cons_succ]
        exact this

theorem tableOrder_length (bits cap : ℕ) : (tableOrder bits cap).length = 2 * bits * cap := by
  unfold tableOrder; rw [interleave_length, aggIter_length, aggIter_length]; ring

/-- **C12/C16 (padding).** Used scalars plus padding always fill the table exactly. -/
theorem padding_fills (bits m cap p : ℕ) (h : padding bits m cap = some p) :
    2 * (bits * m) + p = (tableOrder bits cap).length := by
  unfold padding at h
  split at h
  · injection h with h; rw [tableOrder_length]; subst h; rename_i hle; have : 2 * (bits * m) = 2 * bits * m := by ring
    omega
  · exact absurd h (by simp)

theorem padding_some_iff (bits m cap : ℕ) (hb : 0 < bits) : (padding bits m cap).isSome = true ↔ m ≤ cap := by
  unfold padding
  have : 2 * bits * m ≤ 2 * bits * cap ↔ m ≤ cap := Nat.mul_le_mul_left_iff (by omega)
  split <;> simp_all

/-! ### Prefix dependence and padding (C12) -/
section
open Finset Bpp
open Model (RangeInst ProofM)
variable {F : Type} [Field F] {M : Type} [AddCommGroup M] [Module F M]

theorem dot_congr_gen (n : ℕ) (a : ℕ → F) (G G' : ℕ → M) (h : ∀ i < n, G i = G' i) : dot n a G = dot n a G' := by
  unfold dot; exact Finset.sum_congr rfl (fun i hi => by rw [h i (Finset.mem_range.mp hi)])

/-- **C12 (padding is neutral).** A multiscalar product over the whole table with zero scalars beyond the first `N`
    positions equals the product over the first `N` generators. -/
theorem dot_padding (N pad : ℕ) (a : ℕ → F) (G : ℕ → M) :
    Model.dot (N + pad) (fun i => if i < N then a i else 0) G = Model.dot N a G := by
  rw [dot_eq, dot_eq]
  unfold dot
  rw [Finset.sum_range_add]
  have h1 : ∑ i ∈ range N, (if i < N then a i else 0) • G i = ∑ i ∈ range N, a i • G i :=
    Finset.sum_congr rfl (fun i hi => by rw [if_pos (Finset.mem_range.mp hi)])
  have h2 : ∑ i ∈ range pad, (if N + i < N then a (N + i) else 0) • G (N + i) = 0 :=
    Finset.sum_eq_zero (fun i _ => by rw [if_neg (by omega), zero_smul])
  rw [h1, h2, add_zero]

/-- **C12 (verifier).** The coded verifier depends on the vector generators only through their first `n·m`
    entries: two parameter sets that agree there (any capacities) give the same contribution. -/
theorem codeContribution_prefix (I : RangeInst F M) (G' H' : ℕ → M) (π : ProofM F M) (y z : F) (es : List F) (e w : F)
    (hG : ∀ i < I.n * I.m, I.G i = G' i) (hH : ∀ i < I.n * I.m, I.H i = H' i) :
    Model.codeContribution { I with G := G', H := H' } π y z es e w = Model.codeContribution I π y z es e w := by
  rw [codeContribution_bridge, codeContribution_bridge]
  unfold codeContribution
  simp only
  rw [dot_congr_gen (I.n * I.m) _ G' I.G (fun i hi => (hG i hi).symm),
    dot_congr_gen (I.n * I.m) _ H' I.H (fun i hi => (hH i hi).symm)]

/-- the folding prover reads the vector generators only below the current vector length -/
theorem wipProve_prefix (y : F) (t : ℕ) (g : M) (Gb : ℕ → M) (dL dR : ℕ → ℕ → F) (r s : F) (d η : ℕ → F) (e : F)
    (es : List F) (j : ℕ) (a b : ℕ → F) (G H G' H' : ℕ → M) (α : ℕ → F)
    (hG : ∀ i < 2 ^ es.length, G i = G' i) (hH : ∀ i < 2 ^ es.length, H i = H' i) :
    wipProve y t g Gb dL dR r s d η e es j a b G H α = wipProve y t g Gb dL dR r s d η e es j a b G' H' α := by
  induction es generalizing j a b G H G' H' α with
  | nil =>
    simp only [wipProve]
    rw [hG 0 (by simp), hH 0 (by simp)]
  | cons ej es ih =>
    simp only [wipProve]
    have hpos : 0 < 2 ^ es.length := Nat.two_pow_pos _
    have h2 : 2 ^ (ej :: es).length = 2 ^ es.length + 2 ^ es.length := by simp [pow_succ]; ring
    have hGlo : ∀ i < 2 ^ es.length, G i = G' i := fun i hi => hG i (by rw [h2]; omega)
    have hGhi : ∀ i < 2 ^ es.length, G (2 ^ es.length + i) = G' (2 ^ es.length + i) := fun i hi => hG _ (by rw [h2]; omega)
    have hHlo : ∀ i < 2 ^ es.length, H i = H' i := fun i hi => hH i (by rw [h2]; omega)
    have hHhi : ∀ i < 2 ^ es.length, H (2 ^ es.length + i) = H' (2 ^ es.length + i) := fun i hi => hH _ (by rw [h2]; omega)
    rw [ih (j + 1) _ _ _ _ (fun i => ej⁻¹ • G' i + (ej * (y ^ 2 ^ es.length)⁻¹) • G' (2 ^ es.length + i))
      (fun i => ej • H' i + ej⁻¹ • H' (2 ^ es.length + i)) _
      (fun i hi => by rw [hGlo i hi, hGhi i hi]) (fun i hi => by rw [hHlo i hi, hHhi i hi])]
    rw [dot_congr_gen _ _ (fun i => G (2 ^ es.length + i)) (fun i => G' (2 ^ es.length + i)) hGhi,
      dot_congr_gen _ _ H H' hHlo, dot_congr_gen _ _ G G' hGlo,
      dot_congr_gen _ _ (fun i => H (2 ^ es.length + i)) (fun i => H' (2 ^ es.length + i)) hHhi]

/-- **C12 (prover).** The model prover depends on the vector generators only through their first `n·m` entries. -/
theorem rangeProve_prefix (I : RangeInst F M) (hn : 0 < I.n) (G' H' : ℕ → M) (v p : ℕ → ℕ) (r : ℕ → ℕ → F)
    (α : ℕ → F) (dL dR : ℕ → ℕ → F) (rr ss : F) (d η : ℕ → F) (y z : F) (es : List F) (e : F)
    (hN : I.n * I.m = 2 ^ es.length)
    (hG : ∀ i < I.n * I.m, I.G i = G' i) (hH : ∀ i < I.n * I.m, I.H i = H' i) :
    Model.rangeProve { I with G := G', H := H' } v p r α dL dR rr ss d η y z es e
      = Model.rangeProve I v p r α dL dR rr ss d η y z es e := by
  rw [rangeProve_bridge { I with G := G', H := H' } hn, rangeProve_bridge I hn]
  unfold rangeProve
  simp only
  rw [dot_congr_gen _ _ G' I.G (fun i hi => (hG i hi).symm), dot_congr_gen _ _ H' I.H (fun i hi => (hH i hi).symm)]
  congr 1
  exact wipProve_prefix y I.t I.hb I.Gb dL dR rr ss d η e es 0 _ _ G' H' I.G I.H _
    (fun i hi => (hG i (by rw [hN]; exact hi)).symm) (fun i hi => (hH i (by rw [hN]; exact hi)).symm)

end

/-! ### the public generator iterator as coded (`Model.Gens.It`) against the party-major list -/


theorem aggIter_succ (k : Kind) (n m : ℕ) :
    aggIter k n (m + 1) = aggIter k n m ++ (List.range n).map (fun idx => (⟨k, m, idx⟩ : Gen)) := by
  unfold aggIter
  rw [List.range_succ, List.flatMap_append]
  simp

theorem aggIter_get (k : Kind) (n m i : ℕ) (hn : 0 < n) (hi : i < m * n) :
    (aggIter k n m)[i]? = some ⟨k, i / n, i % n⟩ := by
  induction m with
  | zero => simp at hi
  | succ m ih =>
    rw [aggIter_succ]
    by_cases h : i < m * n
    · rw [List.getElem?_append_left (by rw [aggIter_length]; exact h)]; exact ih h
    · have e : (m + 1) * n = m * n + n := Nat.succ_mul _ _
      rw [List.getElem?_append_right (by rw [aggIter_length]; omega), aggIter_length]
      have hlt : i - m * n < n := by omega
      rw [List.getElem?_map, List.getElem?_range hlt]
      have h1 : i / n = m := by
        apply Nat.div_eq_of_lt_le <;> [skip; skip]
        · omega
        · rw [e]; omega
      have h2 : i % n = i - m * n := by
        have : i = n * m + (i - m * n) := by rw [Nat.mul_comm]; omega
        conv_lhs => rw [this]
        rw [Nat.mul_add_mod, Nat.mod_eq_of_lt hlt]
      simp [h1, h2]



def It.pos (s : It) : ℕ := s.party * s.n + s.gen

/-- one step of the coded iterator against the flat position -/
theorem next_spec (s : It) (hn : 0 < s.n) (hg : s.gen ≤ s.n) :
    (s.next).1.n = s.n ∧ (s.next).1.m = s.m ∧ (s.next).1.gen ≤ s.n ∧
    (It.pos s < s.m * s.n → (s.next).2 = some (It.pos s / s.n, It.pos s % s.n) ∧ It.pos (s.next).1 = It.pos s + 1) ∧
    (s.m * s.n ≤ It.pos s → (s.next).2 = none ∧ s.m * s.n ≤ It.pos (s.next).1 ∧ (s.next).1.party ≥ s.m) := by
  obtain ⟨n, m, party, gen⟩ := s
  simp only [It.pos] at *
  have e1 : (party + 1) * n = party * n + n := Nat.succ_mul _ _
  by_cases hge : gen ≥ n
  · have hgn : gen = n := le_antisymm hg hge
    subst hgn
    by_cases hp : party + 1 ≥ m
    · have hm : m * gen ≤ (party + 1) * gen := Nat.mul_le_mul_right _ hp
      simp only [It.next, hge, if_true, hp, ge_iff_le, le_refl]
      refine ⟨trivial, trivial, by omega, ?_, ?_⟩
      · intro h; omega
      · intro _; exact ⟨trivial, by omega, trivial⟩
    · have hm : (party + 1 + 1) * gen ≤ m * gen := Nat.mul_le_mul_right _ (by omega)
      have e2 : (party + 1 + 1) * gen = (party + 1) * gen + gen := Nat.succ_mul _ _
      simp only [It.next, hge, if_true, hp, ge_iff_le, le_refl, if_false]
      refine ⟨trivial, trivial, by omega, ?_, ?_⟩
      · intro _
        refine ⟨?_, by omega⟩
        rw [← e1, Nat.mul_div_cancel _ hn, Nat.mul_mod_left]
      · intro h; omega
  · have hlt : gen < n := by omega
    by_cases hp : party ≥ m
    · have hm : m * n ≤ party * n := Nat.mul_le_mul_right _ hp
      simp only [It.next, hge, if_false, hp, ge_iff_le, if_true]
      refine ⟨trivial, trivial, hg, ?_, ?_⟩
      · intro h; omega
      · intro h; exact ⟨trivial, h, trivial⟩
    · have hm : (party + 1) * n ≤ m * n := Nat.mul_le_mul_right _ (by omega)
      simp only [It.next, hge, if_false, hp, ge_iff_le]
      refine ⟨trivial, trivial, by omega, ?_, ?_⟩
      · intro _
        refine ⟨?_, by omega⟩
        have h1 : (party * n + gen) / n = party := by
          rw [Nat.add_comm, Nat.add_mul_div_right _ _ hn, Nat.div_eq_of_lt hlt, Nat.zero_add]
        have h2 : (party * n + gen) % n = gen := by
          rw [Nat.add_comm, Nat.add_mul_mod_self_right, Nat.mod_eq_of_lt hlt]
        rw [h1, h2]
      · intro h; omega


/-- state after `k` calls of `next` -/
def It.after : ℕ → It → It
  | 0, s => s
  | k + 1, s => (It.after k s).next.1

theorem after_inv (n m : ℕ) (hn : 0 < n) (k : ℕ) :
    (It.after k (It.start n m)).n = n ∧ (It.after k (It.start n m)).m = m ∧ (It.after k (It.start n m)).gen ≤ n ∧
    (k ≤ m * n → It.pos (It.after k (It.start n m)) = k) ∧ (m * n ≤ k → m * n ≤ It.pos (It.after k (It.start n m))) := by
  induction k with
  | zero => simp [It.after, It.start, It.pos]
  | succ k ih =>
    obtain ⟨h1, h2, h3, h4, h5⟩ := ih
    have sp := next_spec (It.after k (It.start n m)) (by rw [h1]; exact hn) (by rw [h1]; exact h3)
    rw [h1, h2] at sp
    obtain ⟨s1, s2, s3, s4, s5⟩ := sp
    refine ⟨s1, s2, s3, ?_, ?_⟩
    · intro hk
      have hk' : k ≤ m * n := by omega
      have := s4 (by rw [h4 hk']; omega)
      show It.pos (It.after k (It.start n m)).next.1 = k + 1
      rw [this.2, h4 hk']
    · intro hk
      show m * n ≤ It.pos (It.after k (It.start n m)).next.1
      by_cases hk' : m * n ≤ k
      · exact (s5 (h5 hk')).2.1
      · have hk'' : k ≤ m * n := by omega
        have := s4 (by rw [h4 hk'']; omega)
        rw [this.2, h4 hk'']; omega

/-- **the coded iterator yields the party-major list, then `None` for ever** -/
theorem next_after (n m : ℕ) (hn : 0 < n) (k : ℕ) :
    (It.after k (It.start n m)).next.2 = if k < m * n then some (k / n, k % n) else none := by
  obtain ⟨h1, h2, h3, h4, h5⟩ := after_inv n m hn k
  have sp := next_spec (It.after k (It.start n m)) (by rw [h1]; exact hn) (by rw [h1]; exact h3)
  rw [h1, h2] at sp
  obtain ⟨_, _, _, s4, s5⟩ := sp
  split
  · next hk => have := (s4 (by rw [h4 (by omega)]; exact hk)).1; rw [this, h4 (by omega)]
  · next hk => exact (s5 (h5 (by omega))).1

/-- `size_hint` is exact at every reachable state -/
theorem sizeHint_after (n m : ℕ) (hn : 0 < n) (k : ℕ) (hk : k ≤ m * n) :
    (It.after k (It.start n m)).sizeHint = m * n - k := by
  obtain ⟨h1, h2, h3, h4, _⟩ := after_inv n m hn k
  have hp := h4 hk
  unfold It.pos at hp
  unfold It.sizeHint
  rw [h1, h2] at *
  generalize (It.after k (It.start n m)).party = p at *
  generalize (It.after k (It.start n m)).gen = g at *
  have hpm : p ≤ m := by
    by_contra hc
    have : (m + 1) * n ≤ p * n := Nat.mul_le_mul_right _ (by omega)
    have e : (m + 1) * n = m * n + n := Nat.succ_mul _ _
    omega
  rw [Nat.mul_sub, Nat.mul_comm n m, Nat.mul_comm n p]
  omega

/-- `nth(j)` after `k` items is item `k + j` -/
theorem nth_after (n m : ℕ) (hn : 0 < n) (j : ℕ) : ∀ k,
    (It.nth j (It.after k (It.start n m))).2 = if k + j < m * n then some ((k + j) / n, (k + j) % n) else none := by
  induction j with
  | zero => intro k; simpa [It.nth] using next_after n m hn k
  | succ j ih =>
    intro k
    have hnx := next_after n m hn k
    unfold It.nth
    split
    · next s' heq =>
      have : (It.after k (It.start n m)).next.2 = none := by rw [heq]
      rw [hnx] at this
      have hk : ¬ k < m * n := by intro h; simp [h] at this
      rw [if_neg (by omega)]
    · next s' x heq =>
      have hs : s' = It.after (k + 1) (It.start n m) := by
        show s' = (It.after k (It.start n m)).next.1; rw [heq]
      rw [hs, ih (k + 1)]
      have : k + 1 + j = k + (j + 1) := by omega
      rw [this]


end Bpp.GensThm
