import Bpp.PromiseThm
import Bpp.BatchThm
/-! C05: at fixed challenges the reference relation has a unique accepting value for every proof element that is not
    itself folded under a later challenge — the algebraic half of "any single alteration is rejected" (the other half:
    every element is absorbed before the next challenge, C04). -/
open Finset
namespace Bpp
open Model (WipProof RangeInst RangeProofM ProofM bitN)
variable {F : Type} [Field F] {M : Type} [AddCommGroup M] [Module F M]

theorem Ahat_add (I : RangeInst F M) (y z : F) (A D : M) : Ahat I y z (A + D) = Ahat I y z A + D := by
  simp only [Ahat]; module

theorem point_A1_unique (I : RangeInst F M) (π : ProofM F M) (A1' : M) (y z : F) (es : List F) (e : F) (he : e ≠ 0)
    (h : specResidual I π y z es e = 0) (h' : specResidual I { π with A1 := A1' } y z es e = 0) : π.A1 = A1' := by
  unfold specResidual at h h'
  simp only at h'
  have : e • (π.A1 - A1') = 0 := by
    have := congrArg₂ (· - ·) h' h
    simp only [sub_self] at this
    rw [← this]; module
  rcases smul_eq_zero.mp this with h0 | h0
  · exact absurd h0 he
  · exact sub_eq_zero.mp h0

theorem point_B_unique (I : RangeInst F M) (π : ProofM F M) (B' : M) (y z : F) (es : List F) (e : F)
    (h : specResidual I π y z es e = 0) (h' : specResidual I { π with B := B' } y z es e = 0) : π.B = B' := by
  unfold specResidual at h h'
  simp only at h'
  have : π.B - B' = 0 := by
    have := congrArg₂ (· - ·) h' h
    simp only [sub_self] at this
    rw [← this]; module
  exact sub_eq_zero.mp this

theorem point_A_unique (I : RangeInst F M) (π : ProofM F M) (A' : M) (y z : F) (es : List F) (e : F) (he : e ≠ 0)
    (h : specResidual I π y z es e = 0) (h' : specResidual I { π with A := A' } y z es e = 0) : π.A = A' := by
  unfold specResidual at h h'
  simp only at h'
  have hA : Ahat I y z A' = Ahat I y z π.A + (A' - π.A) := by rw [← Ahat_add]; congr 1; module
  rw [hA, foldP_add] at h'
  have : (e ^ 2) • (A' - π.A) = 0 := by
    have := congrArg₂ (· - ·) h h'
    simp only [sub_self] at this
    rw [← this]; module
  rcases smul_eq_zero.mp this with h0 | h0
  · exact absurd h0 (pow_ne_zero _ he)
  · exact (sub_eq_zero.mp h0).symm

theorem response_s1_unique (I : RangeInst F M) (π : ProofM F M) (s1' : F) (y z : F) (es : List F) (e : F)
    (h : specResidual I π y z es e = 0) (h' : specResidual I { π with s1 := s1' } y z es e = 0) :
    π.s1 = s1' ∨ e • foldH es I.H 0 + (π.r1 * y) • I.hb = 0 := by
  unfold specResidual at h h'
  simp only at h'
  have : (π.s1 - s1') • (e • foldH es I.H 0 + (π.r1 * y) • I.hb) = 0 := by
    have := congrArg₂ (· - ·) h h'
    simp only [sub_self] at this
    rw [← this]; module
  rcases smul_eq_zero.mp this with h1 | h1
  · exact Or.inl (sub_eq_zero.mp h1)
  · exact Or.inr h1

/-- two accepted proofs differing only in coordinate `k` of `d1`: equal there unless the blinding generator is zero -/
theorem response_d1k_unique (I : RangeInst F M) (π : ProofM F M) (k : ℕ) (hk : k < I.t) (x : F) (y z : F) (es : List F) (e : F)
    (h : specResidual I π y z es e = 0)
    (h' : specResidual I { π with d1 := fun i => if i = k then x else π.d1 i } y z es e = 0) :
    π.d1 k = x ∨ I.Gb k = 0 := by
  have hd := response_d1_unique I π (fun i => if i = k then x else π.d1 i) y z es e h h'
  unfold dot at hd
  have : ∑ i ∈ range I.t, (π.d1 i - (if i = k then x else π.d1 i)) • I.Gb i = 0 := by
    simp only [sub_smul, Finset.sum_sub_distrib, hd, sub_self]
  rw [Finset.sum_eq_single k] at this
  · simp only [if_true] at this
    rcases smul_eq_zero.mp this with h0 | h0
    · exact Or.inl (sub_eq_zero.mp h0)
    · exact Or.inr h0
  · intro i _ hne; simp [hne]
  · intro hnot; exact absurd (Finset.mem_range.mpr hk) hnot

end Bpp
