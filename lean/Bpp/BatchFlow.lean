import Model.Batch
import Mathlib.Data.List.Perm.Basic
/-! Theorems about the batch control-flow model (`Model/Batch.lean`): result shape, refusal conditions,
    acceptance ⇔ every member acceptable, independence of chunk size and order. -/
namespace Bpp.BatchFlow
open Model.Batch

/-- the symmetric content of `consistent`: a common Pedersen set, bit length and degree, every proof's `d1` of that
    degree, every promise in range -/
def Uniform (ms : List Member) : Prop :=
  ∃ ped n t, 1 ≤ t ∧ t ≤ 6 ∧ ∀ y ∈ ms, y.ped = ped ∧ y.n = n ∧ y.t = t ∧ y.d1 = t ∧ y.promisesFit = true

theorem consistent_iff (ms : List Member) : consistent ms = true ↔ ms ≠ [] ∧ Uniform ms := by
  cases ms with
  | nil => simp [consistent]
  | cons x xs =>
    simp only [consistent, Bool.and_eq_true, decide_eq_true_eq, beq_iff_eq, List.all_eq_true, ne_eq,
      reduceCtorEq, not_false_eq_true, true_and, List.mem_cons, forall_eq_or_imp, Uniform]
    constructor
    · rintro ⟨⟨⟨⟨h1, h6⟩, hd⟩, hxs⟩, hpx, hps⟩
      refine ⟨x.ped, x.n, x.t, by omega, by omega, ⟨rfl, rfl, rfl, hd, hpx⟩, ?_⟩
      intro y hy
      obtain ⟨⟨⟨a, b⟩, c⟩, d⟩ := hxs y hy
      exact ⟨a, b, c, d, hps y hy⟩
    · rintro ⟨ped, n, t, h1, h6, ⟨hp, hn, ht, hd, hpx⟩, hxs⟩
      refine ⟨⟨⟨⟨by omega, by omega⟩, by omega⟩, ?_⟩, hpx, fun y hy => (hxs y hy).2.2.2.2⟩
      intro y hy
      obtain ⟨a, b, c, d, _⟩ := hxs y hy
      exact ⟨⟨⟨by omega, by omega⟩, by omega⟩, by omega⟩

theorem Uniform.sub {ms ms' : List Member} (h : Uniform ms) (hs : ∀ y ∈ ms', y ∈ ms) : Uniform ms' := by
  obtain ⟨ped, n, t, h1, h6, hall⟩ := h
  exact ⟨ped, n, t, h1, h6, fun y hy => hall y (hs y hy)⟩

/-- a chunk's outcome, in words -/
theorem verifyChunk_eq (a : Action) (ms : List Member) :
    verifyChunk a ms = if consistent ms = true ∧ (∀ y ∈ ms, shapeOk y = true) ∧ (a = .recoverOnly ∨ ∀ y ∈ ms, y.valid = true)
      then some (ms.map (maskOf a)) else none := by
  unfold verifyChunk
  by_cases hc : consistent ms = true <;> by_cases hs : ms.all shapeOk = true <;> by_cases ha : a = .recoverOnly <;>
    by_cases hv : ms.all (·.valid) = true <;>
    simp_all [List.all_eq_true]

theorem chunksOf_flatten {α : Type} (c : Nat) (l : List α) : (chunksOf c l).flatten = l := by
  induction l using chunksOf.induct c with
  | case1 => simp [chunksOf]
  | case2 x xs h => subst h; simp [chunksOf]
  | case3 x xs h ih =>
    rw [chunksOf, if_neg h, List.flatten_cons, ih, List.take_append_drop]

theorem chunksOf_ne_nil {α : Type} (c : Nat) (l : List α) : ∀ ch ∈ chunksOf c l, ch ≠ [] := by
  induction l using chunksOf.induct c with
  | case1 => simp [chunksOf]
  | case2 x xs h => subst h; simp [chunksOf]
  | case3 x xs h ih =>
    rw [chunksOf, if_neg h]
    intro ch hch
    rcases List.mem_cons.mp hch with rfl | hch
    · cases c with
      | zero => exact absurd rfl h
      | succ c => simp
    · exact ih ch hch

theorem mem_of_mem_chunk {α : Type} (c : Nat) (l : List α) (ch : List α) (hch : ch ∈ chunksOf c l) :
    ∀ y ∈ ch, y ∈ l := by
  intro y hy
  have : y ∈ (chunksOf c l).flatten := List.mem_flatten.mpr ⟨ch, hch, hy⟩
  rwa [chunksOf_flatten] at this

theorem collect_all_some (rs : List (List Bool)) : collect (rs.map some) = some rs.flatten := by
  induction rs with
  | nil => rfl
  | cons r rs ih => simp [collect, ih]

theorem collect_none (l : List (Option (List Bool))) (h : none ∈ l) : collect l = none := by
  induction l with
  | nil => simp at h
  | cons x xs ih =>
    cases x with
    | none => rfl
    | some r =>
      have : none ∈ xs := by simpa using h
      simp [collect, ih this]

/-- the acceptance condition of a whole batch, stated without reference to chunks or order -/
def Acceptable (a : Action) (nT nP : Nat) (ms : List Member) : Prop :=
  ms ≠ [] ∧ nT = ms.length ∧ nP = ms.length ∧ Uniform ms ∧ (∀ y ∈ ms, shapeOk y = true) ∧
    (a = .recoverOnly ∨ ∀ y ∈ ms, y.valid = true)

open Classical in
/-- **C03 (main).** For every chunk size `c`, `verify_batch` returns exactly one entry per member, aligned with the
    members, when the batch is acceptable, and an error otherwise. -/
theorem verifyBatch_eq (c : Nat) (a : Action) (nT nP : Nat) (ms : List Member) :
    verifyBatch c a nT nP ms = if Acceptable a nT nP ms then some (ms.map (maskOf a)) else none := by
  unfold verifyBatch Acceptable
  by_cases hne : ms = []
  · subst hne; simp
  have hemp : ms.isEmpty = false := by simpa using hne
  by_cases hT0 : nT = 0
  · subst hT0
    have : ¬ (0 = ms.length) := fun h => hne (List.length_eq_zero_iff.mp h.symm)
    simp [hemp, this]
  by_cases hP0 : nP = 0
  · subst hP0
    have : ¬ (0 = ms.length) := fun h => hne (List.length_eq_zero_iff.mp h.symm)
    simp [hemp, this]
  by_cases hP : nP = ms.length
  swap
  · have : ¬ ms.length = nP := fun h => hP h.symm
    simp [hemp, hT0, hP0, hP, this]
  by_cases hT : nT = ms.length
  swap
  · simp [hemp, hT0, hP0, hP, hT]
  by_cases hcons : consistent ms = true
  swap
  · have hU : ¬ Uniform ms := fun h => hcons ((consistent_iff ms).mpr ⟨hne, h⟩)
    simp only [Bool.not_eq_true] at hcons
    simp [hemp, hT0, hP0, hP.symm, hT, hcons, hU]
  have hU : Uniform ms := ((consistent_iff ms).mp hcons).2
  have hT0' : (nT == 0) = false := by simpa using hT0
  have hP0' : (nP == 0) = false := by simpa using hP0
  simp only [hemp, hT0', hP0', hP.symm, hT, hcons, bne_self_eq_false, Bool.or_self,
    Bool.false_eq_true, if_false, Bool.not_true, ne_eq, hne, not_false_eq_true, true_and, hU]
  -- every chunk is itself consistent
  have hcc : ∀ ch ∈ chunksOf c ms, consistent ch = true := fun ch hch =>
    (consistent_iff ch).mpr ⟨chunksOf_ne_nil c ms ch hch, hU.sub (mem_of_mem_chunk c ms ch hch)⟩
  by_cases hok : (∀ y ∈ ms, shapeOk y = true) ∧ (a = .recoverOnly ∨ ∀ y ∈ ms, y.valid = true)
  · rw [if_pos hok]
    have : (chunksOf c ms).map (verifyChunk a) = ((chunksOf c ms).map (fun ch => ch.map (maskOf a))).map some := by
      rw [List.map_map]
      apply List.map_congr_left
      intro ch hch
      have hsub := mem_of_mem_chunk c ms ch hch
      rw [verifyChunk_eq, if_pos]
      · rfl
      · exact ⟨hcc ch hch, fun y hy => hok.1 y (hsub y hy), hok.2.imp id (fun h y hy => h y (hsub y hy))⟩
    rw [this, collect_all_some, ← List.map_flatten, chunksOf_flatten]
  · rw [if_neg hok]
    apply collect_none
    -- some member breaks the condition; its chunk fails
    have : ∃ y ∈ ms, ¬ (shapeOk y = true ∧ (a = .recoverOnly ∨ y.valid = true)) := by
      by_contra hcon
      push_neg at hcon
      apply hok
      refine ⟨fun y hy => (hcon y hy).1, ?_⟩
      by_cases ha : a = .recoverOnly
      · exact Or.inl ha
      · exact Or.inr (fun y hy => ((hcon y hy).2).resolve_left ha)
    obtain ⟨y, hy, hbad⟩ := this
    rw [← chunksOf_flatten c ms] at hy
    obtain ⟨ch, hch, hych⟩ := List.mem_flatten.mp hy
    refine List.mem_map.mpr ⟨ch, hch, ?_⟩
    rw [verifyChunk_eq, if_neg]
    rintro ⟨_, hs, hv⟩
    exact hbad ⟨hs y hych, hv.imp id (fun h => h y hych)⟩

open Classical in
/-- **C03 (shape).** On success exactly one result per member, the i-th belonging to the i-th triple. -/
theorem verifyBatch_aligned (c : Nat) (a : Action) (nT nP : Nat) (ms : List Member) (r : List Bool)
    (h : verifyBatch c a nT nP ms = some r) : r.length = ms.length ∧ ∀ i (hi : i < ms.length), r[i]? = some (maskOf a ms[i]) := by
  rw [verifyBatch_eq] at h
  split at h
  · injection h with h; subst h
    exact ⟨by simp, fun i hi => by simp [hi]⟩
  · exact absurd h (by simp)

open Classical in
/-- **C03 (refusal).** Empty input, unequal lengths, or members disagreeing on Pedersen generators, bit length,
    extension degree, or a proof of another degree, or an out-of-range promise: error. -/
theorem verifyBatch_refuses (c : Nat) (a : Action) (nT nP : Nat) (ms : List Member)
    (h : ms = [] ∨ nT ≠ ms.length ∨ nP ≠ ms.length ∨
      (∃ x ∈ ms, ∃ y ∈ ms, x.ped ≠ y.ped ∨ x.n ≠ y.n ∨ x.t ≠ y.t ∨ y.d1 ≠ x.t) ∨ (∃ x ∈ ms, x.promisesFit = false)) :
    verifyBatch c a nT nP ms = none := by
  rw [verifyBatch_eq, if_neg]
  rintro ⟨h1, h2, h3, ⟨ped, n, t, _, _, hall⟩, _⟩
  rcases h with h | h | h | ⟨x, hx, y, hy, h⟩ | ⟨x, hx, h⟩
  · exact h1 h
  · exact h h2
  · exact h h3
  · obtain ⟨a1, a2, a3, a4, _⟩ := hall x hx
    obtain ⟨b1, b2, b3, b4, _⟩ := hall y hy
    rcases h with h | h | h | h
    · exact h (a1.trans b1.symm)
    · exact h (a2.trans b2.symm)
    · exact h (a3.trans b3.symm)
    · exact h (b4.trans a3.symm)
  · have := (hall x hx).2.2.2.2; rw [h] at this; exact absurd this (by simp)

open Classical in
/-- **C03 (iff, any chunk size).** A verifying batch call succeeds iff the inputs are well-formed and every member
    is valid on its own. -/
theorem verifyBatch_isSome_iff (c : Nat) (a : Action) (nT nP : Nat) (ms : List Member) :
    (verifyBatch c a nT nP ms).isSome = true ↔ Acceptable a nT nP ms := by
  rw [verifyBatch_eq]; split <;> simp [*]

open Classical in
/-- **C03 (chunk size is immaterial).** -/
theorem verifyBatch_chunk_irrelevant (c c' : Nat) (a : Action) (nT nP : Nat) (ms : List Member) :
    verifyBatch c a nT nP ms = verifyBatch c' a nT nP ms := by
  rw [verifyBatch_eq, verifyBatch_eq]

theorem Acceptable_perm (a : Action) (nT nP : Nat) {ms ms' : List Member} (hp : ms.Perm ms') :
    Acceptable a nT nP ms ↔ Acceptable a nT nP ms' := by
  have mem : ∀ y, y ∈ ms ↔ y ∈ ms' := fun y => hp.mem_iff
  have hl := hp.length_eq
  have hne : ms ≠ [] ↔ ms' ≠ [] := by
    rw [← List.length_pos_iff_ne_nil, ← List.length_pos_iff_ne_nil, hl]
  unfold Acceptable Uniform
  simp only [mem, hl, hne]

/-- **C03 (order is immaterial).** The verdict of a batch is invariant under any reordering of its members. -/
theorem verifyBatch_perm (c : Nat) (a : Action) (nT nP : Nat) {ms ms' : List Member} (hp : ms.Perm ms') :
    (verifyBatch c a nT nP ms).isSome = (verifyBatch c a nT nP ms').isSome := by
  rw [Bool.eq_iff_iff, verifyBatch_isSome_iff, verifyBatch_isSome_iff, Acceptable_perm a nT nP hp]

open Classical in
/-- **C10 (verdict independent of seeds and of the recovering mode).** Whether a statement carries a seed, and
    whether masks are requested, never changes accept/reject of a verifying call. -/
theorem verdict_seed_mode_independent (c : Nat) (nT nP : Nat) (ms ms' : List Member)
    (hsame : ms'.map (fun x => { x with seeded := false }) = ms.map (fun x => { x with seeded := false })) :
    (verifyBatch c .verifyOnly nT nP ms).isSome = (verifyBatch c .recoverAndVerify nT nP ms').isSome := by
  rw [Bool.eq_iff_iff, verifyBatch_isSome_iff, verifyBatch_isSome_iff]
  have hlen : ms'.length = ms.length := by simpa using congrArg List.length hsame
  have key : ∀ (P : Member → Prop), (∀ x b, P { x with seeded := b } ↔ P x) → ((∀ y ∈ ms, P y) ↔ ∀ y ∈ ms', P y) := by
    intro P hP
    have h1 : ∀ l : List Member, (∀ y ∈ l, P y) ↔ ∀ y ∈ l.map (fun x => { x with seeded := false }), P y := by
      intro l; simp only [List.mem_map, forall_exists_index, and_imp, forall_apply_eq_imp_iff₂, hP]
    rw [h1 ms, h1 ms', hsame]
  have hne : ms ≠ [] ↔ ms' ≠ [] := by
    rw [← List.length_pos_iff_ne_nil, ← List.length_pos_iff_ne_nil, hlen]
  unfold Acceptable Uniform
  simp only [hlen, hne, reduceCtorEq, false_or]
  have k1 := key (fun y => shapeOk y = true) (fun x b => by simp [shapeOk])
  have k2 := key (fun y => y.valid = true) (fun x b => by simp)
  have k3 : ∀ ped n t, (∀ y ∈ ms, y.ped = ped ∧ y.n = n ∧ y.t = t ∧ y.d1 = t ∧ y.promisesFit = true) ↔
      (∀ y ∈ ms', y.ped = ped ∧ y.n = n ∧ y.t = t ∧ y.d1 = t ∧ y.promisesFit = true) :=
    fun ped n t => key (fun y => y.ped = ped ∧ y.n = n ∧ y.t = t ∧ y.d1 = t ∧ y.promisesFit = true) (fun x b => by simp)
  simp only [k1, k2, k3]

open Classical in
/-- **C10 (recover-only returns the same masks).** Whenever recover-and-verify succeeds, recover-only returns the
    same result list. -/
theorem recoverOnly_same_masks (c : Nat) (nT nP : Nat) (ms : List Member) (r : List Bool)
    (h : verifyBatch c .recoverAndVerify nT nP ms = some r) : verifyBatch c .recoverOnly nT nP ms = some r := by
  rw [verifyBatch_eq] at h ⊢
  split at h
  · rename_i hacc
    injection h with h; subst h
    have : Acceptable .recoverOnly nT nP ms := by
      obtain ⟨h1, h2, h3, h4, h5, _⟩ := hacc
      exact ⟨h1, h2, h3, h4, h5, Or.inl rfl⟩
    rw [if_pos this]
    simp [maskOf]
  · exact absurd h (by simp)

/-- a valid, well-shaped member and an invalid one -/
def good : Member := { n := 2, t := 1, m := 1, ped := 0, d1 := 1, rounds := 1, promisesFit := true, pointsOk := true, valid := true, seeded := true }
def bad : Member := { good with valid := false }

/-- the defect repaired by the `fix:` commit, recognisable by name if it returns: with chunk size 2 and a bad
    member at index 2 the old control flow accepts and returns 2 results for 3 members -/
theorem verifyBatchPrefix_counterexample :
    verifyBatchPrefix 2 .verifyOnly 3 3 [good, good, bad] = some [false, false] ∧
    verifyBatch 2 .verifyOnly 3 3 [good, good, bad] = none := by decide +kernel

/-- non-vacuity: an acceptable three-member batch over two chunks -/
example : verifyBatch 2 .recoverAndVerify 3 3 [good, good, good] = some [true, true, true] := by decide +kernel

end Bpp.BatchFlow
