import Model.Api
/-! C18 theorems: any history of a stateless API behaves like the pure function; every completed read of the
    once-cell returns `derive`, in every interleaving. -/
namespace Bpp.ApiThm
open Model.Api

/-- **C18 (stateless).** The result of each call in any history is the pure function of that call's arguments:
    no call observes state left behind by another. -/
theorem run_eq_map {Op Res : Type} (f : Op → Res) (σ : Unit) (ops : List Op) : run f σ ops = ops.map f := by
  induction ops generalizing σ with
  | nil => rfl
  | cons op ops ih => simp [run, step, ih]

/-- inserting, removing or reordering *other* calls never changes a call's result -/
theorem result_independent_of_history {Op Res : Type} (f : Op → Res) (pre pre' post post' : List Op) (op : Op) :
    (run f () (pre ++ op :: post))[pre.length]? = (run f () (pre' ++ op :: post'))[pre'.length]? := by
  simp [run_eq_map]

def Inv (derive : Nat) (s : St) : Prop :=
  (s.cell = none ∨ s.cell = some derive) ∧ ∀ pc ∈ s.pcs, (∀ v, pc = .computed v → v = derive) ∧ (∀ v, pc = .done v → v = derive)

theorem inv_init (derive threads : Nat) : Inv derive (init threads) := by
  refine ⟨Or.inl rfl, ?_⟩
  intro pc hpc
  simp only [init, List.mem_replicate] at hpc
  rw [hpc.2]
  exact ⟨(fun v h => by cases h), (fun v h => by cases h)⟩

theorem mem_set {α : Type} (l : List α) (i : Nat) (a x : α) (h : x ∈ l.set i a) : x = a ∨ x ∈ l := by
  rcases List.mem_or_eq_of_mem_set h with h | h
  · exact Or.inr h
  · exact Or.inl h

theorem inv_step (derive : Nat) (s : St) (tid : Nat) (h : Inv derive s) : Inv derive (stepCell derive s tid) := by
  obtain ⟨hc, hp⟩ := h
  unfold stepCell
  split
  · -- start
    split
    · rename_i v hv
      refine ⟨hc, ?_⟩
      intro pc hpc
      rcases mem_set _ _ _ _ hpc with rfl | hmem
      · refine ⟨(fun w h => by cases h), fun w h => ?_⟩
        injection h with h; subst h
        rcases hc with hc | hc
        · rw [hc] at hv; cases hv
        · rw [hc] at hv; injection hv with hv; exact hv.symm
      · exact hp pc hmem
    · refine ⟨hc, ?_⟩
      intro pc hpc
      rcases mem_set _ _ _ _ hpc with rfl | hmem
      · exact ⟨(fun w h => by injection h with h; exact h.symm), (fun w h => by cases h)⟩
      · exact hp pc hmem
  · -- computed v
    rename_i v hget
    have hv : v = derive := (hp _ (List.mem_of_getElem? hget)).1 v rfl
    split
    · rename_i w hw
      refine ⟨hc, ?_⟩
      intro pc hpc
      rcases mem_set _ _ _ _ hpc with rfl | hmem
      · refine ⟨(fun u h => by cases h), fun u h => ?_⟩
        injection h with h; subst h
        rcases hc with hc | hc
        · rw [hc] at hw; cases hw
        · rw [hc] at hw; injection hw with hw; exact hw.symm
      · exact hp pc hmem
    · refine ⟨Or.inr (by rw [hv]), ?_⟩
      intro pc hpc
      rcases mem_set _ _ _ _ hpc with rfl | hmem
      · exact ⟨(fun u h => by cases h), (fun u h => by injection h with h; rw [← h, hv])⟩
      · exact hp pc hmem
  · exact ⟨hc, hp⟩

/-- **C18 (once).** In every state reachable under any schedule of any number of threads racing the first use, every
    completed `get_or_init` returned `derive`, and the cell, once set, holds `derive`. -/
theorem once_cell_deterministic (derive threads : Nat) (sched : List Nat) :
    Inv derive (runCell derive (init threads) sched) := by
  unfold runCell
  have : ∀ s, Inv derive s → Inv derive (sched.foldl (stepCell derive) s) := by
    induction sched with
    | nil => exact fun s h => h
    | cons t ts ih => exact fun s h => ih _ (inv_step derive s t h)
  exact this _ (inv_init derive threads)

/-- non-vacuity: three threads, a schedule where two compute concurrently and one loses the race -/
example : (runCell 7 (init 3) [0, 1, 0, 1, 2]).pcs = [.done 7, .done 7, .done 7] := by decide

end Bpp.ApiThm
