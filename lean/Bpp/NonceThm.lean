import Model.Nonce
import Bpp.GensThm
/-! C13 / C14: the nonce schedule is injective, the seed-key layout is injective, the RNG construction input is
    injective in the witness and in the whole history whatever the external randomness is. -/
namespace Bpp.NonceThm
open Model.Nonce Model.Transcript

theorem le32_inj (a b : ℕ) (ha : a < 2 ^ 32) (hb : b < 2 ^ 32) (h : le32 a = le32 b) : a = b :=
  Bpp.GensThm.le32_inj a b ha hb (by unfold Model.Gens.le32; unfold le32 at h; exact h)

/-- **C13 (schedule).** Distinct valid nonce positions have distinct sources: no RNG draw and no seed-derived
    value is used twice, and `r`, `s` always come from the RNG. -/
theorem source_inj (seeded : Bool) (t κ : ℕ) (p q : Pos) (hp : p.valid t κ) (hq : q.valid t κ)
    (h : source seeded t κ p = source seeded t κ q) : p = q := by
  cases seeded <;> cases p <;> cases q <;> simp only [source, Pos.valid, Bool.false_eq_true, if_false, if_true,
    Src.rng.injEq, Src.seed.injEq, reduceCtorEq, Option.some.injEq, and_true, true_and] at h hp hq ⊢ <;>
    first | omega | (obtain ⟨h1, h2⟩ := h; first | omega | (constructor <;> omega)) | (exact absurd h (by decide)) | skip
  all_goals (try (obtain ⟨h1, h2⟩ := h))
  all_goals (try (simp_all))
  all_goals (try omega)

/-- `r` and `s` are RNG draws with or without a seed -/
theorem r_s_from_rng (seeded : Bool) (t κ : ℕ) :
    source seeded t κ .r = .rng (κ + 1) 0 ∧ source seeded t κ .s = .rng (κ + 1) 1 := ⟨rfl, rfl⟩

/-- **C13 (seed key layout).** For 32-byte seeds and indices below 2³² the MAC key is injective in (seed, j, k). -/
theorem nonceKey_inj (s s' : Bytes) (hs : s.length = 32) (hs' : s'.length = 32) (j j' k k' : Option ℕ)
    (hj : ∀ x, j = some x → x < 2 ^ 32) (hj' : ∀ x, j' = some x → x < 2 ^ 32)
    (hk : ∀ x, k = some x → x < 2 ^ 32) (hk' : ∀ x, k' = some x → x < 2 ^ 32)
    (h : nonceKey s j k = nonceKey s' j' k') : s = s' ∧ j = j' ∧ k = k' := by
  unfold nonceKey at h
  simp only [List.cons.injEq, true_and] at h
  have hlen : s.length = s'.length := by rw [hs, hs']
  have hss : s = s' := List.append_inj_left h hlen
  subst hss
  have ht := List.append_cancel_left h
  have len4 : ∀ x, (le32 x).length = 4 := fun x => rfl
  rcases j with _ | j <;> rcases j' with _ | j' <;> rcases k with _ | k <;> rcases k' with _ | k' <;>
    simp only [List.nil_append, List.append_nil, List.cons_append, List.cons.injEq] at ht
  all_goals first
    | exact ⟨rfl, rfl, rfl⟩
    | (simp at ht; done)
    | (have := congrArg List.length ht.2; simp [le32] at this; done)
    | exact ⟨rfl, rfl, by rw [le32_inj _ _ (hk _ rfl) (hk' _ rfl) ht.2]⟩
    | exact ⟨rfl, by rw [le32_inj _ _ (hj _ rfl) (hj' _ rfl) ht.2], rfl⟩
    | (have h1 := List.append_inj_left ht.2 rfl
       have h2 := List.append_inj_right ht.2 rfl
       simp only [List.cons.injEq, true_and] at h2
       exact ⟨rfl, by rw [le32_inj _ _ (hj _ rfl) (hj' _ rfl) h1], by rw [le32_inj _ _ (hk _ rfl) (hk' _ rfl) h2]⟩)

/-- **C14 (RNG input).** The construction input of a transcript-RNG instance determines the whole transcript history
    it was forked from, the serialised witness and the external randomness — so two runs that differ in the
    witness or in any public datum absorbed so far have different inputs *whatever* the external RNG returns. -/
theorem rngInput_inj (h h' : List Event) (w w' e e' : Bytes) (heq : rngInput h w e = rngInput h' w' e') :
    h = h' ∧ w = w' ∧ e = e' := by
  unfold rngInput at heq
  simp only [List.cons.injEq, RngOp.fork.injEq, RngOp.rekey.injEq, RngOp.finalize.injEq, true_and, and_true] at heq
  exact heq

end Bpp.NonceThm

namespace Bpp.NonceThm
open Model.Nonce Model.Transcript

theorem le64_length (x : ℕ) : (Model.Nonce.le64 x).length = 8 := by
  simp [Model.Nonce.le64, Model.Transcript.le64]

/-- concatenation of equally many 32-byte blocks is injective -/
theorem flatten32_inj (rs rs' : List Bytes) (hlen : rs.length = rs'.length) (h32 : ∀ r ∈ rs, r.length = 32)
    (h32' : ∀ r ∈ rs', r.length = 32) (tl tl' : Bytes) (h : rs.flatten ++ tl = rs'.flatten ++ tl') : rs = rs' ∧ tl = tl' := by
  induction rs generalizing rs' with
  | nil => cases rs' with
    | nil => exact ⟨rfl, by simpa using h⟩
    | cons _ _ => simp at hlen
  | cons r rs ih => cases rs' with
    | nil => simp at hlen
    | cons r' rs' =>
      simp only [List.flatten_cons, List.append_assoc] at h
      have hr : r.length = r'.length := by rw [h32 r (by simp), h32' r' (by simp)]
      have h1 := List.append_inj_left h hr
      have h2 := List.append_inj_right h hr
      obtain ⟨hrs, htl⟩ := ih rs' (by simpa using hlen) (fun x hx => h32 x (by simp [hx])) (fun x hx => h32' x (by simp [hx])) h2
      exact ⟨by rw [h1, hrs], htl⟩

/-- **C14 (witness serialisation).** For a fixed number of openings and a fixed extension degree the serialised
    witness determines every value and every blinding factor: two different witnesses — even of the same commitment
    — key the transcript RNG differently. -/
theorem witnessBytes_inj (t : ℕ) (ws ws' : List (ℕ × List Bytes)) (hlen : ws.length = ws'.length)
    (hw : ∀ w ∈ ws, w.1 < 2 ^ 64 ∧ w.2.length = t ∧ ∀ r ∈ w.2, r.length = 32)
    (hw' : ∀ w ∈ ws', w.1 < 2 ^ 64 ∧ w.2.length = t ∧ ∀ r ∈ w.2, r.length = 32)
    (h : witnessBytes ws = witnessBytes ws') : ws = ws' := by
  induction ws generalizing ws' with
  | nil => cases ws' with
    | nil => rfl
    | cons _ _ => simp at hlen
  | cons w ws ih => cases ws' with
    | nil => simp at hlen
    | cons w' ws' =>
      obtain ⟨v, rs⟩ := w
      obtain ⟨v', rs'⟩ := w'
      simp only [witnessBytes] at h
      obtain ⟨hv, hrl, hr32⟩ := hw (v, rs) (by simp)
      obtain ⟨hv', hrl', hr32'⟩ := hw' (v', rs') (by simp)
      have h1 := List.append_inj_left h (by rw [le64_length, le64_length])
      have h2 := List.append_inj_right h (by rw [le64_length, le64_length])
      have hvv : v = v' := le64_inj v v' hv hv' h1
      obtain ⟨hrs, h3⟩ := flatten32_inj rs rs' (by rw [hrl, hrl']) hr32 hr32' _ _ h2
      have := ih ws' (by simpa using hlen) (fun x hx => hw x (by simp [hx])) (fun x hx => hw' x (by simp [hx])) h3
      rw [hvv, hrs, this]

/-- **C14 (rebuilt after every update).** Each prover RNG instance is forked from a strictly longer transcript history
    than the one before it: the instance used for a later nonce has seen every message and challenge absorbed in
    between. -/
theorem rngHistories_first_two (ctx : List Event) (x : Pub) (A : Bytes) (lrs : List (Bytes × Bytes)) (a1 b : Bytes) :
    ∃ h0 h1 rest, rngHistories ctx x A lrs a1 b = h0 :: h1 :: rest ∧ h0 <+: h1 ∧ h0.length < h1.length ∧
      (∀ h ∈ rest, h1 <+: h ∧ h1.length < h.length) := by
  refine ⟨ctx ++ stmtEvents x, beforeY ctx x A, _, rfl, ?_, ?_, ?_⟩
  · unfold beforeY; rw [← List.append_assoc]; exact List.prefix_append _ _
  · unfold beforeY; simp
  · intro h hh
    simp only [List.mem_append, List.mem_map, List.mem_range, List.mem_singleton] at hh
    rcases hh with ⟨j, hj, rfl⟩ | rfl
    · cases hlr : lrs[j]? with
      | none => exact absurd hlr (by simp [List.getElem?_eq_none_iff]; omega)
      | some p =>
        obtain ⟨l, r⟩ := p
        simp only
        exact ⟨beforeY_prefix_beforeE ctx x A _ l r, by unfold beforeE; simp⟩
    · unfold beforeFinal
      exact ⟨List.prefix_append _ _, by simp⟩

end Bpp.NonceThm
