import Bpp.VerifierEqSpec
open Finset
namespace Bpp
open Model (WipProof RangeInst RangeProofM ProofM bitN)
variable {F : Type} [Field F] {M : Type} [AddCommGroup M] [Module F M]

/-- the recursive reference verifier is the final check on the three folds -/
theorem wipAccepts_iff (y : F) (t : ℕ) (g : M) (Gb : ℕ → M) (e : F) (A1 B : M) (r1 s1 : F) (d1 : ℕ → F)
    (es : List F) (Ls Rs : List M) (hL : Ls.length = es.length) (hR : Rs.length = es.length)
    (G H : ℕ → M) (P : M) :
    wipAccepts y t g Gb e A1 B r1 s1 d1 es Ls Rs G H P ↔
      e^2 • foldP es Ls Rs P + e • A1 + B
        = (r1 * e) • foldG y es G 0 + (s1 * e) • foldH es H 0 + (r1 * y * s1) • g + dot t d1 Gb := by
  induction es generalizing Ls Rs G H P with
  | nil =>
    cases Ls <;> cases Rs <;> simp_all [wipAccepts, foldP, foldG, foldH]
  | cons ej es ih =>
    cases Ls with
    | nil => simp at hL
    | cons L Ls =>
      cases Rs with
      | nil => simp at hR
      | cons R Rs =>
        simp only [List.length_cons, add_left_inj] at hL hR
        simp only [wipAccepts, foldP, foldG, foldH]
        exact ih Ls Rs hL hR _ _ _


/-- the relation on arbitrary proofs -/
def specAcceptsP (I : RangeInst F M) (π : ProofM F M) (y z : F) (es : List F) (e : F) : Prop :=
  wipAccepts y I.t I.hb I.Gb e π.A1 π.B π.r1 π.s1 π.d1 es π.Ls π.Rs I.G I.H (Ahat I y z π.A)

theorem specAcceptsP_iff_residual (I : RangeInst F M) (π : ProofM F M) (y z : F) (es : List F) (e : F)
    (hL : π.Ls.length = es.length) (hR : π.Rs.length = es.length) :
    specAcceptsP I π y z es e ↔ specResidual I π y z es e = 0 := by
  unfold specAcceptsP specResidual
  rw [wipAccepts_iff _ _ _ _ _ _ _ _ _ _ es π.Ls π.Rs hL hR, sub_eq_zero]
  exact eq_comm

/-- **C02 (verdict).** With a non-zero weight the coded contribution vanishes exactly when the published
    relation holds — for every proof, honest or hostile. -/
theorem verdict_iff (I : RangeInst F M) (hn : 0 < I.n) (π : ProofM F M) (y z : F) (es : List F) (e w : F)
    (k : ℕ) (hm : I.m = 2 ^ k) (hN : I.n * I.m = 2 ^ es.length)
    (hL : π.Ls.length = es.length) (hR : π.Rs.length = es.length)
    (hy0 : y ≠ 0) (hy1 : y ≠ 1) (hes : ∀ x ∈ es, x ≠ 0) (hw : w ≠ 0) :
    codeContribution I π y z es e w = 0 ↔ specAcceptsP I π y z es e := by
  rw [contribution_eq I hn π y z es e w k hm hN hL hR hy0 hy1 hes,
    specAcceptsP_iff_residual I π y z es e hL hR, smul_eq_zero]
  constructor
  · rintro (h | h)
    · exact absurd h hw
    · exact h
  · exact fun h => Or.inr h

/-- lengths of the prover's L/R lists -/
theorem wipProve_lengths (y : F) (t : ℕ) (g : M) (Gb : ℕ → M) (dL dR : ℕ → ℕ → F) (r s : F) (d η : ℕ → F) (e : F)
    (es : List F) (j : ℕ) (a b : ℕ → F) (G H : ℕ → M) (α : ℕ → F) :
    (wipProve y t g Gb dL dR r s d η e es j a b G H α).Ls.length = es.length ∧
    (wipProve y t g Gb dL dR r s d η e es j a b G H α).Rs.length = es.length := by
  induction es generalizing j a b G H α with
  | nil => simp [wipProve]
  | cons ej es ih =>
    simp only [wipProve, List.length_cons, add_left_inj]
    exact ih _ _ _ _ _ _

/-- **C01 (code level).** The optimised verifier's contribution for an honest proof is zero, whatever the weight. -/
theorem code_accepts_honest (I : RangeInst F M) (hn : 0 < I.n) (v p : ℕ → ℕ) (r : ℕ → ℕ → F)
    (α : ℕ → F) (dL dR : ℕ → ℕ → F) (rr ss : F) (d η : ℕ → F)
    (y z : F) (es : List F) (e w : F) (k : ℕ) (hm : I.m = 2 ^ k)
    (hN : I.n * I.m = 2 ^ es.length)
    (hp : ∀ j < I.m, p j ≤ v j) (hv : ∀ j < I.m, v j - p j < 2 ^ I.n)
    (hpF : ∀ j < I.m, I.p j = (p j : F))
    (hV : ∀ j < I.m, I.V j = (v j : F) • I.hb + dot I.t (r j) I.Gb)
    (hy0 : y ≠ 0) (hy1 : y ≠ 1) (hes : ∀ x ∈ es, x ≠ 0) :
    codeContribution I (rangeProve I v p r α dL dR rr ss d η y z es e).toProofM y z es e w = 0 := by
  have hlen := wipProve_lengths y I.t I.hb I.Gb dL dR rr ss d η e es 0
    (fun i => aLvec I.n (fun j => v j - p j) i - z)
    (fun i => aLvec I.n (fun j => v j - p j) i - 1 + dvec z I.n i * y ^ (I.n * I.m - i) + z) I.G I.H
    (fun k => α k + ∑ j ∈ range I.m, z ^ (2 * (j + 1)) * r j k * y ^ (I.n * I.m + 1))
  rw [contribution_eq I hn _ y z es e w k hm hN hlen.1 hlen.2 hy0 hy1 hes]
  have hs := spec_complete I hn v p r α dL dR rr ss d η y z es e hN hp hv hpF hV hy0 hes
  have : specResidual I (rangeProve I v p r α dL dR rr ss d η y z es e).toProofM y z es e = 0 :=
    (specAcceptsP_iff_residual I _ y z es e hlen.1 hlen.2).mp hs
  rw [this, smul_zero]

end Bpp
