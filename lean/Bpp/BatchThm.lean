import Bpp.Verdict
open Finset
namespace Bpp
open Model (WipProof RangeInst RangeProofM ProofM bitN)
variable {F : Type} [Field F] {M : Type} [AddCommGroup M] [Module F M]

/-- weighted batch sum over `k` members -/
def batchSum (k : ℕ) (w : ℕ → F) (R : ℕ → M) : M := ∑ i ∈ range k, w i • R i

/-- C03 "if": all members satisfy the relation ⇒ the batch sum vanishes, for any weights -/
theorem batch_all_valid (k : ℕ) (w : ℕ → F) (R : ℕ → M) (h : ∀ i < k, R i = 0) : batchSum k w R = 0 := by
  unfold batchSum
  apply Finset.sum_eq_zero; intro i hi; rw [h i (Finset.mem_range.mp hi), smul_zero]

/-- C03 "only if", one bad member: with a non-zero weight it cannot be hidden -/
theorem batch_one_invalid (k : ℕ) (w : ℕ → F) (R : ℕ → M) (j : ℕ) (hj : j < k)
    (hRj : R j ≠ 0) (hw : w j ≠ 0) (hothers : ∀ i < k, i ≠ j → R i = 0) : batchSum k w R ≠ 0 := by
  unfold batchSum
  rw [Finset.sum_eq_single j]
  · exact smul_ne_zero hw hRj
  · intro i hi hne; rw [hothers i (Finset.mem_range.mp hi) hne, smul_zero]
  · intro h; exact absurd (Finset.mem_range.mpr hj) h

/-- C03/C08 "no cancellation": fix the residuals, with member `j` invalid, and fix every weight except `w j`.
    At most one value of `w j` makes the batch sum vanish. -/
theorem batch_at_most_one_weight (k : ℕ) (w w' : ℕ → F) (R : ℕ → M) (j : ℕ) (hj : j < k)
    (hRj : R j ≠ 0) (hagree : ∀ i, i ≠ j → w i = w' i)
    (h0 : batchSum k w R = 0) (h0' : batchSum k w' R = 0) : w j = w' j := by
  unfold batchSum at h0 h0'
  have hdiff : ∑ i ∈ range k, (w i - w' i) • R i = 0 := by
    simp only [sub_smul, Finset.sum_sub_distrib, h0, h0', sub_self]
  rw [Finset.sum_eq_single j] at hdiff
  · rcases smul_eq_zero.mp hdiff with h | h
    · exact sub_eq_zero.mp h
    · exact absurd h hRj
  · intro i _ hne; rw [hagree i hne, sub_self, zero_smul]
  · intro h; exact absurd (Finset.mem_range.mpr hj) h

/-- C02/C05 "no slack in r1": two proofs differing only in `r1`, both satisfying the relation at the same
    challenges, force a non-trivial relation among the generators. -/
theorem response_r1_unique (I : RangeInst F M) (π : ProofM F M) (r1' : F) (y z : F) (es : List F) (e : F)
    (h : specResidual I π y z es e = 0) (h' : specResidual I { π with r1 := r1' } y z es e = 0) :
    π.r1 = r1' ∨ e • foldG y es I.G 0 + (y * π.s1) • I.hb = 0 := by
  unfold specResidual at h h'
  simp only at h'
  have : (π.r1 - r1') • (e • foldG y es I.G 0 + (y * π.s1) • I.hb) = 0 := by
    have := congrArg₂ (· - ·) h h'
    simp only [sub_self] at this
    rw [← this]; module
  rcases smul_eq_zero.mp this with h1 | h1
  · exact Or.inl (sub_eq_zero.mp h1)
  · exact Or.inr h1

/-- C02/C05 "no slack in d1": two accepted proofs differing only in `d1` agree on `dot t d1 Gb`. -/
theorem response_d1_unique (I : RangeInst F M) (π : ProofM F M) (d1' : ℕ → F) (y z : F) (es : List F) (e : F)
    (h : specResidual I π y z es e = 0) (h' : specResidual I { π with d1 := d1' } y z es e = 0) :
    dot I.t π.d1 I.Gb = dot I.t d1' I.Gb := by
  unfold specResidual at h h'
  simp only at h'
  have := congrArg₂ (· - ·) h h'
  simp only [sub_self] at this
  rw [← sub_eq_zero, ← this]; module

end Bpp
