import Bpp.Soundness
import Bpp.Range
import Mathlib.Algebra.CharP.Basic
/-! Soundness of the range reduction `A ↦ Â` (Bulletproofs+ Theorem 3, with promises and `t` blinding
    coordinates): if for `N+1` non-zero challenges `y`, and for each of them `2m+2` challenges `z`, the
    reduced statement `Â(y, z)` has a weighted-inner-product witness, and the generators satisfy no
    non-trivial relation, then `A` commits to a bit vector whose `m` blocks of `n` bits are the binary
    expansions of `v_j − p_j` — for *whatever* opening `(v_j, r_j)` the commitments `V_j` have. -/
open Finset

namespace Bpp
open Model (RangeInst)
variable {F : Type} [Field F] {M : Type} [AddCommGroup M] [Module F M]

theorem dotG_mem (N t : ℕ) (G H : ℕ → M) (g : M) (Gb : ℕ → M) (c : ℕ → F) :
    dot N c G ∈ repSpan (F := F) N t G H g Gb :=
  ⟨⟨c, fun _ => 0, 0, fun _ => 0⟩, by simp [Rep.ev, dot]⟩
theorem dotH_mem (N t : ℕ) (G H : ℕ → M) (g : M) (Gb : ℕ → M) (c : ℕ → F) :
    dot N c H ∈ repSpan (F := F) N t G H g Gb :=
  ⟨⟨fun _ => 0, c, 0, fun _ => 0⟩, by simp [Rep.ev, dot]⟩
theorem g_mem (N t : ℕ) (G H : ℕ → M) (g : M) (Gb : ℕ → M) :
    g ∈ repSpan (F := F) N t G H g Gb :=
  ⟨⟨fun _ => 0, fun _ => 0, 1, fun _ => 0⟩, by simp [Rep.ev, dot]⟩
theorem dotGb_mem (N t : ℕ) (G H : ℕ → M) (g : M) (Gb : ℕ → M) (c : ℕ → F) :
    dot t c Gb ∈ repSpan (F := F) N t G H g Gb :=
  ⟨⟨fun _ => 0, fun _ => 0, 0, c⟩, by simp [Rep.ev, dot]⟩

/-- `C0 + C1·z + Σ_j T_j·z^(2j+2)` as a polynomial expression of degree `2m+1` -/
theorem even_tail_sum (C0 C1 : F) (T : ℕ → F) (z : F) (m : ℕ) :
    ∑ k ∈ range (2*m+1+1), (if k = 0 then C0 else if k = 1 then C1 else if k % 2 = 0 then T (k/2 - 1) else 0) * z^k
      = C0 + C1 * z + ∑ j ∈ range m, T j * z^(2*(j+1)) := by
  induction m with
  | zero => simp [Finset.sum_range_succ]
  | succ m ih =>
    have : 2 * (m+1) + 1 + 1 = (2*m+1+1) + 1 + 1 := by ring
    rw [this, Finset.sum_range_succ, Finset.sum_range_succ, ih, Finset.sum_range_succ]
    have h1 : ¬ (2*m+1+1 = 0) := by omega
    have h2 : ¬ (2*m+1+1 = 1) := by omega
    have h3 : (2*m+1+1) % 2 = 0 := by omega
    have h4 : (2*m+1+1)/2 - 1 = m := by omega
    have h5 : ¬ (2*m+1+1+1 = 0) := by omega
    have h6 : ¬ (2*m+1+1+1 = 1) := by omega
    have h7 : ¬ ((2*m+1+1+1) % 2 = 0) := by omega
    rw [if_neg h1, if_neg h2, if_pos h3, h4, if_neg h5, if_neg h6, if_neg h7]
    have h8 : 2*m+1+1 = 2*(m+1) := by ring
    rw [h8]; ring

/-- **Soundness of the range reduction.** -/
theorem range_sound (I : RangeInst F M) (hn : 0 < I.n)
    (hI : Indep (F := F) (I.n * I.m) I.t I.G I.H I.hb I.Gb)
    (v : ℕ → F) (r : ℕ → ℕ → F) (hV : ∀ j < I.m, I.V j = v j • I.hb + dot I.t (r j) I.Gb)
    (A : M) (SY : Finset F) (SZ : F → Finset F)
    (hY0 : ∀ y ∈ SY, y ≠ 0) (hYc : I.n * I.m + 1 ≤ SY.card) (hZc : ∀ y ∈ SY, 2 * I.m + 2 ≤ (SZ y).card)
    (hW : ∀ y ∈ SY, ∀ z ∈ SZ y, ∃ a b α : ℕ → F,
      Ahat I y z A = Pcom y (I.n * I.m) I.t a b I.G I.H I.hb α I.Gb) :
    ∃ aL α : ℕ → F,
      A = dot (I.n * I.m) aL I.G + dot (I.n * I.m) (fun i => aL i - 1) I.H + dot I.t α I.Gb ∧
      (∀ i < I.n * I.m, aL i * (aL i - 1) = 0) ∧
      (∀ j < I.m, ∑ i ∈ range I.n, aL (j * I.n + i) * 2^i = v j - I.p j) := by
  classical
  set N := I.n * I.m with hN
  choose! a b α hW using hW
  -- the commitment part of Â over the generators
  have hVs : ∀ y z : F, (∑ j ∈ range I.m, (y^(N+1) * z^(2*(j+1))) • (I.V j - I.p j • I.hb))
      = (∑ j ∈ range I.m, (y^(N+1) * z^(2*(j+1)) * (v j - I.p j))) • I.hb
        + dot I.t (fun k => ∑ j ∈ range I.m, y^(N+1) * z^(2*(j+1)) * r j k) I.Gb := by
    intro y z
    have h1 : dot I.t (fun k => ∑ j ∈ range I.m, y^(N+1) * z^(2*(j+1)) * r j k) I.Gb
        = ∑ j ∈ range I.m, (y^(N+1) * z^(2*(j+1))) • dot I.t (r j) I.Gb := by
      simp only [dot, Finset.sum_smul, Finset.smul_sum, smul_smul]
      rw [Finset.sum_comm]
    rw [h1, Finset.sum_smul, ← Finset.sum_add_distrib]
    apply Finset.sum_congr rfl; intro j hj
    rw [hV j (Finset.mem_range.mp hj)]
    module
  -- Â = A + (known element over the generators)
  let κ : F → F → Rep F := fun y z =>
    ⟨fun _ => -z, fun i => dvec z I.n i * y^(N - i) + z,
     (∑ j ∈ range I.m, (y^(N+1) * z^(2*(j+1)) * (v j - I.p j)))
       + ((z - z^2) * (∑ i ∈ range N, y^(i+1)) - z * y^(N+1) * (∑ i ∈ range N, dvec z I.n i)),
     fun k => ∑ j ∈ range I.m, y^(N+1) * z^(2*(j+1)) * r j k⟩
  have hAhat : ∀ y z : F, Ahat I y z A = A + (κ y z).ev N I.t I.G I.H I.hb I.Gb := by
    intro y z
    simp only [Ahat, κ, Rep.ev, ← hN, hVs]
    module
  -- A has a representation
  obtain ⟨y0, hy0⟩ := Finset.card_pos.mp (by omega : 0 < SY.card)
  obtain ⟨z0, hz0⟩ := Finset.card_pos.mp (by have := hZc y0 hy0; omega : 0 < (SZ y0).card)
  obtain ⟨ρA, hρA⟩ : A ∈ repSpan (F := F) N I.t I.G I.H I.hb I.Gb := by
    have h1 : A = Ahat I y0 z0 A - (κ y0 z0).ev N I.t I.G I.H I.hb I.Gb := by rw [hAhat]; abel
    rw [h1, hW y0 hy0 z0 hz0, Pcom_eq_ev]
    exact Submodule.sub_mem _ ⟨_, rfl⟩ ⟨_, rfl⟩
  -- coefficient comparison at every challenge pair
  have hcmp : ∀ y ∈ SY, ∀ z ∈ SZ y,
      (∀ i < N, a y z i = ρA.a i - z) ∧ (∀ i < N, b y z i = ρA.b i + (dvec z I.n i * y^(N - i) + z)) ∧
      wip y N (a y z) (b y z) = ρA.c + (κ y z).c := by
    intro y hy z hz
    have := hI.eq ⟨a y z, b y z, wip y N (a y z) (b y z), α y z⟩ (ρA.add (κ y z)) (by
      rw [← Pcom_eq_ev, ← hW y hy z hz, hAhat, Rep.ev_add, hρA])
    refine ⟨fun i hi => ?_, fun i hi => ?_, ?_⟩
    · have := this.1 i hi; simp only [Rep.add, κ] at this; rw [this]; ring
    · have := this.2.1 i hi; simp only [Rep.add, κ] at this; exact this
    · exact this.2.2.1
  -- the value-generator equation as a polynomial in z, for each y
  let S : ℕ → F := fun j => ∑ i ∈ range I.n, ρA.a (j * I.n + i) * 2^i
  have hE : ∀ y ∈ SY, ∀ z ∈ SZ y,
      (∑ i ∈ range N, ρA.a i * ρA.b i * y^(i+1) - ρA.c)
        + (∑ i ∈ range N, (ρA.a i - ρA.b i - 1) * y^(i+1)) * z
        + ∑ j ∈ range I.m, (y^(N+1) * (S j - (v j - I.p j))) * z^(2*(j+1)) = 0 := by
    intro y hy z hz
    obtain ⟨ha, hb, hw⟩ := hcmp y hy z hz
    rw [wip_congr y N _ _ _ _ ha hb] at hw
    have hdsum : ∑ i ∈ range N, dvec z I.n i * ρA.a i = ∑ j ∈ range I.m, z^(2*(j+1)) * S j := by
      rw [hN, Nat.mul_comm, sum_range_mul']
      apply Finset.sum_congr rfl; intro j hj
      simp only [S]
      rw [Finset.mul_sum]
      apply Finset.sum_congr rfl; intro i hi
      rw [dvec_at z I.n hn j i (Finset.mem_range.mp hi)]
      ring
    have h1 : wip y N (fun i => ρA.a i - z) (fun i => ρA.b i + (dvec z I.n i * y^(N - i) + z))
        = ∑ i ∈ range N, (ρA.a i * ρA.b i + z * (ρA.a i - ρA.b i) - z^2) * y^(i+1)
          + y^(N+1) * (∑ i ∈ range N, dvec z I.n i * ρA.a i) - z * y^(N+1) * ∑ i ∈ range N, dvec z I.n i := by
      simp only [wip, Finset.mul_sum, ← Finset.sum_add_distrib, ← Finset.sum_sub_distrib]
      apply Finset.sum_congr rfl; intro i hi
      have hiN : i < N := Finset.mem_range.mp hi
      have hp : y^(i+1) * y^(N - i) = y^(N+1) := by
        rw [← pow_add]; congr 1; omega
      linear_combination ((ρA.a i - z) * dvec z I.n i) * hp
    rw [h1, hdsum] at hw
    simp only [κ] at hw
    have e1 : ∑ i ∈ range N, ρA.a i * ρA.b i * y^(i+1) = ∑ i ∈ range N, (ρA.a i * ρA.b i) * y^(i+1) := rfl
    have e2 : ∑ i ∈ range N, (ρA.a i * ρA.b i + z * (ρA.a i - ρA.b i) - z^2) * y^(i+1)
        = (∑ i ∈ range N, ρA.a i * ρA.b i * y^(i+1)) + (∑ i ∈ range N, (ρA.a i - ρA.b i - 1) * y^(i+1)) * z
          + (z - z^2) * ∑ i ∈ range N, y^(i+1) := by
      simp only [Finset.mul_sum, Finset.sum_mul, ← Finset.sum_add_distrib]
      apply Finset.sum_congr rfl; intro i _; ring
    have e3 : ∑ j ∈ range I.m, (y^(N+1) * (S j - (v j - I.p j))) * z^(2*(j+1))
        = y^(N+1) * (∑ j ∈ range I.m, z^(2*(j+1)) * S j)
          - ∑ j ∈ range I.m, y^(N+1) * z^(2*(j+1)) * (v j - I.p j) := by
      simp only [Finset.mul_sum, ← Finset.sum_sub_distrib]
      apply Finset.sum_congr rfl; intro j _; ring
    rw [e2] at hw
    rw [e3]
    linear_combination hw
  -- z-coefficients vanish for every y
  have hz : ∀ y ∈ SY,
      (∑ i ∈ range N, ρA.a i * ρA.b i * y^(i+1) - ρA.c = 0) ∧
      (∑ i ∈ range N, (ρA.a i - ρA.b i - 1) * y^(i+1) = 0) ∧
      (∀ j < I.m, S j = v j - I.p j) := by
    intro y hy
    have hv := poly_vanish
      (fun k => if k = 0 then (∑ i ∈ range N, ρA.a i * ρA.b i * y^(i+1) - ρA.c)
        else if k = 1 then (∑ i ∈ range N, (ρA.a i - ρA.b i - 1) * y^(i+1))
        else if k % 2 = 0 then (fun j => y^(N+1) * (S j - (v j - I.p j))) (k/2 - 1) else 0)
      (2 * I.m + 1) (SZ y) (by have := hZc y hy; omega) (by
        intro z hz
        exact (even_tail_sum _ _ (fun j => y^(N+1) * (S j - (v j - I.p j))) z I.m).trans (hE y hy z hz))
    refine ⟨?_, ?_, fun j hj => ?_⟩
    · simpa using hv 0 (by omega)
    · simpa using hv 1 (by omega)
    · have := hv (2*(j+1)) (by omega)
      have h1 : ¬ (2*(j+1) = 0) := by omega
      have h2 : ¬ (2*(j+1) = 1) := by omega
      have h3 : (2*(j+1)) % 2 = 0 := by omega
      have h4 : (2*(j+1))/2 - 1 = j := by omega
      simp only [if_neg h1, if_neg h2, if_pos h3, h4] at this
      have hy' : y^(N+1) ≠ 0 := pow_ne_zero _ (hY0 y hy)
      have := (mul_eq_zero.mp this).resolve_left hy'
      linear_combination this
  -- y-coefficients
  have hprod := poly_vanish (fun k => if k = 0 then -ρA.c else ρA.a (k-1) * ρA.b (k-1)) N SY (by omega) (by
    intro y hy
    rw [Finset.sum_range_succ']
    simp only [Nat.add_sub_cancel, if_neg (Nat.succ_ne_zero _), if_true, pow_zero, mul_one]
    linear_combination (hz y hy).1)
  have hdiff := poly_vanish (fun k => if k = 0 then 0 else ρA.a (k-1) - ρA.b (k-1) - 1) N SY (by omega) (by
    intro y hy
    rw [Finset.sum_range_succ']
    simp only [Nat.add_sub_cancel, if_neg (Nat.succ_ne_zero _), if_true, pow_zero, mul_one, add_zero]
    exact (hz y hy).2.1)
  have hc0 : ρA.c = 0 := by have := hprod 0 (by omega); simpa using this
  have hab : ∀ i < N, ρA.a i * ρA.b i = 0 := by
    intro i hi; have := hprod (i+1) (by omega); simpa using this
  have hbm : ∀ i < N, ρA.b i = ρA.a i - 1 := by
    intro i hi; have := hdiff (i+1) (by omega)
    simp only [if_neg (Nat.succ_ne_zero _), Nat.add_sub_cancel] at this
    linear_combination -this
  refine ⟨ρA.a, ρA.α, ?_, fun i hi => ?_, fun j hj => ?_⟩
  · rw [← hρA, Rep.ev, hc0, zero_smul, add_zero, dot_congr N ρA.b (fun i => ρA.a i - 1) I.H hbm]
  · rw [← hbm i hi]; exact hab i hi
  · exact (hz y0 hy0).2.2 j hj

/-- bits in a field add up to a natural number below `2^n` -/
theorem bits_to_nat (n : ℕ) (c : ℕ → F) (hbit : ∀ i < n, c i * (c i - 1) = 0) :
    ∃ k : ℕ, k < 2^n ∧ ∑ i ∈ range n, c i * 2^i = (k : F) := by
  induction n with
  | zero => exact ⟨0, by simp, by simp⟩
  | succ n ih =>
    obtain ⟨k, hk, hs⟩ := ih (fun i hi => hbit i (by omega))
    rcases mul_eq_zero.mp (hbit n (by omega)) with h0 | h1
    · exact ⟨k, by rw [pow_succ]; omega, by rw [Finset.sum_range_succ, hs, h0]; simp⟩
    · refine ⟨k + 2^n, by rw [pow_succ]; omega, ?_⟩
      have : c n = 1 := by linear_combination h1
      rw [Finset.sum_range_succ, hs, this]; push_cast; ring

/-- in characteristic `q`, `v − p = k` in the field with `v < q` and `p + k < q` is the same statement in `ℕ` -/
theorem field_range_to_nat (q : ℕ) [CharP F q] (vn pn k : ℕ) (hv : vn < q) (hpk : pn + k < q)
    (h : (vn : F) - (pn : F) = (k : F)) : vn = pn + k := by
  have h' : (vn : F) = ((pn + k : ℕ) : F) := by push_cast; linear_combination h
  exact CharP.natCast_injOn_Iio F q hv hpk h'

/-- **Knowledge soundness of the reference relation (tree form).** A tree of accepting transcripts of the
    whole range proof for commitments `V_j` that open to `(v_j, r_j)`: `N+1` non-zero challenges `y`, for each
    `2m+2` challenges `z`, below each the zk-WIP tree. If the generators satisfy no non-trivial linear relation,
    then `p_j ≤ v_j` and `v_j − p_j < 2^n` for every commitment — as natural numbers. -/
theorem range_proof_sound (I : RangeInst F M) (hn : 0 < I.n) (κ : ℕ) (hN : I.n * I.m = 2^κ)
    (hI : Indep (F := F) (I.n * I.m) I.t I.G I.H I.hb I.Gb)
    (q : ℕ) [CharP F q] (vn pn : ℕ → ℕ) (r : ℕ → ℕ → F)
    (hvq : ∀ j < I.m, vn j < q) (hpq : ∀ j < I.m, pn j + 2^I.n ≤ q)
    (hp : ∀ j < I.m, I.p j = (pn j : F))
    (hV : ∀ j < I.m, I.V j = (vn j : F) • I.hb + dot I.t (r j) I.Gb)
    (A : M) (SY : Finset F) (SZ : F → Finset F)
    (hY0 : ∀ y ∈ SY, y ≠ 0) (hYc : I.n * I.m + 1 ≤ SY.card) (hZc : ∀ y ∈ SY, 2 * I.m + 2 ≤ (SZ y).card)
    (hT : ∀ y ∈ SY, ∀ z ∈ SZ y, TreeAcc y I.t I.hb I.Gb κ I.G I.H (Ahat I y z A)) :
    ∀ j < I.m, pn j ≤ vn j ∧ vn j - pn j < 2^I.n := by
  obtain ⟨aL, α, -, hbit, hval⟩ := range_sound I hn hI (fun j => (vn j : F)) r hV A SY SZ hY0 hYc hZc
    (fun y hy z hz => by
      have := wip_special_sound y (hY0 y hy) I.t I.hb I.Gb κ I.G I.H _ (hN ▸ hI) (hT y hy z hz)
      rwa [← hN] at this)
  intro j hj
  obtain ⟨k, hk, hs⟩ := bits_to_nat I.n (fun i => aL (j * I.n + i)) (fun i hi => hbit _ (by
    have : j * I.n + i < (j+1) * I.n := by rw [Nat.succ_mul]; omega
    calc j * I.n + i < (j+1) * I.n := this
      _ ≤ I.m * I.n := Nat.mul_le_mul_right _ hj
      _ = I.n * I.m := Nat.mul_comm _ _))
  have h := hval j hj
  rw [hs, hp j hj] at h
  have := field_range_to_nat q (vn j) (pn j) k (hvq j hj) (by have := hpq j hj; omega) h.symm
  omega

/-- Non-vacuity of `range_proof_sound`: for a valid witness the honest `A` has an accepting tree at every
    challenge pair, over any challenge sets of the required shape. -/
theorem range_tree_complete (I : RangeInst F M) (hn : 0 < I.n) (κ : ℕ) (hN : I.n * I.m = 2^κ)
    (y z : F) (hy : y ≠ 0) (S4 S5 : Finset F)
    (h4 : 4 ≤ S4.card) (h40 : ∀ e ∈ S4, e ≠ 0) (hinj : Set.InjOn (fun e : F => e^2) S4) (h5 : 5 ≤ S5.card)
    (aL : ℕ → F) (α : ℕ → F) (v : ℕ → F) (r : ℕ → ℕ → F)
    (hbit : ∀ i < I.n * I.m, aL i * (aL i - 1) = 0)
    (hval : ∀ j < I.m, ∑ i ∈ range I.n, aL (j * I.n + i) * 2^i = v j - I.p j)
    (hV : ∀ j < I.m, I.V j = v j • I.hb + dot I.t (r j) I.Gb) :
    TreeAcc y I.t I.hb I.Gb κ I.G I.H
      (Ahat I y z (dot (I.n * I.m) aL I.G + dot (I.n * I.m) (fun i => aL i - 1) I.H + dot I.t α I.Gb)) := by
  rw [range_reduction I hn y z aL α v r hbit hval hV, hN]
  exact TreeAcc.of_witness y hy I.t I.hb I.Gb S4 S5 h4 h40 hinj h5 κ I.G I.H _ _ _

end Bpp
