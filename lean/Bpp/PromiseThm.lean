import Bpp.Verdict
open Finset
namespace Bpp
open Model (WipProof RangeInst RangeProofM ProofM bitN)
variable {F : Type} [Field F] {M : Type} [AddCommGroup M] [Module F M]

theorem foldP_add (es : List F) (Ls Rs : List M) (P Q : M) :
    foldP es Ls Rs (P + Q) = foldP es Ls Rs P + Q := by
  induction es generalizing Ls Rs P with
  | nil => cases Ls <;> cases Rs <;> simp [foldP]
  | cons e es ih =>
    cases Ls with
    | nil => simp [foldP]
    | cons L Ls =>
      cases Rs with
      | nil => simp [foldP]
      | cons R Rs =>
        simp only [foldP]
        rw [show e ^ 2 • L + (P + Q) + e⁻¹ ^ 2 • R = (e ^ 2 • L + P + e⁻¹ ^ 2 • R) + Q by module, ih]

/-- **C07 (shift).** Changing only the promise vector changes the reference residual by an explicit multiple of
    the value generator. -/
theorem promise_shift (I : RangeInst F M) (p' : ℕ → F) (π : ProofM F M) (y z : F) (es : List F) (e : F) :
    specResidual I π y z es e - specResidual { I with p := p' } π y z es e
      = (e ^ 2 * ∑ j ∈ range I.m, y ^ (I.n * I.m + 1) * z ^ (2 * (j + 1)) * (I.p j - p' j)) • I.hb := by
  have hA : Ahat I y z π.A = Ahat { I with p := p' } y z π.A
      + (∑ j ∈ range I.m, y ^ (I.n * I.m + 1) * z ^ (2 * (j + 1)) * (p' j - I.p j)) • I.hb := by
    simp only [Ahat]
    have : (∑ j ∈ range I.m, (y ^ (I.n * I.m + 1) * z ^ (2 * (j + 1))) • (I.V j - I.p j • I.hb))
        = (∑ j ∈ range I.m, (y ^ (I.n * I.m + 1) * z ^ (2 * (j + 1))) • (I.V j - p' j • I.hb))
          + (∑ j ∈ range I.m, y ^ (I.n * I.m + 1) * z ^ (2 * (j + 1)) * (p' j - I.p j)) • I.hb := by
      rw [Finset.sum_smul, ← Finset.sum_add_distrib]
      apply Finset.sum_congr rfl; intro j _; module
    rw [this]; module
  unfold specResidual
  rw [hA, foldP_add]
  simp only
  have hs : (∑ j ∈ range I.m, y ^ (I.n * I.m + 1) * z ^ (2 * (j + 1)) * (I.p j - p' j))
      = -(∑ j ∈ range I.m, y ^ (I.n * I.m + 1) * z ^ (2 * (j + 1)) * (p' j - I.p j)) := by
    rw [← Finset.sum_neg_distrib]; apply Finset.sum_congr rfl; intro j _; ring
  rw [hs]
  module

/-- **C07 (single commitment).** One proof accepted under two promises at the same challenges: the promises
    are equal (as field elements; u64 promises inject into the field). -/
theorem promise_unique_single (I : RangeInst F M) (hm : I.m = 1) (p' : ℕ → F) (π : ProofM F M)
    (y z : F) (es : List F) (e : F) (hy : y ≠ 0) (hz : z ≠ 0) (he : e ≠ 0) (hhb : I.hb ≠ 0)
    (h : specResidual I π y z es e = 0) (h' : specResidual { I with p := p' } π y z es e = 0) :
    I.p 0 = p' 0 := by
  have hs := promise_shift I p' π y z es e
  rw [h, h', sub_self, hm] at hs
  simp only [Finset.sum_range_one, mul_one, zero_add] at hs
  rcases smul_eq_zero.mp hs.symm with h0 | h0
  · have hne : e ^ 2 * (y ^ (I.n + 1) * z ^ 2) ≠ 0 :=
      mul_ne_zero (pow_ne_zero _ he) (mul_ne_zero (pow_ne_zero _ hy) (pow_ne_zero _ hz))
    have : e ^ 2 * (y ^ (I.n + 1) * z ^ 2) * (I.p 0 - p' 0) = 0 := by rw [← h0]; ring
    rcases mul_eq_zero.mp this with h1 | h1
    · exact absurd h1 hne
    · exact sub_eq_zero.mp h1
  · exact absurd h0 hhb

/-- **C07 (aggregate).** One proof accepted under two promise vectors at the same challenges: `z²` is a root
    of the polynomial with coefficients `p_j − p'_j`. Since `z` is drawn after every promise has been absorbed
    (C04), a non-zero difference vector survives only for at most `m` values of `z²`. -/
theorem promise_poly (I : RangeInst F M) (p' : ℕ → F) (π : ProofM F M)
    (y z : F) (es : List F) (e : F) (hy : y ≠ 0) (he : e ≠ 0) (hhb : I.hb ≠ 0)
    (h : specResidual I π y z es e = 0) (h' : specResidual { I with p := p' } π y z es e = 0) :
    ∑ j ∈ range I.m, z ^ (2 * (j + 1)) * (I.p j - p' j) = 0 := by
  have hs := promise_shift I p' π y z es e
  rw [h, h', sub_self] at hs
  rcases smul_eq_zero.mp hs.symm with h0 | h0
  · have hfac : e ^ 2 * ∑ j ∈ range I.m, y ^ (I.n * I.m + 1) * z ^ (2 * (j + 1)) * (I.p j - p' j)
        = (e ^ 2 * y ^ (I.n * I.m + 1)) * ∑ j ∈ range I.m, z ^ (2 * (j + 1)) * (I.p j - p' j) := by
      rw [Finset.mul_sum, Finset.mul_sum]
      apply Finset.sum_congr rfl; intro j _; ring
    rw [hfac] at h0
    rcases mul_eq_zero.mp h0 with h1 | h1
    · exact absurd h1 (mul_ne_zero (pow_ne_zero _ he) (pow_ne_zero _ hy))
    · exact h1
  · exact absurd h0 hhb

end Bpp
