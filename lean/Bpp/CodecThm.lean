import Model.Codec
/-! C15: exact acceptance set of the proof decoder, as theorems about `Model.Codec` (core Lean only). -/
namespace Model.Codec

theorem parsePairs_len32 (fuel : Nat) (bs : Bytes) (ls rs : List Bytes) (h : parsePairs fuel bs = some (ls, rs)) :
    (∀ l ∈ ls, l.length = 32) ∧ (∀ r ∈ rs, r.length = 32) := by
  fun_induction parsePairs fuel bs generalizing ls rs with
  | case1 => simp at h; obtain ⟨rfl, rfl⟩ := h; simp
  | case2 => simp at h
  | case3 fuel bs hne hs => simp [hs] at h
  | case4 fuel bs hne l r1 hs hs2 => simp [hs, hs2] at h
  | case5 fuel bs hne l r1 hs r rest hs2 hp ih => simp [hs, hs2, hp] at h
  | case6 fuel bs hne l r1 hs r rest hs2 ls' rs' hp ih =>
    simp [hs, hs2, hp] at h
    obtain ⟨rfl, rfl⟩ := h
    obtain ⟨_, hl⟩ := split32_eq hs
    obtain ⟨_, hr⟩ := split32_eq hs2
    obtain ⟨ihl, ihr⟩ := ih ls' rs' hp
    constructor
    · intro x hx; rcases List.mem_cons.mp hx with rfl | hx
      · exact hl
      · exact ihl x hx
    · intro x hx; rcases List.mem_cons.mp hx with rfl | hx
      · exact hr
      · exact ihr x hx

/-- a decoded proof is well-formed -/
theorem decode_wf {bs : Bytes} {p : Proof} (h : decode bs = some p) : p.wf := by
  obtain ⟨h1, h2, h3, h4, h5, h6, h7, h8, h9, h10, h11⟩ := decode_shape h
  have hel : (∀ l ∈ p.li, l.length = 32) ∧ (∀ r ∈ p.ri, r.length = 32) := by
    unfold decode at h
    split at h
    · cases h
    · simp only at h
      split at h
      · cases h
      · split at h
        · cases h
        · split at h
          · cases h
          · split at h
            · cases h
            · split at h
              · cases h
              · split at h
                · cases h
                · split at h
                  · cases h
                  · split at h
                    · cases h
                    · rename_i li ri hpp
                      split at h
                      · cases h
                      · simp only [Option.some.injEq] at h
                        subst h
                        exact parsePairs_len32 _ _ _ _ hpp
  exact ⟨h1, h2, h3, h4, h5, h6, h7, h8, h9, h10, h11, hel.1, hel.2⟩

/-- **C15 (exact acceptance set).** A byte string is accepted exactly when it is the encoding of a well-formed proof:
    first byte `d ∈ 1..6`, then `d` canonical scalars, three 32-byte points, two canonical scalars and `k ≥ 1`
    pairs of 32-byte points — nothing else, no trailing data. The decoded value is that proof. -/
theorem decode_eq_some_iff (bs : Bytes) (p : Proof) : decode bs = some p ↔ p.wf ∧ encode p = bs :=
  ⟨fun h => ⟨decode_wf h, encode_decode h⟩, fun ⟨hw, he⟩ => he ▸ decode_encode p hw⟩

/-- **C15 (accepted lengths).** Every accepted string has length `1 + 32·(5 + d + 2k)` with `d` its first byte and
    `k ≥ 1`. -/
theorem decode_length {bs : Bytes} {p : Proof} (h : decode bs = some p) :
    bs.length = 1 + 32 * (5 + p.tag + 2 * p.li.length) ∧ 1 ≤ p.li.length ∧ bs.head? = some (UInt8.ofNat p.tag) := by
  have hw := decode_wf h
  have he := encode_decode h
  refine ⟨by rw [← he]; exact encode_length p hw, hw.rounds, ?_⟩
  rw [← he]; rfl

/-- **C15 (zero rounds).** A proof without L/R pairs — what the prover outputs for one 1-bit commitment — is not
    well-formed, and its encoding is refused: the exact boundary of the round-trip theorem (known finding). -/
theorem zero_rounds_refused (p : Proof) (h : p.li = []) : decode (encode p) ≠ some p := by
  intro hd
  have := (decode_wf hd).rounds
  rw [h] at this; simp at this

end Model.Codec
