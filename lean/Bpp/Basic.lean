import Model.Range
import Mathlib.Algebra.Module.Basic
import Mathlib.Algebra.Module.BigOperators
import Mathlib.Algebra.BigOperators.Intervals
import Mathlib.Algebra.BigOperators.Field
import Mathlib.Tactic.Ring
import Mathlib.Tactic.FieldSimp
import Mathlib.Tactic.LinearCombination
import Mathlib.Tactic.Module

/-! Math layer: vectors are functions `ℕ → F` with an explicit length; sums are `Finset.range` sums. -/
open Finset

namespace Bpp
open Model (WipProof RangeInst RangeProofM ProofM bitN)
variable {F : Type} [Field F] {M : Type} [AddCommGroup M] [Module F M]

/-- weighted inner product  Σ_{i<n} a i * y^(i+1) * b i -/
def wip (y : F) (n : ℕ) (a b : ℕ → F) : F := ∑ i ∈ range n, a i * y ^ (i+1) * b i
/-- multiscalar product Σ_{i<n} a i • G i -/
def dot (n : ℕ) (a : ℕ → F) (G : ℕ → M) : M := ∑ i ∈ range n, a i • G i

theorem dot_split (n : ℕ) (a : ℕ → F) (G : ℕ → M) :
    dot (n + n) a G = dot n a G + dot n (fun i => a (n + i)) (fun i => G (n + i)) := by
  unfold dot; rw [Finset.sum_range_add]

theorem wip_split (y : F) (n : ℕ) (a b : ℕ → F) :
    wip y (n + n) a b = wip y n a b + ∑ i ∈ range n, a (n+i) * y^(n+i+1) * b (n+i) := by
  unfold wip; rw [Finset.sum_range_add]

theorem dot_add (n : ℕ) (a b : ℕ → F) (G : ℕ → M) :
    dot n (fun i => a i + b i) G = dot n a G + dot n b G := by
  simp only [dot, add_smul, Finset.sum_add_distrib]

theorem dot_smul (n : ℕ) (c : F) (a : ℕ → F) (G : ℕ → M) :
    dot n (fun i => c * a i) G = c • dot n a G := by
  simp only [dot, Finset.smul_sum, smul_smul]

theorem dot_smul' (n : ℕ) (c : F) (a : ℕ → F) (G : ℕ → M) :
    dot n (fun i => a i * c) G = c • dot n a G := by
  simp only [dot, Finset.smul_sum, smul_smul, mul_comm]

theorem dot_congr (n : ℕ) (a a' : ℕ → F) (G : ℕ → M) (h : ∀ i < n, a i = a' i) :
    dot n a G = dot n a' G := by
  unfold dot; exact Finset.sum_congr rfl (fun i hi => by rw [h i (Finset.mem_range.mp hi)])

/-- The WIP commitment with a vector of `t` blinding coordinates. -/
def Pcom (y : F) (n t : ℕ) (a b : ℕ → F) (G H : ℕ → M) (g : M) (α : ℕ → F) (Gb : ℕ → M) : M :=
  dot n a G + dot n b H + wip y n a b • g + dot t α Gb

end Bpp
