import Generated.GenTable
/-! C11: the finite table of the real generator encodings is duplicate-free and contains no identity encoding —
    checked by the kernel on the whole table. -/
namespace Bpp.GenTableThm

/-- strictly increasing, first element above `lo` -/
def sortedAbove : Nat → List Nat → Bool
  | _, [] => true
  | lo, x :: xs => decide (lo < x) && sortedAbove x xs

theorem sortedAbove_all (lo : Nat) (l : List Nat) (h : sortedAbove lo l = true) : ∀ x ∈ l, lo < x := by
  induction l generalizing lo with
  | nil => intro x hx; cases hx
  | cons a as ih =>
    simp only [sortedAbove, Bool.and_eq_true, decide_eq_true_eq] at h
    intro x hx
    rcases List.mem_cons.mp hx with rfl | hx
    · exact h.1
    · exact Nat.lt_trans h.1 (ih a h.2 x hx)

theorem sortedAbove_nodup (lo : Nat) (l : List Nat) (h : sortedAbove lo l = true) : l.Nodup := by
  induction l generalizing lo with
  | nil => exact List.nodup_nil
  | cons a as ih =>
    simp only [sortedAbove, Bool.and_eq_true, decide_eq_true_eq] at h
    refine List.nodup_cons.mpr ⟨fun hmem => ?_, ih a h.2⟩
    exact Nat.lt_irrefl a (sortedAbove_all a as h.2 a hmem)

theorem table_sorted : sortedAbove 0 Generated.genTable = true := by decide +kernel

/-- **C11 (finite table).** The 2·64·32 + 6 + 1 = 4103 compressed generator encodings of the largest parameter set are
    pairwise distinct and none is the identity encoding (the all-zero string). -/
theorem table_nodup : Generated.genTable.Nodup ∧ (0 ∉ Generated.genTable) ∧ Generated.genTable.length = 4103 :=
  ⟨sortedAbove_nodup 0 _ table_sorted, fun h => Nat.lt_irrefl 0 (sortedAbove_all 0 _ table_sorted 0 h), by decide +kernel⟩

end Bpp.GenTableThm
