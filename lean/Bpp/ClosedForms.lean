import Bpp.Range
import Mathlib.Algebra.Ring.GeomSum
open Finset
namespace Bpp
open Model (WipProof RangeInst RangeProofM ProofM bitN)
variable {F : Type} [Field F]

/-- the `d` vector as both prover and verifier build it: `d[0] = z²`, `d[i] = 2·d[i−1]` for `i < n`,
    `d[j·n+i] = d[(j−1)·n+i]·z²` -/
def dCode (z : F) (n : ℕ) : ℕ → F
  | 0 => z ^ 2
  | (x+1) => if x + 1 < n then 2 * dCode z n x
             else if hn : n = 0 then 0 else dCode z n (x + 1 - n) * z ^ 2
decreasing_by
  all_goals simp_wf
  all_goals omega

theorem dCode_eq_dvec (z : F) (n : ℕ) (hn : 0 < n) (x : ℕ) : dCode z n x = dvec z n x := by
  induction x using Nat.strong_induction_on with
  | _ x ih =>
    cases x with
    | zero => simp [dCode, dvec, Nat.zero_div, Nat.zero_mod]
    | succ x =>
      rw [dCode]
      by_cases h : x + 1 < n
      · simp only [h, if_true]
        rw [ih x (by omega)]
        unfold dvec
        have hx : x < n := by omega
        rw [Nat.div_eq_of_lt hx, Nat.div_eq_of_lt h, Nat.mod_eq_of_lt hx, Nat.mod_eq_of_lt h]
        ring
      · have hn0 : ¬ n = 0 := by omega
        simp only [h, if_false, hn0, dite_false]
        rw [ih (x + 1 - n) (by omega)]
        unfold dvec
        have hge : n ≤ x + 1 := by omega
        have h1 : (x + 1) / n = (x + 1 - n) / n + 1 := by
          rw [← Nat.sub_add_cancel hge] at *
          simp [Nat.add_div_right _ hn]
        have h2 : (x + 1) % n = (x + 1 - n) % n := by
          conv_lhs => rw [← Nat.sub_add_cancel hge]
          simp
        rw [h1, h2]
        ring

/-- the doubling loop for Σ_{j=1..m} z^{2j}: returns (sum, next power) after `k` iterations -/
def dSumLoop (z : F) : ℕ → F × F
  | 0 => (z ^ 2, z ^ 2)
  | (k+1) => let (s, t) := dSumLoop z k; (s + s * t, t * t)

theorem dSumLoop_eq (z : F) (k : ℕ) :
    dSumLoop z k = (∑ j ∈ range (2 ^ k), z ^ (2 * (j + 1)), z ^ (2 * 2 ^ k)) := by
  induction k with
  | zero => simp [dSumLoop]
  | succ k ih =>
    simp only [dSumLoop, ih]
    have h2 : 2 ^ (k + 1) = 2 ^ k + 2 ^ k := by ring
    refine Prod.ext ?_ ?_
    · simp only
      rw [h2, Finset.sum_range_add, Finset.sum_mul]
      congr 1
      apply Finset.sum_congr rfl; intro j _
      rw [← pow_add]; congr 1; ring
    · simp only
      rw [← pow_add]; congr 1; ring

/-- Σ of the `d` vector over all `n·m` positions -/
theorem sum_dvec (z : F) (n m : ℕ) (hn : 0 < n) :
    ∑ x ∈ range (n * m), dvec z n x = (2 ^ n - 1) * ∑ j ∈ range m, z ^ (2 * (j + 1)) := by
  rw [Nat.mul_comm, sum_range_mul', Finset.mul_sum]
  apply Finset.sum_congr rfl; intro j _
  have : ∀ i ∈ range n, dvec z n (j * n + i) = z ^ (2 * (j + 1)) * 2 ^ i :=
    fun i hi => dvec_at z n hn j i (Finset.mem_range.mp hi)
  rw [Finset.sum_congr rfl this, ← Finset.mul_sum]
  have hg : ∑ i ∈ range n, (2 : F) ^ i = 2 ^ n - 1 := by
    have := geom_sum_mul (2 : F) n
    linear_combination this
  rw [hg]; ring

/-- the coded `d_sum`: doubling loop `log₂ m` times, then `· (2ⁿ − 1)` -/
theorem dSum_code (z : F) (n k : ℕ) (hn : 0 < n) :
    (dSumLoop z k).1 * (2 ^ n - 1) = ∑ x ∈ range (n * 2 ^ k), dvec z n x := by
  rw [dSumLoop_eq, sum_dvec z n (2 ^ k) hn]; ring

/-- the coded `y_sum = y·(y^N − 1)·(y − 1)⁻¹` -/
theorem ySum_code (y : F) (hy1 : y ≠ 1) (N : ℕ) :
    y * (y ^ N - 1) * (y - 1)⁻¹ = ∑ i ∈ range N, y ^ (i + 1) := by
  have h : y - 1 ≠ 0 := sub_ne_zero.mpr hy1
  have hg := geom_sum_mul y N
  have : ∑ i ∈ range N, y ^ (i + 1) = y * ∑ i ∈ range N, y ^ i := by
    rw [Finset.mul_sum]; apply Finset.sum_congr rfl; intro i _; ring
  rw [this]
  field_simp
  linear_combination (-y) * hg

/-- the running powers the verifier keeps: `y^N·(y⁻¹)^i = y^(N−i)` -/
theorem yNm_code (y : F) (hy : y ≠ 0) (N i : ℕ) (hi : i ≤ N) : y ^ N * (y⁻¹) ^ i = y ^ (N - i) := by
  rw [inv_pow, ← Nat.sub_add_cancel hi, pow_add, Nat.add_sub_cancel]
  field_simp

end Bpp
