import Model.Alg
import Model.Range
import Model.Field
import Model.Wire
import Model.Codec
import Model.Transcript
import Model.Batch
import Model.Ctors
import Model.Gens
import Model.Nonce
import Model.Lifecycle
import Model.VerifierScalars
open Model Model.Wire

/-- build the statement-side instance from generator basis ids -/
def mkInst (m : List (String × String)) : Option (RangeInst Fl SVec) := do
  let n ← (← get m "n").toNat?
  let mm ← (← get m "m").toNat?
  let t ← (← get m "t").toNat?
  let G ← natList (← get m "G")
  let H ← natList (← get m "H")
  let hb ← (← get m "hb").toNat?
  let Gb ← natList (← get m "Gb")
  let V ← vecList ((get m "V").getD "-")
  let p ← natList ((get m "p").getD "-")
  pure { n := n, m := mm, t := t
         G := fun i => SVec.basis ((listFn G) i), H := fun i => SVec.basis ((listFn H) i)
         hb := SVec.basis hb, Gb := fun k => SVec.basis ((listFn Gb) k)
         V := listFn V, p := fun j => ((listFn p j : Nat) : Fl) }

def cmdProve (m : List (String × String)) : Option String := do
  let I ← mkInst m
  let v ← natList (← get m "v")
  let p ← natList (← get m "p")
  let r ← scalarRows (← get m "r")
  let alpha ← scalarList (← get m "alpha")
  let dL ← scalarRows (← get m "dL")
  let dR ← scalarRows (← get m "dR")
  let rr ← scalarOfHex (← get m "rr")
  let ss ← scalarOfHex (← get m "ss")
  let d ← scalarList (← get m "d")
  let eta ← scalarList (← get m "eta")
  let y ← scalarOfHex (← get m "y")
  let z ← scalarOfHex (← get m "z")
  let es ← scalarList (← get m "es")
  let e ← scalarOfHex (← get m "e")
  let π := (rangeProve I (listFn v) (listFn p) (rowsFn r) (listFn alpha) (rowsFn dL) (rowsFn dR) rr ss
              (listFn d) (listFn eta) y z es e).toProofM
  pure s!"A={strOfVec π.A} A1={strOfVec π.A1} B={strOfVec π.B} L={strOfVecs π.Ls} R={strOfVecs π.Rs} r1={hexOfScalar π.r1} s1={hexOfScalar π.s1} d1={strOfScalars ((List.range I.t).map π.d1)}"

def mkProof (m : List (String × String)) : Option (ProofM Fl SVec) := do
  let A ← vecOfStr (← get m "A")
  let A1 ← vecOfStr (← get m "A1")
  let B ← vecOfStr (← get m "B")
  let Ls ← vecList (← get m "L")
  let Rs ← vecList (← get m "R")
  let r1 ← scalarOfHex (← get m "r1")
  let s1 ← scalarOfHex (← get m "s1")
  let d1 ← scalarList (← get m "d1")
  pure { A := A, A1 := A1, B := B, Ls := Ls, Rs := Rs, r1 := r1, s1 := s1, d1 := listFn d1 }

/-- coded contribution and reference residual of one proof -/
def cmdVerify (m : List (String × String)) : Option String := do
  let I ← mkInst m
  let π ← mkProof m
  let y ← scalarOfHex (← get m "y")
  let z ← scalarOfHex (← get m "z")
  let es ← scalarList (← get m "es")
  let e ← scalarOfHex (← get m "e")
  let w ← scalarOfHex (← get m "w")
  let code := codeContribution I π y z es e w
  let spec := specResidual I π y z es e
  pure s!"code={strOfVec code} spec={strOfVec spec}"

def cmdRecover (m : List (String × String)) : Option String := do
  let N ← (← get m "N").toNat?
  let t ← (← get m "t").toNat?
  let alpha ← scalarList (← get m "alpha")
  let dL ← scalarRows (← get m "dL")
  let dR ← scalarRows (← get m "dR")
  let d ← scalarList (← get m "d")
  let eta ← scalarList (← get m "eta")
  let y ← scalarOfHex (← get m "y")
  let z ← scalarOfHex (← get m "z")
  let es ← scalarList (← get m "es")
  let e ← scalarOfHex (← get m "e")
  let d1 ← scalarList (← get m "d1")
  let mask := (List.range t).map (recoverMask N (listFn alpha) (listFn d) (listFn eta) (rowsFn dL) (rowsFn dR) y z es e (listFn d1))
  pure s!"mask={strOfScalars mask}"

def parseMember (s : String) : Option Batch.Member :=
  match (s.splitOn ",").mapM String.toNat? with
  | some [n, t, m, ped, d1, rounds, fit, pts, valid, seeded] =>
    some { n := n, t := t, m := m, ped := ped, d1 := d1, rounds := rounds, promisesFit := fit != 0,
           pointsOk := pts != 0, valid := valid != 0, seeded := seeded != 0 }
  | _ => none

def cmdBatch (m : List (String × String)) : Option String := do
  let c ← (← get m "c").toNat?
  let a ← match (← get m "action") with
    | "verifyOnly" => some Batch.Action.verifyOnly
    | "recoverAndVerify" => some Batch.Action.recoverAndVerify
    | "recoverOnly" => some Batch.Action.recoverOnly
    | _ => none
  let nT ← (← get m "nT").toNat?
  let nP ← (← get m "nP").toNat?
  let ms ← (splitOn' (← get m "members") "/").mapM parseMember
  match Batch.verifyBatch c a nT nP ms with
  | none => pure "err"
  | some r => pure s!"ok masks={if r.isEmpty then "-" else String.ofList (r.map (fun b => if b then '1' else '0'))}"

def cmdDecode (m : List (String × String)) : Option String := do
  let h ← get m "hex"
  let bs ← if h == "-" then some [] else hexToBytes h
  let deg := match Codec.degreeOf bs with
    | none => "err"
    | some d => toString d
  match Codec.decode bs with
  | none => pure s!"err deg={deg}"
  | some p => pure s!"ok reenc={bytesToHex (Codec.encode p)} rounds={p.li.length} tag={p.tag} deg={deg}"

open Model.Transcript in
def evOfStr (t : String) : Option Event :=
  match t.splitOn "." with
  | ["a", l, msg] => do
    let lb ← hexToBytes l
    let mb ← hexToBytes msg
    pure (Event.append (String.ofList (lb.map (fun b => Char.ofNat b.toNat))) mb)
  | ["c", l, n] => do
    let lb ← hexToBytes l
    pure (Event.challenge (String.ofList (lb.map (fun b => Char.ofNat b.toNat))) (← n.toNat?))
  | _ => none

open Model.Transcript in
def strOfEv : Event → String
  | .append l m => s!"a.{bytesToHex l.toUTF8.toList}.{bytesToHex m}"
  | .challenge l n => s!"c.{bytesToHex l.toUTF8.toList}.{n}"

open Model.Transcript in
def cmdEvents (m : List (String × String)) : Option String := do
  let nat (k : String) : Option Nat := do (← get m k).toNat?
  let bytes (k : String) : Option (List UInt8) := do hexToBytes (← get m k)
  let ctx ← (splitOn' (← get m "ctx") ",").mapM evOfStr
  let gb ← (splitOn' (← get m "gb") ",").mapM hexToBytes
  let cs ← (splitOn' (← get m "cs") ",").mapM hexToBytes
  let ps ← natList (← get m "ps")
  let lrs ← (splitOn' (← get m "lrs") ",").mapM (fun s =>
    match s.splitOn ":" with
    | [l, r] => do pure ((← hexToBytes l), (← hexToBytes r))
    | _ => none)
  let d1 ← (splitOn' (← get m "d1") ",").mapM hexToBytes
  let x : Pub := { hb := (← bytes "hb"), gb := gb, n := (← nat "n"), t := (← nat "t"), m := (← nat "m"), cs := cs, ps := ps }
  let A ← bytes "A"
  let a1 ← bytes "A1"
  let b ← bytes "B"
  let r1 ← bytes "r1"
  let s1 ← bytes "s1"
  let who ← get m "who"
  let evs := if who == "prover" then beforeFinal ctx x A lrs a1 b ++ [Event.challenge "e" 64]
    else fullEvents ctx x A lrs a1 b r1 s1 d1
  pure s!"ev={",".intercalate ((evs.drop ctx.length).map strOfEv)}"

def kindOf (s : String) : Option Gens.Kind := if s == "G" then some .G else if s == "H" then some .H else none

def cmdGenblock (m : List (String × String)) : Option String := do
  let k ← kindOf (← get m "kind")
  let party ← (← get m "party").toNat?
  let idx ← (← get m "idx").toNat?
  pure s!"label={bytesToHex (Gens.chainLabel k party)} offset={Gens.chainOffset idx}"

/-- ops: `n` = next, `h` = size_hint, `t<j>` = nth(j); reply: item as `party.idx`, `-` for None, `h<size>` -/
def cmdGeniter (m : List (String × String)) : Option String := do
  let n ← (← get m "n").toNat?
  let mm ← (← get m "m").toNat?
  let ops := (← get m "ops").splitOn ","
  let show_ := fun (o : Option (Nat × Nat)) => match o with | some (p, i) => s!"{p}.{i}" | none => "-"
  let rec go (ops : List String) (s : Gens.It) (acc : List String) : Option (List String) :=
    match ops with
    | [] => some acc.reverse
    | op :: rest =>
      if op == "n" then let (s', o) := s.next; go rest s' (show_ o :: acc)
      else if op == "h" then go rest s (s!"h{s.sizeHint}" :: acc)
      else if op.startsWith "t" then
        match (op.drop 1).toNat? with
        | some j => let (s', o) := Gens.It.nth j s; go rest s' (show_ o :: acc)
        | none => none
      else none
  let outs ← go ops (Gens.It.start n mm) []
  pure s!"out={",".intercalate outs}"

/-- how strongly a member is bound into the batch weights: bits of its digest in the weight transcript -/
def cmdWeightbind (m : List (String × String)) : Option String := do
  let k ← (← get m "k").toNat?
  pure s!"bits={8 * Transcript.weightDigestBytes} appends={(Transcript.weightEvents (List.replicate k [])).length}"

/-- the space the batch weights are drawn from: wide reduction of `scalarDrawBytes` bytes, i.e. the whole field -/
def cmdWeightratio (_ : List (String × String)) : Option String :=
  some s!"drawbytes={Model.scalarDrawBytes} fieldbits=253"

def cmdTableorder (m : List (String × String)) : Option String := do
  let bits ← (← get m "bits").toNat?
  let cap ← (← get m "cap").toNat?
  let gs := Gens.tableOrder bits cap
  pure s!"order={",".intercalate (gs.map (fun g => s!"{bytesToHex (Gens.chainLabel g.kind g.party)}.{Gens.chainOffset g.idx}"))}"

def cmdPedlabels (_ : List (String × String)) : Option String :=
  some s!"labels={",".intercalate ((List.range 6).map (fun k => bytesToHex (Gens.pedersenLabel k)))}"

open Model.Nonce in
def posOfStr (s : String) : Option Pos :=
  match s.splitOn "." with
  | ["alpha", k] => k.toNat?.map Pos.alpha
  | ["dL", j, k] => do pure (Pos.dL (← j.toNat?) (← k.toNat?))
  | ["dR", j, k] => do pure (Pos.dR (← j.toNat?) (← k.toNat?))
  | ["r"] => some Pos.r
  | ["s"] => some Pos.s
  | ["d", k] => k.toNat?.map Pos.d
  | ["eta", k] => k.toNat?.map Pos.eta
  | _ => none

open Model.Nonce in
def cmdNoncesrc (m : List (String × String)) : Option String := do
  let seeded := (← (← get m "seeded").toNat?) != 0
  let t ← (← get m "t").toNat?
  let κ ← (← get m "rounds").toNat?
  let p ← posOfStr (← get m "pos")
  match source seeded t κ p with
  | .rng i d => pure s!"src=rng.{i}.{d}"
  | .seed l _ _ => pure s!"src=seed.{l}"

open Model.Nonce in
def cmdNoncekey (m : List (String × String)) : Option String := do
  let seed ← hexToBytes (← get m "seed")
  let p ← posOfStr (← get m "pos")
  match source true 0 0 p with
  | .seed l j k => pure s!"key={bytesToHex (nonceKey seed j k)} persona={bytesToHex l.toUTF8.toList}"
  | .rng _ _ => pure "src=rng"

open Model.Nonce in
def cmdWitnessbytes (m : List (String × String)) : Option String := do
  let vs ← natList (← get m "v")
  let rs ← (splitOn' (← get m "r") "/").mapM (fun row => (splitOn' row ",").mapM hexToBytes)
  pure s!"bytes={bytesToHex (witnessBytes (vs.zip rs))}"

open Model.Transcript Model.Nonce in
def cmdRnghist (m : List (String × String)) : Option String := do
  let nat (k : String) : Option Nat := do (← get m k).toNat?
  let bytes (k : String) : Option (List UInt8) := do hexToBytes (← get m k)
  let ctx ← (splitOn' (← get m "ctx") ",").mapM evOfStr
  let gb ← (splitOn' (← get m "gb") ",").mapM hexToBytes
  let cs ← (splitOn' (← get m "cs") ",").mapM hexToBytes
  let ps ← natList (← get m "ps")
  let lrs ← (splitOn' (← get m "lrs") ",").mapM (fun s =>
    match s.splitOn ":" with
    | [l, r] => do pure ((← hexToBytes l), (← hexToBytes r))
    | _ => none)
  let x : Pub := { hb := (← bytes "hb"), gb := gb, n := (← nat "n"), t := (← nat "t"), m := (← nat "m"), cs := cs, ps := ps }
  let hs := rngHistories ctx x (← bytes "A") lrs (← bytes "A1") (← bytes "B")
  pure s!"hists={"|".intercalate (hs.map (fun h => ",".intercalate ((h.drop ctx.length).map strOfEv)))}"

def cmdLifecycle (m : List (String × String)) : Option String := do
  let nat (k : String) : Option Nat := do (← get m k).toNat?
  let fixed := (← nat "fixed") != 0
  let seeded := (← nat "seeded") != 0
  let mm ← nat "m"
  let t ← nat "t"
  let κ ← nat "rounds"
  match (← get m "op") with
  | "prove" => pure s!"unwiped={Lifecycle.unwiped (Lifecycle.proveBufs fixed seeded mm t κ)}"
  | "recover" => pure s!"unwiped={if seeded then Lifecycle.unwiped (Lifecycle.recoverBufs fixed t κ) else 0}"
  | _ => none

def cmdFields (m : List (String × String)) : Option String := do
  let bs ← hexToBytes (← get m "hex")
  match Codec.decode bs with
  | none => pure "err"
  | some p =>
    let sc (x : Nat) : String := bytesToHex (natToLe 32 x)
    pure s!"ok tag={p.tag} d1={",".intercalate (p.d1.map sc)} a={bytesToHex p.a} a1={bytesToHex p.a1} b={bytesToHex p.b} r1={sc p.r1} s1={sc p.s1} li={",".intercalate (p.li.map bytesToHex)} ri={",".intercalate (p.ri.map bytesToHex)}"

def cmdEncode (m : List (String × String)) : Option String := do
  let tag ← (← get m "tag").toNat?
  let d1 ← (splitOn' (← get m "d1") ",").mapM (fun h => (hexToBytes h).map leNat)
  let a ← hexToBytes (← get m "a")
  let a1 ← hexToBytes (← get m "a1")
  let b ← hexToBytes (← get m "b")
  let r1 ← (hexToBytes (← get m "r1")).map leNat
  let s1 ← (hexToBytes (← get m "s1")).map leNat
  let li ← (splitOn' (← get m "li") ",").mapM hexToBytes
  let ri ← (splitOn' (← get m "ri") ",").mapM hexToBytes
  pure s!"hex={bytesToHex (Codec.encode { tag := tag, d1 := d1, a := a, a1 := a1, b := b, r1 := r1, s1 := s1, li := li, ri := ri })}"

def cmdVscalars (m : List (String × String)) : Option String := do
  let nat (k : String) : Option Nat := do (← get m k).toNat?
  let n ← nat "n"
  let mm ← nat "m"
  let t ← nat "t"
  let cap ← nat "cap"
  let p ← natList (← get m "p")
  let r1 ← scalarOfHex (← get m "r1")
  let s1 ← scalarOfHex (← get m "s1")
  let d1 ← scalarList (← get m "d1")
  let y ← scalarOfHex (← get m "y")
  let z ← scalarOfHex (← get m "z")
  let es ← scalarList (← get m "es")
  let e ← scalarOfHex (← get m "e")
  let w ← scalarOfHex (← get m "w")
  let ps := proofScalars n mm t (fun j => ((listFn p j : Nat) : Fl)) r1 s1 (listFn d1) y z es e w
  let pad := 2 * n * cap - 2 * n * mm
  pure s!"static={strOfScalars (staticScalars ps.gi ps.hi pad)} dynamic={strOfScalars (ps.dyn ++ (ps.gb ++ [ps.hb]))}"

/-- the whole chunk as coded: accumulated static vectors, concatenated dynamic scalars, accumulated Pedersen scalars -/
def cmdBscalars (m : List (String × String)) : Option String := do
  let nat (k : String) : Option Nat := do (← get m k).toNat?
  let n ← nat "n"
  let t ← nat "t"
  let maxN ← nat "maxN"
  let pad ← nat "pad"
  let members ← (splitOn' (← get m "members") "|").mapM (fun s =>
    match s.splitOn ";" with
    | [mm, p, r1, s1, d1, y, z, es, e, w] => do
      let mm ← mm.toNat?
      let p ← natList p
      let d1 ← scalarList d1
      let es ← scalarList es
      pure (proofScalars n mm t (fun j => ((listFn p j : Nat) : Fl)) (← scalarOfHex r1) (← scalarOfHex s1) (listFn d1)
              (← scalarOfHex y) (← scalarOfHex z) es (← scalarOfHex e) (← scalarOfHex w))
    | _ => none)
  let gi := accumulate maxN (members.map (·.gi))
  let hi := accumulate maxN (members.map (·.hi))
  let dyn := (members.map (·.dyn)).flatten ++ (accumulate t (members.map (·.gb)) ++ [(members.map (·.hb)).foldl (· + ·) 0])
  pure s!"static={strOfScalars (staticScalars gi hi pad)} dynamic={strOfScalars dyn}"

/-- scalar-field operations of the driver's carrier, for direct comparison with curve25519-dalek's `Scalar` -/
def cmdFieldops (m : List (String × String)) : Option String := do
  let a ← scalarOfHex (← get m "a")
  let b ← scalarOfHex (← get m "b")
  let wb ← hexToBytes (← get m "wide")
  let w : Fl := ⟨leNat wb % ell⟩
  let n ← (← get m "n").toNat?
  pure s!"add={hexOfScalar (a + b)} sub={hexOfScalar (a - b)} mul={hexOfScalar (a * b)} neg={hexOfScalar (-a)} inv={hexOfScalar a⁻¹} wide={hexOfScalar w} pow={hexOfScalar (powF a n)} nat={hexOfScalar ((n : Nat) : Fl)}"

def cmdAscalars (m : List (String × String)) : Option String := do
  let nat (k : String) : Option Nat := do (← get m k).toNat?
  let n ← nat "n"
  let mm ← nat "m"
  let cap ← nat "cap"
  let v ← natList (← get m "v")
  let p ← natList (← get m "p")
  let st : List Fl := proverAStatic n mm (2 * n * cap - 2 * n * mm) (fun j => listFn v j - listFn p j)
  pure s!"static={strOfScalars st}"

def okerr (b : Bool) : String := if b then "ok" else "err"

def cmdCtor (m : List (String × String)) : Option String := do
  let nat (k : String) : Option Nat := do (← get m k).toNat?
  match (← get m "kind") with
  | "params" => pure (okerr (Ctors.paramsInit (← nat "bits") (← nat "cap")))
  | "statement" => pure (okerr (Ctors.statementInit (← nat "cap") (← nat "nc") (← nat "np") ((← nat "seed") != 0)))
  | "degree" => pure (okerr (Ctors.degreeOk (← nat "x")))
  | "witness" => pure (okerr (Ctors.witnessInit (← natList (← get m "rlens"))))
  | "mask" => pure (okerr (Ctors.maskAssign (← nat "deg") (← nat "len")))
  | "commit" => pure (okerr (Ctors.commitOk (← nat "deg") (← nat "nb")))
  | _ => none

def cmdGuards (m : List (String × String)) : Option String := do
  let nat (k : String) : Option Nat := do (← get m k).toNat?
  let ops ← (splitOn' (← get m "ops") "/").mapM (fun s =>
    match (s.splitOn ":").mapM String.toNat? with
    | some [v, rl, rp] => some ({ v := v, rlen := rl, reproduces := rp != 0 } : Ctors.Opening)
    | _ => none)
  let ps ← (splitOn' (← get m "promises") ",").mapM (fun s => if s == "x" then some none else s.toNat?.map some)
  pure (okerr (Ctors.proverGuards (← nat "bits") (← nat "tS") (← nat "tW") (← nat "nc") ops ps))

def step (line : String) : String :=
  let line := line.trimAscii.toString
  match line.splitOn " " with
  | cmd :: _ =>
    let m := kv line
    let r := match cmd with
      | "prove" => cmdProve m
      | "verify" => cmdVerify m
      | "recover" => cmdRecover m
      | "batch" => cmdBatch m
      | "decode" => cmdDecode m
      | "ctor" => cmdCtor m
      | "guards" => cmdGuards m
      | "events" => cmdEvents m
      | "genblock" => cmdGenblock m
      | "tableorder" => cmdTableorder m
      | "geniter" => cmdGeniter m
      | "weightbind" => cmdWeightbind m
      | "weightratio" => cmdWeightratio m
      | "pedlabels" => cmdPedlabels m
      | "noncesrc" => cmdNoncesrc m
      | "noncekey" => cmdNoncekey m
      | "witnessbytes" => cmdWitnessbytes m
      | "rnghist" => cmdRnghist m
      | "lifecycle" => cmdLifecycle m
      | "fields" => cmdFields m
      | "vscalars" => cmdVscalars m
      | "ascalars" => cmdAscalars m
      | "fieldops" => cmdFieldops m
      | "bscalars" => cmdBscalars m
      | "encode" => cmdEncode m
      | _ => none
    match r with
    | some s => s
    | none => "bad-request"
  | [] => "bad-request"

partial def loop (h : IO.FS.Stream) (out : IO.FS.Stream) : IO Unit := do
  let line ← h.getLine
  if line.isEmpty then return ()
  out.putStrLn (step line)
  out.flush
  loop h out

def main : IO Unit := do
  let stdin ← IO.getStdin
  let stdout ← IO.getStdout
  loop stdin stdout
