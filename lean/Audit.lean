import Bpp
open Bpp
#print axioms C01_spec_complete
#print axioms C01_code_accepts
#print axioms C02_contribution_eq
#print axioms C02_verdict_iff
#print axioms C02_residual_iff_recursive
#print axioms C02_response_r1_unique
#print axioms C02_response_d1_unique
