import Bpp
open Bpp
#print axioms C01_spec_complete
#print axioms C01_code_accepts
#print axioms C02_contribution_eq
#print axioms C02_verdict_iff
#print axioms C02_residual_iff_recursive
#print axioms C02_response_r1_unique
#print axioms C02_response_d1_unique
#print axioms C03_chunk_all_valid
#print axioms C03_chunk_one_invalid
#print axioms C03_chunk_at_most_one_weight
#print axioms C03_result_aligned
#print axioms C03_accept_iff
#print axioms C03_refuses
#print axioms C03_perm_chunk
#print axioms C03_prefix_defect
#print axioms C15_accept_iff
#print axioms C15_reencode
#print axioms C15_roundtrip
#print axioms C15_length
#print axioms C15_zero_rounds
