import Model.Alg
import Model.Range
import Model.Field
import Model.Wire
import Model.Codec
import Model.Transcript
import Model.Batch
import Model.Ctors
