#!/usr/bin/env python3
"""Regenerate MANIFEST.json from runner/props.py (claimed checks) and properties.jsonl (everything else -> not_applicable)."""
import json, os, sys
HERE = os.path.dirname(os.path.abspath(__file__))
sys.path.insert(0, HERE)
from props import PROPS, NOT_CLAIMED
VERIF = os.path.dirname(HERE)
ids = [json.loads(l)["id"] for l in open(os.path.join(VERIF, "properties.jsonl"))]
checks = []
for pid in ids:
    if pid not in PROPS:
        continue
    p = PROPS[pid]
    checks.append({
        "property_id": pid,
        "quick_cmd": "./check %s --tier quick" % pid,
        "thorough_cmd": "./check %s --tier thorough" % pid,
        "evidence_file": "/verif/evidence/%s.json" % pid,
        "replay_cmd_template": "./check replay {path}",
        "engine": "lean4+correspondence",
        "level_claimed": {"category": p["level"], "text": p["explanation"], "design_ref": "DESIGN.md §7 " + pid},
        "level_note": "; ".join(p.get("assumptions", [])),
        "technique": p.get("technique", "Lean 4 theorems about the executable model + differential correspondence model/code (free-module group, instrumented merlin)"),
    })
m = {
    "version": 1,
    "setup_cmd": "./check setup",
    "hooks": {
        "guard": "tari_project_bulletproofs_plus_verif",
        "enable": "none needed: observation happens at the dependency boundary (patched merlin, harness-supplied group, allocator) and through the public API",
        "baseline_off_cmd": "cd /repo && cargo test --workspace --no-fail-fast --offline",
        "source_commits": [],
        "add_only": True,
    },
    "engines": [{"name": "lean4+correspondence", "path": "/verif/check", "serves_properties": [c["property_id"] for c in checks],
                 "kind_free_text": "Lean 4 proofs (lean/Bpp) about an executable model (lean/Model, native driver) + Rust harness driving the real library over a free-module group and Ristretto with an instrumented merlin"}],
    "checks": checks,
    "not_applicable": [{"property_id": i, "reason": NOT_CLAIMED.get(i, "check not built yet in this round; planned in DESIGN.md §7")} for i in ids if i not in PROPS],
    "notes": "fix: commits in /repo: e4bc4a5 (C03 chunk loop), 4f759bf (C20 seed copy), 81701bf (C05 promise list length). Known findings: KNOWN_FINDINGS.txt.",
}
json.dump(m, open(os.path.join(VERIF, "MANIFEST.json"), "w"), indent=1)
print("claimed:", [c["property_id"] for c in checks])
