#!/usr/bin/env python3
"""Machinery self-test (development aid, not in MANIFEST): run checks against scratch copies of /repo with
 (a) every seeded defect under /verif/seeded  -> the property's check must report a violation,
 (b) every harmless rewrite under /verif/harmless -> every check must stay silent.
Scratch copies live under /var/tmp/bppverif.* and are removed, with their build output, as soon as a run ends.

  selftest.py seeds    [--checks own|all] [--only name,...] [--jobs N]
  selftest.py harmless [--only name,...] [--checks C01,C02|all] [--jobs N]
"""
import sys, os, json, subprocess, shutil, glob, time
from concurrent.futures import ThreadPoolExecutor

VERIF = os.path.dirname(os.path.dirname(os.path.abspath(__file__)))
ALL = ["C%02d" % i for i in range(1, 21)]
SNAP_HARNESS = None  # snapshot of the harness sources and of the driver taken when the run starts, so that work on
SNAP_DRIVER = None   # /verif can go on while a long self-test runs


def run_patch(tag, patch, checks):
    root = "/var/tmp/bppverif.%d.%s" % (os.getpid(), tag)
    shutil.rmtree(root, ignore_errors=True)
    os.makedirs(root)
    repo = os.path.join(root, "repo")
    res = {}
    try:
        subprocess.run(["git", "-C", "/repo", "worktree", "add", "-q", "--detach", repo, "HEAD"], check=True)
        if os.path.exists("/repo/Cargo.lock") and not os.path.exists(os.path.join(repo, "Cargo.lock")):
            shutil.copy("/repo/Cargo.lock", os.path.join(repo, "Cargo.lock"))
        p = subprocess.run(["git", "-C", repo, "apply", patch], capture_output=True, text=True)
        if p.returncode != 0:
            return tag, {"apply-failed": p.stderr[-300:]}
        drv = os.path.join(root, "bppdriver")
        shutil.copy(SNAP_DRIVER or os.path.join(VERIF, "lean", ".lake", "build", "bin", "bppdriver"), drv)
        env = dict(os.environ, VERIF_SKIP_OBLIGATIONS="1", VERIF_DRIVER_BIN=drv, VERIF_DRIVER=drv, VERIF_REPO=repo, VERIF_BUILD=os.path.join(root, "build"), VERIF_OUT=os.path.join(root, "out"), VERIF_NOLOCK="1")
        if SNAP_HARNESS:
            env["VERIF_HARNESS_SRC"] = SNAP_HARNESS
        for c in checks:
            t0 = time.time()
            q = subprocess.run([os.path.join(VERIF, "check"), c, "--tier", "quick"], capture_output=True, text=True, env=env, cwd=VERIF)
            first = next((l for l in q.stdout.split("\n") if l.startswith("  ")), "").strip()[:200]
            res[c] = {"rc": q.returncode, "first": first, "s": round(time.time() - t0, 1)}
    finally:
        subprocess.run(["git", "-C", "/repo", "worktree", "remove", "--force", repo], capture_output=True)
        shutil.rmtree(root, ignore_errors=True)
        subprocess.run(["git", "-C", "/repo", "worktree", "prune"], capture_output=True)
    return tag, res


def main():
    a = sys.argv[1:]
    mode = a[0] if a else "seeds"
    jobs = int(a[a.index("--jobs") + 1]) if "--jobs" in a else 4
    only = a[a.index("--only") + 1].split(",") if "--only" in a else None
    checks_arg = a[a.index("--checks") + 1] if "--checks" in a else ("own" if mode == "seeds" else "all")
    global SNAP_HARNESS, SNAP_DRIVER
    snap = "/var/tmp/bppverif.%d.snap" % os.getpid()
    shutil.rmtree(snap, ignore_errors=True)
    os.makedirs(snap)
    subprocess.run(["rsync", "-a", "--exclude", "Cargo.lock", os.path.join(VERIF, "harness") + "/", os.path.join(snap, "harness") + "/"], check=True)
    shutil.copy(os.path.join(VERIF, "lean", ".lake", "build", "bin", "bppdriver"), os.path.join(snap, "bppdriver"))
    SNAP_HARNESS, SNAP_DRIVER = os.path.join(snap, "harness"), os.path.join(snap, "bppdriver")
    record = "--record" in a
    tasks = []
    if mode == "seeds":
        for d in sorted(glob.glob(os.path.join(VERIF, "seeded", "*/"))):
            name = os.path.basename(d.rstrip("/"))
            if only and name not in only:
                continue
            if not os.path.exists(os.path.join(d, "meta.json")):
                continue  # a seed whose confirmation is still running
            meta = json.load(open(os.path.join(d, "meta.json")))
            checks = ALL if checks_arg == "all" else sorted(set([meta["property"]] + meta.get("caught_by", [])))
            tasks.append((name, os.path.join(d, "patch.diff"), checks))
    elif mode == "dir":
        for f in sorted(glob.glob(os.path.join(a[1], "*.diff"))):
            name = os.path.basename(f)[:-5]
            if only and name not in only:
                continue
            tasks.append((name, f, ALL if checks_arg in ("all", "own") else checks_arg.split(",")))
    else:
        for f in sorted(glob.glob(os.path.join(VERIF, "harmless", "*.diff"))):
            name = os.path.basename(f)[:-5]
            if only and name not in only:
                continue
            tasks.append((name, f, ALL if checks_arg == "all" else checks_arg.split(",")))
    out = {}
    with ThreadPoolExecutor(jobs) as ex:
        for tag, res in ex.map(lambda t: run_patch(*t), tasks):
            out[tag] = res
            line = " ".join("%s:%s" % (c, "VIOL" if r.get("rc") == 1 else ("ok" if r.get("rc") == 0 else "?")) for c, r in res.items() if isinstance(r, dict))
            print(tag, line, flush=True)
    json.dump(out, open(os.path.join(VERIF, ".build", "selftest_%s.json" % mode), "w"), indent=1)
    shutil.rmtree(snap, ignore_errors=True)
    if record and mode == "seeds":
        # write the outcome into the seeds' meta.json (field "checks", as confirm_seed.sh does)
        for tag, res in out.items():
            mp = os.path.join(VERIF, "seeded", tag, "meta.json")
            if os.path.exists(mp):
                meta = json.load(open(mp))
                old = {c.split(":")[0]: c for c in meta.get("checks", []) if isinstance(c, str) and ":" in c}
                for c, r in res.items():
                    if isinstance(r, dict):
                        old[c] = "%s:rc=%s" % (c, r.get("rc"))
                meta["checks"] = [old[k] for k in sorted(old)]
                meta.setdefault("first_lines", {}).update({c: r.get("first", "") for c, r in res.items() if isinstance(r, dict) and r.get("rc") == 1})
                json.dump(meta, open(mp, "w"), indent=1)
    for tag, res in out.items():
        for c, r in res.items():
            if isinstance(r, dict) and r.get("rc") == 1 and mode == "dir":
                print("  %s %s: %s" % (tag, c, r.get("first", "")[:160]))
    if mode == "dir":
        return 0
    if mode == "seeds":
        missed = [t for t, r in out.items() if not any(isinstance(x, dict) and x.get("rc") == 1 for x in r.values())]
        print("missed seeds:", missed)
        return 1 if missed else 0
    alarms = [(t, c, r["first"]) for t, res in out.items() for c, r in res.items() if isinstance(r, dict) and r.get("rc") != 0]
    print("false alarms:", alarms)
    return 1 if alarms else 0


if __name__ == "__main__":
    sys.exit(main())
