"""Property table: theorems to audit, scenarios to run, level and evidence texts."""

T = lambda *names: ["Bpp." + n for n in names]

COMMON_ASSUME = [
    "curve25519-dalek Scalar is the field of order l and Ristretto a module over it; MSM = sum s_i P_i (modelled, not verified)",
    "the model is tied to the code by the correspondence check on the sampled inputs of this run only",
]

PROPS = {
    "C01": {
        "level": "proof",
        "theorems": T("C01_spec_complete", "C01_code_accepts"),
        "leancheck": ["Bpp.Properties"],
        "scenarios": [{"name": "C01"}],
        "rule": "lattice over (bits, aggregation, capacity, extension degree, value class, seed, prover RNG kind); distinct = distinct lattice tuples, all with a real prove+verify",
        "explanation": "Lean theorems: honest proofs have zero reference residual and zero coded contribution for all sizes; tie: model prover reproduces every element of the library's proof over the free module, verifier residual = w * reference residual; oracle: prove/verify Ok in 3 modes over free module and Ristretto.",
        "assumptions": COMMON_ASSUME + ["non-degeneracy: challenges y not in {0,1}, e_j != 0 (probability 2^-252 events)"],
    },
    "C02": {
        "level": "proof",
        "theorems": T("C02_contribution_eq", "C02_verdict_iff", "C02_residual_iff_recursive", "C02_response_r1_unique", "C02_response_d1_unique"),
        "leancheck": ["Bpp.Properties"],
        "scenarios": [{"name": "C02"}],
        "rule": "single-element and structured mutations of accepted proofs over the free module; distinct = (bits, aggregation, degree, mutation kind)",
        "explanation": "Lean theorem: coded verifier contribution = w * reference residual for arbitrary proof elements; tie: tapped residual of the real verifier is a non-zero multiple of the model's reference residual and the verdict equals the reference verdict, on honest and mutated proofs.",
        "assumptions": COMMON_ASSUME + ["knowledge soundness of the reference Bulletproofs+ relation itself is the paper's theorem (discrete log + random oracle), not re-proved"],
    },
    "C03": {
        "level": "proof",
        "theorems": T("C03_chunk_all_valid", "C03_chunk_one_invalid", "C03_chunk_at_most_one_weight", "C03_result_aligned", "C03_accept_iff", "C03_refuses", "C03_perm_chunk", "C03_prefix_defect"),
        "leancheck": ["Bpp.BatchFlow", "Bpp.Properties"],
        "scenarios": [{"name": "C03"}],
        "rule": "batches over the free module assembled from a pool of valid/invalid templates (mixed aggregation, capacity, seeding); distinct = (batch size, composition kind, position of the odd member)",
        "explanation": "Lean theorems: batch control-flow model returns one aligned result per member and accepts iff well-formed and every member valid, for every chunk size, batch size and order; chunk algebra: all-valid => sum vanishes, one invalid => rejected, at most one cancelling weight. Tie: real Ok/Err and mask pattern equal the model's on every generated batch; oracle: real batch verdict = conjunction of real singleton verdicts, length k, i-th mask = i-th member's blinding.",
        "assumptions": COMMON_ASSUME + ["batch weights behave as a random oracle output (wrongful acceptance probability <= 1/l, theorem C03_chunk_at_most_one_weight)", "requires fix: commit e4bc4a5 in /repo"],
    },
    "C15": {
        "level": "proof",
        "theorems": T("C15_accept_iff", "C15_reencode", "C15_roundtrip", "C15_length", "C15_zero_rounds"),
        "leancheck": ["Bpp.CodecThm"],
        "scenarios": [{"name": "C15"}],
        "rule": "byte strings: structured (tag x rounds x length offsets), scalar slots at the canonical boundary, every length, random, and prover outputs; distinct = input classes x 10 (conservative)",
        "explanation": "Lean theorems (core Lean, all byte strings): decode b = some p <-> p well-formed and encode p = b; re-encoding identical; length formula; zero-round boundary. Tie: model decode/encode = from_bytes/to_bytes on every generated string; oracle: independent acceptance predicate, re-encode identity, serde/bincode accepts and produces the same strings, prover outputs round-trip (except the known finding bits=1, agg=1).",
        "assumptions": ["Scalar::from_canonical_bytes accepts exactly the 32-byte little-endian encodings below l (checked by the scalar-boundary class)", "compressed points are opaque 32-byte strings at decode time"],
    },
    "C06": {
        "level": "proof",
        "theorems": T("C06_guard_iff", "C06_range_guard", "C06_ok_verifies"),
        "leancheck": ["Bpp.CtorsThm"],
        "scenarios": [{"name": "C06"}],
        "rule": "per (bits, aggregation, position): valid boundaries and each single violation of the witness relation; distinct = (bits, aggregation, position, class)",
        "explanation": "Lean theorems: the prover's guards pass iff the documented witness relation holds (incl. the 64-bit shift special case), and then the proof has zero contribution (C01). Tie: real prove_with_rng Ok/Err = model guards on every case; oracle: Ok iff independently computed validity, Ok implies real verify Ok, no panic.",
        "assumptions": COMMON_ASSUME,
    },
    "C17": {
        "level": "proof",
        "theorems": T("C17_params", "C17_statement", "C17_witness", "C17_degree", "C17_mask", "C17_commit"),
        "leancheck": ["Bpp.CtorsThm"],
        "scenarios": [{"name": "C17"}],
        "rule": "exhaustive over the property's finite domain: bits 0..130 x capacity 0..130; capacity x commitments 0..17 x promise counts x seed; all u8 and a usize boundary set; all witness shapes up to 3 (4) openings x blinding counts 0..8; degree x length 0..8",
        "explanation": "Lean theorems: each coded constructor guard is equivalent to the documented domain; tie + oracle: real Ok/Err = model = independently written predicate on the complete finite domain, stored fields equal inputs, no panic.",
        "assumptions": ["usize::is_power_of_two modelled as 2^log2 x = x, x != 0 (std library, not verified)"],
    },
    "C04": {
        "level": "proof",
        "theorems": T("C04_data_yz", "C04_data_round", "C04_data_final", "C04_context", "C04_nested"),
        "leancheck": ["Model.Transcript"],
        "scenarios": [{"name": "C04"}],
        "rule": "lattice of configurations x every single-datum perturbation (context, initial state, H, each G_k, bit length, each commitment, each promise, commitment order, A, each L_j, each R_j, A1, B); distinct = (bits, aggregation, degree, datum kind)",
        "explanation": "Lean theorems (event model): the history in front of each challenge is an injective function of every datum absorbed so far and of the caller history; histories are nested. Tie: the real prover and verifier event sequences at the merlin boundary equal the model's prescribed sequence label by label, byte by byte (post-challenge absorptions compared as a set). Oracle: two real runs differing in one datum differ in every later challenge; a proof is rejected under any perturbed datum.",
        "assumptions": ["merlin/STROBE is a random oracle with injective framing of (label, length, message) (its documented contract)", "the instrumented merlin copy records exactly what is absorbed (STROBE code untouched)"],
    },
}
NOT_CLAIMED = {}
