"""Property table: theorems to audit, scenarios to run, level and evidence texts."""

T = lambda *names: ["Bpp." + n for n in names]

COMMON_ASSUME = [
    "curve25519-dalek Scalar is the field of order l and Ristretto a module over it; MSM = sum s_i P_i (modelled, not verified)",
    "the model is tied to the code by the correspondence check on the sampled inputs of this run only",
]

def _ped_labels(run_driver):
    """two-phase: the Pedersen labels come from the Lean model and are handed to the harness"""
    rep = run_driver(["pedlabels"])
    return [rep[0].split("labels=", 1)[1].strip()] if rep and "labels=" in rep[0] else ["-"]


PROPS = {
    "C01": {
        "level": "proof",
        "theorems": T("C01_spec_complete", "C01_code_accepts"),
        "leancheck": ["Bpp.Properties"],
        "scenarios": [{"name": "C01"}],
        "rule": "lattice over (bits, aggregation, capacity, extension degree, value class, seed, prover RNG kind); distinct = distinct lattice tuples, all with a real prove+verify",
        "explanation": "Lean theorems: honest proofs have zero reference residual and zero coded contribution for all sizes; tie: model prover reproduces every element of the library's proof over the free module, verifier residual = w * reference residual; oracle: prove/verify Ok in 3 modes over free module and Ristretto.",
        "assumptions": COMMON_ASSUME + ["non-degeneracy: challenges y not in {0,1}, e_j != 0 (probability 2^-252 events)"],
    },
    "C02": {
        "level": "proof",
        "theorems": T("C02_contribution_eq", "C02_verdict_iff", "C02_residual_iff_recursive", "C02_response_r1_unique", "C02_response_d1_unique"),
        "leancheck": ["Bpp.Properties"],
        "scenarios": [{"name": "C02"}],
        "rule": "single-element and structured mutations of accepted proofs over the free module; distinct = (bits, aggregation, degree, mutation kind)",
        "explanation": "Lean theorem: coded verifier contribution = w * reference residual for arbitrary proof elements; tie: tapped residual of the real verifier is a non-zero multiple of the model's reference residual and the verdict equals the reference verdict, on honest and mutated proofs.",
        "assumptions": COMMON_ASSUME + ["knowledge soundness of the reference Bulletproofs+ relation itself is the paper's theorem (discrete log + random oracle), not re-proved"],
    },
    "C03": {
        "level": "proof",
        "theorems": T("C03_chunk_all_valid", "C03_chunk_one_invalid", "C03_chunk_at_most_one_weight", "C03_result_aligned", "C03_accept_iff", "C03_refuses", "C03_perm_chunk", "C03_prefix_defect"),
        "leancheck": ["Bpp.BatchFlow", "Bpp.Properties"],
        "scenarios": [{"name": "C03"}],
        "rule": "batches over the free module assembled from a pool of valid/invalid templates (mixed aggregation, capacity, seeding); distinct = (batch size, composition kind, position of the odd member)",
        "explanation": "Lean theorems: batch control-flow model returns one aligned result per member and accepts iff well-formed and every member valid, for every chunk size, batch size and order; chunk algebra: all-valid => sum vanishes, one invalid => rejected, at most one cancelling weight. Tie: real Ok/Err and mask pattern equal the model's on every generated batch; oracle: real batch verdict = conjunction of real singleton verdicts, length k, i-th mask = i-th member's blinding.",
        "assumptions": COMMON_ASSUME + ["batch weights behave as a random oracle output (wrongful acceptance probability <= 1/l, theorem C03_chunk_at_most_one_weight)", "requires fix: commit e4bc4a5 in /repo"],
    },
    "C15": {
        "level": "proof",
        "theorems": T("C15_accept_iff", "C15_reencode", "C15_roundtrip", "C15_length", "C15_zero_rounds"),
        "leancheck": ["Bpp.CodecThm"],
        "scenarios": [{"name": "C15"}],
        "rule": "byte strings: structured (tag x rounds x length offsets), scalar slots at the canonical boundary, every length, random, and prover outputs; distinct = input classes x 10 (conservative)",
        "explanation": "Lean theorems (core Lean, all byte strings): decode b = some p <-> p well-formed and encode p = b; re-encoding identical; length formula; zero-round boundary. Tie: model decode/encode = from_bytes/to_bytes on every generated string; oracle: independent acceptance predicate, re-encode identity, serde/bincode accepts and produces the same strings, prover outputs round-trip (except the known finding bits=1, agg=1).",
        "assumptions": ["Scalar::from_canonical_bytes accepts exactly the 32-byte little-endian encodings below l (checked by the scalar-boundary class)", "compressed points are opaque 32-byte strings at decode time"],
    },
    "C06": {
        "level": "proof",
        "theorems": T("C06_guard_iff", "C06_range_guard", "C06_ok_verifies"),
        "leancheck": ["Bpp.CtorsThm"],
        "scenarios": [{"name": "C06"}],
        "rule": "per (bits, aggregation, position): valid boundaries and each single violation of the witness relation; distinct = (bits, aggregation, position, class)",
        "explanation": "Lean theorems: the prover's guards pass iff the documented witness relation holds (incl. the 64-bit shift special case), and then the proof has zero contribution (C01). Tie: real prove_with_rng Ok/Err = model guards on every case; oracle: Ok iff independently computed validity, Ok implies real verify Ok, no panic.",
        "assumptions": COMMON_ASSUME,
    },
    "C17": {
        "level": "proof",
        "theorems": T("C17_params", "C17_statement", "C17_witness", "C17_degree", "C17_mask", "C17_commit"),
        "leancheck": ["Bpp.CtorsThm"],
        "scenarios": [{"name": "C17"}],
        "rule": "exhaustive over the property's finite domain: bits 0..130 x capacity 0..130; capacity x commitments 0..17 x promise counts x seed; all u8 and a usize boundary set; all witness shapes up to 3 (4) openings x blinding counts 0..8; degree x length 0..8",
        "explanation": "Lean theorems: each coded constructor guard is equivalent to the documented domain; tie + oracle: real Ok/Err = model = independently written predicate on the complete finite domain, stored fields equal inputs, no panic.",
        "assumptions": ["usize::is_power_of_two modelled as 2^log2 x = x, x != 0 (std library, not verified)"],
    },
    "C04": {
        "level": "proof",
        "theorems": T("C04_data_yz", "C04_data_round", "C04_data_final", "C04_context", "C04_nested"),
        "leancheck": ["Model.Transcript"],
        "scenarios": [{"name": "C04"}],
        "rule": "lattice of configurations x every single-datum perturbation (context, initial state, H, each G_k, bit length, each commitment, each promise, commitment order, A, each L_j, each R_j, A1, B); distinct = (bits, aggregation, degree, datum kind)",
        "explanation": "Lean theorems (event model): the history in front of each challenge is an injective function of every datum absorbed so far and of the caller history; histories are nested. Tie: the real prover and verifier event sequences at the merlin boundary equal the model's prescribed sequence label by label, byte by byte (post-challenge absorptions compared as a set). Oracle: two real runs differing in one datum differ in every later challenge; a proof is rejected under any perturbed datum.",
        "assumptions": ["merlin/STROBE is a random oracle with injective framing of (label, length, message) (its documented contract)", "the instrumented merlin copy records exactly what is absorbed (STROBE code untouched)"],
    },
    "C07": {
        "level": "proof",
        "theorems": T("C07_shift", "C07_bind_single", "C07_bind_poly", "C07_promise_range", "C07_prover_boundary"),
        "leancheck": ["Bpp.PromiseThm"],
        "scenarios": [{"name": "C07"}],
        "rule": "lattice x every position j x substituted promise in {0, None, v, v+-1, p+-1, 2^n-1, 2^n, u64::MAX, 1, mid}; distinct = (bits, aggregation, position class, equal/different/too-large)",
        "explanation": "Lean theorems: a promise change shifts the reference residual by an explicit non-zero multiple of the value generator (binding for one commitment; root-of-polynomial in z^2 for aggregates, z drawn after the promises by C04); out-of-range promises refused; prover boundary. Tie: residual under substituted promises is a non-zero multiple of the model's reference residual; oracle: None==Some(0) in all modes and on the prover side, every non-equal substitution rejected, >= 2^bits refused, v==p proved, v<p refused.",
        "assumptions": COMMON_ASSUME + ["for aggregates binding is up to the <= m roots of a polynomial in z^2 (z is a random-oracle output drawn after the promises)"],
    },
    "C08": {
        "level": "proof",
        "theorems": T("C08_weight_nonzero", "C08_factor", "C08_no_cancel", "C08_weight_input"),
        "leancheck": ["Bpp.BatchThm"],
        "scenarios": [{"name": "C08"}],
        "rule": "batches of 2..4 valid proofs; every ordered pair (i,j) x every blinding coordinate: three-run adaptive cancellation attack; distinct = (bits, batch size, degree, coordinate)",
        "explanation": "Lean theorems: weights are non-zero; each member enters as weight x reference residual; at most one cancelling weight; the weight oracle's input determines every response scalar of every member. Oracle = the attack itself: factors read from the free-module residual on runs A and B, equal-and-opposite defects on run C must be rejected; factors non-zero, pairwise distinct and dependent on r1.",
        "assumptions": COMMON_ASSUME + ["weight derivation (merlin transcript RNG over 64 bits of each member's transcript RNG) is a random oracle"],
    },
    "C09": {
        "level": "proof",
        "theorems": T("C09_recover", "C09_positions"),
        "leancheck": ["Bpp.RecoveryThm"],
        "scenarios": [{"name": "C09"}],
        "rule": "bits {1..64} x degree 1..6 seeded single proofs with pairwise distinct blinding components, both recovering modes, 2 groups; random batches mixing seeded/unseeded/aggregated; distinct = (bits, degree) + batch sizes",
        "explanation": "Lean theorem: the recovery formula applied to the model prover's d1 returns the blinding vector for every bit length, degree, nonce family and challenge; result positions. Tie: model recovery on the real d1 (nonces read from the proof's coordinates, challenges from the merlin log) = the blinding; oracle: real masks = blindings in order, batch positions.",
        "assumptions": COMMON_ASSUME,
    },
    "C10": {
        "level": "proof",
        "theorems": T("C10_wrong_seed", "C10_verdict", "C10_modes"),
        "leancheck": ["Bpp.RecoveryThm", "Bpp.BatchFlow"],
        "scenarios": [{"name": "C10"}],
        "rule": "bits x degree x {valid, invalid proof} x seed {same, none, +1, zero, random} x 3 modes; distinct = that tuple",
        "explanation": "Lean theorems: recovered value under another nonce family = true mask + explicit linear form in nonce differences; verdict of the control-flow model independent of seeds and of the verifying mode; recover-only returns the same results as recover-and-verify when the latter succeeds. Oracle: verdict matrix on the real code, wrong seeds give Ok with every component different from the true mask.",
        "assumptions": COMMON_ASSUME + ["nonce differences under distinct seeds are non-zero: Blake2b-MAC as a PRF (outside the proof)"],
    },
    "C11": {
        "level": "proof",
        "theorems": T("C11_chain_inj", "C11_chain_ne_pedersen", "C11_pedersen_inj", "C11_table_positions", "C11_table_length"),
        "leancheck": ["Bpp.GensThm"],
        "scenarios": [{"name": "C11", "pre": _ped_labels}],
        "rule": "all (bits, capacity) in {1,2,4,8,16,32,64} x {1,2,4,8,16,32}, all extension degrees, every (kind, party, index) position (stride 7 in quick for the SHAKE tie); distinct = (bits, capacity) pairs + degrees",
        "explanation": "Lean theorems: label/offset scheme injective and domain-separated from the Pedersen labels, table position 2i/2i+1 = G_i/H_i, table length. Tie: SHAKE256 (independent implementation) of the model-emitted label at the model-emitted offset = the 64 bytes the library hashed to that generator (observed over the free module); table order = model order; Pedersen labels emitted by the model reproduce the real blinding generators. Oracle (exhaustive): accessors = Elligator(block) for every configuration, 4103 points pairwise distinct and non-identity, compressed forms, basepoint, determinism across constructions and threads.",
        "assumptions": ["SHAKE256, SHA3-512 and Elligator are not modelled; independence of the derived points (no known discrete-log relation) is their contract", "actual distinctness is checked on the finite table by the harness, not by a Lean theorem"],
    },
    "C12": {
        "level": "proof",
        "theorems": T("C12_aggIter_prefix", "C12_padding_neutral", "C12_padding_fills", "C12_verifier_prefix"),
        "leancheck": ["Bpp.GensThm"],
        "scenarios": [{"name": "C12"}],
        "rule": "bits x aggregation x every pair (c_p, c_v) in {m, 2m, 4m, 32}^2, plus mixed-capacity batches; distinct = (bits, aggregation, c_p, c_v)",
        "explanation": "Lean theorems: generator labels have no capacity argument and the iterator for m parties is a prefix of that for any larger capacity; zero padding up to the table size is neutral and always fills the table; the coded verifier depends on G, H only through their first n*m entries. Tie: residual under c_v != c_p is a non-zero multiple of the reference residual; oracle: all capacity pairs accepted on both groups, mixed batches accepted.",
        "assumptions": COMMON_ASSUME,
    },
    "C05": {
        "level": "proof",
        "theorems": T("C05_A1_unique", "C05_B_unique", "C05_A_unique", "C05_s1_unique", "C05_d1k_unique", "C02_response_r1_unique", "C04_data_final", "C07_bind_single"),
        "leancheck": ["Bpp.BindingThm"],
        "scenarios": [{"name": "C05"}],
        "rule": "accepted triples x every component position x replacement kinds (scalars: +1, random, zero, negated; points: bit flip, other point, identity, undecodable, swapped-in; rounds +-1; tag; commitments: replaced / encoding-only / point-only / reordered; promises; generators both/encoding/point; bit length; context), alone and inside a batch; both groups; distinct = (bits, aggregation, degree, component kind)",
        "explanation": "Lean theorems: every component is under a later challenge (C04) or has a unique accepting value at fixed challenges (r1, s1, d1_k, A, A1, B, promises) or is shape-checked. Oracle (the property itself, exhaustive over positions): every single alteration of an accepted triple returns an error value, never Ok, never a panic, on the free module and on Ristretto, alone and as a batch member.",
        "assumptions": COMMON_ASSUME + ["that a changed challenge makes the equation fail is the random-oracle step"],
    },
    "C13": {
        "level": "proof",
        "theorems": T("C13_schedule_inj", "C13_r_s_from_rng", "C13_key_inj", "C13_nonzero"),
        "leancheck": ["Bpp.NonceThm"],
        "scenarios": [{"name": "C13"}],
        "rule": "lattice x {seeded, unseeded} x prover RNG kinds; every nonce position read from the proof's coordinates over the free module; distinct = (bits, aggregation, degree, seeded)",
        "explanation": "Partial by nature: zero-knowledge itself is not proved. Lean theorems: the nonce schedule is injective (no draw or seed-derived value feeds two positions; r, s always from the RNG), the seed-key layout is injective, rejection sampling never returns 0. Tie: seed-derived nonces = Blake2b-MAC (independent implementation) of the model-emitted key/persona; RNG-derived nonces match logged transcript-RNG outputs injectively (exact draw index diagnostic only). Oracle: all nonces non-zero and pairwise distinct; runs with different randomness share none (unseeded) / exactly the seed-derived ones (seeded).",
        "assumptions": ["independence/unpredictability of distinct draws is the PRF/RO property of STROBE and Blake2b (outside the proof)", "nonces are observable only over the free-module group; Ristretto runs the same generic code"],
    },
    "C14": {
        "level": "proof",
        "theorems": T("C14_rng_input_inj", "C04_data_final", "C13_schedule_inj"),
        "leancheck": ["Bpp.NonceThm"],
        "scenarios": [{"name": "C14"}],
        "rule": "RNG-construction relation on the lattice + fault models {all-zero, constant, period-2, replayed} x pairs of runs differing in exactly one of context, promise, blinding vector (same commitment), value (same commitment); distinct = (bits, aggregation, degree) + (fault, bits)",
        "explanation": "Partial: that STROBE keyed with the witness is a PRF is outside the proof. Lean theorems: every RNG instance's construction input determines the forked history, the witness bytes and the external bytes (so differing runs have differing inputs whatever the external RNG returns). Tie: logged build_rng/rekey/finalize events = model (witness serialisation byte for byte, forked histories equal the model's prefixes, one rebuild per transcript update, draws from the latest instance). Oracle (fault injection): under each faulty external RNG, identical runs are reproducible and runs differing in one datum share no RNG output.",
        "assumptions": ["STROBE keyed with the witness bytes is a PRF (outside the proof)", "degenerate Pedersen generators built through the public fields are used only to obtain two witnesses of one commitment"],
    },
}
NOT_CLAIMED = {}
