#!/bin/bash
# Confirm a seeded defect delivered by a sub-agent in its scratch worktree /tmp/mut/<id> (deliverables in /tmp/mut/out/<id>):
#  (1) with the change the full baseline passes, (2) the demo fails with the change, (3) the demo passes without it.
# Then run the /verif checks named on the command line against it (applied to /repo and undone straight afterwards),
# store /verif/seeded/<name>/{patch.diff,demo,meta.json} and remove the worktree with its build output.
# usage: confirm_seed.sh <worktree-id> <seed-name> <property> <check ids...>
set -u
ID=$1; NAME=$2; PROP=$3; shift 3
W=/tmp/mut/$ID; O=/tmp/mut/out/$ID; S=/verif/seeded/$NAME
export CARGO_NET_OFFLINE=true CARGO_TARGET_DIR=$W/target
mkdir -p $S; LOG=$S/confirm.log; : > $LOG
DEMO=$(ls $O/*.rs | head -1); DEMON=$(basename $DEMO .rs)
if [ "${RECHECK:-0}" = "1" ] && [ -f $S/meta.json ]; then
  BASE_OK=$(python3 -c "import json;print(json.load(open('$S/meta.json'))['baseline_ok_groups'])")
  WITH=$(python3 -c "import json;print(json.load(open('$S/meta.json'))['demo_rc_with_change'])")
  WITHOUT=$(python3 -c "import json;print(json.load(open('$S/meta.json'))['demo_rc_without_change'])")
else
cd $W && git checkout -q -- src && git apply $O/patch.diff && rm -f tests/$DEMON.rs
echo "== baseline with change (demo absent)" >> $LOG
cargo test --workspace --no-fail-fast --offline > $S/baseline_with.log 2>&1
grep -E "^test result|FAILED|failed" $S/baseline_with.log >> $LOG
BASE_OK=$(grep -c "^test result: ok" $S/baseline_with.log)
BASE_BAD=$(grep -c "^test result: FAILED" $S/baseline_with.log)
[ "$BASE_BAD" != "0" ] && BASE_OK=0
echo "baseline ok groups: $BASE_OK" >> $LOG
cp $DEMO tests/$DEMON.rs
cargo test --offline --test $DEMON > $S/demo_with.log 2>&1; WITH=$?
git checkout -q -- src
cargo test --offline --test $DEMON > $S/demo_without.log 2>&1; WITHOUT=$?
echo "demo with change rc=$WITH, without rc=$WITHOUT" >> $LOG
cp $O/patch.diff $S/patch.diff; cp $DEMO $S/; [ -f $O/notes.md ] && cp $O/notes.md $S/notes.md
fi
DET=""
unset CARGO_TARGET_DIR
mkdir -p /verif/.build; exec 9>/verif/.build/repo.lock; flock 9; export VERIF_NOLOCK=1
if [ "${NOCHECKS:-0}" = "1" ]; then
  DET=""
elif git -C /repo diff --quiet; then
  git -C /repo apply $S/patch.diff
  for c in "$@"; do
    (cd /verif && ./check $c --tier quick > $S/check_$c.log 2>&1); rc=$?
    DET="$DET $c:rc=$rc"
  done
  git -C /repo checkout -- .
  flock -u 9
else
  DET="repo-dirty-skipped"
fi
echo "checks:$DET" >> $LOG
python3 - <<PY
import json
json.dump({"property":"$PROP","worktree_id":"$ID","baseline_ok_groups":$BASE_OK,"demo_rc_with_change":$WITH,"demo_rc_without_change":$WITHOUT,
 "confirmed": ($BASE_OK==3 and $WITH!=0 and $WITHOUT==0), "checks":"$DET".split(),
 "ran":["cargo test --workspace --no-fail-fast --offline (with change, 26+4+1 tests)","cargo test --offline --test $DEMON (with / without change)","./check <id> --tier quick with the patch applied to /repo"],
 "needs":"see notes.md"}, open("$S/meta.json","w"), indent=1)
PY
tail -n +1 $S/meta.json | head -20
