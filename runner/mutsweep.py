#!/usr/bin/env python3
"""Systematic mutation sweep (development aid, not in MANIFEST): syntactic mutants of /repo/src that still compile and
pass the crate's own test suite are run through the quick checks; a mutant no check reports is either equivalent or a
gap in the machinery, and is listed for analysis.

  mutsweep.py gen  <out.jsonl> [--max N] [--seed S]      enumerate candidate mutants (file, line, operator, new text)
  mutsweep.py run  <in.jsonl> <results.jsonl> [--jobs N] [--from I] [--to J]
Workers keep a scratch worktree and build directory each under /var/tmp/mutsweep (removed at the end).
"""
import sys, os, re, json, random, subprocess, shutil, time, threading, queue, glob

VERIF = os.path.dirname(os.path.dirname(os.path.abspath(__file__)))
ALL = ["C%02d" % i for i in range(1, 21)]
ROOT = "/var/tmp/mutsweep"

OPS = [
    ("add->sub", r"(?<=[\w\)\]]) \+ (?=[\w\(&\*-])", " - "),
    ("sub->add", r"(?<=[\w\)\]]) - (?=[\w\(&\*])", " + "),
    ("mul->add", r"(?<=[\w\)\]]) \* (?=[\w\(&-])", " + "),
    ("addassign->subassign", r" \+= ", " -= "),
    ("subassign->addassign", r" -= ", " += "),
    ("mulassign->addassign", r" \*= ", " += "),
    ("lt->le", r" < (?=[\w\(])", " <= "),
    ("le->lt", r" <= ", " < "),
    ("gt->ge", r" > (?=[\w\(])", " >= "),
    ("ge->gt", r" >= ", " > "),
    ("eq->ne", r" == ", " != "),
    ("ne->eq", r" != ", " == "),
    ("and->or", r" && ", " || "),
    ("or->and", r" \|\| ", " && "),
    ("zero->one", r"\b0\b(?!\.)", "1"),
    ("one->zero", r"\b1\b(?!\.)", "0"),
    ("one->two", r"\b1\b(?!\.)", "2"),
    ("two->one", r"\b2\b(?!\.)", "1"),
    ("true->false", r"\btrue\b", "false"),
    ("false->true", r"\bfalse\b", "true"),
    ("ZERO->ONE", r"Scalar::ZERO", "Scalar::ONE"),
    ("ONE->ZERO", r"Scalar::ONE", "Scalar::ZERO"),
    ("not-removed", r"(?<=[\(\s])!(?=[a-z_\(])", ""),
    ("question-unwrap-skip", r"\.saturating_sub\(", ".wrapping_sub("),
    ("checked->wrapping-add", r"\.checked_add\(([^\)]*)\)\s*\.ok_or\([^\)]*\)\?", r".wrapping_add(\1)"),
    ("skip1", r"\.skip\(1\)", ".skip(0)"),
    ("take-n", r"\.take\((\w+)\)", r".take(\1 - 1)"),
    ("rev-removed", r"\.rev\(\)", ""),
    ("min->max", r"\.min\(", ".max("),
    ("max->min", r"\.max\(", ".min("),
    ("is_some->is_none", r"\.is_some\(\)", ".is_none()"),
    ("is_none->is_some", r"\.is_none\(\)", ".is_some()"),
    ("is_empty-negated", r"(\w[\w\.]*)\.is_empty\(\)", r"!\1.is_empty()"),
]
DELETE_STMT = re.compile(r"^\s*(?!let |return |break|continue|use |pub |fn |impl |}|//|#)[\w\.\*&:<>\[\]]+(\.\w+)+\([^;]*\);\s*$")


def source_files():
    fs = []
    for f in sorted(glob.glob("/repo/src/**/*.rs", recursive=True)):
        if f.endswith("/lib.rs") or f.endswith("/errors.rs") or f.endswith("/mod.rs"):
            continue
        fs.append(f)
    return fs


def candidate_lines(path):
    lines = open(path).read().split("\n")
    out, in_tests, depth_block_comment = [], False, 0
    for i, ln in enumerate(lines):
        s = ln.strip()
        if s.startswith("#[cfg(test)]"):
            in_tests = True
        if in_tests:
            continue
        if not s or s.startswith("//") or s.startswith("#") or s.startswith("use ") or s.startswith("///") or s.startswith("*") or s.startswith("/*"):
            continue
        if '"' in s and ("Err(" in s or "format!" in s or "to_string" in s or "ProofError" in s) and not any(k in s for k in ("if ", "while ")):
            continue  # message text
        out.append((i, ln))
    return lines, out


def gen(outp, maxn, seed):
    rnd = random.Random(seed)
    muts = []
    for f in source_files():
        lines, cands = candidate_lines(f)
        for i, ln in cands:
            code = ln.split("//")[0]
            for name, pat, rep in OPS:
                ms = list(re.finditer(pat, code))
                if not ms:
                    continue
                m = rnd.choice(ms)
                new = code[:m.start()] + m.expand(rep) + code[m.end():] + ln[len(code):]
                if new != ln:
                    muts.append({"file": f[len("/repo/"):], "line": i + 1, "op": name, "old": ln, "new": new})
            if DELETE_STMT.match(code):
                muts.append({"file": f[len("/repo/"):], "line": i + 1, "op": "delete-statement", "old": ln, "new": re.match(r"\s*", ln).group(0) + "// (statement removed)"})
    # at most two mutants per line, then a stratified sample
    per = {}
    rnd.shuffle(muts)
    keep = []
    for m in muts:
        k = (m["file"], m["line"])
        per[k] = per.get(k, 0) + 1
        if per[k] <= 2:
            keep.append(m)
    if maxn and len(keep) > maxn:
        keep = rnd.sample(keep, maxn)
    keep.sort(key=lambda m: (m["file"], m["line"], m["op"]))
    with open(outp, "w") as fh:
        for k, m in enumerate(keep):
            m["id"] = k
            fh.write(json.dumps(m) + "\n")
    print("candidates:", len(muts), "kept:", len(keep))


def sh(cmd, cwd=None, env=None, timeout=3600):
    try:
        p = subprocess.run(cmd, cwd=cwd, env=env, capture_output=True, text=True, timeout=timeout)
        return p.returncode, p.stdout, p.stderr
    except subprocess.TimeoutExpired:
        return 124, "", "timeout"


def worker(wid, q, results, lock, snap):
    w = os.path.join(ROOT, "w%d" % wid)
    shutil.rmtree(w, ignore_errors=True)
    os.makedirs(w)
    repo = os.path.join(w, "repo")
    subprocess.run(["git", "-C", "/repo", "worktree", "add", "-q", "--detach", repo, "HEAD"], check=True)
    if os.path.exists("/repo/Cargo.lock"):
        shutil.copy("/repo/Cargo.lock", os.path.join(repo, "Cargo.lock"))
    tenv = dict(os.environ, CARGO_NET_OFFLINE="true", CARGO_TARGET_DIR=os.path.join(w, "target"))
    cenv = dict(os.environ, VERIF_SKIP_OBLIGATIONS="1", VERIF_DRIVER_BIN=os.path.join(snap, "bppdriver"), VERIF_DRIVER=os.path.join(snap, "bppdriver"), VERIF_REPO=repo,
                VERIF_BUILD=os.path.join(w, "build"), VERIF_OUT=os.path.join(w, "out"), VERIF_NOLOCK="1", VERIF_HARNESS_SRC=os.path.join(snap, "harness"))
    try:
        while True:
            try:
                m = q.get_nowait()
            except queue.Empty:
                break
            t0 = time.time()
            path = os.path.join(repo, m["file"])
            orig = open(path).read()
            lines = orig.split("\n")
            res = {"id": m["id"], "file": m["file"], "line": m["line"], "op": m["op"], "old": m["old"].strip(), "new": m["new"].strip()}
            if lines[m["line"] - 1] != m["old"]:
                res["status"] = "stale"
            else:
                lines[m["line"] - 1] = m["new"]
                open(path, "w").write("\n".join(lines))
                rc, out, err = sh(["cargo", "test", "--offline", "--workspace", "--no-fail-fast"], cwd=repo, env=tenv, timeout=1500)
                if rc == 124:
                    res["status"] = "tests-timeout"
                elif "error: could not compile" in err or "error[E" in err:
                    res["status"] = "does-not-compile"
                elif rc != 0:
                    res["status"] = "killed-by-tests"
                else:
                    res["status"] = "survives-tests"
                    caught = []
                    for c in ALL:
                        rc2, o2, e2 = sh([os.path.join(VERIF, "check"), c, "--tier", "quick"], cwd=VERIF, env=cenv, timeout=2400)
                        if rc2 != 0:
                            first = next((l for l in o2.split("\n") if l.startswith("  ")), "").strip()[:240]
                            caught.append({"check": c, "first": first})
                            if "--all-checks" not in sys.argv:
                                break
                    res["caught_by"] = caught
                    if not caught:
                        res["status"] = "survives-all"
                open(path, "w").write(orig)
            res["s"] = round(time.time() - t0, 1)
            with lock:
                results.write(json.dumps(res) + "\n")
                results.flush()
                print("[w%d] #%d %s:%d %s -> %s %s" % (wid, m["id"], m["file"], m["line"], m["op"], res["status"], (res.get("caught_by") or [{}])[0].get("check", "")), flush=True)
    finally:
        subprocess.run(["git", "-C", "/repo", "worktree", "remove", "--force", repo], capture_output=True)
        shutil.rmtree(w, ignore_errors=True)
        subprocess.run(["git", "-C", "/repo", "worktree", "prune"], capture_output=True)


def run(inp, outp, jobs, lo, hi):
    muts = [json.loads(l) for l in open(inp)]
    done = set()
    if os.path.exists(outp):
        done = {json.loads(l)["id"] for l in open(outp) if l.strip()}
    q = queue.Queue()
    for m in muts:
        if lo <= m["id"] < hi and m["id"] not in done:
            q.put(m)
    os.makedirs(ROOT, exist_ok=True)
    snap = os.path.join(ROOT, "snap")
    shutil.rmtree(snap, ignore_errors=True)
    os.makedirs(snap)
    subprocess.run(["rsync", "-a", "--exclude", "Cargo.lock", os.path.join(VERIF, "harness") + "/", os.path.join(snap, "harness") + "/"], check=True)
    shutil.copy(os.path.join(VERIF, "lean", ".lake", "build", "bin", "bppdriver"), os.path.join(snap, "bppdriver"))
    lock = threading.Lock()
    with open(outp, "a") as results:
        ts = [threading.Thread(target=worker, args=(i, q, results, lock, snap)) for i in range(jobs)]
        for t in ts:
            t.start()
        for t in ts:
            t.join()
    shutil.rmtree(ROOT, ignore_errors=True)


def main():
    a = sys.argv[1:]
    if a[0] == "gen":
        gen(a[1], int(a[a.index("--max") + 1]) if "--max" in a else 0, int(a[a.index("--seed") + 1]) if "--seed" in a else 1)
    elif a[0] == "run":
        run(a[1], a[2], int(a[a.index("--jobs") + 1]) if "--jobs" in a else 4, int(a[a.index("--from") + 1]) if "--from" in a else 0, int(a[a.index("--to") + 1]) if "--to" in a else 10 ** 9)


if __name__ == "__main__":
    main()
