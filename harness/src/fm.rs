//! Free-module "group": points are sparse coefficient vectors over named basis elements, scalars are dalek
//! `Scalar`s. The library's `RangeProof<P>` is generic in `P`, so it runs unmodified over this type and every
//! proof element, and the verifier's final multiscalar result, become readable coordinate by coordinate.
use std::{
    borrow::Borrow,
    cell::RefCell,
    collections::{BTreeMap, HashMap},
    ops::{Add, AddAssign, Mul},
    sync::Mutex,
};

use curve25519_dalek::{
    scalar::Scalar,
    traits::{Identity, MultiscalarMul, VartimeMultiscalarMul, VartimePrecomputedMultiscalarMul},
};
use sha3::{Digest, Sha3_256};
use subtle::{Choice, ConstantTimeEq};
use tari_bulletproofs_plus::{
    generators::pedersen_gens::ExtensionDegree,
    protocols::curve_point_protocol::CurvePointProtocol,
    traits::{Compressable, Decompressable, FixedBytesRepr, FromUniformBytes, Precomputable},
    PedersenGens,
};

#[derive(Clone, PartialEq, Debug, Default)]
pub struct FP(pub BTreeMap<u32, Scalar>);
#[derive(Clone, Copy, PartialEq, Debug)]
pub struct CFP(pub [u8; 32]);

static BASIS: Mutex<Option<HashMap<[u8; 64], u32>>> = Mutex::new(None);
static TABLE: Mutex<Option<HashMap<[u8; 32], FP>>> = Mutex::new(None);
thread_local! {
    /// every result of a precomputed-table MSM made on this thread since `tap_start` (the verifier's residuals)
    static RESIDUALS: RefCell<Option<Vec<FP>>> = RefCell::new(None);
    /// (static scalars, dynamic scalars, table size) of every precomputed-table MSM since `tap_start`
    static MSM_INPUTS: RefCell<Vec<(Vec<Scalar>, Vec<Scalar>, usize)>> = RefCell::new(Vec::new());
    /// number of plain (not precomputed-table) multiscalar products since `tap_start`
    static PLAIN_MSMS: std::cell::Cell<usize> = std::cell::Cell::new(0);
}

pub fn tap_start() {
    RESIDUALS.with(|l| *l.borrow_mut() = Some(Vec::new()));
    MSM_INPUTS.with(|l| l.borrow_mut().clear());
    PLAIN_MSMS.with(|c| c.set(0));
}
pub fn plain_msm_count() -> usize {
    PLAIN_MSMS.with(|c| c.get())
}
/// the tapped precomputed-table MSM is the whole final check of a verification call only if it is the only
/// multiscalar product the call made
pub fn tap_is_whole_check() -> bool {
    plain_msm_count() == 0 && MSM_INPUTS.with(|l| l.borrow().len()) == 1
}
pub fn msm_inputs() -> Vec<(Vec<Scalar>, Vec<Scalar>, usize)> {
    MSM_INPUTS.with(|l| l.borrow().clone())
}
pub fn tap_take() -> Vec<FP> {
    RESIDUALS.with(|l| l.borrow_mut().take().unwrap_or_default())
}
/// 64-byte inputs seen by `from_uniform_bytes`, with the basis id each was given
pub fn basis_inputs() -> Vec<([u8; 64], u32)> {
    let g = BASIS.lock().unwrap();
    let mut v: Vec<_> = g.as_ref().map(|m| m.iter().map(|(k, v)| (*k, *v)).collect()).unwrap_or_default();
    v.sort_by_key(|x| x.1);
    v
}

impl FP {
    pub fn norm(mut self) -> Self {
        self.0.retain(|_, v| *v != Scalar::ZERO);
        self
    }
    pub fn axpy(&mut self, s: &Scalar, p: &FP) {
        for (k, v) in &p.0 {
            *self.0.entry(*k).or_insert(Scalar::ZERO) += s * v;
        }
    }
    pub fn basis(id: u32) -> FP {
        let mut p = FP::default();
        p.0.insert(id, Scalar::ONE);
        p
    }
    pub fn coord(&self, id: u32) -> Scalar {
        self.0.get(&id).copied().unwrap_or(Scalar::ZERO)
    }
    /// the single basis id of a generator point
    pub fn single_id(&self) -> Option<u32> {
        if self.0.len() == 1 {
            let (k, v) = self.0.iter().next().unwrap();
            if *v == Scalar::ONE {
                return Some(*k);
            }
        }
        None
    }
    pub fn named(name: &str) -> FP {
        let mut b = [0u8; 64];
        let n = name.as_bytes();
        b[..n.len()].copy_from_slice(n);
        FP::from_uniform_bytes(&b)
    }
}
impl Identity for FP {
    fn identity() -> Self {
        FP::default()
    }
}
impl Identity for CFP {
    fn identity() -> Self {
        CFP([0u8; 32])
    }
}
impl ConstantTimeEq for CFP {
    fn ct_eq(&self, o: &Self) -> Choice {
        self.0.ct_eq(&o.0)
    }
}
impl FixedBytesRepr for CFP {
    fn as_fixed_bytes(&self) -> &[u8; 32] {
        &self.0
    }
    fn from_fixed_bytes(b: [u8; 32]) -> Self {
        CFP(b)
    }
}
impl Decompressable for CFP {
    type Decompressed = FP;
    fn decompress(&self) -> Option<FP> {
        if self.0 == [0u8; 32] {
            return Some(FP::default());
        }
        TABLE.lock().unwrap().get_or_insert_with(HashMap::new).get(&self.0).cloned()
    }
}
impl Compressable for FP {
    type Compressed = CFP;
    fn compress(&self) -> CFP {
        let p = self.clone().norm();
        if p.0.is_empty() {
            return CFP([0u8; 32]);
        }
        let mut h = Sha3_256::new();
        for (k, v) in &p.0 {
            h.update(k.to_le_bytes());
            h.update(v.as_bytes());
        }
        let b: [u8; 32] = h.finalize().into();
        TABLE.lock().unwrap().get_or_insert_with(HashMap::new).insert(b, p);
        CFP(b)
    }
}
impl FromUniformBytes for FP {
    fn from_uniform_bytes(bytes: &[u8; 64]) -> Self {
        let mut g = BASIS.lock().unwrap();
        let m = g.get_or_insert_with(HashMap::new);
        let n = m.len() as u32;
        let id = *m.entry(*bytes).or_insert(n);
        FP::basis(id)
    }
}
impl Add for FP {
    type Output = FP;
    fn add(mut self, o: FP) -> FP {
        self.axpy(&Scalar::ONE, &o);
        self.norm()
    }
}
impl<'a> Add for &'a FP {
    type Output = FP;
    fn add(self, o: &FP) -> FP {
        let mut r = self.clone();
        r.axpy(&Scalar::ONE, o);
        r.norm()
    }
}
impl AddAssign for FP {
    fn add_assign(&mut self, o: FP) {
        self.axpy(&Scalar::ONE, &o);
        self.0.retain(|_, v| *v != Scalar::ZERO);
    }
}
impl<'a> Mul<Scalar> for &'a FP {
    type Output = FP;
    fn mul(self, s: Scalar) -> FP {
        let mut r = FP::default();
        r.axpy(&s, self);
        r.norm()
    }
}
fn msm<I, J>(scalars: I, points: J) -> FP
where
    I: IntoIterator,
    I::Item: Borrow<Scalar>,
    J: IntoIterator,
    J::Item: Borrow<FP>,
{
    let s: Vec<Scalar> = scalars.into_iter().map(|x| *x.borrow()).collect();
    let p: Vec<FP> = points.into_iter().map(|x| x.borrow().clone()).collect();
    // dalek's backends assert equal lengths; keep the same contract
    assert_eq!(s.len(), p.len(), "msm length mismatch");
    PLAIN_MSMS.with(|c| c.set(c.get() + 1));
    let mut r = FP::default();
    for (s, p) in s.iter().zip(p.iter()) {
        r.axpy(s, p);
    }
    r.norm()
}
impl MultiscalarMul for FP {
    type Point = FP;
    fn multiscalar_mul<I, J>(scalars: I, points: J) -> FP
    where
        I: IntoIterator,
        I::Item: Borrow<Scalar>,
        J: IntoIterator,
        J::Item: Borrow<FP>,
    {
        msm(scalars, points)
    }
}
impl VartimeMultiscalarMul for FP {
    type Point = FP;
    fn optional_multiscalar_mul<I, J>(scalars: I, points: J) -> Option<FP>
    where
        I: IntoIterator,
        I::Item: Borrow<Scalar>,
        J: IntoIterator<Item = Option<FP>>,
    {
        let pts: Option<Vec<FP>> = points.into_iter().collect();
        Some(msm(scalars, pts?))
    }
}
pub struct FPPre(pub Vec<FP>);
impl VartimePrecomputedMultiscalarMul for FPPre {
    type Point = FP;
    fn new<I>(static_points: I) -> Self
    where
        I: IntoIterator,
        I::Item: Borrow<FP>,
    {
        FPPre(static_points.into_iter().map(|p| p.borrow().clone()).collect())
    }
    fn optional_mixed_multiscalar_mul<I, J, K>(&self, ss: I, ds: J, dp: K) -> Option<FP>
    where
        I: IntoIterator,
        I::Item: Borrow<Scalar>,
        J: IntoIterator,
        J::Item: Borrow<Scalar>,
        K: IntoIterator<Item = Option<FP>>,
    {
        let pts: Option<Vec<FP>> = dp.into_iter().collect();
        let ss: Vec<Scalar> = ss.into_iter().map(|x| *x.borrow()).collect();
        let ds: Vec<Scalar> = ds.into_iter().map(|x| *x.borrow()).collect();
        if RESIDUALS.with(|l| l.borrow().is_some()) {
            MSM_INPUTS.with(|l| l.borrow_mut().push((ss.clone(), ds.clone(), self.0.len())));
        }
        let before = PLAIN_MSMS.with(|c| c.get());
        let mut r = msm(ss.iter(), self.0.iter());
        r.axpy(&Scalar::ONE, &msm(ds.iter(), pts?));
        PLAIN_MSMS.with(|c| c.set(before));
        let r = r.norm();
        RESIDUALS.with(|l| {
            if let Some(v) = l.borrow_mut().as_mut() {
                v.push(r.clone())
            }
        });
        Some(r)
    }
}
impl Precomputable for FP {
    type Precomputation = FPPre;
}
impl CurvePointProtocol for FP {}
/// Pedersen generators over the free module: value generator "Hb", blinding generators "Gb<k>"
pub fn fm_pedersen(deg: ExtensionDegree) -> PedersenGens<FP> {
    let h = FP::named("Hb");
    let g: Vec<FP> = (0..deg as usize).map(|k| FP::named(&format!("Gb{}", k))).collect();
    PedersenGens {
        h_base_compressed: h.compress(),
        h_base: h,
        g_base_compressed_vec: g.iter().map(|p| p.compress()).collect(),
        g_base_vec: g,
        extension_degree: deg,
    }
}
