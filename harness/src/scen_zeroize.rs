//! C20: heap buffers that held secrets are wiped before they are released. Built at opt-level 0 (profile `plain`):
//! optimised builds elide some heap temporaries, which would hide exactly the defects looked for.
use std::mem::ManuallyDrop;

use curve25519_dalek::{ristretto::RistrettoPoint, scalar::Scalar};
use rand_core::RngCore;
use tari_bulletproofs_plus::{
    commitment_opening::CommitmentOpening, extended_mask::ExtendedMask, range_proof::VerifyAction, range_witness::RangeWitness,
};

use crate::{alloc, rrun, util::*, Opts};

fn kind_name(k: u8) -> &'static str {
    match k {
        0 => "blinding",
        1 => "seed",
        2 => "value",
        3 => "mask",
        4 => "value (decimal text)",
        5 => "value (hexadecimal text)",
        6 => "blinding / seed (hexadecimal text)",
        7 => "value (big-endian)",
        8 => "blinding / seed (signed-digit expansion)",
        _ => "control",
    }
}

/// width-`w` non-adjacent form of a scalar (the expansion variable-time multiscalar multiplication works on)
fn naf(s: &Scalar, w: usize) -> [i8; 256] {
    let mut naf = [0i8; 256];
    let mut x = [0u64; 5];
    for (i, c) in s.as_bytes().chunks(8).enumerate() {
        x[i] = u64::from_le_bytes(c.try_into().unwrap());
    }
    let width = 1u64 << w;
    let mask = width - 1;
    let (mut pos, mut carry) = (0usize, 0u64);
    while pos < 256 {
        let (idx, bit) = (pos / 64, pos % 64);
        let buf = if bit < 64 - w { x[idx] >> bit } else { (x[idx] >> bit) | (x[idx + 1] << (64 - bit)) };
        let window = carry + (buf & mask);
        if window & 1 == 0 {
            pos += 1;
            continue;
        }
        if window < width / 2 {
            carry = 0;
            naf[pos] = window as i8;
        } else {
            carry = 1;
            naf[pos] = (window as i8).wrapping_sub(width as i8);
        }
        pos += w;
    }
    naf
}

/// signed radix-16 digits of a scalar (the expansion constant-time multiscalar multiplication works on)
fn radix16(s: &Scalar) -> [i8; 64] {
    let mut out = [0i8; 64];
    for (i, b) in s.as_bytes().iter().enumerate() {
        out[2 * i] = (b & 15) as i8;
        out[2 * i + 1] = ((b >> 4) & 15) as i8;
    }
    for i in 0..63 {
        let carry = (out[i] + 8) >> 4;
        out[i] -= carry << 4;
        out[i + 1] += carry;
    }
    out
}

fn register_digit_expansions(s: &Scalar) {
    let n5: Vec<u8> = naf(s, 5)[96..128].iter().map(|d| *d as u8).collect();
    alloc::register(&n5, 8);
    let r16: Vec<u8> = radix16(s)[16..48].iter().map(|d| *d as u8).collect();
    alloc::register(&r16, 8);
}

fn register_secrets(inst: &rrun::Inst) {
    alloc::clear();
    for s in inst.blindings.iter().flatten().take(2).chain(inst.seed.iter()) {
        register_digit_expansions(s);
    }
    // renderings of the secrets as text (a diagnostic string built from them is a copy like any other): first, so
    // that large aggregates do not crowd them out of the pattern table
    for v in inst.values.iter().take(4) {
        if *v >= 1u64 << 40 {
            alloc::register(format!("{}", v).as_bytes(), 4);
            alloc::register(format!("{:x}", v).as_bytes(), 5);
            alloc::register(format!("{:X}", v).as_bytes(), 5);
            alloc::register(&v.to_be_bytes(), 7);
        }
    }
    for s in inst.blindings.iter().flatten().take(2).chain(inst.seed.iter()) {
        let h: String = s.as_bytes().iter().map(|b| format!("{:02x}", b)).collect();
        alloc::register(h[..32].as_bytes(), 6);
    }
    for b in &inst.blindings {
        for s in b {
            alloc::register(s.as_bytes(), 0);
        }
    }
    if let Some(s) = inst.seed {
        alloc::register(s.as_bytes(), 1);
    }
    for v in &inst.values {
        if *v >= 1u64 << 40 {
            alloc::register(&v.to_le_bytes(), 2);
        }
    }
}

fn report(out: &mut Out, op: &str, key: &str, hits: &[alloc::Hit], freed: usize, total_freed: &mut usize) {
    *total_freed += freed;
    let mut by: std::collections::BTreeMap<(u8, usize), usize> = Default::default();
    for h in hits {
        *by.entry((h.kind, h.block)).or_default() += 1;
    }
    let desc = by.iter().map(|((k, b), n)| format!("{}x {} in a {}-byte block", n, kind_name(*k), b)).collect::<Vec<_>>().join("; ");
    out.oracle(&format!("C20:wiped-before-release:{}", op), hits.is_empty(), &format!("{} {}", op, key), &format!("{} secret-bearing blocks released un-wiped: {}", hits.len(), desc));
}

pub fn c20(opts: &Opts, out: &mut Out) {
    let mut rng = chacha(opts.seed, 20);
    // the merlin instrumentation keeps copies of absorbed data (incl. the witness bytes): off for this scenario
    merlin::tap::set_shadow(false);
    // every released block is wiped by the allocator (after it has been scanned): stale bytes of the harness's own
    // copies of the secrets cannot turn up later in a block the library only partly writes
    alloc::set_hygiene(true);
    let mut total_freed = 0usize;
    let mut classes = std::collections::BTreeSet::new();
    // self-test of the oracle: an un-wiped harness buffer must be seen, a wiped one must not
    {
        let secret = Scalar::random(&mut rng);
        alloc::clear();
        alloc::register(secret.as_bytes(), 9);
        let leaky: Vec<u8> = secret.as_bytes().to_vec();
        let mut wiped: Vec<u8> = secret.as_bytes().to_vec();
        alloc::arm();
        drop(leaky);
        wiped.iter_mut().for_each(|b| unsafe { std::ptr::write_volatile(b, 0) });
        drop(wiped);
        let (hits, _) = alloc::disarm();
        out.oracle("C20:oracle-self-test", hits.len() == 1 && hits[0].kind == 9 && hits[0].block == 32, "control", &format!("allocator scan saw {} hits for one leaked and one wiped control block", hits.len()));
    }
    let configs: Vec<(usize, usize, usize, bool)> = if opts.thorough {
        vec![(8, 1, 1, true), (8, 1, 6, true), (64, 1, 2, true), (8, 1, 1, false), (64, 2, 3, false), (16, 4, 2, false), (2, 1, 4, true), (32, 1, 1, true), (64, 1, 6, false), (1, 128, 4, false), (1, 512, 1, false), (1, 256, 6, false)]
    } else {
        vec![(8, 1, 1, true), (8, 1, 6, true), (64, 1, 2, true), (8, 1, 2, false), (64, 2, 3, false), (1, 128, 4, false)]
    };
    for (n, m, t, seeded) in configs {
        let mut inst = rrun::random_inst(n, m, m, t, 4, seeded, &mut rng);
        // high-entropy values so that the 8-byte pattern is meaningful
        if n == 64 {
            for (j, (v, p)) in inst.values.iter_mut().zip(inst.promises.iter_mut()).enumerate() {
                *v = rng.next_u64() | (1u64 << 63);
                // the last opening under a promise just below the value (never equal: a promise is public data, and
                // the verifier's copies of it are not the library's to wipe), the others without
                *p = if j + 1 == m { Some(*v - 5 - t as u64) } else { None };
            }
        }
        let key = inst.describe();
        let kappa = (n * m).ilog2() as usize;
        classes.insert((n, m, t, seeded));
        // --- prove
        let stmt = inst.statement();
        let wit = inst.witness();
        let mut tr = inst.transcript();
        let mut prng = chacha(5, 5);
        register_secrets(&inst);
        alloc::arm();
        let proof = rrun::Proof::prove_with_rng(&mut tr, &stmt, &wit, &mut prng);
        let (hits, freed) = alloc::disarm();
        report(out, "prove", &format!("{} expected-seed-derivations={}", key, if seeded { t * (3 + 2 * kappa) } else { 0 }), &hits, freed, &mut total_freed);
        out.req(format!("lifecycle fixed=1 seeded={} m={} t={} rounds={} op=prove", seeded as u8, m, t, kappa), format!("unwiped={}", hits.len()));
        // the public commitment function on the witness's own data
        {
            let pr = rrun::params(n, m, t);
            register_secrets(&inst);
            alloc::arm();
            let c = pr.pc_gens().commit(&Scalar::from(inst.values[0]), &inst.blindings[0]);
            let (hits, freed) = alloc::disarm();
            report(out, "PedersenGens::commit", &key, &hits, freed, &mut total_freed);
            let _ = c;
        }
        // the other entry point
        {
            let mut tr2 = inst.transcript();
            register_secrets(&inst);
            alloc::arm();
            let p2 = rrun::Proof::prove(&mut tr2, &stmt, &wit);
            let (hits, freed) = alloc::disarm();
            report(out, "prove(entry point `prove`)", &key, &hits, freed, &mut total_freed);
            drop(p2);
        }
        let Ok(proof) = proof else { continue };
        // --- verify with recovery (both recovering modes) and verify-only
        for action in rrun::ACTIONS {
            let mut ts = [inst.transcript()];
            register_secrets(&inst);
            if seeded {
                for s in &inst.blindings[0] {
                    alloc::register(s.as_bytes(), 3);
                }
            }
            alloc::arm();
            let r = rrun::Proof::verify_batch(&mut ts, std::slice::from_ref(&stmt), std::slice::from_ref(&proof), action);
            let (hits, freed) = alloc::disarm();
            report(out, &format!("verify:{:?}", action), &key, &hits, freed, &mut total_freed);
            if action != VerifyAction::VerifyOnly {
                out.req(format!("lifecycle fixed=1 seeded={} m={} t={} rounds={} op=recover", seeded as u8, m, t, kappa), format!("unwiped={}", hits.len()));
            }
            // dropping the returned masks
            if let Ok(masks) = r {
                register_secrets(&inst);
                for s in &inst.blindings[0] {
                    alloc::register(s.as_bytes(), 3);
                }
                alloc::arm();
                drop(masks);
                let (hits, freed) = alloc::disarm();
                report(out, "drop:masks", &key, &hits, freed, &mut total_freed);
            }
        }
        // --- drops of the owning types (and of their clones)
        register_secrets(&inst);
        let w2 = wit.clone();
        alloc::arm();
        drop(w2);
        drop(wit);
        let (hits, freed) = alloc::disarm();
        report(out, "drop:witness", &key, &hits, freed, &mut total_freed);
        let op = CommitmentOpening::new(inst.values[0], inst.blindings[0].clone());
        let op2 = op.clone();
        register_secrets(&inst);
        alloc::arm();
        drop(op);
        drop(op2);
        let (hits, freed) = alloc::disarm();
        report(out, "drop:opening", &key, &hits, freed, &mut total_freed);
        let em = ExtendedMask::assign(rrun::deg(t), inst.blindings[0].clone()).unwrap();
        let copy = em.blindings().unwrap(); // caller-owned plain copy: not the library's to wipe
        register_secrets(&inst);
        alloc::arm();
        drop(em);
        let (hits, freed) = alloc::disarm();
        report(out, "drop:mask", &key, &hits, freed, &mut total_freed);
        drop(copy);
        // RangeWitness::init failure path: openings handed to a failing constructor are still wiped
        let bad = vec![CommitmentOpening::new(inst.values[0], inst.blindings[0].clone()), CommitmentOpening::new(1, vec![])];
        register_secrets(&inst);
        alloc::arm();
        let r = RangeWitness::init(bad);
        drop(r);
        let (hits, freed) = alloc::disarm();
        report(out, "witness-init-error", &key, &hits, freed, &mut total_freed);
        // --- the statement's inline seed after drop
        if seeded {
            let seed = inst.seed.unwrap();
            let mut md = ManuallyDrop::new(inst.statement());
            let size = std::mem::size_of::<rrun::Stmt>();
            let p = &mut *md as *mut rrun::Stmt;
            let before = unsafe { std::slice::from_raw_parts(p as *const u8, size) }.windows(32).any(|w| w == seed.as_bytes());
            unsafe { std::ptr::drop_in_place(p) };
            let after = unsafe { std::slice::from_raw_parts(p as *const u8, size) }.windows(32).any(|w| w == seed.as_bytes());
            out.oracle("C20:statement-seed-cleared-on-drop", before && !after, &key, &format!("seed present before drop={} after drop={}", before, after));
        }
        let _ = RistrettoPoint::default();
    }
    // owning objects built from caller vectors that have spare capacity (filled by `push`, reused buffers): the
    // constructor must not give up a block that holds the secrets (for instance by shrinking), and the drop must wipe
    // whatever block ends up owning them
    for d in [1usize, 2, 3, 6] {
        let secrets: Vec<Scalar> = (0..d).map(|_| Scalar::random(&mut rng)).collect();
        let spare = |extra: usize| -> Vec<Scalar> {
            let mut v = Vec::with_capacity(d + extra);
            for s in &secrets {
                v.push(*s);
            }
            v
        };
        let key = format!("objects built from vectors with spare capacity, {} blinding factors", d);
        for extra in [1usize, 5, 64] {
            alloc::clear();
            for s in &secrets {
                alloc::register(s.as_bytes(), 0);
            }
            let v = spare(extra);
            alloc::arm();
            let mask = ExtendedMask::assign(rrun::deg(d), v);
            let (hits, freed) = alloc::disarm();
            report(out, "ExtendedMask::assign", &key, &hits, freed, &mut total_freed);
            alloc::arm();
            drop(mask);
            let (hits, freed) = alloc::disarm();
            report(out, "drop:mask", &key, &hits, freed, &mut total_freed);
            let v = spare(extra);
            alloc::arm();
            let op = CommitmentOpening::new(77, v);
            let (hits, freed) = alloc::disarm();
            report(out, "CommitmentOpening::new", &key, &hits, freed, &mut total_freed);
            let mut ops = Vec::with_capacity(1 + extra);
            ops.push(op);
            alloc::arm();
            let wit = RangeWitness::init(ops);
            let (hits, freed) = alloc::disarm();
            report(out, "RangeWitness::init", &key, &hits, freed, &mut total_freed);
            alloc::arm();
            drop(wit);
            let (hits, freed) = alloc::disarm();
            report(out, "drop:witness", &key, &hits, freed, &mut total_freed);
        }
        // spare capacity that HOLDS secrets: the caller derived six blinding factors and kept the first `d` (`truncate`,
        // `pop`): the bytes beyond the length are still there, and the owning object must wipe its whole buffer
        if d < 6 {
            let all_six: Vec<Scalar> = (0..6).map(|_| Scalar::random(&mut rng)).collect();
            for how in ["truncate", "pop"] {
                // (the vector itself is handed over — a clone would have no spare capacity)
                let cut = |how: &str| -> Vec<Scalar> {
                    let mut v = all_six.clone();
                    match how {
                        "truncate" => v.truncate(d),
                        _ => {
                            while v.len() > d {
                                v.pop();
                            }
                        },
                    }
                    v
                };
                alloc::clear();
                for s in &all_six {
                    alloc::register(s.as_bytes(), 0);
                }
                let op = CommitmentOpening::new(9, cut(how));
                let mk = ExtendedMask::assign(rrun::deg(d), cut(how));
                alloc::arm();
                drop(op);
                drop(mk);
                let (hits, freed) = alloc::disarm();
                // (the harness's own `all_six` is still alive: only blocks released by the drops are looked at)
                report(out, "drop:opening+mask", &format!("{} after {} from six factors", key, how), &hits, freed, &mut total_freed);
            }
        }
        classes.insert((d, 0, 50, false));
    }
    // prover calls that FAIL: whatever the prover copied out of the witness before it gave up must be wiped as well
    {
        use curve25519_dalek::traits::Identity;
        use tari_bulletproofs_plus::{range_parameters::RangeParameters, range_statement::RangeStatement, traits::Compressable};
        let (m, t) = (2usize, 2usize);
        for case in ["wrong-opening", "value-out-of-range", "value-below-promise", "value-below-promise-64", "wrong-opening-64", "identity-blinding-generator", "identity-value-generator"] {
            let n = if case.ends_with("-64") { 64usize } else { 8 };
            let mut pg = rrun::pedersen(rrun::deg(t));
            match case {
                "identity-blinding-generator" => {
                    pg.g_base_vec[1] = RistrettoPoint::identity();
                    pg.g_base_compressed_vec[1] = pg.g_base_vec[1].compress();
                },
                "identity-value-generator" => {
                    pg.h_base = RistrettoPoint::identity();
                    pg.h_base_compressed = pg.h_base.compress();
                },
                _ => {},
            }
            let Ok(pr) = RangeParameters::init(n, m, pg) else { continue };
            let vals: Vec<u64> = if n == 64 { vec![(1u64 << 50) + 0x1234_5678_9abc, (1u64 << 61) + 0xfed_cba9_8765] } else { vec![200, 17] };
            let rs: Vec<Vec<Scalar>> = (0..m).map(|_| (0..t).map(|_| Scalar::random(&mut rng)).collect()).collect();
            let cs: Vec<RistrettoPoint> = vals.iter().zip(rs.iter()).map(|(v, r)| pr.pc_gens().commit(&Scalar::from(*v), r).unwrap()).collect();
            let promises = if case.starts_with("value-below-promise") { vec![Some(vals[0] - 3), Some(vals[1] + 1)] } else if n == 64 { vec![Some(vals[0] - 9), None] } else { vec![None; m] };
            let Ok(stmt) = RangeStatement::init(pr, cs, promises, None) else { continue };
            let mut wv = vals.clone();
            let mut wr = rs.clone();
            match case {
                "wrong-opening" | "wrong-opening-64" => wr[1][1] += Scalar::ONE,
                "value-out-of-range" => wv[0] = 256 + 200,
                _ => {},
            }
            let Ok(wit) = RangeWitness::init(wv.iter().zip(wr.iter()).map(|(v, r)| CommitmentOpening::new(*v, r.clone())).collect()) else { continue };
            let key = format!("failing prover call n={} m={} t={} case={}", n, m, t, case);
            alloc::clear();
            for v in &wv {
                if *v >= 1u64 << 40 {
                    alloc::register(format!("{}", v).as_bytes(), 4);
                    alloc::register(format!("{:x}", v).as_bytes(), 5);
                    alloc::register(&v.to_le_bytes(), 2);
                    alloc::register(&v.to_be_bytes(), 7);
                }
            }
            for r in &wr {
                for s in r {
                    alloc::register(s.as_bytes(), 0);
                }
            }
            let mut tr = merlin::Transcript::new(b"verif-harness");
            let mut prng = chacha(7, 7);
            alloc::arm();
            let proof = rrun::Proof::prove_with_rng(&mut tr, &stmt, &wit, &mut prng);
            let failed = proof.is_err();
            drop(proof); // the error value is released under the scanner too: its text must not carry the witness
            let (hits, freed) = alloc::disarm();
            out.oracle("C20:failing-call-fails", failed, &key, "the prover call of this scenario was expected to be refused");
            report(out, "prove(failing)", &key, &hits, freed, &mut total_freed);
            classes.insert((n, m, t + 10, false));
        }
    }
    // witnesses assembled through the public fields, which the prover accepts: openings with fewer blinding factors
    // than the statement's degree, and ragged ones (the temporary buffers sized from the witness must still be wiped)
    for (t, lens) in [(2usize, vec![1usize, 2]), (3, vec![1, 3]), (2, vec![2, 1]), (4, vec![1, 1, 4, 2])] {
        use tari_bulletproofs_plus::range_statement::RangeStatement;
        let m = lens.len();
        let n = 8usize;
        let pr = rrun::params(n, m, t);
        let vals: Vec<u64> = (0..m).map(|j| 5 + j as u64).collect();
        let rs: Vec<Vec<Scalar>> = lens.iter().map(|l| (0..*l).map(|_| Scalar::random(&mut rng)).collect()).collect();
        let Ok(cs) = vals.iter().zip(rs.iter()).map(|(v, r)| pr.pc_gens().commit(&Scalar::from(*v), r)).collect::<Result<Vec<RistrettoPoint>, _>>() else { continue };
        let Ok(stmt) = RangeStatement::init(pr, cs, vec![None; m], None) else { continue };
        let wit = RangeWitness { openings: vals.iter().zip(rs.iter()).map(|(v, r)| CommitmentOpening::new(*v, r.clone())).collect(), extension_degree: rrun::deg(t) };
        let key = format!("hand-assembled witness n={} t={} blinding counts {:?}", n, t, lens);
        alloc::clear();
        for r in &rs {
            for s in r {
                alloc::register(s.as_bytes(), 0);
            }
        }
        let mut tr = merlin::Transcript::new(b"verif-harness");
        let mut prng = chacha(6, 6);
        alloc::arm();
        let proof = rrun::Proof::prove_with_rng(&mut tr, &stmt, &wit, &mut prng);
        let (hits, freed) = alloc::disarm();
        report(out, "prove", &key, &hits, freed, &mut total_freed);
        let _ = proof;
        alloc::clear();
        for r in &rs {
            for s in r {
                alloc::register(s.as_bytes(), 0);
            }
        }
        alloc::arm();
        drop(wit);
        let (hits, freed) = alloc::disarm();
        report(out, "drop:witness", &key, &hits, freed, &mut total_freed);
        classes.insert((n, m, t, false));
    }
    // an external RNG that PANICS at its k-th call (an entropy source that fails aborts `OsRng` this way): whatever the
    // prover holds at that moment is released by unwinding, and must be wiped like on any other path
    {
        struct PanicRng {
            inner: rand_chacha::ChaCha12Rng,
            at: usize,
            n: usize,
        }
        impl rand_core::RngCore for PanicRng {
            fn next_u32(&mut self) -> u32 {
                let mut b = [0u8; 4];
                self.fill_bytes(&mut b);
                u32::from_le_bytes(b)
            }
            fn next_u64(&mut self) -> u64 {
                let mut b = [0u8; 8];
                self.fill_bytes(&mut b);
                u64::from_le_bytes(b)
            }
            fn fill_bytes(&mut self, dest: &mut [u8]) {
                self.n += 1;
                if self.n == self.at {
                    panic!("entropy source failed");
                }
                self.inner.fill_bytes(dest)
            }
            fn try_fill_bytes(&mut self, dest: &mut [u8]) -> Result<(), rand_core::Error> {
                self.fill_bytes(dest);
                Ok(())
            }
        }
        impl rand_core::CryptoRng for PanicRng {}
        let hook = std::panic::take_hook();
        std::panic::set_hook(Box::new(|_| {}));
        for (n, m, t, seeded) in [(8usize, 1usize, 2usize, true), (64, 2, 3, false)] {
            let mut inst = rrun::random_inst(n, m, m, t, 4, seeded, &mut rng);
            if n == 64 {
                for (v, p) in inst.values.iter_mut().zip(inst.promises.iter_mut()) {
                    *v = rng.next_u64() | (1u64 << 63);
                    *p = None;
                }
            }
            let stmt = inst.statement();
            let wit = inst.witness();
            let mut completed_at = None;
            for at in 1..=40usize {
                let mut tr = inst.transcript();
                let mut prng = PanicRng { inner: chacha(9, 9), at, n: 0 };
                register_secrets(&inst);
                alloc::arm();
                let r = std::panic::catch_unwind(std::panic::AssertUnwindSafe(|| rrun::Proof::prove_with_rng(&mut tr, &stmt, &wit, &mut prng).is_ok()));
                let (hits, freed) = alloc::disarm();
                report(out, "prove(external RNG panics)", &format!("{} panic at RNG call {}", inst.describe(), at), &hits, freed, &mut total_freed);
                if r.is_ok() {
                    completed_at = Some(at);
                    break; // the prover made fewer than `at` calls: every earlier call index has been tried
                }
            }
            out.oracle("C20:panicking-rng-reached", completed_at.map(|a| a > 1).unwrap_or(false), &inst.describe(), "the prover never completed (or never called the external RNG)");
            classes.insert((n, m, t + 20, seeded));
        }
        std::panic::set_hook(hook);
    }
    // owning objects overwritten in place (`clone_from`, also reached through `Vec::clone_from` / `clone_from_slice` on
    // a witness's public opening list): the block that held the old blinding factors is given up during the call
    for (dst_len, src_len) in [(1usize, 6usize), (2, 3), (3, 3), (6, 1), (1, 2)] {
        let r_dst: Vec<Vec<Scalar>> = (0..2).map(|_| (0..dst_len).map(|_| Scalar::random(&mut rng)).collect()).collect();
        let r_src: Vec<Vec<Scalar>> = (0..3).map(|_| (0..src_len).map(|_| Scalar::random(&mut rng)).collect()).collect();
        let reg = || {
            alloc::clear();
            for r in r_dst.iter().chain(r_src.iter()) {
                for s in r {
                    alloc::register(s.as_bytes(), 0);
                }
            }
        };
        let key = format!("overwritten in place: {} blinding factors replaced by {}", dst_len, src_len);
        // one opening
        let mut dst = CommitmentOpening::new(5, r_dst[0].clone());
        let src = CommitmentOpening::new(6, r_src[0].clone());
        reg();
        alloc::arm();
        dst.clone_from(&src);
        let (hits, freed) = alloc::disarm();
        report(out, "clone_from:opening", &key, &hits, freed, &mut total_freed);
        alloc::arm();
        drop(dst);
        drop(src);
        let (hits, freed) = alloc::disarm();
        report(out, "drop:opening", &key, &hits, freed, &mut total_freed);
        // a witness, as a whole and through its public opening list
        for via in ["witness", "openings", "slice"] {
            let mk = |rs: &[Vec<Scalar>]| RangeWitness::init(rs.iter().enumerate().map(|(j, r)| CommitmentOpening::new(j as u64, r.clone())).collect()).unwrap();
            let mut wd = mk(&r_dst[..2]);
            let ws = mk(if via == "slice" { &r_src[..2] } else { &r_src[..1] });
            reg();
            alloc::arm();
            match via {
                "witness" => wd.clone_from(&ws),
                "openings" => wd.openings.clone_from(&ws.openings),
                _ => wd.openings.clone_from_slice(&ws.openings),
            }
            let (hits, freed) = alloc::disarm();
            report(out, &format!("clone_from:{}", via), &key, &hits, freed, &mut total_freed);
            alloc::arm();
            drop(wd);
            drop(ws);
            let (hits, freed) = alloc::disarm();
            report(out, "drop:witness", &key, &hits, freed, &mut total_freed);
        }
        classes.insert((dst_len, src_len, 70, false));
    }
    out.stat("blocks_released_while_armed", total_freed);
    out.stat("distinct_classes", classes.len() * 8);
    out.case("operations scanned: prove (seeded/unseeded), verify in 3 modes, drop of returned masks, witness (+clone), opening (+clone), mask, failing witness constructor, clone_from on an opening / a witness / its opening list; raw bytes of a statement after drop_in_place; secrets: every blinding scalar, seed, recovered mask (32 bytes), 64-bit values with the top bit set (8 bytes)".into());
}
