//! C11 (generators: derivation, distinctness, table order, determinism) and C12 (capacity independence).
use std::collections::{HashMap, HashSet};

use curve25519_dalek::{constants::RISTRETTO_BASEPOINT_POINT, ristretto::RistrettoPoint, traits::Identity};
use tari_bulletproofs_plus::{
    protocols::curve_point_protocol::CurvePointProtocol,
    range_proof::VerifyAction,
    ristretto::create_pedersen_gens_with_extension_degree,
    traits::Compressable,
};

use crate::{
    fm::{self, FP},
    fmrun, fmx, rrun,
    util::*,
    Opts,
};

pub fn c11(opts: &Opts, out: &mut Out, ped_labels: &[Vec<u8>]) {
    let bits_all = [1usize, 2, 4, 8, 16, 32, 64];
    let caps_all = [1usize, 2, 4, 8, 16, 32];
    let mut classes = HashSet::new();
    // (1) derivation: model label --SHAKE256 (runner, hashlib)--> 64 bytes == input observed at from_uniform_bytes over
    // the free module --Elligator (dalek)--> the Ristretto accessor's point
    let big = fmrun::params(64, 32, 1);
    let inputs: HashMap<u32, [u8; 64]> = fm::basis_inputs().into_iter().map(|(b, id)| (id, b)).collect();
    let stride = if opts.thorough { 1 } else { 3 };
    for (kind, iter) in [("G", big.gi_base_iter().cloned().collect::<Vec<FP>>()), ("H", big.hi_base_iter().cloned().collect::<Vec<FP>>())] {
        for (pos, p) in iter.iter().enumerate().step_by(stride) {
            let (party, idx) = (pos / 64, pos % 64);
            let id = p.single_id().expect("basis element");
            out.req(format!("genblock kind={} party={} idx={}", kind, party, idx), format!("in={}", hex(&inputs[&id])));
        }
    }
    // (1b) party indices that need the second and third byte of the label: one wide set at bit length 1
    {
        let wide_cap = if opts.thorough { 1usize << 17 } else { 1usize << 10 };
        let wide = fmrun::params(1, wide_cap, 1);
        let inputs: HashMap<u32, [u8; 64]> = fm::basis_inputs().into_iter().map(|(b, id)| (id, b)).collect();
        let g: Vec<FP> = wide.gi_base_iter().cloned().collect();
        let h: Vec<FP> = wide.hi_base_iter().cloned().collect();
        let mut parties = vec![255usize, 256, 257, 300, 511, 512, 513, 767, 1023, 65535, 65536, 65537, 70000, wide_cap - 1];
        parties.retain(|p| *p < wide_cap);
        for (kind, v) in [("G", &g), ("H", &h)] {
            for &party in &parties {
                let id = v[party].single_id().expect("basis element");
                out.req(format!("genblock kind={} party={} idx=0", kind, party), format!("in={}", hex(&inputs[&id])));
            }
        }
        let ids: HashSet<u32> = g.iter().chain(h.iter()).filter_map(|p| p.single_id()).collect();
        out.oracle("C11:all-distinct-nonidentity", g.len() == wide_cap && h.len() == wide_cap && ids.len() == 2 * wide_cap, &format!("bits=1 cap={}", wide_cap), &format!("{} distinct vector generators among {}", ids.len(), 2 * wide_cap));
        let table = &wide.precomp().0;
        out.oracle("C11:table-interleaved", table.len() == 2 * wide_cap && (0..wide_cap).all(|i| table[2 * i] == g[i] && table[2 * i + 1] == h[i]), &format!("bits=1 cap={}", wide_cap), "precomputed table is not G_0,H_0,G_1,H_1,...");
        classes.insert((1usize, wide_cap));
    }
    for &bits in &bits_all {
        for &cap in &caps_all {
            let key = format!("bits={} cap={}", bits, cap);
            let fp = fmrun::params(bits, cap, 1);
            let rp = rrun::params(bits, cap, 1);
            let inputs: HashMap<u32, [u8; 64]> = fm::basis_inputs().into_iter().map(|(b, id)| (id, b)).collect();
            let g_ok = fp.gi_base_iter().zip(rp.gi_base_iter()).all(|(f, r)| RistrettoPoint::from_uniform_bytes(&inputs[&f.single_id().unwrap()]) == *r) && rp.gi_base_iter().count() == bits * cap && fp.gi_base_iter().count() == bits * cap;
            let h_ok = fp.hi_base_iter().zip(rp.hi_base_iter()).all(|(f, r)| RistrettoPoint::from_uniform_bytes(&inputs[&f.single_id().unwrap()]) == *r) && rp.hi_base_iter().count() == bits * cap;
            out.oracle("C11:accessor-equals-derivation", g_ok && h_ok, &key, "a Ristretto vector generator differs from Elligator(SHAKE block)");
            // the same (party, index) is the same point whatever the capacity (C12)
            let same_prefix = rp.gi_base_iter().zip(rrun::params(bits, 32, 1).gi_base_iter()).all(|(a, b)| a == b) && rp.hi_base_iter().zip(rrun::params(bits, 32, 1).hi_base_iter()).all(|(a, b)| a == b);
            out.oracle("C11:capacity-free", same_prefix, &key, "generator (party, index) depends on the requested capacity");
            // table order over the free module: position 2i = G_i, 2i+1 = H_i
            let table = &fp.precomp().0;
            let g: Vec<&FP> = fp.gi_base_iter().collect();
            let h: Vec<&FP> = fp.hi_base_iter().collect();
            let order_ok = table.len() == 2 * bits * cap && (0..bits * cap).all(|i| &table[2 * i] == g[i] && &table[2 * i + 1] == h[i]);
            out.oracle("C11:table-interleaved", order_ok, &key, "precomputed table is not G_0,H_0,G_1,H_1,...");
            if bits * cap <= 64 {
                let ins: Vec<String> = table.iter().map(|p| hex(&inputs[&p.single_id().unwrap()])).collect();
                out.req(format!("tableorder bits={} cap={}", bits, cap), format!("ins={}", ins.join(",")));
            }
            // the public iterators as iterators: however they are driven (nth, skip, step_by, after partial consumption,
            // from the back of a `take`), position k yields generator k
            {
                let gs: Vec<RistrettoPoint> = rp.gi_base_iter().cloned().collect();
                let hs_: Vec<RistrettoPoint> = rp.hi_base_iter().cloned().collect();
                let total = gs.len();
                let mut proto_ok = true;
                let mut why = String::new();
                for consumed in [0usize, 1, bits.saturating_sub(1), bits, bits + 1, total / 2 + 1] {
                    for jump in [0usize, 1, 2, 3, bits.saturating_sub(1), bits, bits + 1, 2 * bits + 1, total] {
                        if consumed > total {
                            continue;
                        }
                        let its: Vec<(&str, &Vec<RistrettoPoint>, Box<dyn Iterator<Item = &RistrettoPoint> + '_>)> =
                            vec![("G", &gs, Box::new(rp.gi_base_iter())), ("H", &hs_, Box::new(rp.hi_base_iter()))];
                        for (name, all, mut it) in its {
                            for _ in 0..consumed {
                                it.next();
                            }
                            let got = it.nth(jump).cloned();
                            let want = all.get(consumed + jump).cloned();
                            if got != want && proto_ok {
                                proto_ok = false;
                                why = format!("{} iterator: after {} items, nth({}) is not generator {}", name, consumed, jump, consumed + jump);
                            }
                            // and what follows the jump
                            let got2 = it.next().cloned();
                            let want2 = all.get(consumed + jump + 1).cloned();
                            if want.is_some() && got2 != want2 && proto_ok {
                                proto_ok = false;
                                why = format!("{} iterator: item after nth({}) (after {} items) is not generator {}", name, jump, consumed, consumed + jump + 1);
                            }
                        }
                    }
                }
                for stride in [1usize, 2, 3, 5, bits + 1] {
                    let a: Vec<RistrettoPoint> = rp.gi_base_iter().step_by(stride).cloned().collect();
                    let b: Vec<RistrettoPoint> = gs.iter().step_by(stride).cloned().collect();
                    let mut it = rp.hi_base_iter();
                    it.next();
                    let c: Vec<RistrettoPoint> = it.step_by(stride).cloned().collect();
                    let d: Vec<RistrettoPoint> = hs_.iter().skip(1).step_by(stride).cloned().collect();
                    if (a != b || c != d) && proto_ok {
                        proto_ok = false;
                        why = format!("step_by({}) over the public iterator differs from the collected generators", stride);
                    }
                }
                let cnt_ok = rp.gi_base_iter().count() == total && rp.hi_base_iter().skip(3).count() == total.saturating_sub(3) && rp.gi_base_iter().last() == gs.last();
                out.oracle("C11:iterator-protocol", proto_ok && cnt_ok, &key, &why);
            }
            // the iterators against the model's state machine: random sequences of next / size_hint / nth(j) over the
            // free module, items named by their position in the (label-checked) flat list
            if bits * cap <= 128 {
                use rand_core::RngCore;
                let mut orng = chacha(opts.seed, 1100 + (bits * 64 + cap) as u64);
                for (kind, flat, mk) in [("G", fp.gi_base_iter().cloned().collect::<Vec<FP>>(), 0u8), ("H", fp.hi_base_iter().cloned().collect::<Vec<FP>>(), 1u8)] {
                    let pos_of: HashMap<u32, usize> = flat.iter().enumerate().map(|(i, p)| (p.single_id().unwrap(), i)).collect();
                    let mut it: Box<dyn Iterator<Item = &FP> + '_> = if mk == 0 { Box::new(fp.gi_base_iter()) } else { Box::new(fp.hi_base_iter()) };
                    let total = bits * cap;
                    let mut ops: Vec<String> = vec![];
                    let mut outs: Vec<String> = vec![];
                    let show = |o: Option<&FP>| -> String {
                        match o {
                            Some(p) => match p.single_id().and_then(|id| pos_of.get(&id)) {
                                Some(pos) => format!("{}.{}", pos / bits, pos % bits),
                                None => "?".into(),
                            },
                            None => "-".into(),
                        }
                    };
                    for _ in 0..(total + 8).min(48) {
                        match orng.next_u32() % 8 {
                            0 | 1 => {
                                let (lo, hi) = it.size_hint();
                                ops.push("h".into());
                                outs.push(if hi == Some(lo) { format!("h{}", lo) } else { format!("h{}/{:?}", lo, hi) });
                            },
                            2 => {
                                let j = (orng.next_u32() as usize) % (bits + 3);
                                ops.push(format!("t{}", j));
                                outs.push(show(it.nth(j)));
                            },
                            _ => {
                                ops.push("n".into());
                                outs.push(show(it.next()));
                            },
                        }
                    }
                    out.req(format!("geniter kind={} n={} m={} ops={}", kind, bits, cap, ops.join(",")), format!("out={}", outs.join(",")));
                }
            }
            classes.insert((bits, cap));
        }
    }
    // (1c) parameter sets overwritten in place (`clone_from`): the refreshed object is the source in every respect —
    // sizes, vector generators, and the precomputed table the prover and verifier actually use
    for ((n1, c1), (n2, c2)) in [((32usize, 2usize), (64usize, 1usize)), ((8, 4), (8, 8)), ((64, 1), (2, 16)), ((4, 4), (4, 4))] {
        let mut a = fmrun::params(n1, c1, 1);
        let b = fmrun::params(n2, c2, 2);
        a.clone_from(&b);
        let key = format!("clone_from: ({}, {}) refreshed from ({}, {})", n1, c1, n2, c2);
        let same_gens = a.gi_base_iter().eq(b.gi_base_iter()) && a.hi_base_iter().eq(b.hi_base_iter()) && a.bit_length() == n2 && a.max_aggregation_factor() == c2 && a.g_bases() == b.g_bases() && a.h_base() == b.h_base();
        out.oracle("C11:accessor-equals-derivation", same_gens, &key, "a parameter set refreshed with clone_from does not have the source's generators");
        let (ta, ga, ha): (&Vec<FP>, Vec<&FP>, Vec<&FP>) = (&a.precomp().0, a.gi_base_iter().collect(), a.hi_base_iter().collect());
        let order_ok = ta.len() == 2 * n2 * c2 && (0..n2 * c2).all(|i| &ta[2 * i] == ga[i] && &ta[2 * i + 1] == ha[i]);
        out.oracle("C11:table-interleaved", order_ok, &key, "the precomputed table of a refreshed parameter set is not that of its generators");
    }
    // (2) Pedersen generators: value generator = basepoint; blinding generators from the model-emitted labels
    for d in 1..=6usize {
        let pg = create_pedersen_gens_with_extension_degree(fmrun::deg(d));
        let key = format!("degree={}", d);
        out.oracle("C11:value-generator-is-basepoint", pg.h_base == RISTRETTO_BASEPOINT_POINT && pg.h_base_compressed == RISTRETTO_BASEPOINT_POINT.compress(), &key, "h_base is not the Ristretto basepoint");
        let ok = pg.g_base_vec.len() == d && (0..d).all(|k| ped_labels.get(k).map(|l| RistrettoPoint::hash_from_bytes_sha3_512(l) == pg.g_base_vec[k]).unwrap_or(false));
        out.oracle("C11:blinding-generators-derivation", ok, &key, "a blinding generator differs from SHA3-512 hash-to-group of the documented label");
        let comp_ok = pg.g_base_compressed_vec.len() == d && (0..d).all(|k| pg.g_base_compressed_vec[k] == pg.g_base_vec[k].compress());
        out.oracle("C11:compressed-forms", comp_ok, &key, "compressed blinding generator is not the encoding of the point");
        let rp = rrun::params(8, 2, d);
        out.oracle("C11:compressed-forms", rp.h_base_compressed() == rp.h_base().compress() && rp.g_bases_compressed().iter().zip(rp.g_bases().iter()).all(|(c, p)| *c == p.compress()), &key, "parameter accessors disagree");
    }
    // (2b) fresh processes requesting the extension degrees in other orders than ascending: the cached tables must
    // give the same generators and encodings whatever was requested first
    let exe = std::env::current_exe().expect("exe");
    for order in ["6,3,1,5,2,4", "3,6", "2,1", "5"] {
        let o = std::process::Command::new(&exe).arg("C11-child").arg(order).output();
        let ok = o.as_ref().map(|o| o.status.success() && String::from_utf8_lossy(&o.stdout).lines().filter(|l| l.starts_with("DEG ")).all(|l| l.ends_with(" ok")) && String::from_utf8_lossy(&o.stdout).lines().filter(|l| l.starts_with("DEG ")).count() == order.split(',').count()).unwrap_or(false);
        out.oracle("C11:generators-independent-of-request-order", ok, &format!("fresh process, degrees requested in order {}", order), &format!("{:?}", o.map(|o| String::from_utf8_lossy(&o.stdout).to_string())));
    }
    // (3) all 2*64*32 + 6 + 1 points pairwise distinct, none the identity
    let rp = rrun::params(64, 32, 6);
    let mut set = HashSet::new();
    let mut all: Vec<RistrettoPoint> = rp.gi_base_iter().cloned().chain(rp.hi_base_iter().cloned()).collect();
    all.extend(rp.g_bases().iter().cloned());
    all.push(rp.h_base().clone());
    let mut dup = None;
    for (i, p) in all.iter().enumerate() {
        if *p == RistrettoPoint::identity() {
            dup = Some(format!("identity at {}", i));
        }
        if !set.insert(p.compress().to_bytes()) {
            dup = Some(format!("duplicate at {}", i));
        }
    }
    out.oracle("C11:all-distinct-nonidentity", dup.is_none() && all.len() == 2 * 64 * 32 + 7, "bits=64 cap=32 degree=6", &format!("{:?} count={}", dup, all.len()));
    out.stat("points_checked_distinct", all.len());
    // (4) determinism: a second construction and 8 racing threads give identical tables
    let fresh = tari_bulletproofs_plus::range_parameters::RangeParameters::<RistrettoPoint>::init(16, 4, create_pedersen_gens_with_extension_degree(fmrun::deg(3))).unwrap();
    let reference: Vec<[u8; 32]> = fresh.gi_base_iter().chain(fresh.hi_base_iter()).chain(fresh.g_bases().iter()).map(|p| p.compress().to_bytes()).collect();
    let handles: Vec<_> = (0..8)
        .map(|_| {
            std::thread::spawn(|| {
                let p = tari_bulletproofs_plus::range_parameters::RangeParameters::<RistrettoPoint>::init(16, 4, create_pedersen_gens_with_extension_degree(fmrun::deg(3))).unwrap();
                p.gi_base_iter().chain(p.hi_base_iter()).chain(p.g_bases().iter()).map(|p| p.compress().to_bytes()).collect::<Vec<_>>()
            })
        })
        .collect();
    let all_same = handles.into_iter().all(|h| h.join().map(|v| v == reference).unwrap_or(false));
    out.oracle("C11:deterministic-across-threads", all_same, "bits=16 cap=4 degree=3 x 8 threads", "constructions differ");
    out.stat("distinct_classes", classes.len() + 6);
    out.case("all (bits, capacity) in {1..64} x {1..32}: accessors = Elligator(SHAKE256 block) via free-module-observed inputs; table order; capacity-freeness; Pedersen labels from the model; 4103 points distinct; one wide set at bit length 1 (capacity 2^10, thorough 2^17): labels of parties 255..70000, all distinct, table order".into());
}

/// child process for C11: request the Pedersen generator sets in the given order and check each against the labels
pub fn c11_child(order: &str, ped_labels: &[Vec<u8>]) {
    for d in order.split(',').filter_map(|x| x.parse::<usize>().ok()) {
        let pg = create_pedersen_gens_with_extension_degree(fmrun::deg(d));
        let ok = pg.g_base_vec.len() == d
            && pg.g_base_compressed_vec.len() == d
            && (0..d).all(|k| pg.g_base_compressed_vec[k] == pg.g_base_vec[k].compress())
            && (ped_labels.is_empty() || (0..d).all(|k| RistrettoPoint::hash_from_bytes_sha3_512(&ped_labels[k]) == pg.g_base_vec[k]))
            && pg.h_base_compressed == pg.h_base.compress();
        println!("DEG {} {}", d, if ok { "ok" } else { "FAIL" });
    }
}

pub fn c12(opts: &Opts, out: &mut Out) {
    let mut rng = chacha(opts.seed, 12);
    let mut classes = HashSet::new();
    let bits_list: &[usize] = if opts.thorough { &[1, 2, 4, 8, 16, 64] } else { &[1, 2, 4, 8, 64] };
    let tall: &[(usize, usize)] = if opts.thorough { &[(1, 64), (2, 64), (1, 256)] } else { &[(1, 64)] };
    let grid: Vec<(usize, usize)> = bits_list.iter().flat_map(|n| [1usize, 2, 4, 8].iter().map(move |m| (*n, *m))).chain(tall.iter().cloned()).collect();
    {
        for (n, m) in grid {
            if n * m > 128 && m <= 32 {
                continue;
            }
            let caps: Vec<usize> = if m > 32 { vec![m, 2 * m, 1024] } else { [m, 2 * m, 4 * m, 32].iter().cloned().filter(|c| *c <= 32 && *c >= m).collect::<std::collections::BTreeSet<_>>().into_iter().collect() };
            for &cp in &caps {
                let t = 1 + (n + m + cp) % 4;
                let inst = fmrun::random_inst(n, m, cp, t, n + m, false, &mut rng);
                let Ok(proof) = inst.prove(&mut rng) else {
                    out.oracle("C12:prove-ok", false, &inst.describe(), "prover failed");
                    continue;
                };
                for &cv in &caps {
                    let key = format!("{} c_p={} c_v={}", inst.describe(), cp, cv);
                    let stmt_v = inst.statement_with(cv, None).unwrap();
                    // tie + oracle on the free module
                    let vt = inst.transcript();
                    let vid = vt.shadow_id;
                    merlin::tap::start();
                    fm::tap_start();
                    let r = match std::panic::catch_unwind(std::panic::AssertUnwindSafe(|| fmrun::Proof::verify_batch(&mut [vt], std::slice::from_ref(&stmt_v), std::slice::from_ref(&proof), VerifyAction::VerifyOnly))) {
                        Ok(r) => r,
                        Err(_) => {
                            out.oracle("C12:cross-capacity-accepted", false, &key, "verification panicked");
                            let _ = fm::tap_take();
                            let _ = merlin::tap::take();
                            continue;
                        },
                    };
                    let whole = fm::tap_is_whole_check();
                    let residuals = fm::tap_take();
                    let recs = merlin::tap::take();
                    out.oracle("C12:cross-capacity-accepted", r.is_ok(), &key, &format!("err={:?}", r.as_ref().err()));
                    if cv != cp {
                        if let (Some(ch), Some(res)) = (fmx::chal_of(&recs, vid), residuals.last()) {
                            let w = fmx::weights_of(&recs);
                            out.req(
                                format!("verify {} {} {} w={}", fmx::stmt_wire(&inst, &stmt_v.generators, &stmt_v.commitments), fmx::parts(&proof).wire(), ch.wire(), w.first().map(hs).unwrap_or("00".into())),
                                format!("res={} verdict={} msms={} whole={}", fmx::vstr(res), if r.is_ok() { "ok" } else { "err" }, residuals.len(), whole as u8),
                            );
                        }
                    }
                    classes.insert((n, m, cp, cv));
                }
                // Ristretto on a subset
                if n * m <= 32 {
                    let ri = rrun::Inst { n, m, cap: cp, t, values: inst.values.clone(), promises: inst.promises.clone(), blindings: inst.blindings.clone(), seed: None, ctx: inst.ctx.clone() };
                    if let Ok(rp) = ri.prove(&mut rng) {
                        for &cv in &caps {
                            let s = ri.statement_with(cv, None).unwrap();
                            out.oracle("C12:cross-capacity-accepted:ristretto", rrun::verify_one(&ri, &s, &rp, VerifyAction::VerifyOnly).is_ok(), &format!("{} c_p={} c_v={}", ri.describe(), cp, cv), "rejected");
                        }
                    }
                }
            }
        }
    }
    // mixed-capacity batches: every member proved under its own capacity, verified together; and with swapped capacities
    for round in 0..(if opts.thorough { 12 } else { 4 }) {
        let n = [2usize, 4, 8][round % 3];
        let t = 1 + round % 3;
        let shapes = [(1usize, 1usize), (1, 8), (2, 2), (2, 16), (4, 4), (1, 32), (4, 32), (2, 4)];
        let mut insts = vec![];
        let mut proofs = vec![];
        for (i, (m, c)) in shapes.iter().enumerate() {
            let inst = fmrun::random_inst(n, *m, *c, t, i + round, false, &mut rng);
            proofs.push(inst.prove(&mut rng).unwrap());
            insts.push(inst);
        }
        for variant in 0..2 {
            // variant 0: own capacities; variant 1: capacities rotated among members (each still >= its aggregation)
            let stmts: Vec<_> = insts
                .iter()
                .enumerate()
                .map(|(i, inst)| {
                    let c = if variant == 0 { inst.cap } else { shapes[(i + 3) % shapes.len()].1.max(inst.m) };
                    inst.statement_with(c, None).unwrap()
                })
                .collect();
            let mut ts: Vec<_> = insts.iter().map(|i| i.transcript()).collect();
            let tids: Vec<u64> = ts.iter().map(|t| t.shadow_id).collect();
            merlin::tap::start();
            fm::tap_start();
            let r = match std::panic::catch_unwind(std::panic::AssertUnwindSafe(|| fmrun::Proof::verify_batch(&mut ts, &stmts, &proofs, VerifyAction::VerifyOnly))) {
                Ok(r) => r,
                Err(_) => {
                    out.oracle("C12:mixed-capacity-batch", false, &format!("round={} variant={} n={} t={}", round, variant, n, t), "verify_batch panicked on a batch of valid proofs with mixed capacities");
                    let _ = fm::tap_take();
                    let _ = merlin::tap::take();
                    continue;
                },
            };
            let msm_in = fm::msm_inputs();
            let tap_consistent = fm::tap_is_whole_check();
            let _ = fm::tap_take();
            let recs = merlin::tap::take();
            // chunk-level scalar tie: accumulated static vectors, concatenated dynamic scalars
            if let Some((st, dy, table)) = msm_in.last() {
                let ws = fmx::weights_of(&recs);
                let chs: Vec<Option<fmx::Chal>> = tids.iter().map(|id| fmx::chal_of(&recs, *id)).collect();
                if ws.len() == insts.len() && chs.iter().all(|c| c.is_some()) {
                    let max_n = insts.iter().map(|i| i.n * i.m).max().unwrap();
                    let members: Vec<String> = insts
                        .iter()
                        .zip(proofs.iter())
                        .zip(chs.iter().zip(ws.iter()))
                        .map(|((inst, proof), (ch, w))| {
                            let ch = ch.as_ref().unwrap();
                            let parts = fmx::parts(proof);
                            format!(
                                "{};{};{};{};{};{};{};{};{};{}",
                                inst.m,
                                nlist(&inst.promises.iter().map(|p| p.unwrap_or(0)).collect::<Vec<_>>()),
                                hs(&parts.r1),
                                hs(&parts.s1),
                                hlist(&parts.d1),
                                hs(&ch.y),
                                hs(&ch.z),
                                hlist(&ch.es),
                                hs(&ch.e),
                                hs(w)
                            )
                        })
                        .collect();
                    out.req(
                        format!("bscalars n={} t={} maxN={} pad={} members={}", n, t, max_n, table - 2 * max_n, members.join("|")),
                        format!("static={} dynamic={} table={} msms={} consistent={}", hlist(st), hlist(dy), table, msm_in.len(), tap_consistent as u8),
                    );
                }
            }
            out.oracle("C12:mixed-capacity-batch", r.is_ok(), &format!("round={} variant={} n={} t={}", round, variant, n, t), &format!("err={:?}", r.as_ref().err()));
            classes.insert((n, 100 + round, variant, 0));
        }
    }
    // members of different aggregation over ONE parameter object (and its clones), in every order: the capacity is
    // then larger than most members' aggregation, and the largest member is not necessarily first
    for (n, cap, t) in [(2usize, 4usize, 1usize), (8, 8, 2), (4, 4, 3)] {
        let shared = fmrun::params(n, cap, t);
        let ms: Vec<usize> = [1usize, 2, 4, 8].iter().cloned().filter(|m| *m <= cap).collect();
        let made: Vec<(fmrun::Inst, fmrun::Stmt, fmrun::Proof)> = ms
            .iter()
            .map(|m| {
                let inst = fmrun::random_inst(n, *m, cap, t, 4 + m, false, &mut rng);
                let c: Vec<FP> = inst.values.iter().zip(inst.blindings.iter()).map(|(v, r)| shared.pc_gens().commit(&curve25519_dalek::scalar::Scalar::from(*v), r).unwrap()).collect();
                let stmt = tari_bulletproofs_plus::range_statement::RangeStatement::init(shared.clone(), c, inst.promises.clone(), None).unwrap();
                let proof = fmrun::Proof::prove_with_rng(&mut inst.transcript(), &stmt, &inst.witness(), &mut rng).unwrap();
                (inst, stmt, proof)
            })
            .collect();
        let k = made.len();
        let mut orders: Vec<Vec<usize>> = vec![(0..k).collect(), (0..k).rev().collect()];
        for a in 0..k {
            for b in 0..k {
                if a != b {
                    orders.push(vec![a, b]);
                }
            }
        }
        orders.push(vec![0, k - 1, 0]);
        for order in orders {
            for action in [VerifyAction::VerifyOnly, VerifyAction::RecoverAndVerify] {
                let stmts: Vec<fmrun::Stmt> = order.iter().map(|i| made[*i].1.clone()).collect();
                let proofs: Vec<fmrun::Proof> = order.iter().map(|i| made[*i].2.clone()).collect();
                let mut ts: Vec<_> = order.iter().map(|i| made[*i].0.transcript()).collect();
                let r = std::panic::catch_unwind(std::panic::AssertUnwindSafe(|| fmrun::Proof::verify_batch(&mut ts, &stmts, &proofs, action)));
                let ok = matches!(r, Ok(Ok(_)));
                out.oracle("C12:mixed-capacity-batch", ok, &format!("one shared parameter object n={} cap={} t={} aggregations {:?} action={:?}", n, cap, t, order.iter().map(|i| ms[*i]).collect::<Vec<_>>(), action), "a batch of valid proofs over one shared parameter object was refused (or panicked)");
            }
        }
        classes.insert((n, 200, cap, t));
    }
    out.stat("distinct_classes", classes.len());
    out.case("every (c_p, c_v) in {m, 2m, 4m, 32}^2 for bits x aggregation; mixed-capacity batches of 8 members with own and rotated capacities; members of every aggregation over one shared parameter object in every order".into());
}
