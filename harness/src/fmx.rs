//! Free-module-only observation: proof elements as coefficient vectors, challenges / weights / RNG draws from the
//! instrumented merlin, nonces read back from coordinates, and the request lines for the Lean model driver.
use curve25519_dalek::scalar::Scalar;
use merlin::tap::{Ev, Rec};
use tari_bulletproofs_plus::traits::{Decompressable, FixedBytesRepr};

use crate::{
    fm::{CFP, FP},
    fmrun::{Inst, Params, Proof},
    util::*,
};

pub fn vstr(p: &FP) -> String {
    let p = p.clone().norm();
    if p.0.is_empty() {
        "-".into()
    } else {
        p.0.iter().map(|(k, v)| format!("{}:{}", k, hs(v))).collect::<Vec<_>>().join(";")
    }
}
pub fn vlist(v: &[FP]) -> String {
    if v.is_empty() {
        "-".into()
    } else {
        v.iter().map(vstr).collect::<Vec<_>>().join(",")
    }
}

/// proof elements read from the byte encoding (the struct's fields are private)
#[derive(Clone, Debug)]
pub struct Parts {
    pub t: usize,
    pub a: FP,
    pub a1: FP,
    pub b: FP,
    pub l: Vec<FP>,
    pub r: Vec<FP>,
    pub r1: Scalar,
    pub s1: Scalar,
    pub d1: Vec<Scalar>,
}

fn pt(b: &[u8]) -> Option<FP> {
    let mut x = [0u8; 32];
    x.copy_from_slice(b);
    CFP::from_fixed_bytes(x).decompress()
}
fn sc(b: &[u8]) -> Scalar {
    let mut x = [0u8; 32];
    x.copy_from_slice(b);
    Scalar::from_bytes_mod_order(x)
}

pub fn parts_of_bytes(bytes: &[u8]) -> Option<Parts> {
    let t = bytes[0] as usize;
    let el: Vec<&[u8]> = bytes[1..].chunks(32).collect();
    let d1: Vec<Scalar> = el[..t].iter().map(|b| sc(b)).collect();
    let a = pt(el[t])?;
    let a1 = pt(el[t + 1])?;
    let b = pt(el[t + 2])?;
    let r1 = sc(el[t + 3]);
    let s1 = sc(el[t + 4]);
    let mut l = vec![];
    let mut r = vec![];
    for pair in el[t + 5..].chunks(2) {
        l.push(pt(pair[0])?);
        r.push(pt(pair[1])?);
    }
    Some(Parts { t, a, a1, b, l, r, r1, s1, d1 })
}
pub fn parts(p: &Proof) -> Parts {
    parts_of_bytes(&p.to_bytes()).expect("proof points decompress")
}
impl Parts {
    pub fn to_bytes(&self) -> Vec<u8> {
        use tari_bulletproofs_plus::traits::Compressable;
        let mut v = vec![self.t as u8];
        for d in &self.d1 {
            v.extend_from_slice(d.as_bytes());
        }
        v.extend_from_slice(&self.a.compress().0);
        v.extend_from_slice(&self.a1.compress().0);
        v.extend_from_slice(&self.b.compress().0);
        v.extend_from_slice(self.r1.as_bytes());
        v.extend_from_slice(self.s1.as_bytes());
        for (l, r) in self.l.iter().zip(self.r.iter()) {
            v.extend_from_slice(&l.compress().0);
            v.extend_from_slice(&r.compress().0);
        }
        v
    }
    pub fn to_proof(&self) -> Result<Proof, tari_bulletproofs_plus::errors::ProofError> {
        Proof::from_bytes(&self.to_bytes())
    }
    pub fn wire(&self) -> String {
        format!(
            "A={} A1={} B={} L={} R={} r1={} s1={} d1={}",
            vstr(&self.a),
            vstr(&self.a1),
            vstr(&self.b),
            vlist(&self.l),
            vlist(&self.r),
            hs(&self.r1),
            hs(&self.s1),
            hlist(&self.d1)
        )
    }
}

/// basis ids of the generators of a parameter set: (G_0..G_{N-1}, H_0.., hb, Gb_0..)
pub struct GenIds {
    pub g: Vec<u32>,
    pub h: Vec<u32>,
    pub hb: u32,
    pub gb: Vec<u32>,
}
pub fn gen_ids(pr: &Params, count: usize) -> GenIds {
    GenIds {
        g: pr.gi_base_iter().take(count).map(|p| p.single_id().expect("G_i is a basis element")).collect(),
        h: pr.hi_base_iter().take(count).map(|p| p.single_id().expect("H_i is a basis element")).collect(),
        hb: pr.h_base().single_id().expect("hb is a basis element"),
        gb: pr.g_bases().iter().map(|p| p.single_id().expect("Gb_k is a basis element")).collect(),
    }
}
impl GenIds {
    pub fn wire(&self) -> String {
        format!("G={} H={} hb={} Gb={}", nlist(&self.g), nlist(&self.h), self.hb, nlist(&self.gb))
    }
}

#[derive(Clone, Debug)]
pub struct Chal {
    pub y: Scalar,
    pub z: Scalar,
    pub es: Vec<Scalar>,
    pub e: Scalar,
}
impl Chal {
    pub fn wire(&self) -> String {
        format!("y={} z={} es={} e={}", hs(&self.y), hs(&self.z), hlist(&self.es), hs(&self.e))
    }
}

/// challenges drawn on transcript `id`, in order: y, z, e_0.., e
pub fn chal_of(recs: &[Rec], id: u64) -> Option<Chal> {
    let c: Vec<(Vec<u8>, Scalar)> = recs
        .iter()
        .filter(|r| r.id == id)
        .filter_map(|r| match &r.ev {
            Ev::Challenge { label, out } if out.len() == 64 => Some((label.clone(), wide(out))),
            _ => None,
        })
        .collect();
    if c.len() < 3 {
        return None;
    }
    Some(Chal { y: c[0].1, z: c[1].1, es: c[2..c.len() - 1].iter().map(|x| x.1).collect(), e: c[c.len() - 1].1 })
}

/// batch weights: the 64-byte draws of the RNG built from the weight transcript. Recognised structurally (not by
/// label, which a harmless rename may change): the only RNG instance whose forked history contains no challenge and
/// no witness rekeying — member RNGs are forked after challenges were drawn, prover RNGs are rekeyed.
pub fn weights_of(recs: &[Rec]) -> Vec<Scalar> {
    recs.iter()
        .filter_map(|r| match &r.ev {
            Ev::Draw { out }
                if out.len() == 64
                    && !r.hist.iter().any(|e| matches!(e, Ev::Challenge { .. } | Ev::Rekey { .. }))
                    && r.hist.iter().any(|e| matches!(e, Ev::Finalize { .. })) =>
            {
                Some(wide(out))
            },
            _ => None,
        })
        .collect()
}

/// every 64-byte draw from a transcript RNG that was rekeyed with a witness (the prover's RNG instances),
/// as (rng instance id, reduced scalar)
pub fn prover_draws(recs: &[Rec]) -> Vec<(u64, Scalar)> {
    let mut ids: Vec<u64> = vec![];
    for r in recs {
        if matches!(r.ev, Ev::Draw { .. }) && r.hist.iter().any(|e| matches!(e, Ev::Rekey { .. })) && !ids.contains(&r.id) {
            ids.push(r.id);
        }
    }
    let mut v = vec![];
    for id in ids {
        let outs: Vec<&Vec<u8>> = recs.iter().filter(|r| r.id == id).filter_map(|r| match &r.ev { Ev::Draw { out } => Some(out), _ => None }).collect();
        if outs.iter().all(|o| o.len() == 64) {
            v.extend(outs.iter().map(|o| (id, wide(o))));
        } else {
            // code that draws in other portions: every 64-byte window of the output stream on 32-byte boundaries
            let stream: Vec<u8> = outs.iter().flat_map(|o| o.iter().cloned()).collect();
            let mut off = 0;
            while off + 64 <= stream.len() {
                v.push((id, wide(&stream[off..off + 64])));
                off += 32;
            }
        }
    }
    v
}

/// nonces read back from the coordinates of an honest proof
#[derive(Clone, Debug)]
pub struct Nonces {
    pub alpha: Vec<Scalar>,
    pub dl: Vec<Vec<Scalar>>,
    pub dr: Vec<Vec<Scalar>>,
    pub r: Scalar,
    pub s: Scalar,
    pub d: Vec<Scalar>,
    pub eta: Vec<Scalar>,
}
pub fn read_nonces(p: &Parts, ids: &GenIds, ch: &Chal) -> Nonces {
    let coords = |x: &FP| ids.gb.iter().map(|k| x.coord(*k)).collect::<Vec<_>>();
    let prod: Scalar = ch.es.iter().product();
    Nonces {
        alpha: coords(&p.a),
        dl: p.l.iter().map(coords).collect(),
        dr: p.r.iter().map(coords).collect(),
        r: p.a1.coord(ids.g[0]) * prod,
        s: p.a1.coord(ids.h[0]) * prod.invert(),
        d: coords(&p.a1),
        eta: coords(&p.b),
    }
}
impl Nonces {
    pub fn all(&self) -> Vec<(String, Scalar)> {
        let mut v = vec![];
        for (k, x) in self.alpha.iter().enumerate() {
            v.push((format!("alpha[{}]", k), *x));
        }
        for (j, row) in self.dl.iter().enumerate() {
            for (k, x) in row.iter().enumerate() {
                v.push((format!("dL[{}][{}]", j, k), *x));
            }
        }
        for (j, row) in self.dr.iter().enumerate() {
            for (k, x) in row.iter().enumerate() {
                v.push((format!("dR[{}][{}]", j, k), *x));
            }
        }
        v.push(("r".into(), self.r));
        v.push(("s".into(), self.s));
        for (k, x) in self.d.iter().enumerate() {
            v.push((format!("d[{}]", k), *x));
        }
        for (k, x) in self.eta.iter().enumerate() {
            v.push((format!("eta[{}]", k), *x));
        }
        v
    }
    pub fn wire(&self) -> String {
        format!(
            "alpha={} dL={} dR={} rr={} ss={} d={} eta={}",
            hlist(&self.alpha),
            hrows(&self.dl),
            hrows(&self.dr),
            hs(&self.r),
            hs(&self.s),
            hlist(&self.d),
            hlist(&self.eta)
        )
    }
}

/// statement part of a model request
pub fn stmt_wire(inst: &Inst, pr: &Params, commitments: &[FP]) -> String {
    let ids = gen_ids(pr, inst.n * inst.m);
    format!(
        "n={} m={} t={} {} V={} p={}",
        inst.n,
        inst.m,
        inst.t,
        ids.wire(),
        vlist(commitments),
        nlist(&inst.promises.iter().map(|p| p.unwrap_or(0)).collect::<Vec<_>>())
    )
}
