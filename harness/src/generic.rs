// Included twice (`crate::fmrun` with P = FP, `crate::rrun` with P = RistrettoPoint). The including module defines
// `type P`, `fn pedersen(ExtensionDegree) -> PedersenGens<P>` and `const GROUP: &str`.
use std::{cell::RefCell, collections::HashMap};

use curve25519_dalek::scalar::Scalar;
use merlin::Transcript;
use rand_core::RngCore;
use tari_bulletproofs_plus::{
    commitment_opening::CommitmentOpening,
    errors::ProofError,
    extended_mask::ExtendedMask,
    generators::pedersen_gens::ExtensionDegree,
    range_parameters::RangeParameters,
    range_proof::{RangeProof, VerifyAction},
    range_statement::RangeStatement,
    range_witness::RangeWitness,
};

use crate::util::*;

pub type Proof = RangeProof<P>;
pub type Stmt = RangeStatement<P>;
pub type Params = RangeParameters<P>;

pub fn deg(t: usize) -> ExtensionDegree {
    ExtensionDegree::try_from(t).expect("extension degree 1..=6")
}

thread_local! { static PARAMS: RefCell<HashMap<(usize, usize, usize), Params>> = RefCell::new(HashMap::new()); }

/// cached parameter sets (bits, capacity, extension degree)
pub fn params(n: usize, cap: usize, t: usize) -> Params {
    PARAMS.with(|c| {
        c.borrow_mut()
            .entry((n, cap, t))
            .or_insert_with(|| RangeParameters::init(n, cap, pedersen(deg(t))).expect("valid parameters"))
            .clone()
    })
}

/// one prover-side instance
#[derive(Clone, Debug)]
pub struct Inst {
    pub n: usize,
    pub m: usize,
    pub cap: usize,
    pub t: usize,
    pub values: Vec<u64>,
    pub promises: Vec<Option<u64>>,
    pub blindings: Vec<Vec<Scalar>>,
    pub seed: Option<Scalar>,
    pub ctx: Vec<u8>,
}

impl Inst {
    pub fn describe(&self) -> String {
        format!(
            "n={} m={} cap={} t={} v={} p={} seed={} ctx={}",
            self.n,
            self.m,
            self.cap,
            self.t,
            nlist(&self.values),
            self.promises.iter().map(|p| p.map(|x| x.to_string()).unwrap_or("None".into())).collect::<Vec<_>>().join(","),
            self.seed.is_some(),
            hex(&self.ctx)
        )
    }
    pub fn commitments(&self, pr: &Params) -> Vec<P> {
        self.values
            .iter()
            .zip(self.blindings.iter())
            .map(|(v, r)| pr.pc_gens().commit(&Scalar::from(*v), r).expect("commit"))
            .collect()
    }
    pub fn statement_with(&self, cap: usize, seed: Option<Scalar>) -> Result<Stmt, ProofError> {
        let pr = params(self.n, cap, self.t);
        let c = self.commitments(&pr);
        RangeStatement::init(pr, c, self.promises.clone(), seed)
    }
    pub fn statement(&self) -> Stmt {
        self.statement_with(self.cap, self.seed).expect("statement")
    }
    pub fn witness(&self) -> RangeWitness {
        RangeWitness::init(
            self.values.iter().zip(self.blindings.iter()).map(|(v, r)| CommitmentOpening::new(*v, r.clone())).collect(),
        )
        .expect("witness")
    }
    pub fn transcript(&self) -> Transcript {
        let mut t = Transcript::new(b"verif-harness");
        t.append_message(b"ctx", &self.ctx);
        t
    }
    pub fn prove<R: rand_core::CryptoRngCore>(&self, rng: &mut R) -> Result<Proof, ProofError> {
        Proof::prove_with_rng(&mut self.transcript(), &self.statement(), &self.witness(), rng)
    }
}

/// value classes of the lattice
pub fn pick_value(class: usize, n: usize, rng: &mut (impl RngCore + rand_core::CryptoRng)) -> (u64, Option<u64>) {
    let max = if n == 64 { u64::MAX } else { (1u64 << n) - 1 };
    let rnd = if n == 64 { rng.next_u64() } else { rng.next_u64() & max };
    match class % 9 {
        0 => (0, None),
        1 => (1 & max, Some(0)),
        2 => (max, None),
        3 => (if n == 1 { 1 } else { 1u64 << (n - 1) }, None),
        4 => (rnd, None),
        5 => (rnd, Some(rnd)),                                     // v = p
        6 => (rnd, Some(if rnd > 0 { rnd - 1 } else { 0 })),       // p = v - 1
        7 => (max, Some(rnd)),                                     // wide window
        _ => (rnd, Some(rnd / 3)),
    }
}

pub fn random_inst(n: usize, m: usize, cap: usize, t: usize, class: usize, seeded: bool, rng: &mut (impl RngCore + rand_core::CryptoRng)) -> Inst {
    let mut values = vec![];
    let mut promises = vec![];
    let mut blindings = vec![];
    for j in 0..m {
        let (v, p) = pick_value(class + j, n, rng);
        // with a promise the window is v - p < 2^n; v itself may exceed... it may not: the prover also checks v < 2^n
        values.push(v);
        promises.push(p);
        blindings.push((0..t).map(|_| Scalar::random(rng)).collect());
    }
    let mut ctx = vec![0u8; 8];
    rng.fill_bytes(&mut ctx);
    Inst { n, m, cap, t, values, promises, blindings, seed: if seeded && m == 1 { Some(Scalar::random(rng)) } else { None }, ctx }
}

pub fn verify_one(inst: &Inst, stmt: &Stmt, proof: &Proof, action: VerifyAction) -> Result<Vec<Option<ExtendedMask>>, ProofError> {
    Proof::verify_batch(&mut [inst.transcript()], std::slice::from_ref(stmt), std::slice::from_ref(proof), action)
}

pub const ACTIONS: [VerifyAction; 3] = [VerifyAction::VerifyOnly, VerifyAction::RecoverAndVerify, VerifyAction::RecoverOnly];

pub fn err_kind(e: &ProofError) -> &'static str {
    match e {
        ProofError::VerificationFailed(_) => "verification",
        ProofError::InvalidArgument(_) => "argument",
        ProofError::InvalidLength(_) => "length",
        ProofError::SizeOverflow => "overflow",
        ProofError::InvalidBlake2b => "blake",
    }
}

// ---------------------------------------------------------------------------------------------------------------
// C05: systematic single-component mutation of accepted triples (runs over both groups)
// ---------------------------------------------------------------------------------------------------------------
use tari_bulletproofs_plus::traits::{Compressable, FixedBytesRepr};

fn verify_caught(ts: &mut [Transcript], stmts: &[Stmt], proofs: &[Proof], action: VerifyAction) -> Result<bool, ()> {
    let r = std::panic::catch_unwind(std::panic::AssertUnwindSafe(|| Proof::verify_batch(ts, stmts, proofs, action)));
    match r {
        Ok(v) => Ok(v.is_ok()),
        Err(_) => Err(()),
    }
}

/// statement with one field replaced (through the public fields, as a caller can)
fn stmt_variant(base: &Stmt, f: impl FnOnce(&mut Stmt)) -> Stmt {
    let mut s = base.clone();
    f(&mut s);
    s
}

pub fn c05_run(opts: &crate::Opts, out: &mut Out) {
    let mut rng = chacha(opts.seed, 5);
    let mut classes = std::collections::BTreeSet::new();
    let mut nmut = 0u64;
    let configs: Vec<(usize, usize, usize, usize, bool)> = if opts.thorough {
        vec![(2, 1, 1, 1, true), (2, 2, 4, 2, false), (4, 1, 2, 3, true), (8, 2, 2, 1, false), (8, 4, 8, 6, false), (16, 1, 1, 4, false), (64, 1, 2, 2, true), (64, 2, 2, 1, false), (1, 2, 2, 5, false), (32, 4, 4, 2, false)]
    } else {
        vec![(2, 1, 1, 1, true), (4, 2, 4, 3, false), (8, 4, 4, 2, false), (64, 1, 2, 2, true), (1, 2, 2, 6, false), (16, 1, 1, 4, false), (2, 2, 2, 5, false)]
    };
    let limit_r = if GROUP == "ristretto" && !opts.thorough { 3 } else { usize::MAX };
    let mut partial_total = 0usize;
    for (ci, (n, m, cap, t, seeded)) in configs.into_iter().enumerate() {
        if ci >= limit_r {
            break;
        }
        let inst = random_inst(n, m, cap, t, 4 + ci, seeded, &mut rng);
        let key = format!("{} {}", GROUP, inst.describe());
        let stmt = inst.statement();
        let proof = inst.prove(&mut rng).expect("prove");
        let bytes = proof.to_bytes();
        let base_ok = verify_caught(&mut [inst.transcript()], &[stmt.clone()], &[proof.clone()], VerifyAction::VerifyOnly);
        out.oracle("C05:base-accepted", base_ok == Ok(true), &key, "base triple not accepted");
        let mut partial_accepted = 0usize;
        let mut check = |out: &mut Out, what: &str, tr: Transcript, s: &Stmt, pbytes: Option<&[u8]>| {
            nmut += 1;
            classes.insert((n, m, t, what.split('[').next().unwrap().to_string()));
            let mkey = format!("{} mutate={}", key, what);
            let p = match pbytes {
                None => proof.clone(),
                Some(b) => match std::panic::catch_unwind(|| Proof::from_bytes(b)) {
                    Ok(Ok(p)) => p,
                    Ok(Err(_)) => return, // rejected by the decoder: an error value, as required
                    Err(_) => {
                        out.oracle("C05:no-panic", false, &mkey, "from_bytes panicked");
                        return;
                    },
                },
            };
            // a statement or generator set whose two redundant public copies of one datum (point / cached encoding) are
            // out of step is outside the properties' domain: which copy the code consults is its own business. Such
            // alterations are run for panics only; the verdict is counted, not judged.
            let partial = what.ends_with("-only");
            for action in [VerifyAction::VerifyOnly, VerifyAction::RecoverAndVerify] {
                match verify_caught(&mut [tr.clone()], std::slice::from_ref(s), std::slice::from_ref(&p), action) {
                    Err(()) => out.oracle("C05:no-panic", false, &mkey, "verify_batch panicked"),
                    Ok(ok) if partial => {
                        if ok {
                            partial_accepted += 1;
                        }
                    },
                    Ok(ok) => out.oracle("C05:altered-triple-rejected", !ok, &format!("{} action={:?}", mkey, action), &format!("proof={}", hex(&p.to_bytes()))),
                }
            }
        };
        // --- proof scalars and points, by position in the encoding
        let nel = (bytes.len() - 1) / 32;
        for el in 0..nel {
            let is_scalar = el < t || el == t + 3 || el == t + 4;
            let name = if el < t { format!("d1[{}]", el) } else if el == t { "A".into() } else if el == t + 1 { "A1".into() } else if el == t + 2 { "B".into() } else if el == t + 3 { "r1".into() } else if el == t + 4 { "s1".into() } else if (el - t - 5) % 2 == 0 { format!("L[{}]", (el - t - 5) / 2) } else { format!("R[{}]", (el - t - 5) / 2) };
            let off = 1 + 32 * el;
            let mut variants: Vec<(String, [u8; 32])> = vec![];
            let cur: [u8; 32] = bytes[off..off + 32].try_into().unwrap();
            if is_scalar {
                let s = Scalar::from_canonical_bytes(cur).unwrap();
                variants.push(("+1".into(), (s + Scalar::ONE).to_bytes()));
                variants.push(("random".into(), Scalar::random(&mut rng).to_bytes()));
                variants.push(("zero".into(), [0u8; 32]));
                variants.push(("negated".into(), (-s).to_bytes()));
            } else {
                let mut flip = cur;
                flip[5] ^= 0x10;
                variants.push(("bitflip".into(), flip));
                variants.push(("other-point".into(), *other_point(el as u64 + 100).compress().as_fixed_bytes()));
                variants.push(("identity".into(), [0u8; 32]));
                variants.push(("undecodable".into(), undecodable()));
                // another element of the same proof
                let other = if el == t { t + 1 } else { t };
                variants.push(("swapped-in".into(), bytes[1 + 32 * other..1 + 32 * other + 32].try_into().unwrap()));
            }
            for (vn, v) in variants {
                if v == cur {
                    continue;
                }
                let mut b = bytes.clone();
                b[off..off + 32].copy_from_slice(&v);
                check(out, &format!("{}:{}", name, vn), inst.transcript(), &stmt, Some(&b));
            }
        }
        // --- number of rounds, extension tag
        let mut longer = bytes.clone();
        longer.extend_from_slice(&bytes[bytes.len() - 64..]);
        check(out, "rounds+1", inst.transcript(), &stmt, Some(&longer));
        if nel - t - 5 >= 4 {
            check(out, "rounds-1", inst.transcript(), &stmt, Some(&bytes[..bytes.len() - 64]));
        }
        for d in 1..=6u8 {
            if d as usize != t {
                let mut b = bytes.clone();
                b[0] = d;
                check(out, "tag-only", inst.transcript(), &stmt, Some(&b));
                // consistent re-encoding with d1 padded / truncated
                let mut c = vec![d];
                for k in 0..d as usize {
                    if k < t {
                        c.extend_from_slice(&bytes[1 + 32 * k..33 + 32 * k]);
                    } else {
                        c.extend_from_slice(&[0u8; 32]);
                    }
                }
                c.extend_from_slice(&bytes[1 + 32 * t..]);
                check(out, "tag-with-d1-resized", inst.transcript(), &stmt, Some(&c));
            }
        }
        // --- statement fields
        for j in 0..m {
            let s2 = stmt_variant(&stmt, |s| {
                s.commitments[j] = other_point(j as u64);
                s.commitments_compressed[j] = s.commitments[j].compress();
            });
            check(out, &format!("commitment[{}]:replaced", j), inst.transcript(), &s2, None);
            let s3 = stmt_variant(&stmt, |s| s.commitments_compressed[j] = other_point(j as u64 + 50).compress());
            check(out, &format!("commitment[{}]:encoding-only", j), inst.transcript(), &s3, None);
            let s4 = stmt_variant(&stmt, |s| s.commitments[j] = other_point(j as u64 + 70));
            check(out, &format!("commitment[{}]:point-only", j), inst.transcript(), &s4, None);
            let p = inst.promises[j].unwrap_or(0);
            let max = if n == 64 { u64::MAX } else { (1u64 << n) - 1 };
            for np in [p ^ 1, max, max.wrapping_add(1), p.wrapping_add(2) & max] {
                if np != p && !(n == 64 && np == 0 && p == 0) {
                    let s5 = stmt_variant(&stmt, |s| s.minimum_value_promises[j] = Some(np));
                    check(out, &format!("promise[{}]", j), inst.transcript(), &s5, None);
                }
            }
        }
        if m >= 2 && stmt.commitments[0] != stmt.commitments[1] {
            let s6 = stmt_variant(&stmt, |s| {
                s.commitments.swap(0, 1);
                s.commitments_compressed.swap(0, 1);
            });
            check(out, "commitment-order", inst.transcript(), &s6, None);
        }
        // statement fields replaced by values of the right type but of another length or size: a promise list that is
        // shorter, longer or empty; a parameter set (same bit length, same Pedersen generators) whose capacity is below
        // the number of commitments
        {
            let s9 = stmt_variant(&stmt, |s| { s.minimum_value_promises.pop(); });
            check(out, "promise-list:shortened", inst.transcript(), &s9, None);
            let s10 = stmt_variant(&stmt, |s| s.minimum_value_promises.push(None));
            check(out, "promise-list:extended", inst.transcript(), &s10, None);
            let s11 = stmt_variant(&stmt, |s| s.minimum_value_promises.push(Some(1)));
            check(out, "promise-list:extended", inst.transcript(), &s11, None);
            let s12 = stmt_variant(&stmt, |s| s.minimum_value_promises.clear());
            check(out, "promise-list:emptied", inst.transcript(), &s12, None);
            let s14 = stmt_variant(&stmt, |s| { s.commitments.pop(); s.commitments_compressed.pop(); s.minimum_value_promises.pop(); });
            check(out, "commitment-list:shortened", inst.transcript(), &s14, None);
            let s15 = stmt_variant(&stmt, |s| { let c = s.commitments[0].clone(); let cc = s.commitments_compressed[0].clone(); s.commitments.push(c); s.commitments_compressed.push(cc); s.minimum_value_promises.push(None); });
            check(out, "commitment-list:extended", inst.transcript(), &s15, None);
            if m >= 2 {
                for c2 in [m / 2, 1] {
                    let s13 = stmt_variant(&stmt, |s| s.generators = params(n, c2, t));
                    check(out, "generators:capacity-below-commitments", inst.transcript(), &s13, None);
                }
            }
        }
        // generators: point and/or encoding
        for k in 0..=t {
            for mode in 0..3 {
                let mut pg = pedersen(deg(t));
                let np = other_point(900 + k as u64);
                if k == t {
                    if mode != 1 { pg.h_base = np.clone(); }
                    if mode != 2 { pg.h_base_compressed = np.compress(); }
                } else {
                    if mode != 1 { pg.g_base_vec[k] = np.clone(); }
                    if mode != 2 { pg.g_base_compressed_vec[k] = np.compress(); }
                }
                let pr = RangeParameters::init(n, cap, pg).unwrap();
                let s7 = RangeStatement::init(pr, stmt.commitments.clone(), stmt.minimum_value_promises.clone(), stmt.seed_nonce).unwrap();
                let what = format!("{}:{}", if k == t { "H".to_string() } else { format!("G[{}]", k) }, ["both", "encoding-only", "point-only"][mode]);
                check(out, &what, inst.transcript(), &s7, None);
            }
        }
        // bit length
        for n2 in [1usize, 2, 4, 8, 16, 32, 64] {
            if n2 != n {
                let pr = params(n2, cap, t);
                let s8 = RangeStatement::init(pr, stmt.commitments.clone(), stmt.minimum_value_promises.clone(), stmt.seed_nonce).unwrap();
                check(out, "bit-length", inst.transcript(), &s8, None);
            }
        }
        // transcript initial state
        let mut i2 = inst.clone();
        i2.ctx.push(0);
        check(out, "context:extended", i2.transcript(), &stmt, None);
        check(out, "context:other-label", Transcript::new(b"other"), &stmt, None);
        let mut tr3 = inst.transcript();
        tr3.append_message(b"extra", b"");
        check(out, "context:extra-empty-message", tr3, &stmt, None);

        // --- the same alterations inside a batch, with the altered member as the largest statement and not first
        let small = random_inst(n, 1, cap.max(1), t, 9, false, &mut rng);
        let small_stmt = small.statement();
        let small_proof = small.prove(&mut rng).unwrap();
        if m > 1 {
            for k in 0..=t {
                let mut pg = pedersen(deg(t));
                let np = other_point(990 + k as u64);
                if k == t {
                    pg.h_base = np.clone();
                    pg.h_base_compressed = np.compress();
                } else {
                    pg.g_base_vec[k] = np.clone();
                    pg.g_base_compressed_vec[k] = np.compress();
                }
                let pr = RangeParameters::init(n, cap, pg).unwrap();
                let s9 = RangeStatement::init(pr, stmt.commitments.clone(), stmt.minimum_value_promises.clone(), None).unwrap();
                for order in 0..2 {
                    let (mut ts, ss, ps) = if order == 0 {
                        (vec![small.transcript(), inst.transcript()], vec![small_stmt.clone(), s9.clone()], vec![small_proof.clone(), proof.clone()])
                    } else {
                        (vec![inst.transcript(), small.transcript()], vec![s9.clone(), small_stmt.clone()], vec![proof.clone(), small_proof.clone()])
                    };
                    nmut += 1;
                    classes.insert((n, m, t, "batch-generator".to_string()));
                    match verify_caught(&mut ts, &ss, &ps, VerifyAction::VerifyOnly) {
                        Err(()) => out.oracle("C05:no-panic", false, &key, "verify_batch panicked"),
                        Ok(ok) => out.oracle("C05:altered-triple-rejected", !ok, &format!("{} mutate=batch-member-generator[{}] altered-member-position={}", key, k, 1 - order), "batch accepted with an altered commitment generator in one member"),
                    }
                }
            }
        }
        partial_total += partial_accepted;
        if ci < 1 {
            out.case(format!("systematic mutation of {}", key));
        }
    }
    // the bit length / aggregation capacity of one member of a small batch altered, at every position and in both
    // directions (the verifier reads these from the first statement; only the consistency check binds the others)
    for (n, t) in [(4usize, 1usize), (32, 2), (8, 3)] {
        let members: Vec<(Inst, Stmt, Proof)> = (0..3)
            .map(|i| {
                let inst = random_inst(n, 1, 1, t, 4 + i, i == 1, &mut rng);
                let st = inst.statement();
                let p = inst.prove(&mut rng).unwrap();
                (inst, st, p)
            })
            .collect();
        let stmts: Vec<Stmt> = members.iter().map(|m| m.1.clone()).collect();
        let proofs: Vec<Proof> = members.iter().map(|m| m.2.clone()).collect();
        let mut ts: Vec<Transcript> = members.iter().map(|m| m.0.transcript()).collect();
        out.oracle("C05:base-accepted", verify_caught(&mut ts, &stmts, &proofs, VerifyAction::VerifyOnly) == Ok(true), &format!("batch of 3, n={} t={}", n, t), "honest batch not accepted");
        // the same triple twice, the second copy altered in its statement or transcript only (and the other way round):
        // a verifier that recognises "the member just handled" by proof and commitments alone would let it through
        for dup in 0..3usize {
            for what in ["promise", "context", "promise-none-to-one"] {
                for altered_second in [true, false] {
                    let (a, b) = if altered_second { (0usize, 1usize) } else { (1, 0) };
                    let mut st2 = vec![stmts[dup].clone(), stmts[dup].clone()];
                    let pr2 = vec![proofs[dup].clone(), proofs[dup].clone()];
                    let mut ts = vec![members[dup].0.transcript(), members[dup].0.transcript()];
                    let _ = a;
                    match what {
                        "promise" => st2[b] = stmt_variant(&stmts[dup], |s| s.minimum_value_promises[0] = Some(s.minimum_value_promises[0].unwrap_or(0) ^ 1)),
                        "promise-none-to-one" => st2[b] = stmt_variant(&stmts[dup], |s| s.minimum_value_promises[0] = if s.minimum_value_promises[0].unwrap_or(0) == 0 { Some(1) } else { None }),
                        _ => ts[b] = Transcript::new(b"other"),
                    }
                    for action in [VerifyAction::VerifyOnly, VerifyAction::RecoverAndVerify] {
                        let mut ts2 = ts.clone();
                        nmut += 1;
                        classes.insert((n, 2, b, format!("adjacent-duplicate-{}", what)));
                        match verify_caught(&mut ts2, &st2, &pr2, action) {
                            Err(()) => out.oracle("C05:no-panic", false, "adjacent duplicates", "verify_batch panicked"),
                            Ok(ok) => out.oracle("C05:altered-triple-rejected", !ok, &format!("batch of two copies of one triple (n={} t={}), {} of the copy at position {} altered, action={:?}", n, t, what, b, action), "a batch with an altered copy of a valid member was accepted"),
                        }
                    }
                }
            }
        }
        // the shape of one member's proof altered: extension-degree tag with d1 resized to match, one L/R pair more or less
        for pos in 0..3usize {
            let b = proofs[pos].to_bytes();
            let mut variants: Vec<(String, Vec<u8>)> = vec![];
            if t < 6 {
                let mut c = vec![(t + 1) as u8];
                c.extend_from_slice(&b[1..1 + 32 * t]);
                c.extend_from_slice(Scalar::from(7u8).as_bytes());
                c.extend_from_slice(&b[1 + 32 * t..]);
                variants.push(("tag+1 with one more d1 scalar".into(), c));
            }
            if t > 1 {
                let mut c = vec![(t - 1) as u8];
                c.extend_from_slice(&b[1..1 + 32 * (t - 1)]);
                c.extend_from_slice(&b[1 + 32 * t..]);
                variants.push(("tag-1 with one d1 scalar fewer".into(), c));
            }
            let mut c = b.clone();
            c.extend_from_slice(&b[b.len() - 64..]);
            variants.push(("one more L/R pair".into(), c));
            if b.len() > 1 + 32 * (t + 5) + 64 {
                variants.push(("one L/R pair fewer".into(), b[..b.len() - 64].to_vec()));
            }
            for (what, bytes) in variants {
                let Ok(alt) = Proof::from_bytes(&bytes) else { continue };
                let mut pr2 = proofs.clone();
                pr2[pos] = alt;
                for action in [VerifyAction::VerifyOnly, VerifyAction::RecoverAndVerify] {
                    let mut ts: Vec<Transcript> = members.iter().map(|m| m.0.transcript()).collect();
                    nmut += 1;
                    classes.insert((n, 3, pos, format!("batch-proof-shape-{}", what)));
                    match verify_caught(&mut ts, &stmts, &pr2, action) {
                        Err(()) => out.oracle("C05:no-panic", false, "batch of 3", "verify_batch panicked"),
                        Ok(ok) => out.oracle("C05:altered-triple-rejected", !ok, &format!("batch of 3 (n={} t={}), proof at position {}: {}, action={:?}", n, t, pos, what, action), "a batch with one proof's shape altered was accepted"),
                    }
                }
            }
        }
        for pos in 0..3usize {
            for n2 in [1usize, 2, 4, 8, 16, 32, 64] {
                if n2 == n {
                    continue;
                }
                for cap2 in [1usize, 2] {
                    let Ok(alt) = RangeStatement::init(params(n2, cap2, t), stmts[pos].commitments.clone(), stmts[pos].minimum_value_promises.clone(), stmts[pos].seed_nonce) else { continue };
                    let mut st2 = stmts.clone();
                    st2[pos] = alt;
                    for action in [VerifyAction::VerifyOnly, VerifyAction::RecoverAndVerify] {
                        let mut ts: Vec<Transcript> = members.iter().map(|m| m.0.transcript()).collect();
                        nmut += 1;
                        classes.insert((n, 3, pos, format!("batch-bit-length-{}", n2 > n)));
                        match verify_caught(&mut ts, &st2, &proofs, action) {
                            Err(()) => out.oracle("C05:no-panic", false, "batch of 3", "verify_batch panicked"),
                            Ok(ok) => out.oracle("C05:altered-triple-rejected", !ok, &format!("batch of 3 (n={} t={}), bit length of the statement at position {} altered to {} (capacity {}) action={:?}", n, t, pos, n2, cap2, action), "a batch with one statement's bit length altered was accepted"),
                        }
                    }
                }
            }
        }
    }
    // alterations of one triple at each position class of a batch larger than the internal chunk limit
    if GROUP == "freemodule" {
        let k = 257usize;
        let members: Vec<(Inst, Stmt, Proof)> = (0..k)
            .map(|i| {
                let inst = random_inst(2, 1, 1, 1, 4 + i, false, &mut rng);
                let st = inst.statement();
                let p = inst.prove(&mut rng).unwrap();
                (inst, st, p)
            })
            .collect();
        let stmts: Vec<Stmt> = members.iter().map(|m| m.1.clone()).collect();
        let proofs: Vec<Proof> = members.iter().map(|m| m.2.clone()).collect();
        let mut ts: Vec<Transcript> = members.iter().map(|m| m.0.transcript()).collect();
        out.oracle("C05:base-accepted", verify_caught(&mut ts, &stmts, &proofs, VerifyAction::VerifyOnly) == Ok(true), "batch of 257", "honest batch not accepted");
        for pos in [0usize, 255, 256] {
            for what in ["s1", "commitment", "promise", "context"] {
                let mut st2 = stmts.clone();
                let mut pr2 = proofs.clone();
                let mut ts: Vec<Transcript> = members.iter().map(|m| m.0.transcript()).collect();
                match what {
                    "s1" => {
                        let mut b = proofs[pos].to_bytes();
                        b[1 + 32 * (1 + 4)] ^= 1;
                        if let Ok(p) = Proof::from_bytes(&b) {
                            pr2[pos] = p;
                        }
                    },
                    "commitment" => {
                        st2[pos] = stmt_variant(&stmts[pos], |s| {
                            s.commitments[0] = other_point(7000 + pos as u64);
                            s.commitments_compressed[0] = s.commitments[0].compress();
                        })
                    },
                    "promise" => st2[pos] = stmt_variant(&stmts[pos], |s| s.minimum_value_promises[0] = Some(s.minimum_value_promises[0].unwrap_or(0) ^ 1)),
                    _ => ts[pos] = Transcript::new(b"other"),
                }
                nmut += 1;
                classes.insert((2, 257, pos, what.to_string()));
                match verify_caught(&mut ts, &st2, &pr2, VerifyAction::VerifyOnly) {
                    Err(()) => out.oracle("C05:no-panic", false, "batch of 257", "verify_batch panicked"),
                    Ok(ok) => out.oracle("C05:altered-triple-rejected", !ok, &format!("batch of 257, altered {} of the triple at position {}", what, pos), "a batch with one altered triple was accepted"),
                }
            }
        }
    }
    out.stat(&format!("mutations_{}", GROUP), nmut);
    out.stat(&format!("out_of_step_copies_accepted_{}", GROUP), partial_total);
    out.stat("distinct_classes", classes.len());
}

// ---------------------------------------------------------------------------------------------------------------
// C16: decoding and verification never panic, and finish in time proportional to the input (runs over both groups)
// ---------------------------------------------------------------------------------------------------------------
fn action_name(a: VerifyAction) -> &'static str {
    match a {
        VerifyAction::VerifyOnly => "verifyOnly",
        VerifyAction::RecoverAndVerify => "recoverAndVerify",
        VerifyAction::RecoverOnly => "recoverOnly",
    }
}

/// a syntactically valid proof encoding with chosen shape and point classes
fn hostile_bytes(t: usize, rounds: usize, slot_class: &dyn Fn(usize) -> u8, rng: &mut (impl RngCore + rand_core::CryptoRng)) -> Vec<u8> {
    // slot_class(i) for point slot i (0 = A, 1 = A1, 2 = B, 3.. = L0, R0, L1, ...): 0 valid point, 1 identity, 2 undecodable
    let mut b = vec![t as u8];
    for _ in 0..t {
        b.extend_from_slice(Scalar::random(rng).as_bytes());
    }
    let mut slot = 0usize;
    let mut point = |b: &mut Vec<u8>, rng: &mut dyn FnMut() -> u64| {
        match slot_class(slot) {
            0 => b.extend_from_slice(other_point(rng()).compress().as_fixed_bytes()),
            1 => b.extend_from_slice(&[0u8; 32]),
            _ => b.extend_from_slice(&undecodable()),
        }
        slot += 1;
    };
    let mut ctr = 5000u64;
    let mut next = || {
        ctr += 1;
        ctr
    };
    for _ in 0..3 {
        point(&mut b, &mut next);
    }
    b.extend_from_slice(Scalar::random(rng).as_bytes());
    b.extend_from_slice(Scalar::random(rng).as_bytes());
    for _ in 0..2 * rounds {
        point(&mut b, &mut next);
    }
    b
}

pub fn c16_run(opts: &crate::Opts, out: &mut Out) {
    let mut rng = chacha(opts.seed, 16);
    let mut classes = std::collections::BTreeSet::new();
    let mut worst_ms = 0u128;
    let mut ncalls = 0u64;
    // (1) decoder on arbitrary bytes
    let ndec = if opts.thorough { 20000 } else { 2000 };
    for i in 0..ndec {
        let l = match i % 4 {
            0 => (rng.next_u32() % 64) as usize,
            1 => 1 + 32 * (rng.next_u32() % 30) as usize,
            2 => (rng.next_u32() % 2000) as usize,
            _ => 1 + 32 * (7 + 2 * (rng.next_u32() % 8) as usize),
        };
        let mut b = vec![0u8; l];
        rng.fill_bytes(&mut b);
        if l > 0 && i % 2 == 0 {
            b[0] = (rng.next_u32() % 8) as u8;
        }
        let r = std::panic::catch_unwind(|| Proof::from_bytes(&b).is_ok());
        out.oracle("C16:decode-no-panic", r.is_ok(), &format!("{} decode len={}", GROUP, l), &format!("bytes={}", hex(&b)));
        // the serde form of the same string (length-prefixed), and the bare string handed to the serde decoder
        let mut framed = (b.len() as u64).to_le_bytes().to_vec();
        framed.extend_from_slice(&b);
        for (what, input) in [("framed", &framed), ("bare", &b)] {
            let r = std::panic::catch_unwind(|| bincode::deserialize::<Proof>(input).is_ok());
            out.oracle("C16:decode-no-panic", r.is_ok(), &format!("{} serde {} len={}", GROUP, what, l), &format!("bytes={}", hex(input)));
        }
        let _ = std::panic::catch_unwind(|| tari_bulletproofs_plus::range_proof::RangeProof::<crate::fm::FP>::extension_degree_from_proof_bytes(&b).is_ok());
        ncalls += 1;
    }
    // every length 0..=40 (the decoders index into the prefix), zeros and 0xff
    for l in 0..=40usize {
        for fill in [0u8, 0xff, 1] {
            let b = vec![fill; l];
            let mut framed = (b.len() as u64).to_le_bytes().to_vec();
            framed.extend_from_slice(&b);
            let r = std::panic::catch_unwind(|| (Proof::from_bytes(&b).is_ok(), bincode::deserialize::<Proof>(&framed).is_ok(), bincode::deserialize::<Proof>(&b).is_ok()));
            out.oracle("C16:decode-no-panic", r.is_ok(), &format!("{} short input len={} fill={}", GROUP, l, fill), "panicked");
            ncalls += 1;
        }
    }
    // (2) verification over the cross product proof shape x statement shape x mode
    let round_set: Vec<usize> = if opts.thorough { vec![1, 2, 3, 4, 5, 6, 7, 8, 9, 10, 11, 12, 13, 40, 70, 1 << 12] } else { vec![1, 2, 3, 5, 6, 7, 8, 13, 40, 70, 1 << 10] };
    let stmt_shapes: Vec<(usize, usize, usize, usize)> = if opts.thorough {
        vec![(1, 2, 2, 1), (2, 1, 1, 2), (4, 2, 4, 3), (8, 4, 4, 1), (16, 8, 8, 2), (64, 1, 1, 6), (64, 2, 4, 1), (64, 32, 32, 1), (32, 4, 8, 4)]
    } else {
        vec![(1, 2, 2, 1), (2, 1, 1, 2), (4, 2, 4, 3), (8, 4, 4, 1), (64, 1, 2, 6), (64, 2, 2, 1)]
    };
    let cap_ms: u128 = 4000;
    for &(n, m, cap, t) in &stmt_shapes {
        let inst = random_inst(n, m, cap, t, 4, false, &mut rng);
        let stmt = inst.statement();
        let seeded = random_inst(n, 1, cap, t, 4, true, &mut rng);
        for &rounds in &round_set {
            for pt in 0..(if GROUP == "ristretto" && !opts.thorough { 3 } else { 6 }) {
                let t_proof = if pt == 5 { 1 + (t % 6) } else { t };
                // point classes: all valid; identity at a chosen slot; undecodable at a chosen slot
                let nslots = 3 + 2 * rounds;
                let bad_slot = (rounds * 7 + pt) % nslots;
                let class = move |i: usize| -> u8 {
                    match pt {
                        1 if i == bad_slot => 1,
                        2 if i == bad_slot => 2,
                        3 if i == 0 => 1,
                        4 if i == nslots - 1 => 2,
                        _ => 0,
                    }
                };
                let bytes = hostile_bytes(t_proof, rounds, &class, &mut rng);
                let Ok(Ok(proof)) = std::panic::catch_unwind(|| Proof::from_bytes(&bytes)) else {
                    out.oracle("C16:decode-no-panic", false, &format!("{} shape rounds={} t={}", GROUP, rounds, t_proof), "well-formed encoding refused or panicked");
                    continue;
                };
                let points_ok = pt == 0 || pt == 5;
                for (who, st, iseed) in [("plain", &stmt, false), ("seeded", &seeded.statement(), true)] {
                    if iseed && (m != 1 || rounds > 12) {
                        continue;
                    }
                    let mm = if iseed { 1 } else { m };
                    for action in ACTIONS {
                        let key = format!("{} stmt=({},{},{},{}) {} proof=(t={},rounds={},points={}) action={}", GROUP, n, mm, cap, t, who, t_proof, rounds, pt, action_name(action));
                        let t0 = std::time::Instant::now();
                        let tr = if iseed { seeded.transcript() } else { inst.transcript() };
                        let r = std::panic::catch_unwind(std::panic::AssertUnwindSafe(|| Proof::verify_batch(&mut [tr], std::slice::from_ref(st), std::slice::from_ref(&proof), action).is_ok()));
                        let ms = t0.elapsed().as_millis();
                        worst_ms = worst_ms.max(ms);
                        ncalls += 1;
                        out.oracle("C16:verify-no-panic", r.is_ok(), &key, &format!("panicked; proof={}", hex(&bytes[..bytes.len().min(300)])));
                        // proportional to the input size: a fixed allowance plus 1 ms per 16 input bytes (decompressing the
                        // points of a 256 KB proof legitimately takes seconds on a loaded machine)
                        out.oracle("C16:verify-time-bounded", ms < cap_ms + (bytes.len() as u128) / 16, &key, &format!("{} ms for {} input bytes", ms, bytes.len()));
                        classes.insert((n, mm, t, rounds, pt, action_name(action)));
                        if let Ok(ok) = r {
                            // model tie: control-flow verdict (a garbage proof is never valid; recover-only skips the check)
                            out.req(
                                format!("batch c=256 action={} nT=1 nP=1 members={},{},{},0,{},{},1,{},0,{}", action_name(action), n, t, mm, t_proof, rounds, points_ok as u8, iseed as u8),
                                if ok { format!("ok masks={}", if iseed && action != VerifyAction::VerifyOnly { "1" } else { "0" }) } else { "err".to_string() },
                            );
                        }
                    }
                }
            }
        }
    }
    // (3) batch shapes: length mismatches and hostile members among valid ones
    let base = random_inst(4, 2, 2, 2, 4, false, &mut rng);
    let bstmt = base.statement();
    let bproof = base.prove(&mut rng).unwrap();
    let garbage = Proof::from_bytes(&hostile_bytes(2, 3, &|_| 0, &mut rng)).unwrap();
    let garbage_bad = Proof::from_bytes(&hostile_bytes(2, 70, &|i| if i == 4 { 2 } else { 0 }, &mut rng)).unwrap();
    for (k, nt, np) in [(0usize, 0usize, 0usize), (1, 0, 1), (1, 1, 0), (3, 3, 3), (3, 2, 3), (3, 3, 4), (5, 5, 5), (300, 300, 300)] {
        for variant in 0..3 {
            let proofs: Vec<Proof> = (0..np).map(|i| if variant == 1 && i == np / 2 { garbage.clone() } else if variant == 2 && i == np - 1 { garbage_bad.clone() } else { bproof.clone() }).collect();
            let stmts: Vec<Stmt> = (0..k).map(|_| bstmt.clone()).collect();
            let mut ts: Vec<Transcript> = (0..nt).map(|_| base.transcript()).collect();
            for action in ACTIONS {
                let r = std::panic::catch_unwind(std::panic::AssertUnwindSafe(|| Proof::verify_batch(&mut ts, &stmts, &proofs, action).is_ok()));
                ncalls += 1;
                out.oracle("C16:verify-no-panic", r.is_ok(), &format!("{} batch k={} nT={} nP={} variant={} action={}", GROUP, k, nt, np, variant, action_name(action)), "panicked");
                classes.insert((k, nt, np, variant, 99, action_name(action)));
            }
        }
    }
    // (4) valid mixed batches: members of different aggregation and capacity in every order (the largest statement
    // supplies the precomputed table and the padding; a length mismatch there is a hard assertion in the MSM backend)
    let mut pool: Vec<(Inst, Stmt, Proof)> = vec![];
    for (mm, cc) in [(1usize, 4usize), (2, 4), (4, 4), (1, 1), (2, 8), (1, 2)] {
        let i = random_inst(8, mm, cc, 2, 4 + mm, false, &mut rng);
        let s = i.statement();
        let p = i.prove(&mut rng).unwrap();
        pool.push((i, s, p));
    }
    let orders: Vec<Vec<usize>> = vec![vec![0, 1], vec![1, 0], vec![0, 2], vec![3, 1], vec![1, 3], vec![0, 1, 2], vec![2, 1, 0], vec![3, 4], vec![4, 3], vec![5, 4, 0], vec![0, 5, 4], vec![3, 0, 1, 2, 4, 5], vec![5, 3, 0]];
    for order in orders {
        for tamper in [false, true] {
            let stmts: Vec<Stmt> = order.iter().map(|i| pool[*i].1.clone()).collect();
            let mut proofs: Vec<Proof> = order.iter().map(|i| pool[*i].2.clone()).collect();
            if tamper {
                // flip the low bit of r1 (t = 2 here): still a canonical scalar, every point still decodes
                let mut b = proofs[proofs.len() - 1].to_bytes();
                b[1 + 32 * (2 + 3)] ^= 1;
                if let Ok(p) = Proof::from_bytes(&b) {
                    let k = proofs.len() - 1;
                    proofs[k] = p;
                }
            }
            for action in ACTIONS {
                let mut ts: Vec<Transcript> = order.iter().map(|i| pool[*i].0.transcript()).collect();
                let r = std::panic::catch_unwind(std::panic::AssertUnwindSafe(|| Proof::verify_batch(&mut ts, &stmts, &proofs, action).is_ok()));
                ncalls += 1;
                let key = format!("{} mixed batch (agg,cap) order {:?} tampered={} action={}", GROUP, order.iter().map(|i| (pool[*i].0.m, pool[*i].0.cap)).collect::<Vec<_>>(), tamper, action_name(action));
                out.oracle("C16:verify-no-panic", r.is_ok(), &key, "panicked");
                if let Ok(ok) = r {
                    out.oracle("C16:mixed-batch-verdict", ok == (!tamper || action == VerifyAction::RecoverOnly), &key, &format!("verdict {}", ok));
                }
                classes.insert((order.len(), order[0], 0, tamper as usize, 98, action_name(action)));
            }
        }
    }
    // (8) a decoded proof of hostile shape (too few / too many rounds, other d1 length) at every position of a batch
    // of otherwise valid members, in every mode: an error value, never a panic
    {
        let members: Vec<&(Inst, Stmt, Proof)> = vec![&pool[0], &pool[1], &pool[2], &pool[0]]; // 8 bits, degree 2, agg 1/2/4
        for pos in 0..members.len() {
            let good_rounds = (members[pos].0.n * members[pos].0.m).ilog2() as usize;
            for (rounds, tp) in [(1usize, 2usize), (2, 2), (good_rounds - 1, 2), (good_rounds + 1, 2), (good_rounds, 1), (good_rounds, 3), (good_rounds + 3, 6), (40, 2)] {
                if rounds == good_rounds && tp == 2 || rounds == 0 {
                    continue;
                }
                let bytes = hostile_bytes(tp, rounds, &|_| 0u8, &mut rng);
                let Ok(bad) = Proof::from_bytes(&bytes) else { continue };
                let stmts: Vec<Stmt> = members.iter().map(|m| m.1.clone()).collect();
                let proofs: Vec<Proof> = members.iter().enumerate().map(|(i, m)| if i == pos { bad.clone() } else { m.2.clone() }).collect();
                for action in ACTIONS {
                    let mut ts: Vec<Transcript> = members.iter().map(|m| m.0.transcript()).collect();
                    let r = std::panic::catch_unwind(std::panic::AssertUnwindSafe(|| Proof::verify_batch(&mut ts, &stmts, &proofs, action).is_ok()));
                    ncalls += 1;
                    let key = format!("{} batch of 4, hostile proof (rounds {}, degree tag {}) at position {}, action={}", GROUP, rounds, tp, pos, action_name(action));
                    out.oracle("C16:verify-no-panic", r.is_ok(), &key, "panicked");
                    if let Ok(ok) = r {
                        out.oracle("C16:hostile-shape-is-an-error", !ok, &key, "a proof of the wrong shape was not refused");
                    }
                    classes.insert((rounds, pos, tp, 0, 94, action_name(action)));
                }
            }
        }
    }
    // (7) mixed batches beyond the internal chunk limit: the largest statement sits in one chunk only, and the member
    // at "its" position in the other chunks has fewer generators
    {
        let small = &pool[3]; // (agg 1, cap 1)
        let mid = &pool[5]; // (agg 1, cap 2)
        let big = &pool[4]; // (agg 2, cap 8)
        let sizes: Vec<usize> = if opts.thorough { vec![257, 300, 513, 600] } else { vec![257, 300] };
        for size in sizes {
            for big_at in [0usize, 1, 255, 256, size - 1] {
                if GROUP == "ristretto" && !opts.thorough && big_at == 1 {
                    continue;
                }
                let pick = |i: usize| if i == big_at { big } else if i % 3 == 0 { mid } else { small };
                let stmts: Vec<Stmt> = (0..size).map(|i| pick(i).1.clone()).collect();
                let proofs: Vec<Proof> = (0..size).map(|i| pick(i).2.clone()).collect();
                let mut ts: Vec<Transcript> = (0..size).map(|i| pick(i).0.transcript()).collect();
                let t0 = std::time::Instant::now();
                let r = std::panic::catch_unwind(std::panic::AssertUnwindSafe(|| Proof::verify_batch(&mut ts, &stmts, &proofs, VerifyAction::VerifyOnly).is_ok()));
                worst_ms = worst_ms.max(t0.elapsed().as_millis());
                ncalls += 1;
                let key = format!("{} mixed batch of {} with the largest statement at {}", GROUP, size, big_at);
                out.oracle("C16:verify-no-panic", r.is_ok(), &key, "panicked");
                if let Ok(ok) = r {
                    out.oracle("C16:mixed-batch-verdict", ok, &key, "a batch of valid proofs was refused");
                }
                classes.insert((size, big_at, 0, 0, 95, "verify"));
            }
        }
    }
    // (6) a proof whose extension-degree tag / d1 length disagrees with the statements, at every position of a batch of
    // seeded statements, in every mode: an error value, never a panic (the recovery loop indexes d1)
    for t in [2usize, 3] {
        let members: Vec<(Inst, Stmt, Proof)> = (0..3)
            .map(|i| {
                let inst = random_inst(8, 1, 2, t, 4 + i, true, &mut rng);
                let st = inst.statement();
                let p = inst.prove(&mut rng).unwrap();
                (inst, st, p)
            })
            .collect();
        for pos in 0..3usize {
            for dt in [1usize, t - 1, t + 1, 6] {
                if dt == t {
                    continue;
                }
                let b = members[pos].2.to_bytes();
                let mut c = vec![dt as u8];
                for k in 0..dt {
                    if k < t {
                        c.extend_from_slice(&b[1 + 32 * k..33 + 32 * k]);
                    } else {
                        c.extend_from_slice(&[0u8; 32]);
                    }
                }
                c.extend_from_slice(&b[1 + 32 * t..]);
                let Ok(bad) = Proof::from_bytes(&c) else { continue };
                let stmts: Vec<Stmt> = members.iter().map(|m| m.1.clone()).collect();
                let proofs: Vec<Proof> = members.iter().enumerate().map(|(i, m)| if i == pos { bad.clone() } else { m.2.clone() }).collect();
                for action in ACTIONS {
                    let mut ts: Vec<Transcript> = members.iter().map(|m| m.0.transcript()).collect();
                    let r = std::panic::catch_unwind(std::panic::AssertUnwindSafe(|| Proof::verify_batch(&mut ts, &stmts, &proofs, action).is_ok()));
                    ncalls += 1;
                    let key = format!("{} seeded batch of 3 (degree {}), proof at position {} re-tagged to degree {}, action={}", GROUP, t, pos, dt, action_name(action));
                    out.oracle("C16:verify-no-panic", r.is_ok(), &key, "panicked");
                    if let Ok(ok) = r {
                        out.oracle("C16:degree-mismatch-is-an-error", !ok, &key, "a proof of another extension degree was not refused");
                    }
                    classes.insert((t, pos, dt, 0, 96, action_name(action)));
                }
            }
        }
    }
    // (5) whatever the validating constructors accept must not make verification panic: statement shapes at the edge
    // of the documented domain (promise counts, seeds with spare capacity, counts vs capacity)
    for (cap, nc) in [(2usize, 1usize), (4, 1), (4, 2), (8, 2), (2, 2), (4, 4)] {
        let base = random_inst(8, nc, cap, 2, 4, false, &mut rng);
        let good_stmt = base.statement();
        let proof = base.prove(&mut rng).unwrap();
        for np in [nc.saturating_sub(1), nc, nc + 1, cap, cap + 1] {
            for seeded in [false, true] {
                let promises: Vec<Option<u64>> = (0..np).map(|i| if i % 2 == 0 { None } else { Some(1) }).collect();
                let st = std::panic::catch_unwind(std::panic::AssertUnwindSafe(|| {
                    RangeStatement::init(params(8, cap, 2), good_stmt.commitments.clone(), promises.clone(), if seeded { Some(Scalar::from(5u8)) } else { None })
                }));
                let key = format!("{} constructed statement cap={} commitments={} promises={} seeded={}", GROUP, cap, nc, np, seeded);
                let Ok(st) = st else {
                    out.oracle("C16:constructor-no-panic", false, &key, "RangeStatement::init panicked");
                    continue;
                };
                if let Ok(st) = st {
                    for action in ACTIONS {
                        let r = std::panic::catch_unwind(std::panic::AssertUnwindSafe(|| Proof::verify_batch(&mut [base.transcript()], std::slice::from_ref(&st), std::slice::from_ref(&proof), action).is_ok()));
                        ncalls += 1;
                        out.oracle("C16:verify-no-panic", r.is_ok(), &format!("{} action={}", key, action_name(action)), "a statement accepted by the validating constructor makes verification panic");
                        let r2 = std::panic::catch_unwind(std::panic::AssertUnwindSafe(|| Proof::verify_batch(&mut [base.transcript(), base.transcript()], &[good_stmt.clone(), st.clone()], &[proof.clone(), proof.clone()], action).is_ok()));
                        out.oracle("C16:verify-no-panic", r2.is_ok(), &format!("{} in-batch action={}", key, action_name(action)), "a statement accepted by the validating constructor makes batch verification panic");
                    }
                    classes.insert((cap, nc, np, seeded as usize, 97, "ctor"));
                }
            }
        }
    }
    out.stat(&format!("calls_{}", GROUP), ncalls);
    out.stat(&format!("worst_ms_{}", GROUP), worst_ms as u64);
    out.stat("distinct_classes", classes.len());
}
