// Included twice (`crate::fmrun` with P = FP, `crate::rrun` with P = RistrettoPoint). The including module defines
// `type P`, `fn pedersen(ExtensionDegree) -> PedersenGens<P>` and `const GROUP: &str`.
use std::{cell::RefCell, collections::HashMap};

use curve25519_dalek::scalar::Scalar;
use merlin::Transcript;
use rand_core::RngCore;
use tari_bulletproofs_plus::{
    commitment_opening::CommitmentOpening,
    errors::ProofError,
    extended_mask::ExtendedMask,
    generators::pedersen_gens::ExtensionDegree,
    range_parameters::RangeParameters,
    range_proof::{RangeProof, VerifyAction},
    range_statement::RangeStatement,
    range_witness::RangeWitness,
};

use crate::util::*;

pub type Proof = RangeProof<P>;
pub type Stmt = RangeStatement<P>;
pub type Params = RangeParameters<P>;

pub fn deg(t: usize) -> ExtensionDegree {
    ExtensionDegree::try_from(t).expect("extension degree 1..=6")
}

thread_local! { static PARAMS: RefCell<HashMap<(usize, usize, usize), Params>> = RefCell::new(HashMap::new()); }

/// cached parameter sets (bits, capacity, extension degree)
pub fn params(n: usize, cap: usize, t: usize) -> Params {
    PARAMS.with(|c| {
        c.borrow_mut()
            .entry((n, cap, t))
            .or_insert_with(|| RangeParameters::init(n, cap, pedersen(deg(t))).expect("valid parameters"))
            .clone()
    })
}

/// one prover-side instance
#[derive(Clone, Debug)]
pub struct Inst {
    pub n: usize,
    pub m: usize,
    pub cap: usize,
    pub t: usize,
    pub values: Vec<u64>,
    pub promises: Vec<Option<u64>>,
    pub blindings: Vec<Vec<Scalar>>,
    pub seed: Option<Scalar>,
    pub ctx: Vec<u8>,
}

impl Inst {
    pub fn describe(&self) -> String {
        format!(
            "n={} m={} cap={} t={} v={} p={} seed={} ctx={}",
            self.n,
            self.m,
            self.cap,
            self.t,
            nlist(&self.values),
            self.promises.iter().map(|p| p.map(|x| x.to_string()).unwrap_or("None".into())).collect::<Vec<_>>().join(","),
            self.seed.is_some(),
            hex(&self.ctx)
        )
    }
    pub fn commitments(&self, pr: &Params) -> Vec<P> {
        self.values
            .iter()
            .zip(self.blindings.iter())
            .map(|(v, r)| pr.pc_gens().commit(&Scalar::from(*v), r).expect("commit"))
            .collect()
    }
    pub fn statement_with(&self, cap: usize, seed: Option<Scalar>) -> Result<Stmt, ProofError> {
        let pr = params(self.n, cap, self.t);
        let c = self.commitments(&pr);
        RangeStatement::init(pr, c, self.promises.clone(), seed)
    }
    pub fn statement(&self) -> Stmt {
        self.statement_with(self.cap, self.seed).expect("statement")
    }
    pub fn witness(&self) -> RangeWitness {
        RangeWitness::init(
            self.values.iter().zip(self.blindings.iter()).map(|(v, r)| CommitmentOpening::new(*v, r.clone())).collect(),
        )
        .expect("witness")
    }
    pub fn transcript(&self) -> Transcript {
        let mut t = Transcript::new(b"verif-harness");
        t.append_message(b"ctx", &self.ctx);
        t
    }
    pub fn prove<R: rand_core::CryptoRngCore>(&self, rng: &mut R) -> Result<Proof, ProofError> {
        Proof::prove_with_rng(&mut self.transcript(), &self.statement(), &self.witness(), rng)
    }
}

/// value classes of the lattice
pub fn pick_value(class: usize, n: usize, rng: &mut (impl RngCore + rand_core::CryptoRng)) -> (u64, Option<u64>) {
    let max = if n == 64 { u64::MAX } else { (1u64 << n) - 1 };
    let rnd = if n == 64 { rng.next_u64() } else { rng.next_u64() & max };
    match class % 9 {
        0 => (0, None),
        1 => (1 & max, Some(0)),
        2 => (max, None),
        3 => (if n == 1 { 1 } else { 1u64 << (n - 1) }, None),
        4 => (rnd, None),
        5 => (rnd, Some(rnd)),                                     // v = p
        6 => (rnd, Some(if rnd > 0 { rnd - 1 } else { 0 })),       // p = v - 1
        7 => (max, Some(rnd)),                                     // wide window
        _ => (rnd, Some(rnd / 3)),
    }
}

pub fn random_inst(n: usize, m: usize, cap: usize, t: usize, class: usize, seeded: bool, rng: &mut (impl RngCore + rand_core::CryptoRng)) -> Inst {
    let mut values = vec![];
    let mut promises = vec![];
    let mut blindings = vec![];
    for j in 0..m {
        let (v, p) = pick_value(class + j, n, rng);
        // with a promise the window is v - p < 2^n; v itself may exceed... it may not: the prover also checks v < 2^n
        values.push(v);
        promises.push(p);
        blindings.push((0..t).map(|_| Scalar::random(rng)).collect());
    }
    let mut ctx = vec![0u8; 8];
    rng.fill_bytes(&mut ctx);
    Inst { n, m, cap, t, values, promises, blindings, seed: if seeded && m == 1 { Some(Scalar::random(rng)) } else { None }, ctx }
}

pub fn verify_one(inst: &Inst, stmt: &Stmt, proof: &Proof, action: VerifyAction) -> Result<Vec<Option<ExtendedMask>>, ProofError> {
    Proof::verify_batch(&mut [inst.transcript()], std::slice::from_ref(stmt), std::slice::from_ref(proof), action)
}

pub const ACTIONS: [VerifyAction; 3] = [VerifyAction::VerifyOnly, VerifyAction::RecoverAndVerify, VerifyAction::RecoverOnly];

pub fn err_kind(e: &ProofError) -> &'static str {
    match e {
        ProofError::VerificationFailed(_) => "verification",
        ProofError::InvalidArgument(_) => "argument",
        ProofError::InvalidLength(_) => "length",
        ProofError::SizeOverflow => "overflow",
        ProofError::InvalidBlake2b => "blake",
    }
}

// ---------------------------------------------------------------------------------------------------------------
// C05: systematic single-component mutation of accepted triples (runs over both groups)
// ---------------------------------------------------------------------------------------------------------------
use tari_bulletproofs_plus::traits::{Compressable, FixedBytesRepr};

fn verify_caught(ts: &mut [Transcript], stmts: &[Stmt], proofs: &[Proof], action: VerifyAction) -> Result<bool, ()> {
    let r = std::panic::catch_unwind(std::panic::AssertUnwindSafe(|| Proof::verify_batch(ts, stmts, proofs, action)));
    match r {
        Ok(v) => Ok(v.is_ok()),
        Err(_) => Err(()),
    }
}

/// statement with one field replaced (through the public fields, as a caller can)
fn stmt_variant(base: &Stmt, f: impl FnOnce(&mut Stmt)) -> Stmt {
    let mut s = base.clone();
    f(&mut s);
    s
}

pub fn c05_run(opts: &crate::Opts, out: &mut Out) {
    let mut rng = chacha(opts.seed, 5);
    let mut classes = std::collections::BTreeSet::new();
    let mut nmut = 0u64;
    let configs: Vec<(usize, usize, usize, usize, bool)> = if opts.thorough {
        vec![(2, 1, 1, 1, true), (2, 2, 4, 2, false), (4, 1, 2, 3, true), (8, 2, 2, 1, false), (8, 4, 8, 6, false), (16, 1, 1, 4, false), (64, 1, 2, 2, true), (64, 2, 2, 1, false), (1, 2, 2, 5, false), (32, 4, 4, 2, false)]
    } else {
        vec![(2, 1, 1, 1, true), (4, 2, 4, 3, false), (8, 4, 4, 2, false), (64, 1, 2, 2, true), (1, 2, 2, 6, false)]
    };
    let limit_r = if GROUP == "ristretto" && !opts.thorough { 3 } else { usize::MAX };
    for (ci, (n, m, cap, t, seeded)) in configs.into_iter().enumerate() {
        if ci >= limit_r {
            break;
        }
        let inst = random_inst(n, m, cap, t, 4 + ci, seeded, &mut rng);
        let key = format!("{} {}", GROUP, inst.describe());
        let stmt = inst.statement();
        let proof = inst.prove(&mut rng).expect("prove");
        let bytes = proof.to_bytes();
        let base_ok = verify_caught(&mut [inst.transcript()], &[stmt.clone()], &[proof.clone()], VerifyAction::VerifyOnly);
        out.oracle("C05:base-accepted", base_ok == Ok(true), &key, "base triple not accepted");
        let mut check = |out: &mut Out, what: &str, tr: Transcript, s: &Stmt, pbytes: Option<&[u8]>| {
            nmut += 1;
            classes.insert((n, m, t, what.split('[').next().unwrap().to_string()));
            let mkey = format!("{} mutate={}", key, what);
            let p = match pbytes {
                None => proof.clone(),
                Some(b) => match std::panic::catch_unwind(|| Proof::from_bytes(b)) {
                    Ok(Ok(p)) => p,
                    Ok(Err(_)) => return, // rejected by the decoder: an error value, as required
                    Err(_) => {
                        out.oracle("C05:no-panic", false, &mkey, "from_bytes panicked");
                        return;
                    },
                },
            };
            for action in [VerifyAction::VerifyOnly, VerifyAction::RecoverAndVerify] {
                match verify_caught(&mut [tr.clone()], std::slice::from_ref(s), std::slice::from_ref(&p), action) {
                    Err(()) => out.oracle("C05:no-panic", false, &mkey, "verify_batch panicked"),
                    Ok(ok) => out.oracle("C05:altered-triple-rejected", !ok, &format!("{} action={:?}", mkey, action), &format!("proof={}", hex(&p.to_bytes()))),
                }
            }
        };
        // --- proof scalars and points, by position in the encoding
        let nel = (bytes.len() - 1) / 32;
        for el in 0..nel {
            let is_scalar = el < t || el == t + 3 || el == t + 4;
            let name = if el < t { format!("d1[{}]", el) } else if el == t { "A".into() } else if el == t + 1 { "A1".into() } else if el == t + 2 { "B".into() } else if el == t + 3 { "r1".into() } else if el == t + 4 { "s1".into() } else if (el - t - 5) % 2 == 0 { format!("L[{}]", (el - t - 5) / 2) } else { format!("R[{}]", (el - t - 5) / 2) };
            let off = 1 + 32 * el;
            let mut variants: Vec<(String, [u8; 32])> = vec![];
            let cur: [u8; 32] = bytes[off..off + 32].try_into().unwrap();
            if is_scalar {
                let s = Scalar::from_canonical_bytes(cur).unwrap();
                variants.push(("+1".into(), (s + Scalar::ONE).to_bytes()));
                variants.push(("random".into(), Scalar::random(&mut rng).to_bytes()));
                variants.push(("zero".into(), [0u8; 32]));
                variants.push(("negated".into(), (-s).to_bytes()));
            } else {
                let mut flip = cur;
                flip[5] ^= 0x10;
                variants.push(("bitflip".into(), flip));
                variants.push(("other-point".into(), *other_point(el as u64 + 100).compress().as_fixed_bytes()));
                variants.push(("identity".into(), [0u8; 32]));
                variants.push(("undecodable".into(), undecodable()));
                // another element of the same proof
                let other = if el == t { t + 1 } else { t };
                variants.push(("swapped-in".into(), bytes[1 + 32 * other..1 + 32 * other + 32].try_into().unwrap()));
            }
            for (vn, v) in variants {
                if v == cur {
                    continue;
                }
                let mut b = bytes.clone();
                b[off..off + 32].copy_from_slice(&v);
                check(out, &format!("{}:{}", name, vn), inst.transcript(), &stmt, Some(&b));
            }
        }
        // --- number of rounds, extension tag
        let mut longer = bytes.clone();
        longer.extend_from_slice(&bytes[bytes.len() - 64..]);
        check(out, "rounds+1", inst.transcript(), &stmt, Some(&longer));
        if nel - t - 5 >= 4 {
            check(out, "rounds-1", inst.transcript(), &stmt, Some(&bytes[..bytes.len() - 64]));
        }
        for d in 1..=6u8 {
            if d as usize != t {
                let mut b = bytes.clone();
                b[0] = d;
                check(out, "tag-only", inst.transcript(), &stmt, Some(&b));
                // consistent re-encoding with d1 padded / truncated
                let mut c = vec![d];
                for k in 0..d as usize {
                    if k < t {
                        c.extend_from_slice(&bytes[1 + 32 * k..33 + 32 * k]);
                    } else {
                        c.extend_from_slice(&[0u8; 32]);
                    }
                }
                c.extend_from_slice(&bytes[1 + 32 * t..]);
                check(out, "tag-with-d1-resized", inst.transcript(), &stmt, Some(&c));
            }
        }
        // --- statement fields
        for j in 0..m {
            let s2 = stmt_variant(&stmt, |s| {
                s.commitments[j] = other_point(j as u64);
                s.commitments_compressed[j] = s.commitments[j].compress();
            });
            check(out, &format!("commitment[{}]:replaced", j), inst.transcript(), &s2, None);
            let s3 = stmt_variant(&stmt, |s| s.commitments_compressed[j] = other_point(j as u64 + 50).compress());
            check(out, &format!("commitment[{}]:encoding-only", j), inst.transcript(), &s3, None);
            let s4 = stmt_variant(&stmt, |s| s.commitments[j] = other_point(j as u64 + 70));
            check(out, &format!("commitment[{}]:point-only", j), inst.transcript(), &s4, None);
            let p = inst.promises[j].unwrap_or(0);
            let max = if n == 64 { u64::MAX } else { (1u64 << n) - 1 };
            for np in [p ^ 1, max, max.wrapping_add(1), p.wrapping_add(2) & max] {
                if np != p && !(n == 64 && np == 0 && p == 0) {
                    let s5 = stmt_variant(&stmt, |s| s.minimum_value_promises[j] = Some(np));
                    check(out, &format!("promise[{}]", j), inst.transcript(), &s5, None);
                }
            }
        }
        if m >= 2 && stmt.commitments[0] != stmt.commitments[1] {
            let s6 = stmt_variant(&stmt, |s| {
                s.commitments.swap(0, 1);
                s.commitments_compressed.swap(0, 1);
            });
            check(out, "commitment-order", inst.transcript(), &s6, None);
        }
        // generators: point and/or encoding
        for k in 0..=t {
            for mode in 0..3 {
                let mut pg = pedersen(deg(t));
                let np = other_point(900 + k as u64);
                if k == t {
                    if mode != 1 { pg.h_base = np.clone(); }
                    if mode != 2 { pg.h_base_compressed = np.compress(); }
                } else {
                    if mode != 1 { pg.g_base_vec[k] = np.clone(); }
                    if mode != 2 { pg.g_base_compressed_vec[k] = np.compress(); }
                }
                let pr = RangeParameters::init(n, cap, pg).unwrap();
                let s7 = RangeStatement::init(pr, stmt.commitments.clone(), stmt.minimum_value_promises.clone(), stmt.seed_nonce).unwrap();
                let what = format!("{}:{}", if k == t { "H".to_string() } else { format!("G[{}]", k) }, ["both", "encoding-only", "point-only"][mode]);
                check(out, &what, inst.transcript(), &s7, None);
            }
        }
        // bit length
        for n2 in [1usize, 2, 4, 8, 16, 32, 64] {
            if n2 != n {
                let pr = params(n2, cap, t);
                let s8 = RangeStatement::init(pr, stmt.commitments.clone(), stmt.minimum_value_promises.clone(), stmt.seed_nonce).unwrap();
                check(out, "bit-length", inst.transcript(), &s8, None);
            }
        }
        // transcript initial state
        let mut i2 = inst.clone();
        i2.ctx.push(0);
        check(out, "context:extended", i2.transcript(), &stmt, None);
        check(out, "context:other-label", Transcript::new(b"other"), &stmt, None);
        let mut tr3 = inst.transcript();
        tr3.append_message(b"extra", b"");
        check(out, "context:extra-empty-message", tr3, &stmt, None);

        // --- the same alterations inside a batch, with the altered member as the largest statement and not first
        let small = random_inst(n, 1, cap.max(1), t, 9, false, &mut rng);
        let small_stmt = small.statement();
        let small_proof = small.prove(&mut rng).unwrap();
        if m > 1 {
            for k in 0..=t {
                let mut pg = pedersen(deg(t));
                let np = other_point(990 + k as u64);
                if k == t {
                    pg.h_base = np.clone();
                    pg.h_base_compressed = np.compress();
                } else {
                    pg.g_base_vec[k] = np.clone();
                    pg.g_base_compressed_vec[k] = np.compress();
                }
                let pr = RangeParameters::init(n, cap, pg).unwrap();
                let s9 = RangeStatement::init(pr, stmt.commitments.clone(), stmt.minimum_value_promises.clone(), None).unwrap();
                for order in 0..2 {
                    let (mut ts, ss, ps) = if order == 0 {
                        (vec![small.transcript(), inst.transcript()], vec![small_stmt.clone(), s9.clone()], vec![small_proof.clone(), proof.clone()])
                    } else {
                        (vec![inst.transcript(), small.transcript()], vec![s9.clone(), small_stmt.clone()], vec![proof.clone(), small_proof.clone()])
                    };
                    nmut += 1;
                    classes.insert((n, m, t, "batch-generator".to_string()));
                    match verify_caught(&mut ts, &ss, &ps, VerifyAction::VerifyOnly) {
                        Err(()) => out.oracle("C05:no-panic", false, &key, "verify_batch panicked"),
                        Ok(ok) => out.oracle("C05:altered-triple-rejected", !ok, &format!("{} mutate=batch-member-generator[{}] altered-member-position={}", key, k, 1 - order), "batch accepted with an altered commitment generator in one member"),
                    }
                }
            }
        }
        if ci < 1 {
            out.case(format!("systematic mutation of {}", key));
        }
    }
    out.stat(&format!("mutations_{}", GROUP), nmut);
    out.stat("distinct_classes", classes.len());
}
