// Included twice (`crate::fmrun` with P = FP, `crate::rrun` with P = RistrettoPoint). The including module defines
// `type P`, `fn pedersen(ExtensionDegree) -> PedersenGens<P>` and `const GROUP: &str`.
use std::{cell::RefCell, collections::HashMap};

use curve25519_dalek::scalar::Scalar;
use merlin::Transcript;
use rand_core::RngCore;
use tari_bulletproofs_plus::{
    commitment_opening::CommitmentOpening,
    errors::ProofError,
    extended_mask::ExtendedMask,
    generators::pedersen_gens::ExtensionDegree,
    range_parameters::RangeParameters,
    range_proof::{RangeProof, VerifyAction},
    range_statement::RangeStatement,
    range_witness::RangeWitness,
};

use crate::util::*;

pub type Proof = RangeProof<P>;
pub type Stmt = RangeStatement<P>;
pub type Params = RangeParameters<P>;

pub fn deg(t: usize) -> ExtensionDegree {
    ExtensionDegree::try_from(t).expect("extension degree 1..=6")
}

thread_local! { static PARAMS: RefCell<HashMap<(usize, usize, usize), Params>> = RefCell::new(HashMap::new()); }

/// cached parameter sets (bits, capacity, extension degree)
pub fn params(n: usize, cap: usize, t: usize) -> Params {
    PARAMS.with(|c| {
        c.borrow_mut()
            .entry((n, cap, t))
            .or_insert_with(|| RangeParameters::init(n, cap, pedersen(deg(t))).expect("valid parameters"))
            .clone()
    })
}

/// one prover-side instance
#[derive(Clone, Debug)]
pub struct Inst {
    pub n: usize,
    pub m: usize,
    pub cap: usize,
    pub t: usize,
    pub values: Vec<u64>,
    pub promises: Vec<Option<u64>>,
    pub blindings: Vec<Vec<Scalar>>,
    pub seed: Option<Scalar>,
    pub ctx: Vec<u8>,
}

impl Inst {
    pub fn describe(&self) -> String {
        format!(
            "n={} m={} cap={} t={} v={} p={} seed={} ctx={}",
            self.n,
            self.m,
            self.cap,
            self.t,
            nlist(&self.values),
            self.promises.iter().map(|p| p.map(|x| x.to_string()).unwrap_or("None".into())).collect::<Vec<_>>().join(","),
            self.seed.is_some(),
            hex(&self.ctx)
        )
    }
    pub fn commitments(&self, pr: &Params) -> Vec<P> {
        self.values
            .iter()
            .zip(self.blindings.iter())
            .map(|(v, r)| pr.pc_gens().commit(&Scalar::from(*v), r).expect("commit"))
            .collect()
    }
    pub fn statement_with(&self, cap: usize, seed: Option<Scalar>) -> Result<Stmt, ProofError> {
        let pr = params(self.n, cap, self.t);
        let c = self.commitments(&pr);
        RangeStatement::init(pr, c, self.promises.clone(), seed)
    }
    pub fn statement(&self) -> Stmt {
        self.statement_with(self.cap, self.seed).expect("statement")
    }
    pub fn witness(&self) -> RangeWitness {
        RangeWitness::init(
            self.values.iter().zip(self.blindings.iter()).map(|(v, r)| CommitmentOpening::new(*v, r.clone())).collect(),
        )
        .expect("witness")
    }
    pub fn transcript(&self) -> Transcript {
        let mut t = Transcript::new(b"verif-harness");
        t.append_message(b"ctx", &self.ctx);
        t
    }
    pub fn prove<R: rand_core::CryptoRngCore>(&self, rng: &mut R) -> Result<Proof, ProofError> {
        Proof::prove_with_rng(&mut self.transcript(), &self.statement(), &self.witness(), rng)
    }
}

/// value classes of the lattice
pub fn pick_value(class: usize, n: usize, rng: &mut (impl RngCore + rand_core::CryptoRng)) -> (u64, Option<u64>) {
    let max = if n == 64 { u64::MAX } else { (1u64 << n) - 1 };
    let rnd = if n == 64 { rng.next_u64() } else { rng.next_u64() & max };
    match class % 9 {
        0 => (0, None),
        1 => (1 & max, Some(0)),
        2 => (max, None),
        3 => (if n == 1 { 1 } else { 1u64 << (n - 1) }, None),
        4 => (rnd, None),
        5 => (rnd, Some(rnd)),                                     // v = p
        6 => (rnd, Some(if rnd > 0 { rnd - 1 } else { 0 })),       // p = v - 1
        7 => (max, Some(rnd)),                                     // wide window
        _ => (rnd, Some(rnd / 3)),
    }
}

pub fn random_inst(n: usize, m: usize, cap: usize, t: usize, class: usize, seeded: bool, rng: &mut (impl RngCore + rand_core::CryptoRng)) -> Inst {
    let mut values = vec![];
    let mut promises = vec![];
    let mut blindings = vec![];
    for j in 0..m {
        let (v, p) = pick_value(class + j, n, rng);
        // with a promise the window is v - p < 2^n; v itself may exceed... it may not: the prover also checks v < 2^n
        values.push(v);
        promises.push(p);
        blindings.push((0..t).map(|_| Scalar::random(rng)).collect());
    }
    let mut ctx = vec![0u8; 8];
    rng.fill_bytes(&mut ctx);
    Inst { n, m, cap, t, values, promises, blindings, seed: if seeded && m == 1 { Some(Scalar::random(rng)) } else { None }, ctx }
}

pub fn verify_one(inst: &Inst, stmt: &Stmt, proof: &Proof, action: VerifyAction) -> Result<Vec<Option<ExtendedMask>>, ProofError> {
    Proof::verify_batch(&mut [inst.transcript()], std::slice::from_ref(stmt), std::slice::from_ref(proof), action)
}

pub const ACTIONS: [VerifyAction; 3] = [VerifyAction::VerifyOnly, VerifyAction::RecoverAndVerify, VerifyAction::RecoverOnly];

pub fn err_kind(e: &ProofError) -> &'static str {
    match e {
        ProofError::VerificationFailed(_) => "verification",
        ProofError::InvalidArgument(_) => "argument",
        ProofError::InvalidLength(_) => "length",
        ProofError::SizeOverflow => "overflow",
        ProofError::InvalidBlake2b => "blake",
    }
}
