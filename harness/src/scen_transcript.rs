//! C04 (Fiat-Shamir binding): real merlin-boundary event sequence = model's prescribed sequence; every single-datum
//! perturbation changes every later challenge; proofs are bound to their context.
use curve25519_dalek::scalar::Scalar;
use merlin::tap::{self, Ev, Rec};
use tari_bulletproofs_plus::{
    range_parameters::RangeParameters,
    range_proof::VerifyAction,
    range_statement::RangeStatement,
    traits::Compressable,
};

use crate::{
    fm::{fm_pedersen, FP},
    fmrun::{self, Inst, Proof, Stmt},
    fmx,
    scen_core::lattice,
    util::*,
    Opts,
};

pub fn ev_str(e: &Ev) -> Option<String> {
    match e {
        Ev::Append { label, msg } => Some(format!("a.{}.{}", hex(label), hex(msg))),
        Ev::Challenge { label, out } => Some(format!("c.{}.{}", hex(label), out.len())),
        _ => None,
    }
}
pub fn events_of(recs: &[Rec], id: u64) -> Vec<String> {
    recs.iter().filter(|r| r.id == id).filter_map(|r| ev_str(&r.ev)).collect()
}

/// challenges (y, z, e_0.., e) the verifier derives for (stmt, proof) under a transcript
pub fn verifier_challenges(tr: merlin::Transcript, stmt: &Stmt, proof: &Proof) -> (Vec<Scalar>, bool) {
    let id = tr.shadow_id;
    tap::start();
    let r = Proof::verify_batch(&mut [tr], std::slice::from_ref(stmt), std::slice::from_ref(proof), VerifyAction::VerifyOnly);
    let recs = tap::take();
    let ch: Vec<Scalar> = recs
        .iter()
        .filter(|r| r.id == id)
        .filter_map(|r| match &r.ev {
            Ev::Challenge { out, .. } if out.len() == 64 => Some(wide(out)),
            _ => None,
        })
        .collect();
    (ch, r.is_ok())
}

fn model_req(who: &str, ctx_events: &[String], inst: &Inst, stmt: &Stmt, parts: &fmx::Parts) -> String {
    let pr = &stmt.generators;
    format!(
        "events who={} ctx={} hb={} gb={} n={} t={} m={} cs={} ps={} A={} lrs={} A1={} B={} r1={} s1={} d1={}",
        who,
        if ctx_events.is_empty() { "-".to_string() } else { ctx_events.join(",") },
        hex(&pr.h_base_compressed().0),
        pr.g_bases_compressed().iter().map(|c| hex(&c.0)).collect::<Vec<_>>().join(","),
        inst.n,
        inst.t,
        inst.m,
        stmt.commitments_compressed.iter().map(|c| hex(&c.0)).collect::<Vec<_>>().join(","),
        nlist(&stmt.minimum_value_promises.iter().map(|p| p.unwrap_or(0)).collect::<Vec<_>>()),
        hex(&parts.a.compress().0),
        if parts.l.is_empty() { "-".to_string() } else { parts.l.iter().zip(parts.r.iter()).map(|(l, r)| format!("{}:{}", hex(&l.compress().0), hex(&r.compress().0))).collect::<Vec<_>>().join(",") },
        hex(&parts.a1.compress().0),
        hex(&parts.b.compress().0),
        hs(&parts.r1),
        hs(&parts.s1),
        hlist(&parts.d1)
    )
}

pub fn c04(opts: &Opts, out: &mut Out) {
    let mut rng = chacha(opts.seed, 4);
    let lat = lattice(opts, if opts.thorough { 256 } else { 128 }, &mut rng);
    let mut kinds = std::collections::BTreeSet::new();
    let mut npert = 0u64;
    for (idx, (n, m, cap, t, class, seeded, kind)) in lat.pts.iter().enumerate() {
        let mut inst = fmrun::random_inst(*n, *m, *cap, *t, *class, *seeded, &mut rng);
        // every other aggregated point: two EQUAL commitments (same value, same mask) under DIFFERENT promises — each
        // position's promise must be bound, whatever the commitments look like
        if *m >= 2 && idx % 2 == 0 {
            inst.values[0] = inst.values[0].max(1);
            inst.values[1] = inst.values[0];
            inst.blindings[1] = inst.blindings[0].clone();
            inst.promises[0] = None;
            inst.promises[1] = Some(1);
        }
        let key = inst.describe();
        let stmt = inst.statement();
        // prover run with the tap
        let mut tr = inst.transcript();
        let pid = tr.shadow_id;
        let ctx_events: Vec<String> = tr.shadow.iter().filter_map(ev_str).collect();
        tap::start();
        let proof = if matches!(kind, RngKind::Os) { Proof::prove(&mut tr, &stmt, &inst.witness()) } else { Proof::prove_with_rng(&mut tr, &stmt, &inst.witness(), &mut TestRng::new(kind.clone())) };
        let precs = tap::take();
        let Ok(proof) = proof else {
            out.oracle("C04:prove-ok", false, &key, "prover failed");
            continue;
        };
        let parts = fmx::parts(&proof);
        let pev = events_of(&precs, pid);
        out.req(model_req("prover", &ctx_events, &inst, &stmt, &parts), format!("ev={}", pev.join(",")));
        // the state left in the CALLER's transcript: everything absorbed under its identity up to the last challenge is
        // in the caller's object afterwards (a protocol that goes on using the transcript is bound to the proof), and a
        // challenge drawn from it differs from one drawn from the untouched context
        let upto_last = |ev: &Vec<String>| -> Vec<String> { ev.iter().rposition(|e| e.starts_with("c.")).map(|i| ev[..=i].to_vec()).unwrap_or_default() };
        let post_state_ok = |t: &merlin::Transcript, ev: &Vec<String>| -> bool {
            let own: Vec<String> = t.shadow.iter().filter_map(ev_str).collect();
            let want: Vec<String> = ctx_events.iter().cloned().chain(upto_last(ev).into_iter()).collect();
            own.len() >= want.len() && own[..want.len()] == want[..]
        };
        let post_challenge = |t: &merlin::Transcript| -> [u8; 32] { let mut c = t.clone(); let mut b = [0u8; 32]; c.challenge_bytes(b"post-state", &mut b); b };
        let untouched = post_challenge(&inst.transcript());
        out.oracle("C04:caller-transcript-carries-the-proof", post_state_ok(&tr, &pev) && post_challenge(&tr) != untouched, &format!("{} side=prover", key), "after a successful prover call the caller's transcript does not hold what was absorbed: later challenges of the caller do not depend on the proof");
        // verifier run with the tap
        let tr = inst.transcript();
        let vid = tr.shadow_id;
        tap::start();
        let mut vts = [tr];
        let vr = Proof::verify_batch(&mut vts, std::slice::from_ref(&stmt), std::slice::from_ref(&proof), VerifyAction::VerifyOnly);
        let vrecs = tap::take();
        out.oracle("C04:honest-verifies", vr.is_ok(), &key, "honest proof rejected");
        let vev = events_of(&vrecs, vid);
        out.req(model_req("verifier", &ctx_events, &inst, &stmt, &parts), format!("ev={}", vev.join(",")));
        out.oracle("C04:caller-transcript-carries-the-proof", post_state_ok(&vts[0], &vev) && post_challenge(&vts[0]) != untouched, &format!("{} side=verifier", key), "after a successful verifier call the caller's transcript does not hold what was absorbed");

        // single-datum perturbations: every challenge drawn after the datum must change
        let (base, _) = verifier_challenges(inst.transcript(), &stmt, &proof);
        let nch = base.len();
        out.oracle("C04:challenge-count", nch == 3 + parts.l.len(), &key, &format!("challenges={} rounds={}", nch, parts.l.len()));
        let mut perturbed: Vec<(String, usize, merlin::Transcript, Stmt, Proof)> = vec![];
        // context
        let mut i2 = inst.clone();
        i2.ctx[0] ^= 1;
        perturbed.push(("context".into(), 0, i2.transcript(), stmt.clone(), proof.clone()));
        // a different caller protocol label (initial state)
        perturbed.push(("initial-state".into(), 0, merlin::Transcript::new(b"another-protocol"), stmt.clone(), proof.clone()));
        // value generator and each blinding generator (point and encoding)
        let mk_stmt = |pg: tari_bulletproofs_plus::PedersenGens<FP>, n: usize| -> Stmt {
            let pr = RangeParameters::init(n, inst.cap, pg).unwrap();
            RangeStatement::init(pr, stmt.commitments.clone(), stmt.minimum_value_promises.clone(), stmt.seed_nonce).unwrap()
        };
        let mut pg = fm_pedersen(fmrun::deg(inst.t));
        pg.h_base = FP::named("other-H");
        pg.h_base_compressed = pg.h_base.compress();
        perturbed.push(("H".into(), 0, inst.transcript(), mk_stmt(pg, inst.n), proof.clone()));
        for k in 0..inst.t {
            let mut pg = fm_pedersen(fmrun::deg(inst.t));
            pg.g_base_vec[k] = FP::named(&format!("other-G{}", k));
            pg.g_base_compressed_vec[k] = pg.g_base_vec[k].compress();
            perturbed.push((format!("G[{}]", k), 0, inst.transcript(), mk_stmt(pg, inst.n), proof.clone()));
        }
        // bit length
        let n2 = if inst.n == 64 { 32 } else { inst.n * 2 };
        perturbed.push(("bit-length".into(), 0, inst.transcript(), mk_stmt(fm_pedersen(fmrun::deg(inst.t)), n2), proof.clone()));
        // each commitment, each promise
        for j in 0..inst.m {
            let mut s2 = stmt.clone();
            s2.commitments[j] = &s2.commitments[j] + &FP::named("shift");
            s2.commitments_compressed[j] = s2.commitments[j].compress();
            perturbed.push((format!("commitment[{}]", j), 0, inst.transcript(), s2, proof.clone()));
            let mut s3 = stmt.clone();
            s3.minimum_value_promises[j] = Some(s3.minimum_value_promises[j].unwrap_or(0) ^ 1);
            perturbed.push((format!("promise[{}]", j), 0, inst.transcript(), s3, proof.clone()));
        }
        if inst.m >= 2 {
            let mut s4 = stmt.clone();
            s4.commitments.swap(0, 1);
            s4.commitments_compressed.swap(0, 1);
            if s4.commitments[0] != stmt.commitments[0] {
                perturbed.push(("commitment-order".into(), 0, inst.transcript(), s4, proof.clone()));
            }
        }
        // proof elements
        let bump = FP::named("bump");
        let mut p2 = parts.clone();
        p2.a = &p2.a + &bump;
        if let Ok(pp) = p2.to_proof() {
            perturbed.push(("A".into(), 0, inst.transcript(), stmt.clone(), pp));
        }
        for j in 0..parts.l.len() {
            let mut p3 = parts.clone();
            p3.l[j] = &p3.l[j] + &bump;
            perturbed.push((format!("L[{}]", j), 2 + j, inst.transcript(), stmt.clone(), p3.to_proof().unwrap()));
            let mut p4 = parts.clone();
            p4.r[j] = &p4.r[j] + &bump;
            perturbed.push((format!("R[{}]", j), 2 + j, inst.transcript(), stmt.clone(), p4.to_proof().unwrap()));
        }
        if !parts.l.is_empty() {
            let mut p5 = parts.clone();
            p5.a1 = &p5.a1 + &bump;
            perturbed.push(("A1".into(), nch - 1, inst.transcript(), stmt.clone(), p5.to_proof().unwrap()));
            let mut p6 = parts.clone();
            p6.b = &p6.b + &bump;
            perturbed.push(("B".into(), nch - 1, inst.transcript(), stmt.clone(), p6.to_proof().unwrap()));
        }
        for (name, from, tr, s, p) in perturbed {
            let (ch, ok) = verifier_challenges(tr, &s, &p);
            npert += 1;
            kinds.insert((inst.n, inst.m, inst.t, name.split('[').next().unwrap().to_string()));
            let pkey = format!("{} perturb={}", key, name);
            if ch.len() != nch {
                // the perturbed statement was refused before all challenges were drawn (e.g. a smaller bit length makes
                // a promise out of range): an error value is all the property asks for here
                out.oracle("C04:perturbed-rejected", !ok, &pkey, "a proof verified under a perturbed datum");
                continue;
            }
            let unchanged: Vec<usize> = (from..nch).filter(|i| ch[*i] == base[*i]).collect();
            out.oracle("C04:later-challenges-change", unchanged.is_empty(), &pkey, &format!("unchanged challenge indices {:?} of {} (0=y,1=z,2..=e_j,last=e)", unchanged, nch));
            out.oracle("C04:perturbed-rejected", !ok, &pkey, "a proof verified under a perturbed datum");
        }
        // generator sets in which neighbouring blinding generators are EQUAL (custom sets, points and encodings in
        // step): moving one G_k from the value of its left neighbour to that of its right neighbour is a change of a
        // single datum like any other (an absorption that skips repeated neighbours would not see it)
        if inst.t >= 3 {
            for k in 1..inst.t - 1 {
                let mk_set = |mid_is_left: bool| {
                    let mut pg = fm_pedersen(fmrun::deg(inst.t));
                    let left = pg.g_base_vec[k - 1].clone();
                    let right = pg.g_base_vec[k + 1].clone();
                    pg.g_base_vec[k] = if mid_is_left { left } else { right };
                    pg.g_base_compressed_vec[k] = pg.g_base_vec[k].compress();
                    pg
                };
                let (c1, _) = verifier_challenges(inst.transcript(), &mk_stmt(mk_set(true), inst.n), &proof);
                let (c2, _) = verifier_challenges(inst.transcript(), &mk_stmt(mk_set(false), inst.n), &proof);
                npert += 1;
                let same: Vec<usize> = (0..c1.len().min(c2.len())).filter(|i| c1[*i] == c2[*i]).collect();
                out.oracle("C04:later-challenges-change", !c1.is_empty() && c1.len() == c2.len() && same.is_empty(), &format!("{} perturb=G[{}] between the values of its two neighbours", key, k), &format!("unchanged challenge indices {:?}", same));
                kinds.insert((inst.n, inst.m, inst.t, "G-neighbours".to_string()));
            }
        }
        if idx < 2 {
            out.case(format!("events+perturbations of {}: prover events {}", key, pev.len()));
        }
    }
    // context binding at every position of a batch larger than the internal chunk limit: each proof is bound to the
    // transcript supplied at *its own* position
    {
        let k = 257usize;
        let mut insts = vec![];
        let mut stmts = vec![];
        let mut proofs = vec![];
        for i in 0..k {
            let mut inst = fmrun::random_inst(2, 1, 1, 1, 4, false, &mut rng);
            inst.ctx = (i as u64).to_le_bytes().to_vec();
            stmts.push(inst.statement());
            proofs.push(inst.prove(&mut rng).unwrap());
            insts.push(inst);
        }
        let mut ts: Vec<_> = insts.iter().map(|i| i.transcript()).collect();
        let r = Proof::verify_batch(&mut ts, &stmts, &proofs, VerifyAction::VerifyOnly);
        out.oracle("C04:large-batch-distinct-contexts-accepted", r.is_ok(), "k=257 distinct contexts", &format!("{:?}", r.err()));
        for pos in [0usize, 1, 128, 255, 256] {
            let mut ts: Vec<_> = insts.iter().map(|i| i.transcript()).collect();
            let mut other = insts[pos].clone();
            other.ctx[0] ^= 0x80;
            ts[pos] = other.transcript();
            let r = Proof::verify_batch(&mut ts, &stmts, &proofs, VerifyAction::VerifyOnly);
            out.oracle("C04:context-bound-at-every-batch-position", r.is_err(), &format!("k=257 perturbed context at position {}", pos), "a proof was accepted under a context other than the one it was created in");
            kinds.insert((2, 257, 1, format!("batch-context@{}", pos)));
            npert += 1;
        }
    }
    out.stat("perturbation_runs", npert);
    out.stat("distinct_classes", kinds.len());
}
