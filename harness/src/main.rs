//! Verification harness for tari bulletproofs-plus: drives the real library (free-module group and Ristretto), with an
//! instrumented merlin, and prints oracle results plus request/real line pairs for the Lean model driver.
pub mod alloc;
pub mod fm;
pub mod fmx;
pub mod util;
pub mod fmrun {
    pub type P = crate::fm::FP;
    pub const GROUP: &str = "freemodule";
    pub fn pedersen(d: tari_bulletproofs_plus::generators::pedersen_gens::ExtensionDegree) -> tari_bulletproofs_plus::PedersenGens<P> {
        crate::fm::fm_pedersen(d)
    }
    pub fn other_point(tag: u64) -> P {
        crate::fm::FP::named(&format!("other-{}", tag))
    }
    pub fn undecodable() -> [u8; 32] {
        [0xee; 32]
    }
    include!("generic.rs");
}
pub mod rrun {
    pub type P = curve25519_dalek::ristretto::RistrettoPoint;
    pub const GROUP: &str = "ristretto";
    pub fn pedersen(d: tari_bulletproofs_plus::generators::pedersen_gens::ExtensionDegree) -> tari_bulletproofs_plus::PedersenGens<P> {
        tari_bulletproofs_plus::ristretto::create_pedersen_gens_with_extension_degree(d)
    }
    pub fn other_point(tag: u64) -> P {
        let mut b = [7u8; 64];
        b[..8].copy_from_slice(&tag.to_le_bytes());
        P::from_uniform_bytes(&b)
    }
    pub fn undecodable() -> [u8; 32] {
        [0xff; 32]
    }
    include!("generic.rs");
}
pub mod scen_batch;
pub mod scen_codec;
pub mod scen_core;
pub mod scen_ctors;
pub mod scen_wire;
pub mod scen_zeroize;
pub mod scen_threads;
pub mod scen_nonce;
pub mod scen_gens;
pub mod scen_recover;
pub mod scen_transcript;

use util::Out;

#[global_allocator]
static GLOBAL: alloc::Scan = alloc::Scan;

pub struct Opts {
    pub thorough: bool,
    pub seed: u64,
}

fn main() {
    let args: Vec<String> = std::env::args().collect();
    if args.len() < 2 {
        eprintln!("usage: bpp_harness <scenario> [quick|thorough] [seed]");
        std::process::exit(2);
    }
    if args[1] == "C11-child" {
        scen_gens::c11_child(args.get(2).map(|s| s.as_str()).unwrap_or("1"), &[]);
        return;
    }
    if args[1] == "C11-table" {
        // compressed encodings of every generator of the largest parameter set, sorted: input of the generated Lean table
        let pr = rrun::params(64, 32, 6);
        let mut v: Vec<[u8; 32]> = pr.gi_base_iter().chain(pr.hi_base_iter()).chain(pr.g_bases().iter()).chain(std::iter::once(pr.h_base())).map(|p| p.compress().to_bytes()).collect();
        for x in v.iter_mut() {
            x.reverse(); // big-endian for numeric sorting
        }
        v.sort();
        for x in &v {
            println!("{}", util::hex(x));
        }
        return;
    }
    if args[1] == "C19-record" {
        scen_wire::record();
        return;
    }
    if args[1] == "C18-child" {
        scen_threads::child(args.get(2).and_then(|s| s.parse().ok()).unwrap_or(16));
        return;
    }
    let opts = Opts {
        thorough: args.get(2).map(|s| s == "thorough").unwrap_or(false),
        seed: args.get(3).and_then(|s| s.parse().ok()).unwrap_or(1),
    };
    let mut out = Out::new();
    match args[1].as_str() {
        "C01" => scen_core::c01(&opts, &mut out),
        "C02" => scen_core::c02(&opts, &mut out),
        "C03" => scen_batch::c03(&opts, &mut out),
        "C15" => scen_codec::c15(&opts, &mut out),
        "C17" => scen_ctors::c17(&opts, &mut out),
        "C06" => scen_ctors::c06(&opts, &mut out),
        "C04" => scen_transcript::c04(&opts, &mut out),
        "C11" => {
            let labels: Vec<Vec<u8>> = args.get(4).map(|s| s.split(',').map(util::unhex).collect()).unwrap_or_default();
            scen_gens::c11(&opts, &mut out, &labels)
        },
        "C12" => scen_gens::c12(&opts, &mut out),
        "C05" => {
            fmrun::c05_run(&opts, &mut out);
            rrun::c05_run(&opts, &mut out);
        },
        "C13" => scen_nonce::c13(&opts, &mut out),
        "C14" => scen_nonce::c14(&opts, &mut out),
        "C16" => {
            fmrun::c16_run(&opts, &mut out);
            rrun::c16_run(&opts, &mut out);
            scen_codec::serde_visitor_protocol(&mut out, "C16", &scen_codec::sample_proofs(&opts));
            out.case("proof shapes: rounds in {1..13, 40, 70, 2^10}, d1 length = / != degree, identity or undecodable point at chosen slots; statements (bits, agg, cap, degree) incl. seeded; 3 modes; batch length mismatches; random decoder inputs; both groups; build: release + debug-assertions + overflow-checks".into());
        },
        "C18" => scen_threads::c18(&opts, &mut out),
        "C20" => scen_zeroize::c20(&opts, &mut out),
        "C19" => {
            let v = std::fs::read_to_string(args.get(4).map(|s| s.as_str()).unwrap_or("/verif/vectors/v040.txt")).unwrap_or_default();
            scen_wire::c19(&opts, &mut out, &v)
        },
        "C07" => scen_recover::c07(&opts, &mut out),
        "C08" => scen_recover::c08(&opts, &mut out),
        "C09" => scen_recover::c09(&opts, &mut out),
        "C10" => scen_recover::c10(&opts, &mut out),
        other => {
            eprintln!("unknown scenario {}", other);
            std::process::exit(2);
        },
    }
    out.stat("oracle_ok", out.oracle_ok);
    out.stat("oracle_fail", out.oracle_fail);
    out.flush();
}
