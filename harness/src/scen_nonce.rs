//! C13 (every blinding nonce fresh and unpredictable) and C14 (hedged randomness under external-RNG faults).
use std::collections::{BTreeSet, HashSet};

use curve25519_dalek::scalar::Scalar;
use merlin::tap::{self, Ev, Rec};
use rand_core::RngCore;
use tari_bulletproofs_plus::{
    commitment_opening::CommitmentOpening, range_parameters::RangeParameters, range_statement::RangeStatement,
    range_witness::RangeWitness, traits::Compressable, PedersenGens,
};

use crate::{
    fm::{fm_pedersen, FP},
    fmrun::{self, Inst, Proof},
    fmx,
    scen_core::lattice,
    scen_transcript::ev_str,
    util::*,
    Opts,
};

pub struct Observed {
    pub proof: Proof,
    pub parts: fmx::Parts,
    pub chal: fmx::Chal,
    pub nonces: fmx::Nonces,
    pub recs: Vec<Rec>,
    /// id of the caller's transcript
    pub tid: u64,
    /// prover RNG instances in construction order: (id, transcript history as event strings, rekey label, witness, ext)
    pub instances: Vec<(u64, Vec<String>, Vec<u8>, Vec<u8>, Vec<u8>)>,
    /// draws per instance, in order
    pub draws: Vec<Vec<Scalar>>,
}

pub fn observe(inst: &Inst, kind: &RngKind) -> Option<Observed> {
    let stmt = inst.statement();
    let tr = inst.transcript();
    let tid = tr.shadow_id;
    tap::start();
    let proof = if matches!(kind, RngKind::Os) { Proof::prove(&mut { tr }, &stmt, &inst.witness()) } else { Proof::prove_with_rng(&mut { tr }, &stmt, &inst.witness(), &mut TestRng::new(kind.clone())) };
    let recs = tap::take();
    let proof = proof.ok()?;
    let chal = fmx::chal_of(&recs, tid)?;
    let pr = fmrun::params(inst.n, inst.cap, inst.t);
    let ids = fmx::gen_ids(&pr, inst.n * inst.m);
    let parts = fmx::parts(&proof);
    let nonces = fmx::read_nonces(&parts, &ids, &chal);
    let mut instances = vec![];
    for r in &recs {
        if let Ev::Finalize { ext } = &r.ev {
            let hist: Vec<String> = r.hist.iter().filter_map(ev_str).collect();
            // everything keyed into the instance: the labels and the bytes of every rekey step, in order
            let (mut l, mut w) = (vec![], vec![]);
            for e in &r.hist {
                if let Ev::Rekey { label, witness } = e {
                    if l.is_empty() {
                        l = label.clone();
                    }
                    w.extend_from_slice(&(witness.len() as u64).to_le_bytes());
                    w.extend_from_slice(witness);
                }
            }
            // (a single rekey is reported as its bare bytes, as the model emits them)
            if r.hist.iter().filter(|e| matches!(e, Ev::Rekey { .. })).count() == 1 {
                w = w[8..].to_vec();
            }
            instances.push((r.id, hist, l, w, ext.clone()));
        }
    }
    // scalars an instance can have produced: the 64-byte draws reduced, and (for code that draws in other portions)
    // every 64-byte window of the instance's output stream that starts on a 32-byte boundary
    let draws: Vec<Vec<Scalar>> = instances
        .iter()
        .map(|(id, ..)| {
            let outs: Vec<&Vec<u8>> = recs.iter().filter(|r| r.id == *id).filter_map(|r| match &r.ev { Ev::Draw { out } => Some(out), _ => None }).collect();
            let mut v: Vec<Scalar> = outs.iter().filter(|o| o.len() == 64).map(|o| wide(o)).collect();
            if outs.iter().any(|o| o.len() != 64) {
                let stream: Vec<u8> = outs.iter().flat_map(|o| o.iter().cloned()).collect();
                let mut off = 0;
                while off + 64 <= stream.len() {
                    v.push(wide(&stream[off..off + 64]));
                    off += 32;
                }
            }
            v
        })
        .collect();
    Some(Observed { proof, parts, chal, nonces, recs, tid, instances, draws })
}

fn pos_wire(name: &str) -> String {
    // alpha[k] -> alpha.k ; dL[j][k] -> dL.j.k
    name.replace("][", ".").replace('[', ".").replace(']', "")
}

pub fn c13(opts: &Opts, out: &mut Out) {
    let mut rng = chacha(opts.seed, 13);
    let lat = lattice(opts, if opts.thorough { 256 } else { 128 }, &mut rng);
    let mut classes = BTreeSet::new();
    for (idx, (n, m, cap, t, class, _seeded, kind)) in lat.pts.iter().enumerate() {
        for variant in 0..3usize {
            let seeded = variant > 0;
            if seeded && *m != 1 {
                continue;
            }
            let mut inst = fmrun::random_inst(*n, *m, *cap, *t, *class, seeded, &mut rng);
            // some seeds are special values: a seed is only ever a hash input, 0, 1 and -1 are seeds like any other
            if variant == 2 {
                inst.seed = Some([Scalar::ZERO, Scalar::ONE, -Scalar::ONE][idx % 3]);
            }
            let key = format!("{} seedval={} rng={:?}", inst.describe(), inst.seed.map(|x| hs(&x)).unwrap_or("-".into()), kind);
            let Some(o) = observe(&inst, kind) else {
                out.oracle("C13:prove-ok", false, &key, "prover failed");
                continue;
            };
            let all = o.nonces.all();
            let kappa = o.parts.l.len();
            // every nonce non-zero and pairwise distinct within the proof
            let vals: Vec<[u8; 32]> = all.iter().map(|(_, v)| v.to_bytes()).collect();
            let set: HashSet<_> = vals.iter().collect();
            out.oracle("C13:nonzero", all.iter().all(|(_, v)| *v != Scalar::ZERO), &key, &format!("zero nonce at {:?}", all.iter().find(|(_, v)| *v == Scalar::ZERO).map(|x| &x.0)));
            let dupe = (0..all.len()).find(|i| (0..*i).any(|j| vals[*i] == vals[j]));
            out.oracle("C13:distinct-within-proof", set.len() == all.len(), &key, &format!("repeated nonce at position {:?}", dupe.map(|i| &all[i].0)));
            // provenance
            let rng_draws: Vec<Scalar> = o.draws.iter().flatten().cloned().collect();
            let mut used = HashSet::new();
            for (name, v) in &all {
                let from_rng = !seeded || name == "r" || name == "s";
                if from_rng {
                    // injective matching into the logged transcript-RNG outputs
                    let hit = rng_draws.iter().position(|d| d == v);
                    out.oracle("C13:nonce-is-transcript-rng-draw", hit.is_some(), &format!("{} pos={}", key, name), "nonce is not an output of a witness-keyed transcript RNG");
                    if let Some(h) = hit {
                        out.oracle("C13:draw-used-once", used.insert(h), &format!("{} pos={}", key, name), "one RNG draw feeds two nonce positions");
                        // diagnostic: exact (instance, draw) of the model's schedule
                        let mut acc = 0;
                        let mut loc = (0, 0);
                        for (i, d) in o.draws.iter().enumerate() {
                            if h < acc + d.len() {
                                loc = (i, h - acc);
                                break;
                            }
                            acc += d.len();
                        }
                        out.req(format!("noncesrc seeded={} t={} rounds={} pos={}", seeded as u8, inst.t, kappa, pos_wire(name)), format!("src=rng.{}.{}", loc.0, loc.1));
                    }
                } else {
                    // seed-derived: the documented function of the seed (key/persona from the model, Blake2b by the runner)
                    out.req(format!("noncekey seed={} pos={}", hs(&inst.seed.unwrap()), pos_wire(name)), format!("nonce={}", hs(v)));
                }
            }
            classes.insert((*n, *m, *t, seeded));
            // two runs with different randomness share no RNG-derived nonce; seed-derived ones are shared exactly
            let kind2 = RngKind::ChaCha(rng.next_u64());
            let kind1 = RngKind::ChaCha(rng.next_u64());
            if let (Some(a), Some(b)) = (observe(&inst, &kind1), observe(&inst, &kind2)) {
                let (na, nb) = (a.nonces.all(), b.nonces.all());
                let shared: Vec<&String> = na.iter().zip(nb.iter()).filter(|(x, y)| x.1 == y.1).map(|(x, _)| &x.0).collect();
                if seeded {
                    let expect: Vec<&String> = na.iter().map(|x| &x.0).filter(|n| *n != "r" && *n != "s").collect();
                    out.oracle("C13:seeded-runs-share-exactly-seed-nonces", shared == expect, &key, &format!("shared {:?}", shared));
                } else {
                    let sa: HashSet<[u8; 32]> = na.iter().map(|x| x.1.to_bytes()).collect();
                    out.oracle("C13:different-randomness-no-shared-nonce", nb.iter().all(|x| !sa.contains(&x.1.to_bytes())), &key, &format!("shared positions {:?}", shared));
                }
            }
            if idx < 2 {
                out.case(format!("nonces of {}: {} positions, {} rng instances", key, all.len(), o.instances.len()));
            }
        }
    }
    out.stat("distinct_classes", classes.len());
}

/// degenerate Pedersen generators: Gb_1 = Gb_0 (two blinding vectors, one commitment) or Gb_0 = hb
fn degenerate(t: usize, mode: usize) -> PedersenGens<FP> {
    let mut pg = fm_pedersen(fmrun::deg(t));
    if mode == 0 {
        pg.g_base_vec[1] = pg.g_base_vec[0].clone();
        pg.g_base_compressed_vec[1] = pg.g_base_compressed_vec[0];
    } else {
        pg.g_base_vec[0] = pg.h_base.clone();
        pg.g_base_compressed_vec[0] = pg.h_base_compressed;
    }
    pg
}

fn draws_of(pg: &PedersenGens<FP>, n: usize, t: usize, v: u64, r: &[Scalar], promise: Option<u64>, ctx: &[u8], kind: &RngKind) -> Option<(Vec<Scalar>, Vec<u8>, Vec<u8>)> {
    let pr = RangeParameters::init(n, 1, pg.clone()).ok()?;
    let c = pr.pc_gens().commit(&Scalar::from(v), r).ok()?;
    let stmt = RangeStatement::init(pr, vec![c.clone()], vec![promise], None).ok()?;
    let wit = RangeWitness::init(vec![CommitmentOpening::new(v, r.to_vec())]).ok()?;
    let mut tr = merlin::Transcript::new(b"verif-harness");
    tr.append_message(b"ctx", ctx);
    tap::start();
    let p = Proof::prove_with_rng(&mut tr, &stmt, &wit, &mut TestRng::new(kind.clone()));
    let recs = tap::take();
    let p = p.ok()?;
    let _ = t;
    Some((fmx::prover_draws(&recs).into_iter().map(|x| x.1).collect(), p.to_bytes(), c.compress().0.to_vec()))
}

pub fn c14(opts: &Opts, out: &mut Out) {
    let mut rng = chacha(opts.seed, 14);
    let mut classes = BTreeSet::new();
    // (1) RNG construction relation on the lattice: witness serialisation and forked histories equal the model's
    let lat = lattice(opts, if opts.thorough { 128 } else { 64 }, &mut rng);
    for (n, m, cap, t, class, seeded, kind) in lat.pts.iter() {
        let inst = fmrun::random_inst(*n, *m, *cap, *t, *class, *seeded, &mut rng);
        let key = format!("{} rng={:?}", inst.describe(), kind);
        let Some(o) = observe(&inst, kind) else { continue };
        let kappa = o.parts.l.len();
        // every scalar the prover draws comes from an RNG that was keyed with (non-empty) witness bytes and finalised
        // with at least 32 bytes of external randomness, and that was forked from the transcript when nothing more
        // was absorbed afterwards: the forked history is the whole transcript at the moment of the draw. (How many
        // instances are built, and under which labels, is the implementation's business.)
        // (only absorbed data counts: a challenge squeezed between the fork and the draw adds no information)
        let ev_str = |e: &Ev| -> Option<String> { crate::scen_transcript::ev_str(e).filter(|s| s.starts_with("a.")) };
        let ctx_len = inst.transcript().shadow.iter().filter_map(ev_str).count();
        let mut parent: Vec<String> = vec![];
        let (mut keyed, mut whole, mut ndraws) = (true, true, 0usize);
        let mut why = String::new();
        for r in &o.recs {
            if r.id == o.tid {
                if let Some(e) = ev_str(&r.ev) {
                    parent.push(e);
                }
                continue;
            }
            if let Ev::Draw { out: d } = &r.ev {
                if d.is_empty() {
                    continue;
                }
                ndraws += 1;
                let wit_ok = r.hist.iter().any(|e| matches!(e, Ev::Rekey { witness, .. } if !witness.is_empty()));
                let ext_ok = r.hist.iter().any(|e| matches!(e, Ev::Finalize { ext } if ext.len() >= 32));
                if !(wit_ok && ext_ok) {
                    keyed = false;
                }
                let h: Vec<String> = r.hist.iter().filter_map(ev_str).collect();
                let ok = h.len() == ctx_len + parent.len() && h[ctx_len..] == parent[..];
                if !ok && whole {
                    whole = false;
                    why = format!("draw #{}: forked history has {} absorbed messages after the context, the transcript {} at that moment", ndraws, h.len().saturating_sub(ctx_len), parent.len());
                }
            }
        }
        out.oracle("C14:every-draw-keyed-and-hedged", keyed && ndraws > 0, &key, "a scalar was drawn from an RNG built without witness bytes or without 32 bytes of external randomness");
        out.oracle("C14:draw-sees-whole-transcript", whole, &key, &why);
        let wit0 = o.instances.first().map(|i| i.3.clone()).unwrap_or_default();
        out.req(
            format!("witnessbytes v={} r={}", nlist(&inst.values), inst.blindings.iter().map(|b| b.iter().map(hs).collect::<Vec<_>>().join(",")).collect::<Vec<_>>().join("/")),
            format!("bytes={}", hex(&wit0)),
        );
        // forked histories: instance i = transcript up to the i-th update
        let stmt = inst.statement();
        let ctx_events: Vec<String> = inst.transcript().shadow.iter().filter_map(ev_str).collect();
        let pr = &stmt.generators;
        let lrs = if o.parts.l.is_empty() { "-".to_string() } else { o.parts.l.iter().zip(o.parts.r.iter()).map(|(l, r)| format!("{}:{}", hex(&l.compress().0), hex(&r.compress().0))).collect::<Vec<_>>().join(",") };
        out.req(
            format!(
                "rnghist ctx={} hb={} gb={} n={} t={} m={} cs={} ps={} A={} lrs={} A1={} B={}",
                ctx_events.join(","),
                hex(&pr.h_base_compressed().0),
                pr.g_bases_compressed().iter().map(|c| hex(&c.0)).collect::<Vec<_>>().join(","),
                inst.n,
                inst.t,
                inst.m,
                stmt.commitments_compressed.iter().map(|c| hex(&c.0)).collect::<Vec<_>>().join(","),
                nlist(&stmt.minimum_value_promises.iter().map(|p| p.unwrap_or(0)).collect::<Vec<_>>()),
                hex(&o.parts.a.compress().0),
                lrs,
                hex(&o.parts.a1.compress().0),
                hex(&o.parts.b.compress().0)
            ),
            format!("hists={}", o.instances.iter().map(|i| i.1[ctx_events.len().min(i.1.len())..].join(",")).collect::<Vec<_>>().join("|")),
        );
        classes.insert((*n, *m, *t, 0usize));
    }
    // (2) fault injection: pairs of runs differing in exactly one datum share no RNG output
    let faults = [RngKind::Zero, RngKind::Const(0xa5), RngKind::Period2(3, 4), RngKind::Replay(99)];
    for (fi, fault) in faults.iter().enumerate() {
        for &n in &[2usize, 8, 64] {
            let t = 2;
            let v = 1u64;
            let r = vec![Scalar::from(11u8), Scalar::from(22u8)];
            let ctx = vec![1u8, 2, 3];
            let key = format!("fault={:?} n={}", fault, n);
            let std = fm_pedersen(fmrun::deg(t));
            let base = draws_of(&std, n, t, v, &r, None, &ctx, fault);
            let again = draws_of(&std, n, t, v, &r, None, &ctx, fault);
            let Some(base) = base else {
                out.oracle("C14:prove-ok", false, &key, "prover failed");
                continue;
            };
            out.oracle("C14:identical-runs-reproducible", again.as_ref().map(|a| a.1 == base.1 && a.0 == base.0).unwrap_or(false), &key, "identical runs give different proofs");
            let disjoint = |a: &Vec<Scalar>, b: &Vec<Scalar>| {
                let s: HashSet<[u8; 32]> = a.iter().map(|x| x.to_bytes()).collect();
                !b.is_empty() && b.iter().all(|x| !s.contains(&x.to_bytes()))
            };
            // different context
            let other = draws_of(&std, n, t, v, &r, None, &[1u8, 2, 4], fault).unwrap();
            out.oracle("C14:context-change-no-shared-nonce", disjoint(&base.0, &other.0), &format!("{} differ=context", key), "RNG output shared across contexts");
            // different statement (promise)
            let other = draws_of(&std, n, t, v, &r, Some(1), &ctx, fault).unwrap();
            out.oracle("C14:statement-change-no-shared-nonce", disjoint(&base.0, &other.0), &format!("{} differ=promise", key), "RNG output shared across statements");
            // different blinding vector, same commitment (Gb_1 = Gb_0)
            let dg = degenerate(t, 0);
            let b0 = draws_of(&dg, n, t, v, &r, None, &ctx, fault).unwrap();
            let r2 = vec![r[0] + Scalar::from(5u8), r[1] - Scalar::from(5u8)];
            let b1 = draws_of(&dg, n, t, v, &r2, None, &ctx, fault).unwrap();
            out.oracle("C14:harness-same-commitment", b0.2 == b1.2, &key, "degenerate generators did not give equal commitments");
            out.oracle("C14:blinding-change-no-shared-nonce", disjoint(&b0.0, &b1.0), &format!("{} differ=blinding(same commitment)", key), "two witnesses for one commitment share an RNG-derived nonce under a faulty external RNG");
            // different value, same commitment (Gb_0 = hb): (v, r0) and (v+1, r0-1)
            let dg = degenerate(t, 1);
            let c0 = draws_of(&dg, n, t, v, &r, None, &ctx, fault).unwrap();
            let r3 = vec![r[0] - Scalar::ONE, r[1]];
            let c1 = draws_of(&dg, n, t, v + 1, &r3, None, &ctx, fault).unwrap();
            out.oracle("C14:harness-same-commitment", c0.2 == c1.2, &key, "degenerate generators did not give equal commitments (value)");
            out.oracle("C14:value-change-no-shared-nonce", disjoint(&c0.0, &c1.0), &format!("{} differ=value(same commitment)", key), "two witnesses for one commitment share an RNG-derived nonce under a faulty external RNG");
            classes.insert((n, 1, t, 10 + fi));
        }
    }
    // the bytes keyed into the RNG determine the witness: changing any single component (a value, any blinding
    // component of any opening) changes the key of every instance
    {
        let keys_of = |inst: &Inst| -> Option<Vec<Vec<u8>>> { observe(inst, &RngKind::Zero).map(|o| o.instances.iter().map(|i| i.3.clone()).collect()) };
        // (the large aggregates make the serialised witness longer than 16 KiB, 32 KiB: a bounded or chunked key
        // buffer must still take in the last opening)
        let big: Vec<(usize, usize, usize)> = if opts.thorough { vec![(1, 512, 1), (1, 128, 4), (1, 256, 2), (1, 256, 6), (1, 1024, 1)] } else { vec![(1, 512, 1), (1, 128, 4), (1, 256, 2)] };
        for (n, m, t) in [(4usize, 2usize, 3usize), (8, 1, 6), (2, 4, 1)].into_iter().chain(big.into_iter()) {
            let inst = fmrun::random_inst(n, m, m, t, 4, false, &mut rng);
            let Some(k0) = keys_of(&inst) else { continue };
            let js: Vec<usize> = if m <= 8 { (0..m).collect() } else { vec![0, 1, m / 2, m - 9, m - 2, m - 1] };
            for j in js {
                for c in 0..=t {
                    let mut i2 = inst.clone();
                    if c == t {
                        i2.values[j] ^= 1;
                        i2.promises[j] = None;
                    } else {
                        i2.blindings[j][c] += Scalar::ONE;
                    }
                    let Some(k1) = keys_of(&i2) else { continue };
                    let all_differ = !k0.is_empty() && k0.len() == k1.len() && k0.iter().zip(k1.iter()).all(|(a, b)| a != b);
                    out.oracle("C14:key-determines-witness", all_differ, &format!("n={} m={} t={} opening={} component={}", n, m, t, j, if c == t { "value".to_string() } else { format!("r[{}]", c) }), "two witnesses differing in one component key an RNG instance with the same bytes");
                }
            }
            classes.insert((n, m, t, 20usize));
        }
    }
    // witnesses assembled through the public fields (not through `RangeWitness::init`), which the prover accepts:
    // openings with fewer blinding factors than the statement's degree, and ragged ones. Every draw must still come
    // from an RNG keyed with the witness.
    for (t, lens) in [(2usize, vec![1usize]), (3, vec![1, 3]), (2, vec![1, 2]), (4, vec![2, 2])] {
        let m = lens.len();
        let n = 4usize;
        let pr = fmrun::params(n, m, t);
        let vals: Vec<u64> = (0..m).map(|j| 3 + j as u64).collect();
        let rs: Vec<Vec<Scalar>> = lens.iter().map(|l| (0..*l).map(|_| Scalar::random(&mut rng)).collect()).collect();
        let Ok(cs) = vals.iter().zip(rs.iter()).map(|(v, r)| pr.pc_gens().commit(&Scalar::from(*v), r)).collect::<Result<Vec<FP>, _>>() else { continue };
        let Ok(stmt) = RangeStatement::init(pr, cs, vec![None; m], None) else { continue };
        let wit = RangeWitness { openings: vals.iter().zip(rs.iter()).map(|(v, r)| CommitmentOpening::new(*v, r.clone())).collect(), extension_degree: fmrun::deg(t) };
        let key = format!("hand-assembled witness n={} t={} blinding counts {:?}", n, t, lens);
        let mut tr = merlin::Transcript::new(b"verif-harness");
        tap::start();
        let proof = Proof::prove_with_rng(&mut tr, &stmt, &wit, &mut TestRng::new(RngKind::Zero));
        let recs = tap::take();
        if proof.is_err() {
            continue; // refused: nothing is drawn for it
        }
        let mut nd = 0usize;
        let mut keyed = true;
        for r in &recs {
            if let Ev::Draw { out: d } = &r.ev {
                if !d.is_empty() {
                    nd += 1;
                    let wit_ok = r.hist.iter().any(|e| matches!(e, Ev::Rekey { witness, .. } if !witness.is_empty()));
                    let ext_ok = r.hist.iter().any(|e| matches!(e, Ev::Finalize { ext } if ext.len() >= 32));
                    keyed &= wit_ok && ext_ok;
                }
            }
        }
        out.oracle("C14:every-draw-keyed-and-hedged", keyed && nd > 0, &key, "a scalar was drawn from an RNG built without witness bytes or without 32 bytes of external randomness");
        classes.insert((n, m, t, 30usize));
    }
    // seeded statements: r and s still come from the hedged RNG
    for fault in &faults {
        let inst = fmrun::random_inst(8, 1, 1, 2, 4, true, &mut rng);
        let mut i2 = inst.clone();
        i2.ctx[0] ^= 1;
        if let (Some(a), Some(b)) = (observe(&inst, fault), observe(&i2, fault)) {
            out.oracle("C14:seeded-r-s-differ-across-contexts", a.nonces.r != b.nonces.r && a.nonces.s != b.nonces.s, &format!("fault={:?}", fault), "r/s shared across contexts under a faulty RNG");
        }
    }
    out.stat("distinct_classes", classes.len());
    out.case("external RNG in {all-zero, constant, period-2, replayed}; pairs differing in exactly one of context, promise, blinding vector (same commitment via Gb_1 = Gb_0), value (same commitment via Gb_0 = hb); identical runs".into());
}
