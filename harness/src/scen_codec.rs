//! C15: proof codec — exact acceptance set, canonical re-encoding, prover outputs round-trip, serde form.
use curve25519_dalek::scalar::Scalar;
use rand_core::RngCore;

use crate::{rrun, util::*, Opts};

const ELL: [u8; 32] = [
    0xed, 0xd3, 0xf5, 0x5c, 0x1a, 0x63, 0x12, 0x58, 0xd6, 0x9c, 0xf7, 0xa2, 0xde, 0xf9, 0xde, 0x14, 0, 0, 0, 0, 0, 0, 0, 0, 0, 0, 0, 0, 0, 0, 0,
    0x10,
];

/// independent acceptance predicate, written from the property's text
fn lt_ell(b: &[u8]) -> bool {
    for i in (0..32).rev() {
        if b[i] < ELL[i] {
            return true;
        }
        if b[i] > ELL[i] {
            return false;
        }
    }
    false
}
pub fn acceptable(b: &[u8]) -> bool {
    if b.is_empty() {
        return false;
    }
    let d = b[0] as usize;
    if !(1..=6).contains(&d) {
        return false;
    }
    let body = b.len() - 1;
    if body % 32 != 0 {
        return false;
    }
    let el = body / 32;
    if el < 5 + d + 2 || (el - 5 - d) % 2 != 0 {
        return false;
    }
    let slot = |i: usize| &b[1 + 32 * i..1 + 32 * (i + 1)];
    (0..d).all(|i| lt_ell(slot(i))) && lt_ell(slot(d + 3)) && lt_ell(slot(d + 4))
}

fn emit(out: &mut Out, class: &str, b: &[u8], counts: &mut std::collections::BTreeMap<String, (u64, u64)>) {
    let r = rrun::Proof::from_bytes(b);
    let e = counts.entry(class.to_string()).or_insert((0, 0));
    e.0 += 1;
    let key = format!("decode:{} len={} bytes={}", class, b.len(), hex(&b[..b.len().min(80)]));
    out.oracle("C15:acceptance-set", r.is_ok() == acceptable(b), &key, &format!("decoder={} predicate={} full={}", r.is_ok(), acceptable(b), hex(b)));
    let deg = match rrun::Proof::extension_degree_from_proof_bytes(b) {
        Ok(d) => (d as usize).to_string(),
        Err(_) => "err".to_string(),
    };
    let real = match &r {
        Ok(p) => {
            e.1 += 1;
            let re = p.to_bytes();
            out.oracle("C15:reencode-identical", re == b, &key, &format!("reenc={}", hex(&re)));
            // serde form = length-prefixed same bytes, both directions
            let ser = bincode::serialize(p).unwrap();
            let mut expect = (b.len() as u64).to_le_bytes().to_vec();
            expect.extend_from_slice(b);
            out.oracle("C15:serde-produces-same", ser == expect, &key, &format!("ser={}", hex(&ser)));
            let mut w: Vec<u8> = vec![];
            let okw = bincode::serialize_into(&mut w, p).is_ok();
            out.oracle("C15:serde-produces-same", okw && w == expect, &key, "serialize_into a writer gives other bytes");
            format!("ok reenc={} rounds={} tag={} deg={}", hex(&re), ((b.len() - 1) / 32 - 5 - b[0] as usize) / 2, p.extension_degree() as usize, deg)
        },
        Err(_) => format!("err deg={}", deg),
    };
    let mut framed = (b.len() as u64).to_le_bytes().to_vec();
    framed.extend_from_slice(b);
    let de: Result<rrun::Proof, _> = bincode::deserialize(&framed);
    out.oracle("C15:serde-accepts-same", de.is_ok() == r.is_ok(), &key, &format!("serde={} from_bytes={}", de.is_ok(), r.is_ok()));
    // the same through a reader (the deserializer then hands the visitor an owned or a transient buffer, not a borrowed one)
    let de2: Result<rrun::Proof, _> = bincode::deserialize_from(&framed[..]);
    out.oracle("C15:serde-accepts-same", de2.is_ok() == r.is_ok(), &key, &format!("serde(reader)={} from_bytes={}", de2.is_ok(), r.is_ok()));
    if let (Ok(a), Ok(b2)) = (&de, &de2) {
        out.oracle("C15:serde-accepts-same", a == b2 && a.to_bytes() == b, &key, "the two serde paths decode different proofs");
    }
    out.req(format!("decode hex={}", if b.is_empty() { "-".to_string() } else { hex(b) }), real);
}

fn canon(rng: &mut (impl RngCore + rand_core::CryptoRng)) -> [u8; 32] {
    Scalar::random(rng).to_bytes()
}

pub fn c15(opts: &Opts, out: &mut Out) {
    let mut rng = chacha(opts.seed, 15);
    serde_visitor_protocol(out, "C15", &sample_proofs(opts));
    serde_serializer_protocol(out, "C15", &sample_proofs(opts));
    let mut counts = std::collections::BTreeMap::new();
    // (a) structured: tag x rounds x length offsets, well-formed content
    let build = |d: u8, k: usize, rng: &mut rand_chacha::ChaCha12Rng| {
        let mut b = vec![d];
        let dd = if (1..=6).contains(&d) { d as usize } else { 2 };
        for _ in 0..dd {
            b.extend_from_slice(&canon(rng));
        }
        for _ in 0..3 {
            let mut p = [0u8; 32];
            rng.fill_bytes(&mut p);
            b.extend_from_slice(&p);
        }
        b.extend_from_slice(&canon(rng));
        b.extend_from_slice(&canon(rng));
        for _ in 0..2 * k {
            let mut p = [0u8; 32];
            rng.fill_bytes(&mut p);
            b.extend_from_slice(&p);
        }
        b
    };
    for d in [0u8, 1, 2, 3, 4, 5, 6, 7, 8, 255] {
        for k in 0..=4usize {
            let base = build(d, k, &mut rng);
            emit(out, "structured-exact", &base, &mut counts);
            for delta in [1usize, 31, 32, 33, 63] {
                let mut longer = base.clone();
                for _ in 0..delta {
                    longer.push((rng.next_u32() & 0x0f) as u8);
                }
                emit(out, "structured-longer", &longer, &mut counts);
                if base.len() > delta {
                    emit(out, "structured-shorter", &base[..base.len() - delta], &mut counts);
                }
            }
        }
    }
    // (a'') every value of the first byte, on otherwise well-formed encodings of each degree
    for tag in 0u16..=255 {
        for d in [1u8, 2, 6] {
            let mut b = build(d, 1 + (tag as usize % 3), &mut rng);
            b[0] = tag as u8;
            emit(out, "tag-sweep", &b, &mut counts);
        }
        // and with the body length that the low nibble / low three bits of the tag would call for
        for dd in [(tag & 0x0f) as u8, (tag & 0x07) as u8, (tag >> 4) as u8] {
            if (1..=6).contains(&dd) && dd as u16 != tag {
                let mut b = build(dd, 2, &mut rng);
                b[0] = tag as u8;
                emit(out, "tag-sweep-masked", &b, &mut counts);
            }
        }
    }
    // (a') many rounds: the codec accepts any k >= 1 whatever parameters exist; serde must agree at every size
    for d in 1u8..=6 {
        for k in [5usize, 6, 7, 8, 9, 10, 11, 12, 16, 31, 32, 33, 63, 64, 65, 100, 200] {
            let base = build(d, k, &mut rng);
            emit(out, "structured-many-rounds", &base, &mut counts);
            emit(out, "structured-many-rounds-short", &base[..base.len() - 32], &mut counts);
        }
    }
    // (b) every scalar slot at the canonical boundary
    let specials: Vec<[u8; 32]> = {
        let mut v = vec![];
        let mut m1 = ELL;
        m1[0] -= 1;
        v.push(m1); // l-1
        v.push(ELL); // l
        let mut p1 = ELL;
        p1[0] += 1;
        v.push(p1); // l+1
        v.push([0xff; 32]);
        let mut hb = [0u8; 32];
        hb[31] = 0x80;
        v.push(hb);
        v.push([0u8; 32]);
        v
    };
    // the group order plus and minus every fourth power of two, and 2^252 plus the same: unreduced values that differ
    // from l in one limb only, and canonical values just below
    let mut specials = specials;
    {
        let add_pow = |base: &[u8; 32], b: usize, neg: bool| -> Option<[u8; 32]> {
            let mut x = *base;
            let (mut byte, bit) = (b / 8, b % 8);
            let mut carry = 1u16 << bit;
            while byte < 32 && carry != 0 {
                if !neg {
                    let v = x[byte] as u16 + carry;
                    x[byte] = (v & 0xff) as u8;
                    carry = v >> 8;
                } else {
                    let v = x[byte] as i32 - carry as i32;
                    if v < 0 {
                        x[byte] = (v + 256) as u8;
                        carry = 1;
                    } else {
                        x[byte] = v as u8;
                        carry = 0;
                    }
                }
                byte += 1;
            }
            if carry != 0 { None } else { Some(x) }
        };
        let mut two252 = [0u8; 32];
        two252[31] = 0x10;
        for b in (0..252usize).step_by(4) {
            if let Some(x) = add_pow(&ELL, b, false) {
                specials.push(x);
            }
            if let Some(x) = add_pow(&ELL, b, true) {
                specials.push(x);
            }
            if let Some(x) = add_pow(&two252, b, false) {
                specials.push(x);
            }
        }
    }
    for d in 1u8..=6 {
        let k = 1 + (d as usize % 3);
        let base = build(d, k, &mut rng);
        let slots: Vec<usize> = (0..d as usize).chain([d as usize + 3, d as usize + 4]).collect();
        for s in slots {
            for sp in &specials {
                let mut b = base.clone();
                b[1 + 32 * s..1 + 32 * (s + 1)].copy_from_slice(sp);
                emit(out, "scalar-boundary", &b, &mut counts);
            }
        }
        // point slots take any bytes
        for s in [d as usize, d as usize + 1, d as usize + 2, d as usize + 5] {
            let mut b = base.clone();
            b[1 + 32 * s..1 + 32 * (s + 1)].copy_from_slice(&[0xff; 32]);
            emit(out, "point-anybytes", &b, &mut counts);
        }
    }
    // (c) every length 0..=1+32*20 (thorough) or a stride (quick) with tag 1 content
    let big = build(1, 8, &mut rng);
    let step = if opts.thorough { 1 } else { 3 };
    let mut len = 0;
    while len <= big.len() {
        emit(out, "every-length", &big[..len], &mut counts);
        len += step;
    }
    // (d) random bytes
    let nrand = if opts.thorough { 4000 } else { 1000 };
    for _ in 0..nrand {
        let l = (rng.next_u32() % 500) as usize;
        let mut b = vec![0u8; l];
        rng.fill_bytes(&mut b);
        if l > 0 && rng.next_u32() % 2 == 0 {
            b[0] = 1 + (rng.next_u32() % 6) as u8;
        }
        emit(out, "random", &b, &mut counts);
    }
    // (e) prover outputs of every configuration round-trip and have the documented length
    let ns = [1usize, 2, 4, 8, 16, 32, 64];
    let ms = [1usize, 2, 4, 8];
    let mut nprover = 0;
    for &n in &ns {
        for &m in &ms {
            if n * m > if opts.thorough { 512 } else { 128 } {
                continue;
            }
            let t = 1 + (n + m) % 6;
            let inst = rrun::random_inst(n, m, m, t, n + m, m == 1, &mut rng);
            let proof = inst.prove(&mut rng).expect("prove");
            let b = proof.to_bytes();
            let kappa = (n * m).ilog2() as usize;
            out.oracle("C15:length-formula", b.len() == 1 + 32 * (5 + t + 2 * kappa), &inst.describe(), &format!("len={}", b.len()));
            let back = rrun::Proof::from_bytes(&b);
            let same = back.as_ref().map(|p| p == &proof).unwrap_or(false);
            out.oracle("C15:prover-output-roundtrip", same, &format!("roundtrip:bits={},agg={}", n, m), &format!("{} decode_ok={}", inst.describe(), back.is_ok()));
            emit(out, "prover-output", &b, &mut counts);
            nprover += 1;
        }
    }
    // the largest proofs the parameters allow, at the extreme extension degrees
    for (n, m) in [(64usize, 2usize), (32, 4), (64, 4), (32, 8), (64, 8)] {
        for t in [1usize, 3, 5, 6] {
            if !opts.thorough && n * m == 512 && (t == 3 || t == 5) {
                continue;
            }
            let inst = rrun::random_inst(n, m, m, t, n + m, m == 1, &mut rng);
            let proof = inst.prove(&mut rng).expect("prove");
            let b = proof.to_bytes();
            let kappa = (n * m).ilog2() as usize;
            out.oracle("C15:length-formula", b.len() == 1 + 32 * (5 + t + 2 * kappa), &inst.describe(), &format!("len={}", b.len()));
            let back = rrun::Proof::from_bytes(&b);
            let same = back.as_ref().map(|p| p == &proof).unwrap_or(false);
            out.oracle("C15:prover-output-roundtrip", same, &format!("roundtrip:bits={},agg={}", n, m), &format!("{} decode_ok={}", inst.describe(), back.is_ok()));
            let ser = bincode::serialize(&proof).unwrap();
            let de: Result<rrun::Proof, _> = bincode::deserialize(&ser);
            out.oracle("C15:prover-output-serde-roundtrip", de.as_ref().map(|p| p == &proof).unwrap_or(false), &format!("serde-roundtrip:bits={},agg={},t={}", n, m, t), &format!("{} serde_ok={}", inst.describe(), de.is_ok()));
            emit(out, "prover-output-large", &b, &mut counts);
            nprover += 1;
        }
    }
    out.stat("prover_outputs", nprover);
    for (k, (n, acc)) in &counts {
        out.stat(&format!("class_{}_inputs", k), n);
        out.stat(&format!("class_{}_accepted", k), acc);
    }
    out.stat("distinct_classes", counts.len() * 10);
    out.case("structured-exact: tag in {0..8,255} x rounds 0..4 with canonical scalars and random point bytes; +/- 1,31,32,33,63 bytes".to_string());
    out.case("scalar-boundary: each of d1[i], r1, s1 replaced by l-1, l, l+1, 2^256-1, 2^255, 0".to_string());
}

/// **The `Deserialize` implementation under any data format.** A format is free to answer `deserialize_bytes` with
/// whichever visitor method it likes (a sequence of `u8` for formats without byte strings, an owned buffer, a string,
/// a number, nothing) and to announce any size. For every such answer: no panic (the sequence visitor is told to
/// expect 2^64−1 or 2^63 elements and then delivers few or none), and an `Ok`
/// only for bytes that `from_bytes` accepts, decoding to the same proof. Runs under the checks of C15 and C16.
pub fn serde_visitor_protocol(out: &mut Out, prop: &str, good: &[Vec<u8>]) {
    use serde::de::{self, Deserializer, SeqAccess, Visitor};
    struct Seq<'a> {
        bytes: &'a [u8],
        pos: usize,
        hint: Option<usize>,
    }
    impl<'de, 'a> SeqAccess<'de> for Seq<'a> {
        type Error = de::value::Error;
        fn next_element_seed<T: de::DeserializeSeed<'de>>(&mut self, seed: T) -> Result<Option<T::Value>, Self::Error> {
            if self.pos >= self.bytes.len() {
                return Ok(None);
            }
            let b = self.bytes[self.pos];
            self.pos += 1;
            seed.deserialize(de::value::U8Deserializer::<Self::Error>::new(b)).map(Some)
        }
        fn size_hint(&self) -> Option<usize> {
            self.hint
        }
    }
    struct Hostile<'a> {
        mode: usize,
        bytes: &'a [u8],
        hint: Option<usize>,
    }
    impl<'de, 'a> Deserializer<'de> for Hostile<'a> {
        type Error = de::value::Error;
        fn deserialize_any<V: Visitor<'de>>(self, v: V) -> Result<V::Value, Self::Error> {
            match self.mode {
                0 => v.visit_seq(Seq { bytes: self.bytes, pos: 0, hint: self.hint }),
                1 => v.visit_byte_buf(self.bytes.to_vec()),
                2 => v.visit_bytes(self.bytes),
                3 => v.visit_string(String::from_utf8_lossy(self.bytes).into_owned()),
                4 => v.visit_u64(self.bytes.len() as u64),
                5 => v.visit_unit(),
                6 => v.visit_none(),
                7 => v.visit_bool(true),
                8 => v.visit_i64(-1),
                9 => v.visit_char('x'),
                _ => v.visit_f64(1.5),
            }
        }
        serde::forward_to_deserialize_any! {
            bool i8 i16 i32 i64 i128 u8 u16 u32 u64 u128 f32 f64 char str string bytes byte_buf option unit unit_struct
            newtype_struct seq tuple tuple_struct map struct enum identifier ignored_any
        }
    }
    let mut inputs: Vec<Vec<u8>> = good.to_vec();
    inputs.push(vec![]);
    inputs.push(vec![1]);
    inputs.push(vec![7; 40]);
    inputs.push(vec![0xff; 225]);
    let mut n_ok = 0usize;
    for bytes in &inputs {
        let direct = rrun::Proof::from_bytes(bytes);
        for mode in 0..11usize {
            let hints: Vec<Option<usize>> = if mode == 0 { vec![None, Some(bytes.len()), Some(0), Some(usize::MAX), Some((isize::MAX as usize) + 1), Some(bytes.len() + 1)] } else { vec![None] };
            for hint in hints {
                let key = format!("visitor method {} announced size {:?} input of {} bytes", mode, hint, bytes.len());
                let r = std::panic::catch_unwind(|| <rrun::Proof as serde::Deserialize>::deserialize(Hostile { mode, bytes, hint }));
                match r {
                    Err(_) => out.oracle(&format!("{}:serde-any-format-no-panic", prop), false, &key, "deserialisation panicked (or tried to allocate what the input announced)"),
                    Ok(Err(_)) => out.oracle(&format!("{}:serde-any-format-no-panic", prop), true, &key, ""),
                    Ok(Ok(p)) => {
                        n_ok += 1;
                        out.oracle(&format!("{}:serde-any-format-no-panic", prop), true, &key, "");
                        out.oracle(&format!("{}:serde-accepts-same", prop), direct.as_ref().map(|d| d == &p).unwrap_or(false) && p.to_bytes() == *bytes, &key, "a data format made the deserialiser accept bytes that from_bytes refuses, or decode them differently");
                    },
                }
            }
        }
    }
    out.stat("serde_visitor_accepts", n_ok);
}

/// a few honest proofs (bytes) for the scenarios that need accepted inputs
pub fn sample_proofs(opts: &Opts) -> Vec<Vec<u8>> {
    let mut rng = chacha(opts.seed, 1500);
    [(8usize, 1usize, 1usize), (2, 2, 3), (64, 1, 6), (1, 1, 2)]
        .iter()
        .filter_map(|&(n, m, t)| {
            let inst = rrun::random_inst(n, m, m, t, 4, false, &mut rng);
            inst.prove(&mut rng).ok().map(|p| p.to_bytes())
        })
        .collect()
}

/// **The `Serialize` implementation under any data format.** Whatever the format says about itself (human readable
/// or not — bincode says not, serde's default says yes), the proof is handed over as ONE byte string, and that string is
/// `to_bytes()`: the serde form is the canonical byte form, and what one side writes the other side reads.
pub fn serde_serializer_protocol(out: &mut Out, prop: &str, good: &[Vec<u8>]) {
    use serde::ser::{self, Impossible, Serializer};
    #[derive(Debug)]
    enum Got {
        Bytes(Vec<u8>),
        Other(&'static str),
    }
    struct Capture {
        human: bool,
    }
    macro_rules! other {
        ($($name:ident($($arg:ty),*)),* $(,)?) => {
            $(fn $name(self, $(_: $arg),*) -> Result<Got, Self::Error> { Ok(Got::Other(stringify!($name))) })*
        };
    }
    impl Serializer for Capture {
        type Ok = Got;
        type Error = serde::de::value::Error;
        type SerializeSeq = Impossible<Got, Self::Error>;
        type SerializeTuple = Impossible<Got, Self::Error>;
        type SerializeTupleStruct = Impossible<Got, Self::Error>;
        type SerializeTupleVariant = Impossible<Got, Self::Error>;
        type SerializeMap = Impossible<Got, Self::Error>;
        type SerializeStruct = Impossible<Got, Self::Error>;
        type SerializeStructVariant = Impossible<Got, Self::Error>;
        fn is_human_readable(&self) -> bool {
            self.human
        }
        fn serialize_bytes(self, v: &[u8]) -> Result<Got, Self::Error> {
            Ok(Got::Bytes(v.to_vec()))
        }
        other! {
            serialize_bool(bool), serialize_i8(i8), serialize_i16(i16), serialize_i32(i32), serialize_i64(i64),
            serialize_u8(u8), serialize_u16(u16), serialize_u32(u32), serialize_u64(u64), serialize_f32(f32), serialize_f64(f64),
            serialize_char(char), serialize_str(&str), serialize_none(), serialize_unit(), serialize_unit_struct(&'static str),
            serialize_unit_variant(&'static str, u32, &'static str),
        }
        fn serialize_some<T: ?Sized + ser::Serialize>(self, _: &T) -> Result<Got, Self::Error> {
            Ok(Got::Other("serialize_some"))
        }
        fn serialize_newtype_struct<T: ?Sized + ser::Serialize>(self, _: &'static str, _: &T) -> Result<Got, Self::Error> {
            Ok(Got::Other("serialize_newtype_struct"))
        }
        fn serialize_newtype_variant<T: ?Sized + ser::Serialize>(self, _: &'static str, _: u32, _: &'static str, _: &T) -> Result<Got, Self::Error> {
            Ok(Got::Other("serialize_newtype_variant"))
        }
        fn serialize_seq(self, _: Option<usize>) -> Result<Self::SerializeSeq, Self::Error> {
            Err(ser::Error::custom("sequence"))
        }
        fn serialize_tuple(self, _: usize) -> Result<Self::SerializeTuple, Self::Error> {
            Err(ser::Error::custom("tuple"))
        }
        fn serialize_tuple_struct(self, _: &'static str, _: usize) -> Result<Self::SerializeTupleStruct, Self::Error> {
            Err(ser::Error::custom("tuple struct"))
        }
        fn serialize_tuple_variant(self, _: &'static str, _: u32, _: &'static str, _: usize) -> Result<Self::SerializeTupleVariant, Self::Error> {
            Err(ser::Error::custom("tuple variant"))
        }
        fn serialize_map(self, _: Option<usize>) -> Result<Self::SerializeMap, Self::Error> {
            Err(ser::Error::custom("map"))
        }
        fn serialize_struct(self, _: &'static str, _: usize) -> Result<Self::SerializeStruct, Self::Error> {
            Err(ser::Error::custom("struct"))
        }
        fn serialize_struct_variant(self, _: &'static str, _: u32, _: &'static str, _: usize) -> Result<Self::SerializeStructVariant, Self::Error> {
            Err(ser::Error::custom("struct variant"))
        }
    }
    for bytes in good {
        let Ok(p) = rrun::Proof::from_bytes(bytes) else { continue };
        for human in [false, true] {
            let key = format!("serializer human_readable={} proof of {} bytes", human, bytes.len());
            match std::panic::catch_unwind(|| serde::Serialize::serialize(&p, Capture { human })) {
                Err(_) => out.oracle(&format!("{}:serde-produces-same", prop), false, &key, "serialisation panicked"),
                Ok(Ok(Got::Bytes(b))) => out.oracle(&format!("{}:serde-produces-same", prop), b == *bytes, &key, "the byte string handed to the data format is not to_bytes()"),
                Ok(Ok(Got::Other(m))) => out.oracle(&format!("{}:serde-produces-same", prop), false, &key, &format!("the proof was handed to the data format through {} instead of as one byte string", m)),
                Ok(Err(_)) => out.oracle(&format!("{}:serde-produces-same", prop), false, &key, "the proof was handed to the data format as a compound value"),
            }
        }
    }
}
