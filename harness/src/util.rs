//! Shared helpers: hex, deterministic and faulty RNGs, output lines.
use curve25519_dalek::scalar::Scalar;
use rand_chacha::ChaCha12Rng;
use rand_core::{CryptoRng, RngCore, SeedableRng};

pub fn hex(b: &[u8]) -> String {
    let mut s = String::with_capacity(b.len() * 2);
    for x in b {
        s.push_str(&format!("{:02x}", x));
    }
    s
}
pub fn unhex(s: &str) -> Vec<u8> {
    (0..s.len() / 2).map(|i| u8::from_str_radix(&s[2 * i..2 * i + 2], 16).unwrap()).collect()
}
pub fn hs(s: &Scalar) -> String {
    hex(s.as_bytes())
}
pub fn hlist(v: &[Scalar]) -> String {
    if v.is_empty() {
        "-".into()
    } else {
        v.iter().map(hs).collect::<Vec<_>>().join(",")
    }
}
pub fn hrows(v: &[Vec<Scalar>]) -> String {
    if v.is_empty() {
        "-".into()
    } else {
        v.iter().map(|r| hlist(r)).collect::<Vec<_>>().join("/")
    }
}
pub fn nlist<T: std::fmt::Display>(v: &[T]) -> String {
    if v.is_empty() {
        "-".into()
    } else {
        v.iter().map(|x| x.to_string()).collect::<Vec<_>>().join(",")
    }
}
pub fn wide(b: &[u8]) -> Scalar {
    let mut w = [0u8; 64];
    w.copy_from_slice(&b[..64]);
    Scalar::from_bytes_mod_order_wide(&w)
}

pub fn chacha(seed: u64, stream: u64) -> ChaCha12Rng {
    let mut r = ChaCha12Rng::seed_from_u64(seed);
    r.set_stream(stream);
    r
}

/// External RNG fault models for the prover (C13/C14): healthy ChaCha, all-zero, constant byte, period-2, and a
/// replayed stream (a ChaCha stream restarted from the same seed on every run).
#[derive(Clone, Debug)]
pub enum RngKind {
    ChaCha(u64),
    Zero,
    Const(u8),
    Period2(u8, u8),
    Replay(u64),
    /// the library's own entry point `prove` (operating-system randomness) instead of `prove_with_rng`
    Os,
}
pub struct TestRng {
    pub kind: RngKind,
    inner: ChaCha12Rng,
    ctr: u64,
    pub bytes_drawn: u64,
}
impl TestRng {
    pub fn new(kind: RngKind) -> Self {
        let seed = match kind {
            RngKind::ChaCha(s) | RngKind::Replay(s) => s,
            _ => 0,
        };
        TestRng { kind, inner: ChaCha12Rng::seed_from_u64(seed), ctr: 0, bytes_drawn: 0 }
    }
}
impl RngCore for TestRng {
    fn next_u32(&mut self) -> u32 {
        let mut b = [0u8; 4];
        self.fill_bytes(&mut b);
        u32::from_le_bytes(b)
    }
    fn next_u64(&mut self) -> u64 {
        let mut b = [0u8; 8];
        self.fill_bytes(&mut b);
        u64::from_le_bytes(b)
    }
    fn fill_bytes(&mut self, dest: &mut [u8]) {
        self.bytes_drawn += dest.len() as u64;
        match self.kind {
            RngKind::ChaCha(_) | RngKind::Replay(_) | RngKind::Os => self.inner.fill_bytes(dest),
            RngKind::Zero => dest.iter_mut().for_each(|b| *b = 0),
            RngKind::Const(c) => dest.iter_mut().for_each(|b| *b = c),
            RngKind::Period2(a, b2) => {
                // whole calls alternate between two constant fills
                let c = if self.ctr % 2 == 0 { a } else { b2 };
                self.ctr += 1;
                dest.iter_mut().for_each(|b| *b = c)
            },
        }
    }
    fn try_fill_bytes(&mut self, dest: &mut [u8]) -> Result<(), rand_core::Error> {
        self.fill_bytes(dest);
        Ok(())
    }
}
impl CryptoRng for TestRng {}

/// Output sink: one line per record. `REQ`/`REAL` pairs go to the model driver and the comparator; `ORACLE` lines are
/// direct checks of the implementation against the property; `STAT` are distribution counters; `CASE` are samples.
pub struct Out {
    pub next_id: u64,
    pub lines: Vec<String>,
    pub oracle_fail: u64,
    pub oracle_ok: u64,
}
impl Out {
    pub fn new() -> Self {
        Out { next_id: 0, lines: Vec::new(), oracle_fail: 0, oracle_ok: 0 }
    }
    pub fn req(&mut self, req: String, real: String) {
        let id = self.next_id;
        self.next_id += 1;
        self.lines.push(format!("REQ {} {}", id, req));
        self.lines.push(format!("REAL {} {}", id, real));
    }
    /// `key` identifies the failing input canonically (matched against KNOWN_FINDINGS.txt); `detail` is the replay
    pub fn oracle(&mut self, name: &str, ok: bool, key: &str, detail: &str) {
        if ok {
            self.oracle_ok += 1;
        } else {
            self.oracle_fail += 1;
            self.lines.push(format!("ORACLE-FAIL {} key={} {}", name, key, detail));
        }
    }
    pub fn stat(&mut self, k: &str, v: impl std::fmt::Display) {
        self.lines.push(format!("STAT {}={}", k, v));
    }
    pub fn case(&mut self, s: String) {
        self.lines.push(format!("CASE {}", s));
    }
    pub fn flush(&mut self) {
        use std::io::Write;
        let stdout = std::io::stdout();
        let mut l = stdout.lock();
        for x in self.lines.drain(..) {
            writeln!(l, "{}", x).unwrap();
        }
    }
}
