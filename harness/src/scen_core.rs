//! C01 (completeness) and C02 (verifier ≡ reference relation): scenario lattice, oracles and model ties.
use curve25519_dalek::scalar::Scalar;
use merlin::tap;
use rand_core::RngCore;
use tari_bulletproofs_plus::range_proof::VerifyAction;

use crate::{
    fm::{self, FP},
    fmrun, fmx, rrun,
    util::*,
    Opts,
};

pub struct Lattice {
    pub pts: Vec<(usize, usize, usize, usize, usize, bool, RngKind)>,
}

/// (n, m, cap, t, value class, seeded, rng kind): every (n, m) with n·m ≤ limit, every t, class and rng kind at least once
pub fn lattice(opts: &Opts, limit: usize, rng: &mut (impl RngCore + rand_core::CryptoRng)) -> Lattice {
    lattice_reps(opts, limit, if opts.thorough { 6 } else { 1 }, rng)
}

pub fn lattice_reps(_opts: &Opts, limit: usize, reps: usize, rng: &mut (impl RngCore + rand_core::CryptoRng)) -> Lattice {
    let ns = [1usize, 2, 4, 8, 16, 32, 64];
    let ms = [1usize, 2, 4, 8, 16, 32];
    let mut pts = vec![];
    let mut i = 0usize;
    for &n in &ns {
        for &m in &ms {
            if n * m > limit {
                continue;
            }
            for rep in 0..reps {
                let t = 1 + (i + rep) % 6;
                let cap = m << ((i + rep) % 3);
                let cap = if cap > 32 { m } else { cap };
                let class = (i * 5 + rep) % 9;
                let seeded = m == 1 && (i + rep) % 2 == 0;
                let kind = match (i + rep) % 7 {
                    0 | 1 => RngKind::ChaCha(rng.next_u64()),
                    2 => RngKind::Zero,
                    3 => RngKind::Const(0x5a),
                    4 => RngKind::Period2(1, 2),
                    5 => RngKind::Replay(7),
                    _ => RngKind::Os,
                };
                pts.push((n, m, cap, t, class, seeded, kind));
                i += 1;
            }
        }
    }
    // tall points: aggregation factors beyond 32 (the serialised witness, the commitment list and the party index
    // outgrow one byte / 16 KiB there), at the smallest bit lengths
    for (j, &(n, m)) in [(1usize, 64usize), (2, 64), (1, 128), (1, 256), (2, 128), (1, 512)].iter().enumerate() {
        if n * m > 2 * limit {
            continue;
        }
        let t = [1usize, 4, 2, 6, 3, 1][j];
        let kind = if j % 2 == 0 { RngKind::ChaCha(rng.next_u64()) } else { RngKind::Zero };
        pts.push((n, m, m, t, (i * 5 + j) % 9, false, kind));
        i += 1;
    }
    Lattice { pts }
}

fn mask_ok(masks: &[Option<tari_bulletproofs_plus::extended_mask::ExtendedMask>], expect: Option<&Vec<Scalar>>) -> bool {
    match (masks.first(), expect) {
        (Some(Some(m)), Some(b)) => m.blindings().map(|x| &x == b).unwrap_or(false),
        (Some(None), None) => true,
        _ => false,
    }
}

/// honest run over the free module with full observation; emits oracles and the two model ties
pub fn honest_fm(out: &mut Out, prop: &str, inst: &fmrun::Inst, kind: &RngKind, tie: bool) -> Option<(fmrun::Proof, fmx::Chal)> {
    let key = format!("{} rng={:?}", inst.describe(), kind);
    let mut rng = TestRng::new(kind.clone());
    tap::start();
    fm::tap_start();
    let t0 = inst.transcript();
    let tid = t0.shadow_id;
    let stmt = inst.statement();
    let res = if matches!(kind, RngKind::Os) { fmrun::Proof::prove(&mut { t0 }, &stmt, &inst.witness()) } else { fmrun::Proof::prove_with_rng(&mut { t0 }, &stmt, &inst.witness(), &mut rng) };
    let prover_msm = fm::msm_inputs();
    let _ = fm::tap_take();
    let recs = tap::take();
    if tie {
        if let Some((st, _dy, table)) = prover_msm.first() {
            out.req(
                format!("ascalars n={} m={} cap={} v={} p={}", inst.n, inst.m, inst.cap, nlist(&inst.values), nlist(&inst.promises.iter().map(|p| p.unwrap_or(0)).collect::<Vec<_>>())),
                format!("static={} table={}", hlist(st), table),
            );
        }
    }
    out.oracle(&format!("{}:prove-ok:fm", prop), res.is_ok(), &key, &format!("err={:?}", res.as_ref().err()));
    let proof = res.ok()?;
    let ch_p = fmx::chal_of(&recs, tid);
    let pr = fmrun::params(inst.n, inst.cap, inst.t);
    let ids = fmx::gen_ids(&pr, inst.n * inst.m);
    let parts = fmx::parts(&proof);
    // verify in the three modes, tapping the residual and the weight
    let mut chal_v = None;
    for action in fmrun::ACTIONS {
        let vt = inst.transcript();
        let vid = vt.shadow_id;
        tap::start();
        fm::tap_start();
        let r = fmrun::Proof::verify_batch(&mut [vt], std::slice::from_ref(&stmt), std::slice::from_ref(&proof), action);
        let msm_in = fm::msm_inputs();
        let whole = fm::tap_is_whole_check();
        let residuals = fm::tap_take();
        let vrecs = tap::take();
        out.oracle(&format!("{}:verify-ok:fm:{:?}", prop, action), r.is_ok(), &key, &format!("err={:?}", r.as_ref().err()));
        if let Ok(masks) = &r {
            let expect = if action != VerifyAction::VerifyOnly && inst.seed.is_some() { Some(&inst.blindings[0]) } else { None };
            out.oracle(&format!("{}:mask:fm:{:?}", prop, action), masks.len() == 1 && mask_ok(masks, expect), &key, "mask mismatch");
        }
        let ch_v = fmx::chal_of(&vrecs, vid);
        if action == VerifyAction::VerifyOnly {
            // same transcript ⇒ same challenges on both sides
            let same = match (&ch_p, &ch_v) {
                (Some(a), Some(b)) => a.y == b.y && a.z == b.z && a.es == b.es && a.e == b.e,
                _ => false,
            };
            out.oracle(&format!("{}:same-challenges", prop), same, &key, "prover and verifier challenges differ");
            if tie {
                if let Some(ch) = &ch_v {
                    let w = fmx::weights_of(&vrecs);
                    let res = residuals.last().cloned().unwrap_or_default();
                    out.req(
                        format!("verify {} {} {} w={}", fmx::stmt_wire(inst, &pr, &stmt.commitments), parts.wire(), ch.wire(), w.first().map(hs).unwrap_or("00".into())),
                        format!("res={} verdict={} msms={} whole={}", fmx::vstr(&res), if r.is_ok() { "ok" } else { "err" }, residuals.len(), whole as u8),
                    );
                    // scalar-level tie: the lists handed to the final multiscalar multiplication
                    if let Some((st, dy, table)) = msm_in.last() {
                        out.req(
                            format!(
                                "vscalars n={} m={} t={} cap={} p={} r1={} s1={} d1={} {} w={}",
                                inst.n,
                                inst.m,
                                inst.t,
                                inst.cap,
                                nlist(&inst.promises.iter().map(|p| p.unwrap_or(0)).collect::<Vec<_>>()),
                                hs(&parts.r1),
                                hs(&parts.s1),
                                hlist(&parts.d1),
                                ch.wire(),
                                w.first().map(hs).unwrap_or("00".into())
                            ),
                            format!("static={} dynamic={} table={} msms={} consistent={}", hlist(st), hlist(dy), table, msm_in.len(), whole as u8),
                        );
                    }
                }
            }
            chal_v = ch_v;
        }
    }
    if tie {
        if let Some(ch) = &ch_p {
            let nn = fmx::read_nonces(&parts, &ids, ch);
            out.req(
                format!(
                    "prove n={} m={} t={} {} v={} p={} r={} {} {}",
                    inst.n,
                    inst.m,
                    inst.t,
                    ids.wire(),
                    nlist(&inst.values),
                    nlist(&inst.promises.iter().map(|p| p.unwrap_or(0)).collect::<Vec<_>>()),
                    hrows(&inst.blindings),
                    nn.wire(),
                    ch.wire()
                ),
                parts.wire(),
            );
        }
    }
    chal_v.map(|c| (proof, c))
}

/// honest run over Ristretto: oracles only
pub fn honest_r(out: &mut Out, prop: &str, inst: &rrun::Inst, kind: &RngKind) {
    let key = format!("{} rng={:?}", inst.describe(), kind);
    let mut rng = TestRng::new(kind.clone());
    let stmt = inst.statement();
    let res = if matches!(kind, RngKind::Os) { rrun::Proof::prove(&mut inst.transcript(), &stmt, &inst.witness()) } else { rrun::Proof::prove_with_rng(&mut inst.transcript(), &stmt, &inst.witness(), &mut rng) };
    out.oracle(&format!("{}:prove-ok:ristretto", prop), res.is_ok(), &key, &format!("err={:?}", res.as_ref().err()));
    if let Ok(proof) = res {
        for action in rrun::ACTIONS {
            let r = rrun::verify_one(inst, &stmt, &proof, action);
            out.oracle(&format!("{}:verify-ok:ristretto:{:?}", prop, action), r.is_ok(), &key, &format!("err={:?}", r.as_ref().err()));
            if let Ok(masks) = &r {
                let expect = if action != VerifyAction::VerifyOnly && inst.seed.is_some() { Some(&inst.blindings[0]) } else { None };
                out.oracle(&format!("{}:mask:ristretto:{:?}", prop, action), masks.len() == 1 && mask_ok(masks, expect), &key, "mask mismatch");
            }
        }
    }
}

fn to_r(i: &fmrun::Inst) -> rrun::Inst {
    rrun::Inst { n: i.n, m: i.m, cap: i.cap, t: i.t, values: i.values.clone(), promises: i.promises.clone(), blindings: i.blindings.clone(), seed: i.seed, ctx: i.ctx.clone() }
}

/// **Coincidences between caller inputs.** Every input of a valid (statement, witness) pair is legal on its own and in
/// any combination: value equal to the promise, masks that are zero / all equal / equal to the value as a scalar, a
/// recovery seed that is 0, 1, equal to a mask component, to the value or to the promise, a commitment that therefore
/// equals `p·h` or the identity. For each combination: the prover proves, every mode accepts, the mask comes back.
/// Called from the checks of C01, C06 and C09 with their own oracle names.
pub fn coincidences(opts: &Opts, out: &mut Out, prop: &str) -> usize {
    let mut rng = chacha(opts.seed, 7700);
    let mut count = 0usize;
    let configs: Vec<(usize, usize, usize)> = if opts.thorough { vec![(8, 1, 1), (8, 1, 3), (4, 2, 2), (64, 1, 2), (2, 1, 6), (16, 4, 1)] } else { vec![(8, 1, 1), (8, 1, 3), (4, 2, 2), (64, 1, 2)] };
    for (n, m, t) in configs {
        let max = if n == 64 { u64::MAX } else { (1u64 << n) - 1 };
        let vps: Vec<(u64, Option<u64>)> = vec![(0, None), (0, Some(0)), (5 & max, Some(5 & max)), (5 & max, Some(4 & max)), (max, None), (max, Some(max)), (1, Some(1)), (max, Some(1)), (1, None)];
        for (v, p) in vps {
            for mask_kind in 0..10usize {
                for seed_kind in 0..6usize {
                    let seeded = m == 1 && seed_kind > 0;
                    if m > 1 && seed_kind > 0 {
                        continue;
                    }
                    if (4..7).contains(&mask_kind) && !seeded {
                        continue;
                    }
                    if mask_kind == 9 && m == 1 {
                        continue;
                    }
                    let seed = match seed_kind {
                        0 => None,
                        1 => Some(Scalar::random(&mut rng)),
                        2 => Some(Scalar::ZERO),
                        3 => Some(Scalar::ONE),
                        4 => Some(Scalar::from(v)),
                        _ => Some(Scalar::from(p.unwrap_or(7))),
                    };
                    let sd = seed.unwrap_or(Scalar::ONE);
                    let mask: Vec<Scalar> = match mask_kind {
                        0 => vec![Scalar::ZERO; t],
                        1 => (0..t).map(|_| Scalar::random(&mut rng)).collect(),
                        2 => vec![Scalar::from(v); t],
                        3 => vec![Scalar::random(&mut rng); t],
                        4 => vec![sd; t],
                        5 => (0..t).map(|k| if k == 0 { sd } else { Scalar::random(&mut rng) }).collect(),
                        6 => (0..t).map(|k| if k == t - 1 { sd } else { Scalar::random(&mut rng) }).collect(),
                        // unit vectors: with value 0 the commitment IS a blinding generator (with value 1 and mask 0, the value generator)
                        7 => (0..t).map(|k| if k == 0 { Scalar::ONE } else { Scalar::ZERO }).collect(),
                        8 => (0..t).map(|k| if k == t - 1 { Scalar::ONE } else { Scalar::ZERO }).collect(),
                        _ => vec![], // the negation of the first opening's mask, filled in below
                    };
                    let mut inst = fmrun::random_inst(n, m, m, t, 4, false, &mut rng);
                    let j = m - 1;
                    let mask = if mask_kind == 9 { inst.blindings[0].iter().map(|x| -x).collect() } else { mask };
                    // the caller's transcript context: now and then empty, or the library's own domain separator
                    match count % 7 {
                        3 => inst.ctx = vec![],
                        5 => inst.ctx = b"Bulletproofs+ Range Proof".to_vec(),
                        _ => {},
                    }
                    inst.values[j] = v;
                    inst.promises[j] = p;
                    inst.blindings[j] = mask;
                    inst.seed = if seeded { seed } else { None };
                    let key = format!("coincidence {} value={} promise={:?} mask-kind={} seed-kind={}", inst.describe(), v, p, mask_kind, seed_kind);
                    count += 1;
                    for ristretto in [false, true] {
                        if ristretto && (mask_kind + seed_kind + (v as usize)) % 3 != 0 {
                            continue; // a third of the combinations also over the curve
                        }
                        let (proved, verdicts): (bool, Vec<(bool, bool)>) = if !ristretto {
                            let stmt = inst.statement();
                            match inst.prove(&mut rng) {
                                Err(_) => (false, vec![]),
                                Ok(proof) => (true, fmrun::ACTIONS.iter().map(|a| { let r = fmrun::verify_one(&inst, &stmt, &proof, *a); let exp = if *a != VerifyAction::VerifyOnly && inst.seed.is_some() { Some(&inst.blindings[0]) } else { None }; (r.is_ok(), r.as_ref().map(|ms| ms.len() == 1 && mask_ok(ms, exp)).unwrap_or(false)) }).collect()),
                            }
                        } else {
                            let ri = to_r(&inst);
                            let stmt = ri.statement();
                            match ri.prove(&mut rng) {
                                Err(_) => (false, vec![]),
                                Ok(proof) => (true, rrun::ACTIONS.iter().map(|a| { let r = rrun::verify_one(&ri, &stmt, &proof, *a); let exp = if *a != VerifyAction::VerifyOnly && ri.seed.is_some() { Some(&ri.blindings[0]) } else { None }; (r.is_ok(), r.as_ref().map(|ms| ms.len() == 1 && mask_ok(ms, exp)).unwrap_or(false)) }).collect()),
                            }
                        };
                        let g = if ristretto { "ristretto" } else { "fm" };
                        out.oracle(&format!("{}:valid-witness-proved", prop), proved, &format!("{} group={}", key, g), "the prover refused a valid (statement, witness) pair");
                        if proved {
                            out.oracle(&format!("{}:honest-proof-accepted", prop), verdicts.iter().all(|x| x.0), &format!("{} group={}", key, g), &format!("verdicts per mode {:?}", verdicts.iter().map(|x| x.0).collect::<Vec<_>>()));
                            out.oracle(&format!("{}:mask-equals-blinding", prop), verdicts.iter().all(|x| !x.0 || x.1), &format!("{} group={}", key, g), "the recovered mask is not the blinding vector (or a mask was returned where none is due)");
                        }
                    }
                }
            }
        }
    }
    out.stat("coincidence_combinations", count);
    count
}

/// **Commitments whose encodings collide in a few bytes.** A table keyed by a short piece of an encoding (a 32-bit
/// prefix or suffix of a compressed commitment, say) confuses distinct commitments that share it; by chance that is a
/// 2^-32 event per pair, by a birthday search over masks it takes a fraction of a second. Pairs of distinct commitments
/// (same value, different masks) that agree in their first four, or their last four, encoded bytes are found over the
/// free module and used inside one aggregated proof and as two members of one batch: everything must verify.
pub fn encoding_collisions(opts: &Opts, out: &mut Out, prop: &str) {
    use std::collections::HashMap;
    use tari_bulletproofs_plus::traits::Compressable;
    let mut rng = chacha(opts.seed, 7800);
    let (n, t) = (4usize, 1usize);
    let pr = fmrun::params(n, 2, t);
    let value = 5u64;
    let base = Scalar::random(&mut rng);
    let budget = if opts.thorough { 1usize << 19 } else { 1usize << 18 };
    let mut firsts: HashMap<[u8; 4], u64> = HashMap::new();
    let mut lasts: HashMap<[u8; 4], u64> = HashMap::new();
    let mut pairs: Vec<(&str, u64, u64)> = vec![];
    for i in 0..budget as u64 {
        let r = base + Scalar::from(i);
        let Ok(c) = pr.pc_gens().commit(&Scalar::from(value), &[r]) else { break };
        let e = c.compress().0;
        let (f, l): ([u8; 4], [u8; 4]) = (e[..4].try_into().unwrap(), e[28..].try_into().unwrap());
        if let Some(j) = firsts.insert(f, i) {
            if pairs.iter().filter(|p| p.0 == "first-4-bytes").count() < 2 {
                pairs.push(("first-4-bytes", j, i));
            }
        }
        if let Some(j) = lasts.insert(l, i) {
            if pairs.iter().filter(|p| p.0 == "last-4-bytes").count() < 2 {
                pairs.push(("last-4-bytes", j, i));
            }
        }
        if pairs.len() >= 4 {
            break;
        }
    }
    out.stat("encoding_collision_pairs", pairs.len());
    for (kind, a, b) in pairs {
        let (ra, rb) = (base + Scalar::from(a), base + Scalar::from(b));
        let key = format!("commitments agreeing in their {} (masks base+{} and base+{})", kind, a, b);
        // one aggregated proof over both
        let mut inst = fmrun::random_inst(n, 2, 2, t, 4, false, &mut rng);
        inst.values = vec![value, value];
        inst.promises = vec![None, Some(1)];
        inst.blindings = vec![vec![ra], vec![rb]];
        let stmt = inst.statement();
        match inst.prove(&mut rng) {
            Err(_) => out.oracle(&format!("{}:valid-witness-proved", prop), false, &key, "the prover refused a valid (statement, witness) pair"),
            Ok(proof) => {
                for a_ in fmrun::ACTIONS {
                    let r = std::panic::catch_unwind(std::panic::AssertUnwindSafe(|| fmrun::verify_one(&inst, &stmt, &proof, a_).is_ok()));
                    out.oracle(&format!("{}:honest-proof-accepted", prop), r.unwrap_or(false), &format!("{} aggregated action={:?}", key, a_), "an honest aggregated proof over two commitments with partly equal encodings was rejected (or verification panicked)");
                }
            },
        }
        // two single proofs in one batch, both orders
        let singles: Vec<fmrun::Inst> = [ra, rb]
            .iter()
            .map(|r| {
                let mut i1 = fmrun::random_inst(n, 1, 2, t, 4, false, &mut rng);
                i1.values = vec![value];
                i1.promises = vec![None];
                i1.blindings = vec![vec![*r]];
                i1
            })
            .collect();
        let proofs: Vec<Option<fmrun::Proof>> = singles.iter().map(|i| i.prove(&mut rng).ok()).collect();
        if proofs.iter().all(|p| p.is_some()) {
            for order in [[0usize, 1], [1, 0]] {
                for a_ in [VerifyAction::VerifyOnly, VerifyAction::RecoverAndVerify] {
                    let mut ts: Vec<_> = order.iter().map(|i| singles[*i].transcript()).collect();
                    let ss: Vec<_> = order.iter().map(|i| singles[*i].statement()).collect();
                    let ps: Vec<_> = order.iter().map(|i| proofs[*i].clone().unwrap()).collect();
                    let r = std::panic::catch_unwind(std::panic::AssertUnwindSafe(|| fmrun::Proof::verify_batch(&mut ts, &ss, &ps, a_).is_ok()));
                    out.oracle(&format!("{}:honest-proof-accepted", prop), r.unwrap_or(false), &format!("{} two members order {:?} action={:?}", key, order, a_), "a batch of two honest proofs over commitments with partly equal encodings was rejected (or verification panicked)");
                }
            }
        }
    }
}

pub fn c01(opts: &Opts, out: &mut Out) {
    let mut rng = chacha(opts.seed, 1);
    coincidences(opts, out, "C01");
    encoding_collisions(opts, out, "C01");
    let lim_fm = if opts.thorough { 1024 } else { 256 };
    let lat = lattice(opts, lim_fm, &mut rng);
    let mut cfgs = std::collections::BTreeSet::new();
    for (idx, (n, m, cap, t, class, seeded, kind)) in lat.pts.iter().enumerate() {
        let inst = fmrun::random_inst(*n, *m, *cap, *t, *class, *seeded, &mut rng);
        // model tie on every point up to N = 128 (quick) / 512 (thorough)
        let tie = n * m <= if opts.thorough { 512 } else { 128 };
        honest_fm(out, "C01", &inst, kind, tie);
        let lim_r = if opts.thorough { 512 } else { 64 };
        if n * m <= lim_r && (opts.thorough || idx % 2 == 0) {
            honest_r(out, "C01", &to_r(&inst), kind);
        }
        cfgs.insert((*n, *m, *cap, *t, *class % 9, *seeded, format!("{:?}", std::mem::discriminant(kind))));
        if idx < 3 {
            out.case(format!("honest {} rng={:?}", inst.describe(), kind));
        }
    }
    // the whole cross product (bits, aggregation, degree) for small proofs, capacity alternating between m and 2m:
    // honest run over the free module (verdicts, masks, same challenges), without the model tie
    let mut ncross = 0usize;
    let cross_lim = if opts.thorough { 256 } else { 64 };
    for &n in &[1usize, 2, 4, 8, 16, 32, 64] {
        for &m in &[1usize, 2, 4, 8, 16, 32] {
            if n * m > cross_lim {
                continue;
            }
            for t in 1..=6usize {
                let cap = if (n.trailing_zeros() as usize + m.trailing_zeros() as usize + t) % 2 == 0 || m == 32 { m } else { 2 * m };
                let inst = fmrun::random_inst(n, m, cap, t, n + m + t, m == 1 && t % 2 == 0, &mut rng);
                let kind = RngKind::ChaCha(rng.next_u64());
                honest_fm(out, "C01", &inst, &kind, false);
                cfgs.insert((n, m, cap, t, 200, inst.seed.is_some(), "cross".to_string()));
                ncross += 1;
            }
        }
    }
    out.stat("cross_product_points", ncross);
    // degenerate but valid witnesses: commitments that are the identity (value 0, zero mask), zero masks with
    // non-zero values, equal commitments in two positions, value == promise with a zero mask
    let mut ndeg = 0usize;
    for (ci, &(n, m, cap, t)) in [(1usize, 1usize, 1usize, 1usize), (8, 1, 2, 2), (4, 2, 2, 3), (64, 1, 1, 6), (8, 4, 4, 1), (2, 2, 4, 4)].iter().enumerate() {
        for shape in 0..7usize {
            let mut inst = fmrun::random_inst(n, m, cap, t, ci + shape, m == 1 && shape % 2 == 0, &mut rng);
            match shape {
                5 => {
                    // a zero mask component in front of non-zero ones
                    for j in 0..m {
                        inst.blindings[j][0] = Scalar::ZERO;
                    }
                },
                6 => {
                    // zero components scattered through the mask of one member
                    let j = m - 1;
                    for k in 0..t {
                        if k % 2 == 0 {
                            inst.blindings[j][k] = Scalar::ZERO;
                        }
                    }
                },
                0 => {
                    for j in 0..m {
                        inst.values[j] = 0;
                        inst.promises[j] = if j % 2 == 0 { None } else { Some(0) };
                        inst.blindings[j] = vec![Scalar::ZERO; t];
                    }
                },
                1 => {
                    let j = m - 1;
                    inst.values[j] = 0;
                    inst.promises[j] = None;
                    inst.blindings[j] = vec![Scalar::ZERO; t];
                },
                2 => {
                    for j in 0..m {
                        inst.blindings[j] = vec![Scalar::ZERO; t];
                    }
                },
                3 => {
                    if m >= 2 {
                        inst.values[1] = inst.values[0];
                        inst.promises[1] = inst.promises[0];
                        inst.blindings[1] = inst.blindings[0].clone();
                    } else {
                        inst.blindings[0] = vec![Scalar::ONE; t];
                    }
                },
                _ => {
                    inst.values[0] = 1;
                    inst.promises[0] = Some(1);
                    inst.blindings[0] = vec![Scalar::ZERO; t];
                },
            }
            let kind = if shape % 2 == 0 { RngKind::ChaCha(rng.next_u64()) } else { RngKind::Zero };
            honest_fm(out, "C01", &inst, &kind, true);
            honest_r(out, "C01", &to_r(&inst), &kind);
            cfgs.insert((n, m, cap, t, 100 + shape, inst.seed.is_some(), format!("{:?}", std::mem::discriminant(&kind))));
            ndeg += 1;
        }
    }
    out.stat("degenerate_witnesses", ndeg);
    // the driver's scalar field against curve25519-dalek's `Scalar`, operation by operation (trusted-base validation)
    let specials = [Scalar::ZERO, Scalar::ONE, -Scalar::ONE, Scalar::from(2u8), -Scalar::from(2u8), Scalar::from(u64::MAX)];
    let nf = if opts.thorough { 2000 } else { 200 };
    for i in 0..nf {
        let a = if i < specials.len() { specials[i] } else { Scalar::random(&mut rng) };
        let b = if i % 7 == 3 { specials[i % specials.len()] } else { Scalar::random(&mut rng) };
        let mut wide_b = [0u8; 64];
        rng.fill_bytes(&mut wide_b);
        if i % 5 == 0 {
            wide_b = [0xff; 64];
        }
        let n = (rng.next_u32() % 300) as u64;
        let inv = if a == Scalar::ZERO { Scalar::ZERO } else { a.invert() };
        out.req(
            format!("fieldops a={} b={} wide={} n={}", hs(&a), hs(&b), hex(&wide_b), n),
            format!("add={} sub={} mul={} neg={} inv={} wide={} pow={} nat={}", hs(&(a + b)), hs(&(a - b)), hs(&(a * b)), hs(&(-a)), hs(&inv), hs(&Scalar::from_bytes_mod_order_wide(&wide_b)), hs(&ff::Field::pow_vartime(&a, [n])), hs(&Scalar::from(n))),
        );
    }
    out.stat("lattice_points", lat.pts.len());
    out.stat("distinct_configs", cfgs.len());
}

/// single-element and structured mutations of an accepted proof over the free module
pub fn mutations(parts: &fmx::Parts, extra: &FP, rng: &mut (impl RngCore + rand_core::CryptoRng)) -> Vec<(String, fmx::Parts)> {
    let mut v = vec![];
    let one = Scalar::ONE;
    let rs = Scalar::random(rng);
    let mut m = parts.clone();
    m.r1 += one;
    v.push(("r1+1".to_string(), m));
    let mut m = parts.clone();
    m.s1 += rs;
    v.push(("s1+rnd".to_string(), m));
    for k in 0..parts.d1.len() {
        let mut m = parts.clone();
        m.d1[k] += one;
        v.push((format!("d1[{}]+1", k), m));
    }
    let mut m = parts.clone();
    m.a = &m.a + extra;
    v.push(("A+extra".to_string(), m));
    let mut m = parts.clone();
    m.a1 = &m.a1 + extra;
    v.push(("A1+extra".to_string(), m));
    let mut m = parts.clone();
    m.b = &m.b + &(extra * rs);
    v.push(("B+rnd*extra".to_string(), m));
    for j in 0..parts.l.len() {
        let mut m = parts.clone();
        m.l[j] = &m.l[j] + extra;
        v.push((format!("L[{}]+extra", j), m));
        let mut m = parts.clone();
        m.r[j] = &m.r[j] + &(extra * rs);
        v.push((format!("R[{}]+rnd*extra", j), m));
    }
    if parts.l.len() >= 2 {
        let mut m = parts.clone();
        m.l.swap(0, 1);
        v.push(("swap L0 L1".to_string(), m));
        let mut m = parts.clone();
        std::mem::swap(&mut m.l[0], &mut m.r[0]);
        v.push(("swap L0 R0".to_string(), m));
    }
    let mut m = parts.clone();
    std::mem::swap(&mut m.a1, &mut m.b);
    v.push(("swap A1 B".to_string(), m));
    // scaled elements: a proof whose every point is doubled
    let mut m = parts.clone();
    m.a = &m.a * Scalar::from(2u8);
    v.push(("2*A".to_string(), m));
    // unchanged proof re-encoded: must still verify
    v.push(("identity".to_string(), parts.clone()));
    v
}

pub fn c02(opts: &Opts, out: &mut Out) {
    let mut rng = chacha(opts.seed, 2);
    crate::scen_wire::lying_about_commitments(opts, out, "C02");
    let lim = if opts.thorough { 256 } else { 64 };
    let lat = lattice_reps(opts, lim, if opts.thorough { 2 } else { 1 }, &mut rng);
    let mut count = 0usize;
    let mut rejected = 0usize;
    let mut classes = std::collections::BTreeSet::new();
    for (idx, (n, m, cap, t, class, seeded, kind)) in lat.pts.iter().enumerate() {
        if n * m < 2 {
            continue; // zero-round proofs cannot be re-encoded (known finding C15); covered by C01's tie
        }
        let inst = fmrun::random_inst(*n, *m, *cap, *t, *class, *seeded, &mut rng);
        let key = inst.describe();
        let Some((proof, _)) = honest_fm(out, "C02", &inst, kind, false) else { continue };
        let parts = fmx::parts(&proof);
        let pr = fmrun::params(inst.n, inst.cap, inst.t);
        let stmt = inst.statement();
        // an extra direction: alternately a foreign basis element, a vector generator, the value generator
        let ids = fmx::gen_ids(&pr, inst.n * inst.m);
        let extra = match idx % 4 {
            0 => FP::named("foreign"),
            1 => FP::basis(ids.g[(idx / 4) % ids.g.len()]),
            2 => FP::basis(ids.h[(idx / 4) % ids.h.len()]),
            _ => FP::basis(ids.hb),
        };
        for (name, mp) in mutations(&parts, &extra, &mut rng) {
            let Ok(mproof) = mp.to_proof() else {
                out.oracle("C02:reencode", false, &key, &format!("mutation {} does not re-encode", name));
                continue;
            };
            let vt = inst.transcript();
            let vid = vt.shadow_id;
            tap::start();
            fm::tap_start();
            let r = fmrun::Proof::verify_batch(&mut [vt], std::slice::from_ref(&stmt), std::slice::from_ref(&mproof), VerifyAction::VerifyOnly);
            let whole = fm::tap_is_whole_check();
            let residuals = fm::tap_take();
            let vrecs = tap::take();
            count += 1;
            classes.insert((inst.n, inst.m, inst.t, name.split(|c: char| c == '[').next().unwrap_or("").to_string()));
            // the other verifying mode must give the same verdict (the relation is enforced in every mode that verifies)
            let r2 = fmrun::Proof::verify_batch(&mut [inst.transcript()], std::slice::from_ref(&stmt), std::slice::from_ref(&mproof), VerifyAction::RecoverAndVerify);
            out.oracle("C02:same-verdict-in-recover-and-verify", r2.is_ok() == r.is_ok(), &format!("{} mut={}", key, name), &format!("verifyOnly={} recoverAndVerify={}", r.is_ok(), r2.is_ok()));
            if name == "identity" {
                out.oracle("C02:identity-accepted", r.is_ok(), &key, "re-encoded honest proof rejected");
            } else {
                if r.is_err() {
                    rejected += 1;
                }
                // a mutated accepted proof must be rejected (a single-element change keeps at most one root)
                out.oracle("C02:mutation-rejected", r.is_err(), &format!("{} mut={}", key, name), &format!("proof={}", hex(&mproof.to_bytes())));
            }
            if let Some(ch) = fmx::chal_of(&vrecs, vid) {
                let w = fmx::weights_of(&vrecs);
                let res = residuals.last().cloned().unwrap_or_default();
                out.req(
                    format!("verify {} {} {} w={}", fmx::stmt_wire(&inst, &pr, &stmt.commitments), mp.wire(), ch.wire(), w.first().map(hs).unwrap_or("00".into())),
                    format!("res={} verdict={} msms={} whole={} mut={}", fmx::vstr(&res), if r.is_ok() { "ok" } else { "err" }, residuals.len(), whole as u8, name.replace(' ', "_")),
                );
            }
        }
        // proofs whose number of L/R pairs is not log2(bits * aggregation) — one more, one fewer, and 64, 128 more (a
        // round count that only looks right after the shift amount has wrapped): refused, and refused *before* the
        // equation is evaluated (a verifier that folds over surplus rounds no longer enforces the inner-product relation
        // for them; an equation-valid forgery exists for such shapes although random pairs do not find it)
        if idx % 3 == 0 {
            let bytes = proof.to_bytes();
            let kappa = parts.l.len();
            for extra in [1usize, 64, 128] {
                let mut b = bytes.clone();
                for j in 0..2 * extra {
                    {
                        use tari_bulletproofs_plus::traits::Compressable;
                        b.extend_from_slice(&fm::FP::named(&format!("surplus{}", j)).compress().0);
                    }
                }
                let Ok(long) = fmrun::Proof::from_bytes(&b) else { continue };
                for action in fmrun::ACTIONS {
                    fm::tap_start();
                    let r = std::panic::catch_unwind(std::panic::AssertUnwindSafe(|| fmrun::Proof::verify_batch(&mut [inst.transcript()], std::slice::from_ref(&stmt), std::slice::from_ref(&long), action)));
                    let evaluated = fm::tap_take().len();
                    let k2 = format!("{} rounds {}+{} action={:?}", key, kappa, extra, action);
                    match r {
                        Err(_) => out.oracle("C02:surplus-rounds-refused", false, &k2, "verify_batch panicked"),
                        Ok(r) => {
                            out.oracle("C02:surplus-rounds-refused", r.is_err(), &k2, "a proof with surplus folding rounds was accepted");
                            out.oracle("C02:surplus-rounds-refused-before-the-equation", evaluated == 0, &k2, &format!("the verifier evaluated {} multiscalar product(s) for a proof whose round count does not match the statement", evaluated));
                        },
                    }
                }
            }
            classes.insert((inst.n, inst.m, inst.t, "surplus-rounds".to_string()));
        }
        if idx < 2 {
            out.case(format!("mutations of {}", key));
        }
    }
    out.stat("mutated_proofs", count);
    out.stat("rejected", rejected);
    out.stat("distinct_classes", classes.len());
}
