//! C07 (promises), C08 (batch weights: adaptive cancellation attack), C09 (mask recovery), C10 (keyed recovery,
//! verdict independent of seed and mode).
use curve25519_dalek::scalar::Scalar;
use merlin::tap;
use rand_core::RngCore;
use tari_bulletproofs_plus::{range_proof::VerifyAction, range_statement::RangeStatement};

use crate::{
    fm::{self, FP},
    fmrun::{self, Inst, Proof, Stmt},
    fmx, rrun,
    scen_core::lattice,
    util::*,
    Opts,
};

fn masks_of(r: &Result<Vec<Option<tari_bulletproofs_plus::extended_mask::ExtendedMask>>, tari_bulletproofs_plus::errors::ProofError>) -> Option<Vec<Option<Vec<Scalar>>>> {
    r.as_ref().ok().map(|v| v.iter().map(|m| m.as_ref().map(|x| x.blindings().unwrap())).collect())
}

fn with_promises(stmt: &Stmt, p: Vec<Option<u64>>) -> Stmt {
    let mut s = stmt.clone();
    s.minimum_value_promises = p;
    s
}

/// verify one proof under a statement with the tap, emitting the model tie
fn tie_verify(out: &mut Out, inst: &Inst, stmt: &Stmt, proof: &Proof, tag: &str) -> bool {
    let vt = inst.transcript();
    let vid = vt.shadow_id;
    tap::start();
    fm::tap_start();
    let r = Proof::verify_batch(&mut [vt], std::slice::from_ref(stmt), std::slice::from_ref(proof), VerifyAction::VerifyOnly);
    let whole = fm::tap_is_whole_check();
    let residuals = fm::tap_take();
    let vrecs = tap::take();
    if let Some(ch) = fmx::chal_of(&vrecs, vid) {
        if let Some(res) = residuals.last() {
            let w = fmx::weights_of(&vrecs);
            let mut i2 = inst.clone();
            i2.promises = stmt.minimum_value_promises.clone();
            let parts = fmx::parts(proof);
            out.req(
                format!("verify {} {} {} w={}", fmx::stmt_wire(&i2, &stmt.generators, &stmt.commitments), parts.wire(), ch.wire(), w.first().map(hs).unwrap_or("00".into())),
                format!("res={} verdict={} msms={} whole={} tag={}", fmx::vstr(res), if r.is_ok() { "ok" } else { "err" }, residuals.len(), whole as u8, tag),
            );
        }
    }
    r.is_ok()
}

pub fn c07(opts: &Opts, out: &mut Out) {
    let mut rng = chacha(opts.seed, 7);
    let lat = lattice(opts, if opts.thorough { 256 } else { 64 }, &mut rng);
    let mut classes = std::collections::BTreeSet::new();
    let mut nsub = 0u64;
    for (idx, (n, m, cap, t, class, seeded, kind)) in lat.pts.iter().enumerate() {
        if n * m < 2 {
            continue;
        }
        let inst = fmrun::random_inst(*n, *m, *cap, *t, *class, *seeded, &mut rng);
        let key = inst.describe();
        let stmt = inst.statement();
        let Ok(proof) = inst.prove(&mut TestRng::new(kind.clone())) else {
            out.oracle("C07:prove-ok", false, &key, "prover failed");
            continue;
        };
        let max = if *n == 64 { u64::MAX } else { (1u64 << n) - 1 };
        // (a) None == Some(0), everywhere
        let flipped: Vec<Option<u64>> = inst.promises.iter().map(|p| match p { None => Some(0), Some(0) => None, x => *x }).collect();
        let s2 = with_promises(&stmt, flipped.clone());
        for a in fmrun::ACTIONS {
            let r1 = fmrun::verify_one(&inst, &stmt, &proof, a);
            let r2 = fmrun::verify_one(&inst, &s2, &proof, a);
            out.oracle("C07:none-equals-zero", r1.is_ok() && r2.is_ok() && masks_of(&r1) == masks_of(&r2), &format!("{} action={:?}", key, a), &format!("orig={} flipped={}", r1.is_ok(), r2.is_ok()));
        }
        // prove under the flipped statement, verify under the original
        let mut i2 = inst.clone();
        i2.promises = flipped;
        if let Ok(p2) = i2.prove(&mut TestRng::new(kind.clone())) {
            out.oracle("C07:none-equals-zero-prover", fmrun::verify_one(&inst, &stmt, &p2, VerifyAction::VerifyOnly).is_ok(), &key, "proof made under None<->Some(0) not accepted");
        } else {
            out.oracle("C07:none-equals-zero-prover", false, &key, "prover failed under None<->Some(0)");
        }
        tie_verify(out, &inst, &stmt, &proof, "original");
        // (b) substitutions at each position
        for j in 0..*m {
            let v = inst.values[j];
            let p = inst.promises[j].unwrap_or(0);
            let mut cands: Vec<Option<u64>> = vec![Some(0), None, Some(v), Some(v.wrapping_add(1)), Some(v.wrapping_sub(1)), Some(p.wrapping_add(1)), Some(p.wrapping_sub(1)), Some(max), Some(max.wrapping_add(1)), Some(u64::MAX), Some(1), Some(max / 2)];
            cands.dedup();
            for c in cands {
                let mut ps = inst.promises.clone();
                ps[j] = c;
                let equal = c.unwrap_or(0) == p;
                let fits = *n == 64 || c.unwrap_or(0) <= max;
                let s3 = with_promises(&stmt, ps);
                let ok = if j == 0 && idx % 3 == 0 { tie_verify(out, &inst, &s3, &proof, "substituted") } else { fmrun::verify_one(&inst, &s3, &proof, VerifyAction::VerifyOnly).is_ok() };
                nsub += 1;
                classes.insert((*n, *m, j.min(2), if equal { "equal" } else if !fits { "too-large" } else { "different" }));
                let skey = format!("{} j={} substitute={:?}", key, j, c);
                if equal {
                    out.oracle("C07:equal-promise-accepted", ok, &skey, "value-wise equal promise vector rejected");
                } else {
                    out.oracle("C07:substituted-promise-rejected", !ok, &skey, "proof accepted under a different promise vector");
                }
                if !fits {
                    // refused in every mode, including recover-only (a statement-level error)
                    let r = fmrun::verify_one(&inst, &s3, &proof, VerifyAction::RecoverOnly);
                    out.oracle("C07:promise-range-refused", r.is_err(), &skey, "promise >= 2^bits not refused");
                }
            }
        }
        // (d) prover boundary: v == p accepted, v < p refused
        let mut i3 = inst.clone();
        i3.promises[0] = Some(i3.values[0]);
        out.oracle("C07:prover-v-eq-p", i3.prove(&mut rng).is_ok(), &key, "value == promise refused by the prover");
        if i3.values[0] < u64::MAX && (*n == 64 || i3.values[0] < max) {
            i3.promises[0] = Some(i3.values[0] + 1);
            out.oracle("C07:prover-v-lt-p", i3.prove(&mut rng).is_err(), &key, "value < promise proved");
        }
        if idx < 2 {
            out.case(format!("promise substitutions for {}", key));
        }
    }
    // a promise that does not fit the bit length together with a proof that satisfies the equations for it: the
    // library's prover cannot make one (it refuses the value), the independent prover driven by the Lean model can
    // (value 2^n + 5 under promise 2^n + 3 is the bit pattern of 2). The verifier must refuse it at every position.
    if let Some(mut drv) = crate::scen_wire::Driver::start() {
        use crate::rrun;
        // promises of 2^n and more in several shapes: just above the range, with only a high bit set (the bits directly
        // above the range all zero), with the top bit set
        let cases: Vec<(usize, usize, usize, u64)> = vec![
            (2, 1, 1, (1u64 << 2) + 3),
            (8, 1, 2, (1u64 << 8) + 3),
            (4, 2, 1, (1u64 << 4) + 3),
            (8, 1, 1, 1u64 << 40),
            (16, 1, 1, 1u64 << 48),
            (4, 1, 2, 1u64 << 63),
            (2, 2, 1, (1u64 << 34) + 1),
            (8, 1, 1, (1u64 << 63) + (1u64 << 20)),
        ];
        for (n, m, t, big) in cases {
            let mut bad = rrun::random_inst(n, m, m, t, 4, false, &mut rng);
            let mut control = bad.clone();
            let lowmask = (1u64 << n) - 1;
            for j in 0..m {
                let p = big - 2 * (j as u64);
                let gap = 2u64.min(lowmask);
                bad.values[j] = p + gap;
                bad.promises[j] = Some(p);
                control.values[j] = (p & lowmask).min(lowmask - gap) + gap;
                control.promises[j] = Some((p & lowmask).min(lowmask - gap));
            }
            let ordinary = rrun::random_inst(n, m, m, t, 5, false, &mut rng);
            let ord_proof = ordinary.prove(&mut rng).expect("prove");
            let key = format!("oversized promise {} with an equation-valid proof n={} m={} t={}", big, n, m, t);
            let (Some(pb), Some(pc)) = (crate::scen_wire::reference_prove(&mut drv, &bad, &mut rng), crate::scen_wire::reference_prove(&mut drv, &control, &mut rng)) else {
                out.oracle("C07:reference-prover-ran", false, &key, "the independent prover failed");
                continue;
            };
            let (Ok(pb), Ok(pc)) = (rrun::Proof::from_bytes(&pb), rrun::Proof::from_bytes(&pc)) else {
                out.oracle("C07:reference-prover-ran", false, &key, "the independent prover's output does not decode");
                continue;
            };
            // control: the same bit pattern under promises that fit is accepted (the independent prover works)
            let rc = rrun::verify_one(&control, &control.statement(), &pc, VerifyAction::VerifyOnly);
            out.oracle("C07:reference-prover-ran", rc.is_ok(), &key, "control proof of the independent prover rejected");
            let Ok(bad_stmt) = bad.statement_with(bad.cap, None) else { continue };
            for a in rrun::ACTIONS {
                let r = rrun::verify_one(&bad, &bad_stmt, &pb, a);
                out.oracle("C07:promise-range-refused", r.is_err(), &format!("{} alone action={:?}", key, a), "a promise of 2^bits or more was accepted");
                for order in [[0usize, 1], [1, 0]] {
                    let stmts: Vec<rrun::Stmt> = order.iter().map(|i| if *i == 0 { bad_stmt.clone() } else { ordinary.statement() }).collect();
                    let proofs: Vec<rrun::Proof> = order.iter().map(|i| if *i == 0 { pb.clone() } else { ord_proof.clone() }).collect();
                    let mut ts: Vec<_> = order.iter().map(|i| if *i == 0 { bad.transcript() } else { ordinary.transcript() }).collect();
                    let r = rrun::Proof::verify_batch(&mut ts, &stmts, &proofs, a);
                    out.oracle("C07:promise-range-refused", r.is_err(), &format!("{} at position {} of two action={:?}", key, order.iter().position(|i| *i == 0).unwrap(), a), "a batch containing a promise of 2^bits or more was accepted");
                }
            }
            classes.insert((n, m, t.min(2), "reference-prover"));
        }
        // a LYING prover: the transcript absorbs the statement's promises, the arithmetic is done under other ones (so
        // that a value below its promise still decomposes into bits). The result proves the wrong relation and must be
        // refused — in particular for commitments the verifier might be tempted to treat specially (the identity, `p·h`)
        for (n, m, t, shape) in [(2usize, 1usize, 1usize, "identity"), (8, 1, 2, "identity"), (64, 1, 1, "identity"), (8, 2, 1, "identity-second"), (8, 1, 1, "ordinary"), (4, 2, 2, "ordinary"), (8, 1, 3, "zero-mask")] {
            let mut liar = rrun::random_inst(n, m, m, t, 4, false, &mut rng);
            let mut arith: Vec<u64> = liar.promises.iter().map(|p| p.unwrap_or(0)).collect();
            let j = m - 1;
            match shape {
                "identity" | "identity-second" => {
                    liar.values[j] = 0;
                    liar.blindings[j] = vec![Scalar::ZERO; t];
                    liar.promises[j] = Some(1);
                    arith[j] = 0;
                },
                "zero-mask" => {
                    liar.values[j] = 2;
                    liar.blindings[j] = vec![Scalar::ZERO; t];
                    liar.promises[j] = Some(3);
                    arith[j] = 1;
                },
                _ => {
                    liar.values[j] = 1;
                    liar.promises[j] = Some(if n >= 2 { 3 } else { 1 });
                    arith[j] = 0;
                },
            }
            let key = format!("lying prover ({}): n={} m={} t={} values {:?} absorbed promises {:?} arithmetic promises {:?}", shape, n, m, t, liar.values, liar.promises, arith);
            let Some(pb) = crate::scen_wire::reference_prove_with(&mut drv, &liar, Some(&arith), &mut rng) else {
                out.oracle("C07:reference-prover-ran", false, &key, "the independent prover failed");
                continue;
            };
            let Ok(pb) = rrun::Proof::from_bytes(&pb) else {
                out.oracle("C07:reference-prover-ran", false, &key, "the independent prover's output does not decode");
                continue;
            };
            // control: the same prover, telling the truth about a statement with the arithmetic promises, is accepted
            let mut honest = liar.clone();
            honest.promises = arith.iter().map(|p| Some(*p)).collect();
            if let Some(ph) = crate::scen_wire::reference_prove(&mut drv, &honest, &mut rng).and_then(|b| rrun::Proof::from_bytes(&b).ok()) {
                out.oracle("C07:reference-prover-ran", rrun::verify_one(&honest, &honest.statement(), &ph, VerifyAction::VerifyOnly).is_ok(), &key, "control proof of the independent prover rejected");
            }
            let Ok(stmt) = liar.statement_with(liar.cap, None) else { continue };
            let ordinary = rrun::random_inst(n, m, m, t, 5, false, &mut rng);
            let ord_proof = ordinary.prove(&mut rng).expect("prove");
            for a in [VerifyAction::VerifyOnly, VerifyAction::RecoverAndVerify] {
                let r = rrun::verify_one(&liar, &stmt, &pb, a);
                out.oracle("C07:value-below-promise-refused", r.is_err(), &format!("{} alone action={:?}", key, a), "a proof made under other promises than the statement's was accepted: the value is below its promise");
                for order in [[0usize, 1], [1, 0]] {
                    let stmts: Vec<rrun::Stmt> = order.iter().map(|i| if *i == 0 { stmt.clone() } else { ordinary.statement() }).collect();
                    let proofs: Vec<rrun::Proof> = order.iter().map(|i| if *i == 0 { pb.clone() } else { ord_proof.clone() }).collect();
                    let mut ts: Vec<_> = order.iter().map(|i| if *i == 0 { liar.transcript() } else { ordinary.transcript() }).collect();
                    let r = rrun::Proof::verify_batch(&mut ts, &stmts, &proofs, a);
                    out.oracle("C07:value-below-promise-refused", r.is_err(), &format!("{} in a pair at position {} action={:?}", key, order.iter().position(|i| *i == 0).unwrap(), a), "a batch with a proof made under other promises than the statement's was accepted");
                }
            }
            classes.insert((n, m, t.min(2), "lying-prover"));
        }
    }
    out.stat("substitutions", nsub);
    out.stat("distinct_classes", classes.len());
}

pub fn distinct_blindings(inst: &mut Inst, rng: &mut (impl RngCore + rand_core::CryptoRng)) {
    for b in inst.blindings.iter_mut() {
        for x in b.iter_mut() {
            *x = Scalar::random(rng);
        }
    }
}

pub fn c09(opts: &Opts, out: &mut Out) {
    let mut rng = chacha(opts.seed, 9);
    crate::scen_core::coincidences(opts, out, "C09");
    let mut classes = std::collections::BTreeSet::new();
    let reps = if opts.thorough { 4 } else { 2 };
    for &n in &[1usize, 2, 4, 8, 16, 32, 64] {
        for t in 1..=6usize {
            for rep in 0..reps {
                let mut inst = fmrun::random_inst(n, 1, 1 << ((rep + t + n.trailing_zeros() as usize) % 3), t, n + t + rep, true, &mut rng);
                distinct_blindings(&mut inst, &mut rng);
                // some configurations with degenerate masks / seeds: all zero, one zero component, all equal, seed 0 or 1
                match (n.trailing_zeros() as usize + 2 * t + rep) % 7 {
                    1 => inst.blindings[0] = vec![Scalar::ZERO; t],
                    2 => inst.blindings[0][0] = Scalar::ZERO,
                    3 => inst.blindings[0][t - 1] = Scalar::ZERO,
                    5 => inst.blindings[0] = vec![Scalar::from(9u8); t],
                    6 => inst.seed = Some(if t % 2 == 0 { Scalar::ZERO } else { Scalar::ONE }),
                    _ => {},
                }
                let key = format!("{} mask={}", inst.describe(), hlist(&inst.blindings[0]));
                let stmt = inst.statement();
                let kind = if (n + t + rep) % 3 == 0 { RngKind::Zero } else { RngKind::ChaCha(rng.next_u64()) };
                tap::start();
                let tr = inst.transcript();
                let tid = tr.shadow_id;
                let proof = Proof::prove_with_rng(&mut { tr }, &stmt, &inst.witness(), &mut TestRng::new(kind));
                let recs = tap::take();
                let Ok(proof) = proof else {
                    out.oracle("C09:prove-ok", false, &key, "prover failed");
                    continue;
                };
                for a in [VerifyAction::RecoverAndVerify, VerifyAction::RecoverOnly] {
                    let r = fmrun::verify_one(&inst, &stmt, &proof, a);
                    let got = masks_of(&r).and_then(|v| v.into_iter().next()).flatten();
                    out.oracle("C09:mask-equals-blinding", got.as_ref() == Some(&inst.blindings[0]), &format!("{} action={:?}", key, a), &format!("got {:?}", got.map(|v| v.iter().map(hs).collect::<Vec<_>>())));
                }
                let r = fmrun::verify_one(&inst, &stmt, &proof, VerifyAction::VerifyOnly);
                out.oracle("C09:verify-only-no-mask", masks_of(&r) == Some(vec![None]), &key, "verify-only returned a mask");
                // model tie: the recovery formula on the real d1, with the nonces read back from the proof's coordinates
                if let Some(ch) = fmx::chal_of(&recs, tid) {
                    let pr = fmrun::params(inst.n, inst.cap, inst.t);
                    let ids = fmx::gen_ids(&pr, inst.n);
                    let parts = fmx::parts(&proof);
                    let nn = fmx::read_nonces(&parts, &ids, &ch);
                    out.req(format!("recover N={} t={} {} {} d1={}", inst.n, inst.t, nn.wire(), ch.wire(), hlist(&parts.d1)), format!("mask={}", hlist(&inst.blindings[0])));
                }
                classes.insert((n, t));
                // Ristretto: same oracle on the shipped group
                if n <= 16 || opts.thorough {
                    let ri = rrun::Inst { n: inst.n, m: 1, cap: inst.cap, t: inst.t, values: inst.values.clone(), promises: inst.promises.clone(), blindings: inst.blindings.clone(), seed: inst.seed, ctx: inst.ctx.clone() };
                    let rs = ri.statement();
                    if let Ok(rp) = ri.prove(&mut rng) {
                        for a in [VerifyAction::RecoverAndVerify, VerifyAction::RecoverOnly] {
                            let r = rrun::verify_one(&ri, &rs, &rp, a);
                            let got = r.ok().and_then(|v| v.into_iter().next()).flatten().map(|m| m.blindings().unwrap());
                            out.oracle("C09:mask-equals-blinding:ristretto", got.as_ref() == Some(&ri.blindings[0]), &format!("{} action={:?}", key, a), "mask mismatch");
                        }
                    }
                }
            }
        }
    }
    // batches mixing seeded / unseeded / aggregated members in random order
    let t = 2;
    let mut pool: Vec<(Inst, Stmt, Proof)> = vec![];
    for (m, seeded) in [(1usize, true), (1, false), (2, false), (1, true), (4, false), (1, true)] {
        let mut inst = fmrun::random_inst(4, m, 4, t, m + 3, seeded, &mut rng);
        distinct_blindings(&mut inst, &mut rng);
        let stmt = inst.statement();
        let proof = inst.prove(&mut rng).unwrap();
        pool.push((inst, stmt, proof));
    }
    let nb = if opts.thorough { 60 } else { 30 };
    for b in 0..nb {
        let k = 1 + (rng.next_u32() as usize % 9);
        let order: Vec<usize> = (0..k).map(|_| rng.next_u32() as usize % pool.len()).collect();
        let stmts: Vec<Stmt> = order.iter().map(|i| pool[*i].1.clone()).collect();
        let proofs: Vec<Proof> = order.iter().map(|i| pool[*i].2.clone()).collect();
        for a in fmrun::ACTIONS {
            let mut ts: Vec<_> = order.iter().map(|i| pool[*i].0.transcript()).collect();
            let r = Proof::verify_batch(&mut ts, &stmts, &proofs, a);
            let got = masks_of(&r);
            let expect: Vec<Option<Vec<Scalar>>> = order.iter().map(|i| if a != VerifyAction::VerifyOnly && pool[*i].0.seed.is_some() { Some(pool[*i].0.blindings[0].clone()) } else { None }).collect();
            out.oracle("C09:batch-positions", got.as_ref() == Some(&expect), &format!("batch {} order={:?} action={:?}", b, order, a), "i-th result is not the i-th member's mask");
        }
        classes.insert((100 + k, 0));
    }
    // members that share one recovery seed but are proofs for different statements (a wallet scanning its own
    // outputs): each gets its own mask
    {
        let shared = Scalar::random(&mut rng);
        let mut pool2: Vec<(Inst, Stmt, Proof)> = vec![];
        for i in 0..5usize {
            let mut inst = fmrun::random_inst([4usize, 4, 8, 4, 4][i], 1, [1usize, 2, 1, 1, 4][i], t, i + 2, true, &mut rng);
            distinct_blindings(&mut inst, &mut rng);
            inst.seed = Some(if i == 3 { Scalar::random(&mut rng) } else { shared });
            let stmt = inst.statement();
            let proof = inst.prove(&mut rng).unwrap();
            pool2.push((inst, stmt, proof));
        }
        // members 0, 1, 3, 4 have 4 bits; 2 has 8 bits and is used alone with a copy of itself under another context
        for order in [vec![0usize, 1], vec![1, 0], vec![0, 3, 1], vec![0, 1, 4], vec![4, 1, 0, 3], vec![0, 0, 1, 1], vec![1, 4, 1, 0, 4]] {
            let stmts: Vec<Stmt> = order.iter().map(|i| pool2[*i].1.clone()).collect();
            let proofs: Vec<Proof> = order.iter().map(|i| pool2[*i].2.clone()).collect();
            for a in [VerifyAction::RecoverAndVerify, VerifyAction::RecoverOnly] {
                let mut ts: Vec<_> = order.iter().map(|i| pool2[*i].0.transcript()).collect();
                let r = Proof::verify_batch(&mut ts, &stmts, &proofs, a);
                let got = masks_of(&r);
                let expect: Vec<Option<Vec<Scalar>>> = order.iter().map(|i| Some(pool2[*i].0.blindings[0].clone())).collect();
                out.oracle("C09:batch-positions", got.as_ref() == Some(&expect), &format!("shared-seed batch order={:?} action={:?}", order, a), "members sharing one seed: i-th result is not the i-th member's mask");
            }
            classes.insert((2000 + order.len(), order[0]));
        }
    }
    // batches beyond the internal chunk size(s): every position checked
    let big_sizes: Vec<usize> = if opts.thorough { vec![257, 513, 600, 769, 1025] } else { vec![257, 513, 600] };
    for k in big_sizes {
        let order: Vec<usize> = (0..k).map(|i| if i % 7 == 3 { 1 } else { [0usize, 3, 5, 2][(i / 3 + i) % 4] }).collect();
        let stmts: Vec<Stmt> = order.iter().map(|i| pool[*i].1.clone()).collect();
        let proofs: Vec<Proof> = order.iter().map(|i| pool[*i].2.clone()).collect();
        for a in [VerifyAction::RecoverAndVerify, VerifyAction::RecoverOnly] {
            let mut ts: Vec<_> = order.iter().map(|i| pool[*i].0.transcript()).collect();
            let r = Proof::verify_batch(&mut ts, &stmts, &proofs, a);
            let got = masks_of(&r);
            let expect: Vec<Option<Vec<Scalar>>> = order.iter().map(|i| if pool[*i].0.seed.is_some() { Some(pool[*i].0.blindings[0].clone()) } else { None }).collect();
            let first_bad = got.as_ref().and_then(|g| (0..k).find(|i| g.get(*i) != expect.get(*i)));
            out.oracle("C09:batch-positions", got.as_ref() == Some(&expect), &format!("batch of {} action={:?}", k, a), &format!("i-th result is not the i-th member's mask (first at position {:?})", first_bad));
        }
        classes.insert((1000 + k, 0));
    }
    out.stat("distinct_classes", classes.len());
    out.case("single proofs: bits {1..64} x degree 1..6 with pairwise distinct blinding components, both recovering modes, free module + Ristretto; batches of 1..9 mixing seeded/unseeded/aggregated members in random order x 3 modes".into());
}

pub fn c10(opts: &Opts, out: &mut Out) {
    let mut rng = chacha(opts.seed, 10);
    let mut classes = std::collections::BTreeSet::new();
    for &n in &[1usize, 2, 8, 16, 64] {
        for t in [1usize, 2, 3, 6] {
            let mut inst = fmrun::random_inst(n, 1, 2, t, n + t, true, &mut rng);
            distinct_blindings(&mut inst, &mut rng);
            let key = inst.describe();
            let seed = inst.seed.unwrap();
            let proof = inst.prove(&mut rng).unwrap();
            // an invalid variant (not for zero-round proofs, which cannot be re-encoded)
            let invalid = if n >= 2 {
                let mut parts = fmx::parts(&proof);
                parts.r1 += Scalar::ONE;
                parts.to_proof().ok()
            } else {
                None
            };
            let seeds: Vec<(&str, Option<Scalar>)> = vec![("same", Some(seed)), ("none", None), ("plus-one", Some(seed + Scalar::ONE)), ("zero", Some(Scalar::ZERO)), ("random", Some(Scalar::random(&mut rng))),
                // seeds that coincide with something else in the triple: a response scalar of the proof, the mask itself
                ("proof-r1", Some(fmx::parts(&proof).r1)), ("proof-s1", Some(fmx::parts(&proof).s1)), ("proof-d1", Some(fmx::parts(&proof).d1[0])), ("mask-0", Some(inst.blindings[0][0])), ("minus-seed", Some(-seed))];
            for (pname, p, valid) in [("valid", Some(proof.clone()), true), ("invalid", invalid, false)] {
                let Some(p) = p else { continue };
                let mut verdicts = vec![];
                for (sname, s) in &seeds {
                    let stmt = inst.statement_with(inst.cap, *s).unwrap();
                    let mut per_mode = vec![];
                    for a in fmrun::ACTIONS {
                        let r = fmrun::verify_one(&inst, &stmt, &p, a);
                        per_mode.push((a, r.is_ok(), masks_of(&r)));
                    }
                    // verdict of the verifying modes equals validity, whatever the seed
                    let okv = per_mode[0].1 == valid && per_mode[1].1 == valid;
                    out.oracle("C10:verdict-independent-of-seed-and-mode", okv, &format!("{} proof={} seed={}", key, pname, sname), &format!("verifyOnly={} recoverAndVerify={} expected={}", per_mode[0].1, per_mode[1].1, valid));
                    out.oracle("C10:recover-only-no-error", per_mode[2].1, &format!("{} proof={} seed={}", key, pname, sname), "recover-only returned an error");
                    if valid {
                        out.oracle("C10:recover-only-same-masks", per_mode[1].2 == per_mode[2].2, &format!("{} seed={}", key, sname), "recover-only and recover-and-verify masks differ");
                        let m = per_mode[1].2.clone().and_then(|v| v.into_iter().next()).flatten();
                        match *sname {
                            "same" => out.oracle("C10:same-seed-true-mask", m.as_ref() == Some(&inst.blindings[0]), &key, "true seed does not give the true mask"),
                            "none" => out.oracle("C10:no-seed-no-mask", m.is_none(), &key, "mask returned without a seed"),
                            _ => out.oracle("C10:wrong-seed-different-mask", m.is_some() && m.as_ref() != Some(&inst.blindings[0]) && m.as_ref().unwrap().iter().zip(inst.blindings[0].iter()).all(|(a, b)| a != b), &format!("{} seed={}", key, sname), "wrong seed yields (a component of) the true mask or no value"),
                        }
                    }
                    verdicts.push(per_mode[0].1);
                    classes.insert((n, t, pname, *sname));
                }
                // every byte of the seed keys the recovery: a seed differing in a single byte never yields the true mask
                if valid {
                    for byte in 0..32usize {
                        let mut b = seed.to_bytes();
                        b[byte] ^= 1;
                        let Some(s2) = Option::<Scalar>::from(Scalar::from_canonical_bytes(b)) else { continue };
                        let stmt = inst.statement_with(inst.cap, Some(s2)).unwrap();
                        let r = fmrun::verify_one(&inst, &stmt, &p, VerifyAction::RecoverOnly);
                        let m = masks_of(&r).and_then(|v| v.into_iter().next()).flatten();
                        out.oracle("C10:every-seed-byte-keys-recovery", m.is_some() && m.as_ref() != Some(&inst.blindings[0]), &format!("{} seed-byte={}", key, byte), "a seed differing in one byte recovers the true mask");
                    }
                }
                out.oracle("C10:verdict-constant-across-seeds", verdicts.iter().all(|v| *v == verdicts[0]), &format!("{} proof={}", key, pname), "verdict changes with the seed");
            }
            // a proof that is not even well formed (a point that does not decode, or the identity) is refused in every
            // mode, with any seed or none: recovering never turns a refusal into a result
            if n >= 2 {
                let nslots = 3 + 2 * fmx::parts(&proof).l.len();
                for (slot, kind) in [(0usize, "undecodable"), (1, "identity"), (2, "undecodable"), (3, "undecodable"), (nslots - 1, "undecodable"), (nslots - 1, "identity")] {
                    let mut b = proof.to_bytes();
                    let el = if slot < 3 { t + slot } else { t + 5 + (slot - 3) };
                    let bytes: [u8; 32] = if kind == "identity" { [0u8; 32] } else { let mut x = [0xffu8; 32]; x[31] = 0x7f; x[0] = 0xed; x };
                    b[1 + 32 * el..1 + 32 * (el + 1)].copy_from_slice(&bytes);
                    let Ok(bad) = Proof::from_bytes(&b) else { continue };
                    for (sname, s) in &seeds {
                        let stmt = inst.statement_with(inst.cap, *s).unwrap();
                        for a in fmrun::ACTIONS {
                            let r = fmrun::verify_one(&inst, &stmt, &bad, a);
                            out.oracle("C10:malformed-refused-in-every-mode", r.is_err(), &format!("{} point-slot={} {} seed={} action={:?}", key, slot, kind, sname, a), "a proof with a malformed point produced a result");
                        }
                    }
                }
            }
        }
    }
    // seeds at the top of the scalar range: s in [2^252, l) and s - 2^252 are different seeds (a key derivation that
    // drops the top bits of the encoding would confuse them)
    {
        let two252 = Scalar::from(1u128 << 126) * Scalar::from(1u128 << 126);
        for (n, t, low) in [(8usize, 1usize, 5u64), (4, 2, 0), (16, 3, 123_456_789)] {
            let mut inst = fmrun::random_inst(n, 1, 1, t, 4, true, &mut rng);
            let hi = two252 + Scalar::from(low);
            inst.seed = Some(hi);
            let Ok(proof) = inst.prove(&mut rng) else { continue };
            for (wrong_name, wrong) in [("s - 2^252", Scalar::from(low)), ("s + 1", hi + Scalar::ONE), ("-s", -hi)] {
                let stmt = inst.statement_with(inst.cap, Some(wrong)).unwrap();
                for a in [VerifyAction::RecoverOnly, VerifyAction::RecoverAndVerify] {
                    let m = masks_of(&fmrun::verify_one(&inst, &stmt, &proof, a)).and_then(|v| v.into_iter().next()).flatten();
                    out.oracle("C10:wrong-seed-different-mask", m.is_some() && m.as_ref() != Some(&inst.blindings[0]), &format!("seed 2^252+{} n={} t={} wrong seed {} action={:?}", low, n, t, wrong_name, a), "a different seed recovers the true mask");
                }
            }
            let m = masks_of(&fmrun::verify_one(&inst, &inst.statement(), &proof, VerifyAction::RecoverOnly)).and_then(|v| v.into_iter().next()).flatten();
            out.oracle("C10:same-seed-true-mask", m.as_ref() == Some(&inst.blindings[0]), &format!("seed 2^252+{} n={} t={}", low, n, t), "true seed does not give the true mask");
        }
    }
    // the two recovering modes agree member by member in MIXED batches too (a seeded single after a larger aggregate,
    // before one, between two): whatever one mode keeps between members, the other keeps alike
    for (n, t) in [(4usize, 1usize), (8, 2)] {
        let seeded: Vec<Inst> = (0..2).map(|_| fmrun::random_inst(n, 1, 4, t, 4, true, &mut rng)).collect();
        let aggs: Vec<Inst> = [2usize, 4].iter().map(|m| fmrun::random_inst(n, *m, 4, t, 4, false, &mut rng)).collect();
        let all: Vec<&Inst> = vec![&aggs[1], &seeded[0], &aggs[0], &seeded[1], &aggs[1]];
        let proofs: Vec<Proof> = all.iter().map(|i| i.prove(&mut rng).unwrap()).collect();
        for order in [vec![0usize, 1], vec![1, 0], vec![0, 1, 2, 3, 4], vec![3, 2, 1, 0], vec![2, 3, 0, 1]] {
            let run = |a: VerifyAction| {
                let mut ts: Vec<_> = order.iter().map(|i| all[*i].transcript()).collect();
                let ss: Vec<Stmt> = order.iter().map(|i| all[*i].statement()).collect();
                let ps: Vec<Proof> = order.iter().map(|i| proofs[*i].clone()).collect();
                masks_of(&Proof::verify_batch(&mut ts, &ss, &ps, a))
            };
            let (rv, ro) = (run(VerifyAction::RecoverAndVerify), run(VerifyAction::RecoverOnly));
            let expect: Vec<Option<Vec<Scalar>>> = order.iter().map(|i| all[*i].seed.map(|_| all[*i].blindings[0].clone())).collect();
            out.oracle("C10:recover-only-same-masks", rv.is_some() && rv == ro, &format!("mixed batch n={} t={} order {:?}", n, t, order), "recover-only and recover-and-verify return different masks for a batch of valid members");
            out.oracle("C10:same-seed-true-mask", rv.as_ref() == Some(&expect), &format!("mixed batch n={} t={} order {:?}", n, t, order), "a seeded member of a mixed batch does not get its true mask");
        }
    }
    out.stat("distinct_classes", classes.len());
    out.case("bits {1,2,8,16,64} x degree {1,2,3,6} x proof {valid, invalid} x seed {same, none, +1, zero, random} x 3 modes".into());
}

/// adaptive cancellation attack on the batch weights
/// a basis of the kernel of the matrix `rows` (each of length `ncols`) over the scalar field
pub fn kernel_basis(rows: Vec<Vec<Scalar>>, ncols: usize) -> Vec<Vec<Scalar>> {
    let mut mtx = rows;
    let mut pivots: Vec<usize> = vec![];
    let mut rix = 0usize;
    for c in 0..ncols {
        if let Some(pr_) = (rix..mtx.len()).find(|r_| mtx[*r_][c] != Scalar::ZERO) {
            mtx.swap(rix, pr_);
            let inv = mtx[rix][c].invert();
            for x in mtx[rix].iter_mut() {
                *x *= inv;
            }
            for r_ in 0..mtx.len() {
                if r_ != rix && mtx[r_][c] != Scalar::ZERO {
                    let f = mtx[r_][c];
                    let prow = mtx[rix].clone();
                    for (x, y) in mtx[r_].iter_mut().zip(prow.iter()) {
                        *x -= f * y;
                    }
                }
            }
            pivots.push(c);
            rix += 1;
        }
    }
    (0..ncols)
        .filter(|c| !pivots.contains(c))
        .map(|fc| {
            let mut v = vec![Scalar::ZERO; ncols];
            v[fc] = Scalar::ONE;
            for (ri, c) in pivots.iter().enumerate() {
                v[*c] = -mtx[ri][fc];
            }
            v
        })
        .collect()
}

pub fn c08(opts: &Opts, out: &mut Out) {
    let mut rng = chacha(opts.seed, 8);
    let mut classes = std::collections::BTreeSet::new();
    let mut ratios: Vec<Scalar> = vec![];
    let configs: Vec<(usize, usize, usize)> = if opts.thorough { vec![(2, 2, 1), (2, 3, 2), (2, 4, 3), (4, 2, 6), (8, 3, 4), (2, 4, 1)] } else { vec![(2, 2, 1), (2, 3, 2), (4, 4, 3), (4, 2, 6)] };
    // both verifying modes: the weights must bind the proofs whichever mode checks the equation
    let configs: Vec<(usize, usize, usize, usize)> = configs.iter().flat_map(|&(n, k, t)| [(n, k, t, 0usize), (n, k, t, 1usize)]).collect();
    for (n, k, t, mode) in configs {
        let mut insts = vec![];
        let mut stmts = vec![];
        let mut proofs = vec![];
        for i in 0..k {
            let inst = fmrun::random_inst(n, 1 << (i % 2), 2, t, i + 4, mode == 1, &mut rng);
            stmts.push(inst.statement());
            proofs.push(inst.prove(&mut rng).unwrap());
            insts.push(inst);
        }
        let pr = fmrun::params(n, 2, t);
        let ids = fmx::gen_ids(&pr, n);
        // run a batch with given offsets on d1, r1 and s1; return (ok, residual, logged weights)
        let whole_flag = std::cell::Cell::new(true);
        let run3 = |offsets: &Vec<Vec<Scalar>>, r1off: &Vec<Scalar>, s1off: &Vec<Scalar>| -> (bool, FP, Vec<Scalar>) {
            let ps: Vec<Proof> = proofs
                .iter()
                .enumerate()
                .map(|(i, p)| {
                    let mut parts = fmx::parts(p);
                    for kk in 0..t {
                        parts.d1[kk] += offsets[i][kk];
                    }
                    parts.r1 += r1off[i];
                    parts.s1 += s1off[i];
                    parts.to_proof().unwrap()
                })
                .collect();
            let mut ts: Vec<_> = insts.iter().map(|i| i.transcript()).collect();
            tap::start();
            fm::tap_start();
            let r = Proof::verify_batch(&mut ts, &stmts, &ps, if mode == 0 { VerifyAction::VerifyOnly } else { VerifyAction::RecoverAndVerify });
            if !fm::tap_is_whole_check() {
                whole_flag.set(false);
            }
            let res = fm::tap_take().last().cloned().unwrap_or_default();
            let recs = tap::take();
            (r.is_ok(), res, fmx::weights_of(&recs))
        };
        let zs = vec![Scalar::ZERO; k];
        let run = |offsets: &Vec<Vec<Scalar>>, r1off: &Vec<Scalar>| run3(offsets, r1off, &zs);
        let zero = vec![vec![Scalar::ZERO; t]; k];
        let zr = vec![Scalar::ZERO; k];
        let (ok0, _, w0) = run(&zero, &zr);
        out.oracle("C08:honest-batch-accepted", ok0, &format!("n={} k={} t={}", n, k, t), "honest batch rejected");
        // every scalar drawn from the weight generator is non-zero (how many are drawn, and which of them become
        // weights, is the implementation's business: the factors themselves are read from the residual below)
        out.oracle("C08:weight-draws-nonzero", w0.iter().all(|w| *w != Scalar::ZERO), &format!("n={} k={} t={}", n, k, t), &format!("logged weight draws {:?}", w0.iter().map(hs).collect::<Vec<_>>()));
        for i in 0..k {
            for j in 0..k {
                if i == j {
                    continue;
                }
                for kk in 0..t {
                    let key = format!("n={} k={} t={} mode={} pair=({},{}) coord={}", n, k, t, if mode == 0 { "verify" } else { "recover+verify" }, i, j, kk);
                    let delta = Scalar::from(7u8);
                    // run A: perturb member i only -> residual = w_i * delta on Gb_kk reveals the factor w_i
                    let mut oa = zero.clone();
                    oa[i][kk] = delta;
                    let (oka, ra, wa) = run(&oa, &zr);
                    let whole = whole_flag.get();
                    // factors are read from the residual while the tapped MSM is the whole final check; otherwise (a
                    // rewrite split the check) from the logged weights, and the residual-based oracles are skipped
                    let fi = if whole { ra.coord(ids.gb[kk]) * delta.invert() } else { wa.get(i).copied().unwrap_or(Scalar::ONE) };
                    // run B: perturb member j only
                    let mut ob = zero.clone();
                    ob[j][kk] = delta;
                    let (okb, rb, wb) = run(&ob, &zr);
                    let fj = if whole { rb.coord(ids.gb[kk]) * delta.invert() } else { wb.get(j).copied().unwrap_or(Scalar::ONE) };
                    out.oracle("C08:single-defect-rejected", !oka && !okb, &key, "a batch with one perturbed member was accepted");
                    if whole {
                        out.oracle("C08:factor-nonzero", fi != Scalar::ZERO && fj != Scalar::ZERO, &key, "a proof enters the batch with factor zero");
                    }
                    if fj == Scalar::ZERO {
                        continue;
                    }
                    if whole && ratios.len() < 64 {
                        ratios.push(fi * fj.invert());
                    }
                    // run C: offsetting defects computed from the observed factors
                    let mut oc = zero.clone();
                    oc[i][kk] = delta;
                    oc[j][kk] = -(delta * fi * fj.invert());
                    let (okc, rc, _) = run(&oc, &zr);
                    out.oracle(
                        "C08:cancelling-defects-rejected",
                        !okc,
                        &key,
                        &format!("batch with equal-and-opposite defects (computed from factors observed on earlier runs) ACCEPTED; offsets d1[{}]+={} on member {}, d1[{}]+={} on member {}", kk, hs(&delta), i, kk, hs(&oc[j][kk]), j),
                    );
                    let _ = rc;
                    // equal-and-opposite defects under the simplest guess, ratio 1 (equal weights)
                    let mut od = zero.clone();
                    od[i][kk] = delta;
                    od[j][kk] = -delta;
                    let (okd, _, _) = run(&od, &zr);
                    out.oracle("C08:cancelling-defects-rejected", !okd, &key, &format!("batch with defects +{d} and -{d} on d1[{}] of members {} and {} ACCEPTED (the two members enter with the same factor)", kk, i, j, d = hs(&delta)));
                    // the ratio of the two factors read in ONE run (member i perturbed on coordinate kk, member j on another
                    // coordinate), used for the cancelling pair of the next run, and compared across a change of r1
                    if whole && t >= 2 {
                        let k2 = (kk + 1) % t;
                        let mut oe = zero.clone();
                        oe[i][kk] = delta;
                        oe[j][k2] = delta;
                        let (_, re1, _) = run(&oe, &zr);
                        let (wi, wj) = (re1.coord(ids.gb[kk]) * delta.invert(), re1.coord(ids.gb[k2]) * delta.invert());
                        if wj != Scalar::ZERO && wi != Scalar::ZERO {
                            let rho = wi * wj.invert();
                            let mut of = zero.clone();
                            of[i][kk] = delta;
                            of[j][kk] = -(delta * rho);
                            let (okf, _, _) = run(&of, &zr);
                            out.oracle("C08:cancelling-defects-rejected", !okf, &key, "batch with equal-and-opposite defects computed from the ratio of the two factors read in one earlier run ACCEPTED");
                            // the ratio changes whenever a response scalar of either member changes
                            for (which, member) in [("r1", i), ("s1", i), ("r1", j), ("s1", j)] {
                                let mut zr3 = zr.clone();
                                let mut zs3 = zs.clone();
                                if which == "r1" { zr3[member] = Scalar::ONE; } else { zs3[member] = Scalar::ONE; }
                                let (_, re2, _) = run3(&oe, &zr3, &zs3);
                                let (wi2, wj2) = (re2.coord(ids.gb[kk]) * delta.invert(), re2.coord(ids.gb[k2]) * delta.invert());
                                if wj2 != Scalar::ZERO {
                                    out.oracle("C08:ratio-changes-with-responses", wi2 * wj2.invert() != rho, &key, &format!("the ratio between the factors of members {} and {} is the same after changing {} of member {}", i, j, which, member));
                                }
                            }
                            if t >= 3 {
                                let k3 = (kk + 2) % t;
                                let mut oe3 = oe.clone();
                                oe3[i][k3] += Scalar::ONE;
                                let (_, re2, _) = run(&oe3, &zr);
                                let (wi2, wj2) = (re2.coord(ids.gb[kk]) * delta.invert(), re2.coord(ids.gb[k2]) * delta.invert());
                                if wj2 != Scalar::ZERO {
                                    out.oracle("C08:ratio-changes-with-responses", wi2 * wj2.invert() != rho, &key, &format!("the ratio between the factors is the same after changing d1[{}] of member {}", k3, i));
                                }
                            }
                        }
                    }
                    // alterations that preserve a linear invariant of a member's responses (here: the sum of its d1): a weight
                    // derivation that sees the d1 only through such an invariant keeps its weights under them
                    if whole && t >= 2 {
                        let k2 = (kk + 1) % t;
                        let zsum = |g: usize, amount: Scalar| -> Vec<Vec<Scalar>> {
                            let mut o = zero.clone();
                            o[g][kk] = amount;
                            o[g][k2] = -amount;
                            o
                        };
                        let (_, rza, _) = run(&zsum(i, delta), &zr);
                        let (_, rzb, _) = run(&zsum(j, delta), &zr);
                        let (zi, zj) = (rza.coord(ids.gb[kk]) * delta.invert(), rzb.coord(ids.gb[kk]) * delta.invert());
                        if zj != Scalar::ZERO {
                            let mut oz = zsum(i, delta);
                            let amt = -(delta * zi * zj.invert());
                            oz[j][kk] = amt;
                            oz[j][k2] = -amt;
                            let (okz, _, _) = run(&oz, &zr);
                            out.oracle("C08:cancelling-defects-rejected", !okz, &key, &format!("batch with sum-preserving equal-and-opposite defects on d1[{}], d1[{}] of members {} and {} ACCEPTED", kk, k2, i, j));
                        }
                    }
                    if !whole {
                        classes.insert((n, k, t, mode, kk));
                        continue;
                    }
                    classes.insert((n, k, t, mode, kk));
                }
            }
        }
    }
    // a weight derivation that sees a member's d1 only through fewer than t linear functionals (a sum, a fold with
    // powers of a challenge, ...) has a kernel: directions in which d1 can move without the weights moving. The kernel
    // is found from what the verifier absorbs after the last challenge (read at the merlin boundary, one unit step per
    // coordinate), and then used for the cancellation attack. A derivation that absorbs every d1_k (or a
    // collision-resistant digest of them) has no such direction and the block does nothing.
    for (n, t, mode) in [(2usize, 3usize, 0usize), (4, 6, 1), (2, 4, 0)] {
        let insts: Vec<Inst> = (0..2).map(|g| fmrun::random_inst(n, 1, 1, t, g + 4, mode == 1, &mut rng)).collect();
        let proofs: Vec<Proof> = insts.iter().map(|i| i.prove(&mut rng).unwrap()).collect();
        let stmts: Vec<Stmt> = insts.iter().map(|i| i.statement()).collect();
        let pr = fmrun::params(n, 1, t);
        let ids = fmx::gen_ids(&pr, n);
        // run with offsets on d1 of both members; returns (ok, residual, per-member scalars absorbed after the last challenge)
        let run = |offs: &Vec<Vec<Scalar>>| -> (bool, FP, Vec<Vec<Scalar>>) {
            let ps: Vec<Proof> = (0..2).map(|g| { let mut parts = fmx::parts(&proofs[g]); for kk in 0..t { parts.d1[kk] += offs[g][kk]; } parts.to_proof().unwrap() }).collect();
            let mut ts: Vec<_> = insts.iter().map(|i| i.transcript()).collect();
            let tids: Vec<u64> = ts.iter().map(|x| x.shadow_id).collect();
            tap::start();
            fm::tap_start();
            let r = Proof::verify_batch(&mut ts, &stmts, &ps, if mode == 0 { VerifyAction::VerifyOnly } else { VerifyAction::RecoverAndVerify });
            let res = fm::tap_take().last().cloned().unwrap_or_default();
            let recs = tap::take();
            let tails: Vec<Vec<Scalar>> = tids.iter().map(|id| {
                let evs: Vec<&merlin::tap::Ev> = recs.iter().filter(|r| r.id == *id).map(|r| &r.ev).collect();
                let last_ch = evs.iter().rposition(|e| matches!(e, merlin::tap::Ev::Challenge { .. })).map(|x| x + 1).unwrap_or(0);
                evs[last_ch..].iter().filter_map(|e| match e { merlin::tap::Ev::Append { msg, .. } if msg.len() == 32 => { let mut b = [0u8; 32]; b.copy_from_slice(msg); Option::<Scalar>::from(Scalar::from_canonical_bytes(b)) }, _ => None }).collect()
            }).collect();
            (r.is_ok(), res, tails)
        };
        let zero = vec![vec![Scalar::ZERO; t]; 2];
        let (ok0, _, t0) = run(&zero);
        if !ok0 {
            continue;
        }
        // columns of the (assumed affine) map d1 -> absorbed scalars, for both members stacked
        let mut rows: Vec<Vec<Scalar>> = vec![];
        let mut affine = true;
        for g in 0..2 {
            let mut cols: Vec<Vec<Scalar>> = vec![];
            for kk in 0..t {
                let mut o = zero.clone();
                o[g][kk] = Scalar::ONE;
                let (_, _, tk) = run(&o);
                if tk[g].len() != t0[g].len() {
                    affine = false;
                    break;
                }
                cols.push(tk[g].iter().zip(t0[g].iter()).map(|(a, b)| a - b).collect());
            }
            if !affine {
                break;
            }
            for r_ in 0..t0[g].len() {
                rows.push((0..t).map(|kk| cols[kk][r_]).collect());
            }
        }
        if !affine {
            continue;
        }
        // kernel of the stacked matrix by Gaussian elimination over the scalar field
        let mut mtx = rows.clone();
        let mut pivots: Vec<usize> = vec![];
        let mut rix = 0usize;
        for c in 0..t {
            if let Some(pr_) = (rix..mtx.len()).find(|r_| mtx[*r_][c] != Scalar::ZERO) {
                mtx.swap(rix, pr_);
                let inv = mtx[rix][c].invert();
                for x in mtx[rix].iter_mut() {
                    *x *= inv;
                }
                for r_ in 0..mtx.len() {
                    if r_ != rix && mtx[r_][c] != Scalar::ZERO {
                        let f = mtx[r_][c];
                        let prow = mtx[rix].clone();
                        for (x, y) in mtx[r_].iter_mut().zip(prow.iter()) {
                            *x -= f * y;
                        }
                    }
                }
                pivots.push(c);
                rix += 1;
            }
        }
        let free: Vec<usize> = (0..t).filter(|c| !pivots.contains(c)).collect();
        out.stat(&format!("weight_input_kernel_dim_n{}_t{}", n, t), free.len());
        let Some(&fc) = free.first() else { continue };
        // kernel vector: free coordinate 1, pivot coordinates from the reduced rows
        let mut pvec = vec![Scalar::ZERO; t];
        pvec[fc] = Scalar::ONE;
        for (ri, c) in pivots.iter().enumerate() {
            pvec[*c] = -mtx[ri][fc];
        }
        let key = format!("kernel direction of the weight input n={} t={} mode={}", n, t, mode);
        let scaled = |g: usize, f: Scalar| -> Vec<Vec<Scalar>> { let mut o = zero.clone(); for kk in 0..t { o[g][kk] = pvec[kk] * f; } o };
        let k0 = (0..t).find(|kk| pvec[*kk] != Scalar::ZERO).unwrap();
        let (oka, ra, _) = run(&scaled(0, Scalar::ONE));
        let (okb, rb, _) = run(&scaled(1, Scalar::ONE));
        out.oracle("C08:single-defect-rejected", !oka && !okb, &key, "a batch with one perturbed member was accepted");
        let (wi, wj) = (ra.coord(ids.gb[k0]) * pvec[k0].invert(), rb.coord(ids.gb[k0]) * pvec[k0].invert());
        if wj != Scalar::ZERO {
            let mut oc = scaled(0, Scalar::ONE);
            let f = -(wi * wj.invert());
            for kk in 0..t {
                oc[1][kk] = pvec[kk] * f;
            }
            let (okc, _, _) = run(&oc);
            out.oracle("C08:cancelling-defects-rejected", !okc, &key, "batch with equal-and-opposite defects along a direction that leaves the weight input unchanged ACCEPTED");
        }
        classes.insert((n, 2, t, mode, 200));
    }
    // the space the weights come from: the ratios of two members' factors (read in runs A and B above) go to the runner,
    // which looks for a representation a/b with small integers (weights drawn from a space of 2^w values give ratios
    // with |a|, |b| < 2^w; a ratio of uniform field elements has none below about 2^126)
    if !ratios.is_empty() {
        out.req("weightratio".to_string(), format!("ratios={}", ratios.iter().map(hs).collect::<Vec<_>>().join(",")));
    }
    // how strongly a member is bound into the weights: the appends in the history of the weight generator are compared
    // over 40 runs that differ in one response scalar of ONE member; the bits that ever change are the bits through
    // which that member reaches the weights (a cancelling pair can be searched for with about 2^bits hash evaluations)
    for (k, mode) in [(2usize, 0usize), (3, 1)] {
        let (n, t) = (2usize, 1usize);
        let insts: Vec<Inst> = (0..k).map(|i| fmrun::random_inst(n, 1, 1, t, i + 4, mode == 1, &mut rng)).collect();
        let proofs: Vec<Proof> = insts.iter().map(|i| i.prove(&mut rng).unwrap()).collect();
        let stmts: Vec<Stmt> = insts.iter().map(|i| i.statement()).collect();
        let mut min_bits: Option<usize> = None;
        let mut appends = 0usize;
        let mut recognised = true;
        for member in [0usize, k - 1] {
            let mut hists: Vec<Vec<Vec<u8>>> = vec![];
            for _ in 0..40 {
                let ps: Vec<Proof> = (0..k).map(|i| { let mut parts = fmx::parts(&proofs[i]); if i == member { parts.d1[0] += Scalar::random(&mut rng); } parts.to_proof().unwrap() }).collect();
                let mut ts: Vec<_> = insts.iter().map(|i| i.transcript()).collect();
                tap::start();
                let _ = Proof::verify_batch(&mut ts, &stmts, &ps, if mode == 0 { VerifyAction::VerifyOnly } else { VerifyAction::RecoverAndVerify });
                let recs = tap::take();
                // the weight generator: an RNG instance with no challenge and no witness key in its history
                let w = recs.iter().find(|r| matches!(r.ev, tap::Ev::Draw { .. }) && !r.hist.iter().any(|e| matches!(e, tap::Ev::Challenge { .. } | tap::Ev::Rekey { .. })) && r.hist.iter().any(|e| matches!(e, tap::Ev::Finalize { .. })));
                match w {
                    Some(r) => hists.push(r.hist.iter().filter_map(|e| match e { tap::Ev::Append { msg, .. } => Some(msg.clone()), _ => None }).collect()),
                    None => recognised = false,
                }
            }
            if !recognised || hists.is_empty() || hists.iter().any(|h| h.len() != hists[0].len() || h.iter().zip(hists[0].iter()).any(|(a, b)| a.len() != b.len())) {
                recognised = false;
                break;
            }
            appends = hists[0].len();
            let mut bits = 0usize;
            for a in 0..hists[0].len() {
                for byte in 0..hists[0][a].len() {
                    let mut acc = 0u8;
                    for h in &hists {
                        acc |= h[a][byte] ^ hists[0][a][byte];
                    }
                    bits += acc.count_ones() as usize;
                }
            }
            min_bits = Some(min_bits.map_or(bits, |b| b.min(bits)));
        }
        let real = match (recognised, min_bits) {
            (true, Some(b)) => format!("bits={} appends={}", b, appends),
            _ => "bits=unknown".to_string(),
        };
        out.req(format!("weightbind k={} mode={}", k, mode), real);
    }
    // cancellation over MORE than two members. The factors of all members are read in one run (each member's B is
    // moved by a basis element of its own, so the residual's coordinate there is minus that member's factor), for
    // several runs whose responses differ. Factors that depend on the batch through fewer independent quantities than
    // there are members (a progression w_i = a + i*b, a repetition with a short period, ...) leave a fixed vector E
    // with sum_i w_i E_i = 0 on every run: defects delta*E_i then cancel whatever the responses are. Independent
    // draws (and powers of one draw) span the whole space and the block finds nothing to try.
    for (n, k, t, mode) in [(2usize, 3usize, 1usize, 0usize), (2, 4, 2, 1), (2, 6, 1, 0), (4, 5, 3, 0)] {
        let insts: Vec<Inst> = (0..k).map(|i| fmrun::random_inst(n, 1 << (i % 2), 2, t, i + 4, mode == 1, &mut rng)).collect();
        let proofs: Vec<Proof> = insts.iter().map(|i| i.prove(&mut rng).unwrap()).collect();
        let stmts: Vec<Stmt> = insts.iter().map(|i| i.statement()).collect();
        let pr = fmrun::params(n, 2, t);
        let ids = fmx::gen_ids(&pr, n);
        let marks: Vec<FP> = (0..k).map(|_| { let mut b = [0u8; 64]; rng.fill_bytes(&mut b); <FP as tari_bulletproofs_plus::traits::FromUniformBytes>::from_uniform_bytes(&b) }).collect();
        let mark_ids: Vec<u32> = marks.iter().map(|m| m.single_id().unwrap()).collect();
        let whole_flag = std::cell::Cell::new(true);
        let run = |d1off: &Vec<Scalar>, marked: bool| -> (bool, FP) {
            let ps: Vec<Proof> = (0..k).map(|i| { let mut parts = fmx::parts(&proofs[i]); parts.d1[0] += d1off[i]; if marked { parts.b = &parts.b + &marks[i]; } parts.to_proof().unwrap() }).collect();
            let mut ts: Vec<_> = insts.iter().map(|i| i.transcript()).collect();
            fm::tap_start();
            let r = Proof::verify_batch(&mut ts, &stmts, &ps, if mode == 0 { VerifyAction::VerifyOnly } else { VerifyAction::RecoverAndVerify });
            if !fm::tap_is_whole_check() {
                whole_flag.set(false);
            }
            (r.is_ok(), fm::tap_take().last().cloned().unwrap_or_default())
        };
        let mut rows: Vec<Vec<Scalar>> = vec![];
        for _ in 0..k + 3 {
            let offs: Vec<Scalar> = (0..k).map(|_| Scalar::random(&mut rng)).collect();
            let (_, res) = run(&offs, true);
            rows.push(mark_ids.iter().map(|id| -res.coord(*id)).collect());
        }
        if !whole_flag.get() {
            continue;
        }
        let kern = kernel_basis(rows, k);
        out.stat(&format!("factor_vectors_common_kernel_dim_n{}_k{}_t{}", n, k, t), kern.len());
        for (ei, e) in kern.iter().enumerate().take(3) {
            let delta = Scalar::from(11u8);
            let offs: Vec<Scalar> = e.iter().map(|x| x * delta).collect();
            let key = format!("common kernel of the factor vectors n={} k={} t={} mode={} vector {} = {:?}", n, k, t, mode, ei, e.iter().map(hs).collect::<Vec<_>>());
            // each defective member on its own is refused ...
            let mut singles_refused = true;
            for i in 0..k {
                if offs[i] != Scalar::ZERO {
                    let mut o = vec![Scalar::ZERO; k];
                    o[i] = offs[i];
                    singles_refused &= !run(&o, false).0;
                }
            }
            out.oracle("C08:single-defect-rejected", singles_refused, &key, "a batch with one perturbed member was accepted");
            // ... and so must be the batch in which all of them are defective at once
            let (okc, _) = run(&offs, false);
            out.oracle("C08:cancelling-defects-rejected", !okc, &key, &format!("batch whose members carry the defects d1[0] += 11 * E_i, with E a fixed vector annihilating the factor vectors of {} earlier runs, ACCEPTED", k + 3));
        }
        let _ = &ids;
        classes.insert((n, k, t, mode, 300));
    }
    // batches with *repeated* members: the same (statement, proof, transcript) triple several times. Defects are
    // applied to every copy of a group alike; a weight derivation in which equal members cancel (for instance an XOR
    // or a sum of per-member digests) would make the weights of such a batch computable in advance.
    for (n, t, mode, layout) in [(2usize, 1usize, 0usize, vec![0usize, 0, 1, 1]), (4, 2, 1, vec![0, 1, 1, 0]), (2, 2, 0, vec![0, 0, 1, 1, 2, 2]), (4, 1, 1, vec![0, 0, 0, 0, 1, 1])] {
        let groups = layout.iter().max().unwrap() + 1;
        let insts: Vec<Inst> = (0..groups).map(|g| fmrun::random_inst(n, 1 << (g % 2), 2, t, g + 4, mode == 1, &mut rng)).collect();
        let proofs: Vec<Proof> = insts.iter().map(|i| i.prove(&mut rng).unwrap()).collect();
        let pr = fmrun::params(n, 2, t);
        let ids = fmx::gen_ids(&pr, n);
        let whole_flag = std::cell::Cell::new(true);
        let run = |offs: &Vec<Scalar>, kk: usize| -> (bool, FP, Vec<Scalar>) {
            let ps: Vec<Proof> = layout.iter().map(|g| { let mut parts = fmx::parts(&proofs[*g]); parts.d1[kk] += offs[*g]; parts.to_proof().unwrap() }).collect();
            let stmts: Vec<Stmt> = layout.iter().map(|g| insts[*g].statement()).collect();
            let mut ts: Vec<_> = layout.iter().map(|g| insts[*g].transcript()).collect();
            tap::start();
            fm::tap_start();
            let r = Proof::verify_batch(&mut ts, &stmts, &ps, if mode == 0 { VerifyAction::VerifyOnly } else { VerifyAction::RecoverAndVerify });
            if !fm::tap_is_whole_check() {
                whole_flag.set(false);
            }
            let res = fm::tap_take().last().cloned().unwrap_or_default();
            (r.is_ok(), res, fmx::weights_of(&tap::take()))
        };
        let zero = vec![Scalar::ZERO; groups];
        let (ok0, _, _) = run(&zero, 0);
        out.oracle("C08:honest-batch-accepted", ok0, &format!("repeated members layout={:?} n={} t={}", layout, n, t), "honest batch with repeated members rejected");
        for gi in 0..groups {
            for gj in 0..groups {
                if gi == gj {
                    continue;
                }
                for kk in 0..t {
                    let key = format!("repeated members layout={:?} n={} t={} mode={} groups=({},{}) coord={}", layout, n, t, mode, gi, gj, kk);
                    let delta = Scalar::from(9u8);
                    let mut oa = zero.clone();
                    oa[gi] = delta;
                    let (oka, ra, _) = run(&oa, kk);
                    let mut ob = zero.clone();
                    ob[gj] = delta;
                    let (okb, rb, _) = run(&ob, kk);
                    out.oracle("C08:single-defect-rejected", !oka && !okb, &key, "a batch with one perturbed group of equal members was accepted");
                    if !whole_flag.get() {
                        continue;
                    }
                    let (fi, fj) = (ra.coord(ids.gb[kk]) * delta.invert(), rb.coord(ids.gb[kk]) * delta.invert());
                    if fj == Scalar::ZERO {
                        // the copies' weights cancel each other: then the group's defect is not seen at all
                        out.oracle("C08:factor-nonzero", okb == false, &key, "a group of equal members enters the batch with total factor zero and is accepted");
                        continue;
                    }
                    let mut oc = zero.clone();
                    oc[gi] = delta;
                    oc[gj] = -(delta * fi * fj.invert());
                    let (okc, _, _) = run(&oc, kk);
                    out.oracle("C08:cancelling-defects-rejected", !okc, &key, "batch of repeated members with equal-and-opposite group defects (computed from factors observed on earlier runs) ACCEPTED");
                    classes.insert((n, groups, t, mode, 100 + kk));
                }
            }
        }
    }
    out.stat("distinct_classes", classes.len());
    out.case("batches of k valid proofs; for every ordered pair (i,j) and blinding coordinate: run A/B perturb d1 of one member to read its factor from the residual, run C applies equal-and-opposite defects computed from those factors; the same with repeated members (groups of equal triples perturbed alike); batches of 3..6 members: factor vectors of k+3 runs read from per-member marks on B, their common kernel, and the batch of defects along it".into());
}
