//! C19: wire compatibility. (a) recorded vectors of the pinned release still verify and yield the recorded masks;
//! (b) a reference prover whose protocol logic is the Lean model (labels, event order, nonce keys, prover algebra,
//! byte layout all come from the driver; this file supplies only primitives: merlin, Blake2b, Ristretto MSM) produces
//! proofs the library accepts and recovers; (c) the reference relation evaluated by the model accepts the library's
//! proofs over Ristretto and agrees with the library's verdict on mutated ones.
use std::{
    io::{BufRead, BufReader, Write},
    process::{Child, ChildStdin, ChildStdout, Command, Stdio},
};

use blake2::Blake2bMac512;
use curve25519_dalek::{
    ristretto::{CompressedRistretto, RistrettoPoint},
    scalar::Scalar,
    traits::{Identity, VartimeMultiscalarMul},
};
use digest::FixedOutput;
use merlin::Transcript;
use rand_core::RngCore;
use tari_bulletproofs_plus::{range_proof::VerifyAction, range_statement::RangeStatement};

use crate::{rrun, util::*, Opts};

pub struct Driver {
    child: Child,
    stdin: ChildStdin,
    stdout: BufReader<ChildStdout>,
}
impl Driver {
    pub fn start() -> Option<Driver> {
        let path = std::env::var("VERIF_DRIVER").unwrap_or("/verif/lean/.lake/build/bin/bppdriver".into());
        let mut child = Command::new(path).stdin(Stdio::piped()).stdout(Stdio::piped()).spawn().ok()?;
        let stdin = child.stdin.take()?;
        let stdout = BufReader::new(child.stdout.take()?);
        Some(Driver { child, stdin, stdout })
    }
    pub fn ask(&mut self, line: &str) -> String {
        writeln!(self.stdin, "{}", line).expect("driver write");
        self.stdin.flush().ok();
        let mut s = String::new();
        self.stdout.read_line(&mut s).expect("driver read");
        s.trim_end().to_string()
    }
}
impl Drop for Driver {
    fn drop(&mut self) {
        let _ = self.child.kill();
    }
}

fn kvget<'a>(line: &'a str, k: &str) -> Option<&'a str> {
    line.split(' ').find_map(|t| t.strip_prefix(&format!("{}=", k)))
}
fn sc_of(h: &str) -> Scalar {
    let mut b = [0u8; 32];
    b.copy_from_slice(&unhex(h));
    Scalar::from_bytes_mod_order(b)
}

/// named points of one instance: ids 0..N-1 = G_i, N..2N-1 = H_i, 2N = hb, 2N+1+k = Gb_k, then extra points
struct Names {
    pts: Vec<RistrettoPoint>,
    n_gen: usize,
}
impl Names {
    fn new(pr: &rrun::Params, nn: usize) -> Names {
        let mut pts: Vec<RistrettoPoint> = pr.gi_base_iter().take(nn).cloned().collect();
        pts.extend(pr.hi_base_iter().take(nn).cloned());
        pts.push(*pr.h_base());
        pts.extend(pr.g_bases().iter().cloned());
        let n_gen = pts.len();
        Names { pts, n_gen }
    }
    fn wire(&self, nn: usize, t: usize) -> String {
        format!("G={} H={} hb={} Gb={}", nlist(&(0..nn).collect::<Vec<_>>()), nlist(&(nn..2 * nn).collect::<Vec<_>>()), 2 * nn, nlist(&(2 * nn + 1..2 * nn + 1 + t).collect::<Vec<_>>()))
    }
    fn add(&mut self, p: RistrettoPoint) -> usize {
        self.pts.push(p);
        self.pts.len() - 1
    }
    /// evaluate a coefficient vector `id:hex;id:hex` over the named points
    fn eval(&self, v: &str) -> RistrettoPoint {
        if v == "-" {
            return RistrettoPoint::identity();
        }
        let mut ss = vec![];
        let mut ps = vec![];
        for t in v.split(';') {
            let (i, h) = t.split_once(':').unwrap();
            ss.push(sc_of(h));
            ps.push(self.pts[i.parse::<usize>().unwrap()]);
        }
        RistrettoPoint::vartime_multiscalar_mul(ss.iter(), ps.iter())
    }
}

/// walk a prescribed event list on a real merlin transcript; `subst` supplies the bytes of proof elements by label
/// occurrence; returns the challenges drawn, stopping after `stop_after` challenges
struct Walker {
    events: Vec<String>,
    pos: usize,
    tr: Transcript,
}
impl Walker {
    /// advance until `n` more challenges have been drawn; `data` maps (label, occurrence index) to message bytes
    fn advance(&mut self, n: usize, data: &dyn Fn(&str, usize) -> Option<Vec<u8>>, seen: &mut std::collections::HashMap<String, usize>) -> Vec<Scalar> {
        let mut out = vec![];
        while out.len() < n && self.pos < self.events.len() {
            let e = self.events[self.pos].clone();
            self.pos += 1;
            let f: Vec<&str> = e.split('.').collect();
            let label = unhex(f[1]);
            let label_s = String::from_utf8_lossy(&label).to_string();
            // merlin wants 'static labels: leak (test harness)
            let label_static: &'static [u8] = Box::leak(label.clone().into_boxed_slice());
            if f[0] == "a" {
                let occ = *seen.get(&label_s).unwrap_or(&0);
                seen.insert(label_s.clone(), occ + 1);
                let msg = data(&label_s, occ).unwrap_or_else(|| unhex(f[2]));
                self.tr.append_message(label_static, &msg);
            } else {
                let len: usize = f[2].parse().unwrap();
                let mut buf = vec![0u8; len];
                self.tr.challenge_bytes(label_static, &mut buf);
                out.push(wide(&buf));
            }
        }
        out
    }
}

fn blake_nonce(key: &[u8], persona: &[u8]) -> Scalar {
    let h = Blake2bMac512::new_with_salt_and_personal(key, &[], persona).expect("blake2b");
    let mut o = [0u8; 64];
    o.copy_from_slice(h.finalize_fixed().as_slice());
    Scalar::from_bytes_mod_order_wide(&o)
}

fn events_req(who: &str, inst: &rrun::Inst, pr: &rrun::Params, cs: &[CompressedRistretto], a: &str, lrs: &str, a1: &str, b: &str, r1: &str, s1: &str, d1: &str) -> String {
    format!(
        "events who={} ctx=- hb={} gb={} n={} t={} m={} cs={} ps={} A={} lrs={} A1={} B={} r1={} s1={} d1={}",
        who,
        hex(pr.h_base_compressed().as_bytes()),
        pr.g_bases_compressed().iter().map(|c| hex(c.as_bytes())).collect::<Vec<_>>().join(","),
        inst.n,
        inst.t,
        inst.m,
        cs.iter().map(|c| hex(c.as_bytes())).collect::<Vec<_>>().join(","),
        nlist(&inst.promises.iter().map(|p| p.unwrap_or(0)).collect::<Vec<_>>()),
        a,
        lrs,
        a1,
        b,
        r1,
        s1,
        d1
    )
}

/// the reference prover: returns proof bytes
pub fn reference_prove(drv: &mut Driver, inst: &rrun::Inst, rng: &mut (impl RngCore + rand_core::CryptoRng)) -> Option<Vec<u8>> {
    reference_prove_with(drv, inst, None, rng)
}

/// the reference prover, optionally *lying*: the transcript absorbs the statement's promises, the arithmetic (bit
/// decomposition, offsets) is done with `arith_promises` instead. With other arithmetic promises than the statement's
/// the result is a proof of the wrong relation, which every verifier must refuse.
pub fn reference_prove_with(drv: &mut Driver, inst: &rrun::Inst, arith_promises: Option<&[u64]>, rng: &mut (impl RngCore + rand_core::CryptoRng)) -> Option<Vec<u8>> {
    reference_prove_lie(drv, inst, &Lie { promises: arith_promises.map(|p| p.to_vec()), values: None, blindings: None }, rng)
}

/// what a lying prover computes with, where it differs from what the statement (and hence the transcript) says
#[derive(Default, Clone)]
pub struct Lie {
    pub promises: Option<Vec<u64>>,
    pub values: Option<Vec<u64>>,
    pub blindings: Option<Vec<Vec<Scalar>>>,
}

pub fn reference_prove_lie(drv: &mut Driver, inst: &rrun::Inst, lie: &Lie, rng: &mut (impl RngCore + rand_core::CryptoRng)) -> Option<Vec<u8>> {
    let arith_promises = lie.promises.as_deref();
    let nn = inst.n * inst.m;
    let kappa = nn.ilog2() as usize;
    let t = inst.t;
    let pr = rrun::params(inst.n, inst.cap, t);
    let names = Names::new(&pr, nn);
    // commitments by our own multiscalar product
    let cs: Vec<RistrettoPoint> = (0..inst.m)
        .map(|j| {
            let mut ss = vec![Scalar::from(inst.values[j])];
            ss.extend(inst.blindings[j].iter().cloned());
            let mut ps = vec![*pr.h_base()];
            ps.extend(pr.g_bases().iter().take(inst.blindings[j].len()).cloned());
            RistrettoPoint::vartime_multiscalar_mul(ss.iter(), ps.iter())
        })
        .collect();
    let csc: Vec<CompressedRistretto> = cs.iter().map(|c| c.compress()).collect();
    // nonces: seed-derived where the model says so, otherwise fresh
    let mut nonce = |drv: &mut Driver, pos: String| -> Scalar {
        if let Some(seed) = inst.seed {
            let rep = drv.ask(&format!("noncekey seed={} pos={}", hs(&seed), pos));
            if let (Some(k), Some(p)) = (kvget(&rep, "key"), kvget(&rep, "persona")) {
                return blake_nonce(&unhex(k), &unhex(p));
            }
        }
        Scalar::random(rng)
    };
    let alpha: Vec<Scalar> = (0..t).map(|k| nonce(drv, format!("alpha.{}", k))).collect();
    let dl: Vec<Vec<Scalar>> = (0..kappa).map(|j| (0..t).map(|k| nonce(drv, format!("dL.{}.{}", j, k))).collect()).collect();
    let dr: Vec<Vec<Scalar>> = (0..kappa).map(|j| (0..t).map(|k| nonce(drv, format!("dR.{}.{}", j, k))).collect()).collect();
    let rr = nonce(drv, "r".into());
    let ss = nonce(drv, "s".into());
    let d: Vec<Scalar> = (0..t).map(|k| nonce(drv, format!("d.{}", k))).collect();
    let eta: Vec<Scalar> = (0..t).map(|k| nonce(drv, format!("eta.{}", k))).collect();
    let prove_req = |y: &Scalar, z: &Scalar, es: &[Scalar], e: &Scalar| -> String {
        format!(
            "prove n={} m={} t={} {} v={} p={} r={} alpha={} dL={} dR={} rr={} ss={} d={} eta={} y={} z={} es={} e={}",
            inst.n,
            inst.m,
            t,
            names.wire(nn, t),
            nlist(lie.values.as_ref().unwrap_or(&inst.values)),
            nlist(&arith_promises.map(|p| p.to_vec()).unwrap_or_else(|| inst.promises.iter().map(|p| p.unwrap_or(0)).collect::<Vec<_>>())),
            hrows(lie.blindings.as_ref().unwrap_or(&inst.blindings)),
            hlist(&alpha),
            hrows(&dl),
            hrows(&dr),
            hs(&rr),
            hs(&ss),
            hlist(&d),
            hlist(&eta),
            hs(y),
            hs(z),
            hlist(es),
            hs(e)
        )
    };
    // prescribed transcript events with placeholders for the proof elements
    let ph = hex(&[0u8; 32]);
    let lrs_ph = if kappa == 0 { "-".to_string() } else { (0..kappa).map(|_| format!("{}:{}", ph, ph)).collect::<Vec<_>>().join(",") };
    let evs = drv.ask(&events_req("prover", inst, &pr, &csc, &ph, &lrs_ph, &ph, &ph, &ph, &ph, "-"));
    let events: Vec<String> = kvget(&evs, "ev")?.split(',').map(|s| s.to_string()).collect();
    let mut w = Walker { events, pos: 0, tr: inst.transcript() };
    let mut seen = std::collections::HashMap::new();
    let one = Scalar::ONE;
    let ones = vec![one; kappa];
    // A
    let rep = drv.ask(&prove_req(&one, &one, &ones, &one));
    let a_pt = names.eval(kvget(&rep, "A")?);
    let a_c = a_pt.compress();
    let mut l_c: Vec<CompressedRistretto> = vec![];
    let mut r_c: Vec<CompressedRistretto> = vec![];
    let a_bytes = a_c.as_bytes().to_vec();
    let yz = w.advance(2, &|l, _| if l == "A" { Some(a_bytes.clone()) } else { None }, &mut seen);
    if yz.len() != 2 || yz[0] == Scalar::ZERO || yz[1] == Scalar::ZERO {
        return None;
    }
    let (y, z) = (yz[0], yz[1]);
    let mut es: Vec<Scalar> = vec![];
    for j in 0..kappa {
        let mut cur = es.clone();
        cur.resize(kappa, one);
        let rep = drv.ask(&prove_req(&y, &z, &cur, &one));
        let ls: Vec<&str> = kvget(&rep, "L")?.split(',').collect();
        let rs: Vec<&str> = kvget(&rep, "R")?.split(',').collect();
        let (lc, rc) = (names.eval(ls[j]).compress(), names.eval(rs[j]).compress());
        l_c.push(lc);
        r_c.push(rc);
        let (lb, rb) = (lc.as_bytes().to_vec(), rc.as_bytes().to_vec());
        let e = w.advance(1, &|l, occ| if l == "L" && occ == j { Some(lb.clone()) } else if l == "R" && occ == j { Some(rb.clone()) } else { None }, &mut seen);
        if e.len() != 1 || e[0] == Scalar::ZERO {
            return None;
        }
        es.push(e[0]);
    }
    let rep = drv.ask(&prove_req(&y, &z, &es, &one));
    let a1_c = names.eval(kvget(&rep, "A1")?).compress();
    let b_c = names.eval(kvget(&rep, "B")?).compress();
    let (a1b, bb) = (a1_c.as_bytes().to_vec(), b_c.as_bytes().to_vec());
    let e = w.advance(1, &|l, _| if l == "A1" { Some(a1b.clone()) } else if l == "B" { Some(bb.clone()) } else { None }, &mut seen);
    if e.len() != 1 || e[0] == Scalar::ZERO {
        return None;
    }
    let rep = drv.ask(&prove_req(&y, &z, &es, &e[0]));
    // byte layout from the model's encoder
    let enc = drv.ask(&format!(
        "encode tag={} d1={} a={} a1={} b={} r1={} s1={} li={} ri={}",
        t,
        kvget(&rep, "d1")?,
        hex(a_c.as_bytes()),
        hex(a1_c.as_bytes()),
        hex(b_c.as_bytes()),
        kvget(&rep, "r1")?,
        kvget(&rep, "s1")?,
        if kappa == 0 { "-".to_string() } else { l_c.iter().map(|c| hex(c.as_bytes())).collect::<Vec<_>>().join(",") },
        if kappa == 0 { "-".to_string() } else { r_c.iter().map(|c| hex(c.as_bytes())).collect::<Vec<_>>().join(",") }
    ));
    Some(unhex(kvget(&enc, "hex")?))
}

/// the reference verifier: Some(true) = relation holds, Some(false) = it does not, None = not evaluable (shape)
pub fn reference_verify(drv: &mut Driver, inst: &rrun::Inst, stmt: &rrun::Stmt, proof_bytes: &[u8]) -> Option<bool> {
    let nn = inst.n * inst.m;
    let t = inst.t;
    let pr = &stmt.generators;
    let f = drv.ask(&format!("fields hex={}", hex(proof_bytes)));
    if !f.starts_with("ok") {
        return None;
    }
    let li: Vec<&str> = kvget(&f, "li")?.split(',').collect();
    let ri: Vec<&str> = kvget(&f, "ri")?.split(',').collect();
    if (1usize << li.len()) != nn || kvget(&f, "tag")?.parse::<usize>().ok()? != t {
        return Some(false);
    }
    let dec = |h: &str| -> Option<RistrettoPoint> {
        let mut b = [0u8; 32];
        b.copy_from_slice(&unhex(h));
        CompressedRistretto(b).decompress()
    };
    let lrs = li.iter().zip(ri.iter()).map(|(l, r)| format!("{}:{}", l, r)).collect::<Vec<_>>().join(",");
    let evs = drv.ask(&events_req("verifier", inst, pr, &stmt.commitments_compressed, kvget(&f, "a")?, &lrs, kvget(&f, "a1")?, kvget(&f, "b")?, kvget(&f, "r1")?, kvget(&f, "s1")?, kvget(&f, "d1")?));
    let events: Vec<String> = kvget(&evs, "ev")?.split(',').map(|s| s.to_string()).collect();
    let mut w = Walker { events, pos: 0, tr: inst.transcript() };
    let mut seen = std::collections::HashMap::new();
    let ch = w.advance(3 + li.len(), &|_, _| None, &mut seen);
    if ch.len() != 3 + li.len() || ch.iter().any(|c| *c == Scalar::ZERO) {
        return Some(false);
    }
    // proof points and commitments as named points
    let mut names = Names::new(pr, nn);
    let ida = names.add(dec(kvget(&f, "a")?)?);
    let ida1 = names.add(dec(kvget(&f, "a1")?)?);
    let idb = names.add(dec(kvget(&f, "b")?)?);
    let mut idl = vec![];
    let mut idr = vec![];
    for (l, r) in li.iter().zip(ri.iter()) {
        idl.push(names.add(dec(l)?));
        idr.push(names.add(dec(r)?));
    }
    let idv: Vec<usize> = stmt.commitments.iter().map(|c| names.add(*c)).collect();
    let one = hs(&Scalar::ONE);
    let b1 = |i: usize| format!("{}:{}", i, one);
    let req = format!(
        "verify n={} m={} t={} {} V={} p={} A={} A1={} B={} L={} R={} r1={} s1={} d1={} y={} z={} es={} e={} w={}",
        inst.n,
        inst.m,
        t,
        names.wire(nn, t),
        idv.iter().map(|i| b1(*i)).collect::<Vec<_>>().join(","),
        nlist(&stmt.minimum_value_promises.iter().map(|p| p.unwrap_or(0)).collect::<Vec<_>>()),
        b1(ida),
        b1(ida1),
        b1(idb),
        idl.iter().map(|i| b1(*i)).collect::<Vec<_>>().join(","),
        idr.iter().map(|i| b1(*i)).collect::<Vec<_>>().join(","),
        kvget(&f, "r1")?,
        kvget(&f, "s1")?,
        kvget(&f, "d1")?,
        hs(&ch[0]),
        hs(&ch[1]),
        hlist(&ch[2..ch.len() - 1]),
        hs(&ch[ch.len() - 1]),
        one
    );
    let rep = drv.ask(&req);
    let spec = kvget(&rep, "spec")?;
    let _ = names.n_gen;
    Some(names.eval(spec) == RistrettoPoint::identity())
}

fn vec_line(id: usize, inst: &rrun::Inst, stmt: &rrun::Stmt, proof: &rrun::Proof, rng_seed: u64) -> String {
    format!(
        "VEC id={} n={} m={} cap={} t={} ctx={} seed={} commitments={} promises={} proof={} masks={} values={} blindings={} rng={}",
        id,
        inst.n,
        inst.m,
        inst.cap,
        inst.t,
        hex(&inst.ctx),
        inst.seed.map(|s| hs(&s)).unwrap_or("-".into()),
        stmt.commitments_compressed.iter().map(|c| hex(c.as_bytes())).collect::<Vec<_>>().join(","),
        inst.promises.iter().map(|p| p.map(|x| x.to_string()).unwrap_or("x".into())).collect::<Vec<_>>().join(","),
        hex(&proof.to_bytes()),
        if inst.seed.is_some() { hlist(&inst.blindings[0]) } else { "-".into() },
        nlist(&inst.values),
        hrows(&inst.blindings),
        rng_seed
    )
}

fn gens_digest(bits: usize, cap: usize, t: usize) -> String {
    use sha3::{Digest, Sha3_256};
    let pr = rrun::params(bits, cap, t);
    let mut h = Sha3_256::new();
    for p in pr.gi_base_iter().chain(pr.hi_base_iter()) {
        h.update(p.compress().as_bytes());
    }
    h.update(pr.h_base_compressed().as_bytes());
    for c in pr.g_bases_compressed() {
        h.update(c.as_bytes());
    }
    hex(&h.finalize())
}

/// print the vector file (run once against the pinned release)
pub fn record() {
    let mut rng = chacha(19, 19);
    let mut id = 0;
    for &(n, m, cap, t, seeded) in &[(1usize, 2usize, 2usize, 1usize, false), (2, 1, 1, 2, true), (4, 4, 4, 3, false), (8, 1, 2, 1, true), (8, 8, 8, 2, false), (16, 2, 4, 4, false), (32, 1, 1, 6, true), (64, 1, 1, 1, true), (64, 2, 2, 1, false), (64, 4, 8, 5, false), (64, 1, 4, 3, true), (2, 16, 32, 1, false)] {
        for class in [4usize, 5, 8] {
            let inst = rrun::random_inst(n, m, cap, t, class, seeded, &mut rng);
            let stmt = inst.statement();
            let rs = rng.next_u64();
            let proof = rrun::Proof::prove_with_rng(&mut inst.transcript(), &stmt, &inst.witness(), &mut chacha(rs, 0)).unwrap();
            println!("{}", vec_line(id, &inst, &stmt, &proof, rs));
            id += 1;
        }
    }
    for &(b, c, t) in &[(64usize, 32usize, 6usize), (8, 4, 1), (1, 1, 1), (16, 16, 3)] {
        println!("GENS bits={} cap={} t={} digest={}", b, c, t, gens_digest(b, c, t));
    }
}

pub fn c19(opts: &Opts, out: &mut Out, vectors: &str) {
    let mut rng = chacha(opts.seed, 19);
    let mut classes = std::collections::BTreeSet::new();
    // (a) recorded vectors
    let mut nvec = 0;
    for line in vectors.lines() {
        if let Some(rest) = line.strip_prefix("GENS ") {
            let g = |k: &str| kvget(rest, k).unwrap().parse::<usize>().unwrap();
            out.oracle("C19:recorded-generators", gens_digest(g("bits"), g("cap"), g("t")) == kvget(rest, "digest").unwrap(), &format!("gens {}", rest), "generators differ from the recorded release");
            continue;
        }
        let Some(rest) = line.strip_prefix("VEC ") else { continue };
        let g = |k: &str| kvget(rest, k).unwrap().to_string();
        let (n, m, cap, t): (usize, usize, usize, usize) = (g("n").parse().unwrap(), g("m").parse().unwrap(), g("cap").parse().unwrap(), g("t").parse().unwrap());
        let key = format!("vector id={} n={} m={} cap={} t={}", g("id"), n, m, cap, t);
        let seed = if g("seed") == "-" { None } else { Some(sc_of(&g("seed"))) };
        let cs: Option<Vec<RistrettoPoint>> = g("commitments").split(',').map(|h| { let mut b = [0u8; 32]; b.copy_from_slice(&unhex(h)); CompressedRistretto(b).decompress() }).collect();
        let promises: Vec<Option<u64>> = g("promises").split(',').map(|p| if p == "x" { None } else { Some(p.parse().unwrap()) }).collect();
        let ctx = unhex(&g("ctx"));
        let mk_tr = || { let mut tr = Transcript::new(b"verif-harness"); tr.append_message(b"ctx", &ctx); tr };
        let (Some(cs), Ok(proof)) = (cs, rrun::Proof::from_bytes(&unhex(&g("proof")))) else {
            out.oracle("C19:recorded-vector-decodes", false, &key, "recorded proof or commitment no longer decodes");
            continue;
        };
        let stmt = RangeStatement::init(rrun::params(n, cap, t), cs, promises.clone(), seed).unwrap();
        let r = rrun::Proof::verify_batch(&mut [mk_tr()], std::slice::from_ref(&stmt), std::slice::from_ref(&proof), VerifyAction::RecoverAndVerify);
        let masks_ok = match (&r, g("masks").as_str()) {
            (Ok(v), "-") => v.len() == 1 && v[0].is_none(),
            (Ok(v), ms) => v.len() == 1 && v[0].as_ref().map(|m| hlist(&m.blindings().unwrap()) == ms).unwrap_or(false),
            _ => false,
        };
        out.oracle("C19:recorded-proof-verifies", r.is_ok(), &key, &format!("err={:?}", r.as_ref().err()));
        out.oracle("C19:recorded-mask-recovered", masks_ok, &key, "recovered mask differs from the recorded one");
        // diagnostic: re-proving with the recorded RNG seed reproduces the recorded bytes
        let values: Vec<u64> = g("values").split(',').map(|v| v.parse().unwrap()).collect();
        let blindings: Vec<Vec<Scalar>> = g("blindings").split('/').map(|r| r.split(',').map(sc_of).collect()).collect();
        let inst = rrun::Inst { n, m, cap, t, values, promises, blindings, seed, ctx: ctx.clone() };
        let again = rrun::Proof::prove_with_rng(&mut inst.transcript(), &stmt, &inst.witness(), &mut chacha(g("rng").parse().unwrap(), 0));
        out.stat("reproved_identical", again.map(|p| (hex(&p.to_bytes()) == g("proof")) as u64).unwrap_or(0));
        nvec += 1;
        classes.insert((n, m, t, 0usize));
    }
    out.stat("recorded_vectors", nvec);
    out.oracle("C19:vector-file-present", nvec >= 30, "vectors", &format!("{} vectors read", nvec));
    // (b), (c) reference prover / verifier through the Lean model
    let Some(mut drv) = Driver::start() else {
        out.oracle("C19:driver-available", false, "driver", "cannot start the Lean model driver");
        return;
    };
    let configs: Vec<(usize, usize, usize, usize, bool)> = if opts.thorough {
        vec![(1, 1, 1, 1, true), (1, 2, 2, 2, false), (2, 1, 1, 3, true), (4, 2, 4, 1, false), (8, 1, 1, 6, true), (8, 4, 4, 2, false), (16, 2, 2, 4, false), (32, 1, 2, 1, true), (64, 1, 1, 2, true), (64, 2, 2, 1, false), (8, 8, 8, 1, false)]
    } else {
        vec![(1, 2, 2, 2, false), (2, 1, 1, 3, true), (8, 1, 2, 1, true), (8, 2, 2, 2, false), (64, 1, 1, 1, true), (4, 4, 8, 5, false), (2, 1, 1, 6, true), (16, 2, 4, 4, false)]
    };
    for (n, m, cap, t, seeded) in configs {
        for class in [4usize, 5] {
            let inst = rrun::random_inst(n, m, cap, t, class, seeded, &mut rng);
            let key = inst.describe();
            let stmt = inst.statement();
            classes.insert((n, m, t, 1usize));
            // reference prover -> library verifier and recoverer
            match reference_prove(&mut drv, &inst, &mut rng) {
                None => out.oracle("C19:reference-prover-ran", false, &key, "reference prover could not complete"),
                Some(bytes) => match rrun::Proof::from_bytes(&bytes) {
                    Err(_) if n * m == 1 => {}, // zero-round proofs are not decodable (known finding C15)
                    Err(e) => out.oracle("C19:reference-proof-decodes", false, &key, &format!("{:?}", e)),
                    Ok(p) => {
                        let r = rrun::verify_one(&inst, &stmt, &p, VerifyAction::RecoverAndVerify);
                        out.oracle("C19:reference-proof-accepted", r.is_ok(), &key, &format!("library rejects the reference prover's proof: {:?}", r.as_ref().err()));
                        if let Ok(v) = &r {
                            let ok = match (&v[0], seeded) {
                                (Some(m), true) => m.blindings().unwrap() == inst.blindings[0],
                                (None, false) => true,
                                _ => false,
                            };
                            out.oracle("C19:reference-proof-mask-recovered", ok, &key, "mask recovered from the reference prover's proof differs");
                        }
                    },
                },
            }
            // library prover -> reference verifier, honest and mutated
            let Ok(proof) = inst.prove(&mut rng) else { continue };
            let bytes = proof.to_bytes();
            if n * m >= 2 {
                out.oracle("C19:library-proof-accepted-by-reference", reference_verify(&mut drv, &inst, &stmt, &bytes) == Some(true), &key, "reference relation rejects the library's proof");
                for mutation in 0..4 {
                    let mut b = bytes.clone();
                    let l = b.len();
                    match mutation {
                        0 => b[1] ^= 1,                              // d1[0]
                        1 => b[1 + 32 * (t + 3)] ^= 1,               // r1
                        2 => { let x = other_r(mutation as u64 + 7).compress(); b[1 + 32 * t..1 + 32 * (t + 1)].copy_from_slice(x.as_bytes()) }, // A
                        _ => { let x = other_r(mutation as u64 + 9).compress(); b[l - 32..].copy_from_slice(x.as_bytes()) },                     // last R
                    }
                    let lib = rrun::Proof::from_bytes(&b).ok().map(|p| rrun::verify_one(&inst, &stmt, &p, VerifyAction::VerifyOnly).is_ok());
                    let rf = reference_verify(&mut drv, &inst, &stmt, &b);
                    if let (Some(lib), Some(rf)) = (lib, rf) {
                        out.oracle("C19:verdict-agrees-with-reference", lib == rf, &format!("{} mutation={}", key, mutation), &format!("library={} reference={}", lib, rf));
                    }
                }
            }
        }
    }
    out.stat("distinct_classes", classes.len());
    out.case("recorded vectors of the pinned release (36 proofs, 4 generator digests); reference prover and verifier with protocol logic from the Lean model over Ristretto".into());
}

fn other_r(tag: u64) -> RistrettoPoint {
    let mut b = [9u8; 64];
    b[..8].copy_from_slice(&tag.to_le_bytes());
    RistrettoPoint::from_uniform_bytes(&b)
}


/// **A prover that lies about a commitment.** The transcript is that of the statement (all commitments absorbed as
/// they are), the arithmetic is that of a witness for *other* commitments at one position (another value, another
/// mask, or both). The proof satisfies the relation of the other statement at the statement's own challenges; a
/// verifier that uses, in its equation, exactly the commitments it absorbed refuses it. Position by position.
pub fn lying_about_commitments(opts: &Opts, out: &mut Out, prop: &str) {
    let Some(mut drv) = Driver::start() else { return };
    let mut rng = chacha(opts.seed, 7900);
    let mut n_run = 0usize;
    let configs: Vec<(usize, usize, usize)> = if opts.thorough { vec![(8, 1, 1), (4, 2, 2), (2, 4, 1), (8, 4, 3), (2, 8, 1)] } else { vec![(8, 1, 1), (4, 2, 2), (2, 4, 1)] };
    for (n, m, t) in configs {
        let inst = rrun::random_inst(n, m, m, t, 4, false, &mut rng);
        let stmt = inst.statement();
        for j in 0..m {
            for what in ["value", "mask", "both"] {
                let mut lie = Lie::default();
                let mut vs = inst.values.clone();
                let mut bs = inst.blindings.clone();
                if what != "mask" {
                    let lim = if n == 64 { u64::MAX } else { (1u64 << n) - 1 };
                    vs[j] = if vs[j] < lim { vs[j] + 1 } else { vs[j] - 1 };
                    // stay at or above the promise so that the liar's own relation is satisfiable
                    if let Some(p) = inst.promises[j] {
                        if vs[j] < p {
                            vs[j] = p;
                        }
                    }
                    if vs[j] == inst.values[j] {
                        continue;
                    }
                }
                if what != "value" {
                    bs[j][t - 1] += Scalar::ONE;
                }
                lie.values = Some(vs.clone());
                lie.blindings = Some(bs.clone());
                let key = format!("lying prover about commitment {} ({}): {} computes with values {:?}", j, what, inst.describe(), vs);
                let Some(pb) = reference_prove_lie(&mut drv, &inst, &lie, &mut rng).and_then(|b| rrun::Proof::from_bytes(&b).ok()) else {
                    out.oracle(&format!("{}:reference-prover-ran", prop), false, &key, "the independent prover failed");
                    continue;
                };
                n_run += 1;
                for a in [VerifyAction::VerifyOnly, VerifyAction::RecoverAndVerify] {
                    let r = rrun::verify_one(&inst, &stmt, &pb, a);
                    out.oracle(&format!("{}:wrong-relation-refused", prop), r.is_err(), &format!("{} action={:?}", key, a), "a proof that satisfies the relation of OTHER commitments at this statement's challenges was accepted: the equation does not use the commitments that were absorbed");
                }
            }
        }
        // control: the truthful prover is accepted
        if let Some(ph) = reference_prove(&mut drv, &inst, &mut rng).and_then(|b| rrun::Proof::from_bytes(&b).ok()) {
            out.oracle(&format!("{}:reference-prover-ran", prop), rrun::verify_one(&inst, &stmt, &ph, VerifyAction::VerifyOnly).is_ok(), &inst.describe(), "control proof of the independent prover rejected");
        }
    }
    out.stat("lying_commitment_proofs", n_run);
}
