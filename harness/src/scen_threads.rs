//! C18: proving and verifying are pure, repeatable and thread-safe (Ristretto, the shipped instantiation).
use std::sync::{Arc, Barrier};

use curve25519_dalek::scalar::Scalar;
use rand_core::RngCore;
use sha3::{Digest, Sha3_256};
use tari_bulletproofs_plus::range_proof::VerifyAction;

use crate::{rrun, util::*, Opts};

/// a fixed menu of calls; each returns a digest of everything observable (result bytes, verdict, masks, and the
/// state the call leaves in the caller's transcript)
pub fn call(idx: usize) -> String {
    let mut rng = chacha(777, idx as u64);
    let (n, m, cap, t, seeded) = [(8usize, 1usize, 1usize, 1usize, true), (4, 2, 4, 2, false), (16, 1, 2, 3, true), (2, 4, 4, 6, false), (64, 1, 1, 2, true), (8, 2, 2, 1, false)][idx % 6];
    let inst = rrun::random_inst(n, m, cap, t, idx, seeded, &mut rng);
    let stmt = inst.statement();
    let mut h = Sha3_256::new();
    let mut tr = inst.transcript();
    let proof = rrun::Proof::prove_with_rng(&mut tr, &stmt, &inst.witness(), &mut chacha(888, idx as u64)).expect("prove");
    let mut post = [0u8; 16];
    tr.challenge_bytes(b"post-prove", &mut post);
    h.update(proof.to_bytes());
    h.update(post);
    for action in rrun::ACTIONS {
        let mut ts = [inst.transcript()];
        let r = rrun::Proof::verify_batch(&mut ts, std::slice::from_ref(&stmt), std::slice::from_ref(&proof), action);
        match r {
            Ok(masks) => {
                h.update([1u8]);
                for m in masks {
                    match m {
                        Some(m) => m.blindings().unwrap().iter().for_each(|s| h.update(s.as_bytes())),
                        None => h.update([0u8]),
                    }
                }
            },
            Err(_) => h.update([2u8]),
        }
        let mut post = [0u8; 16];
        ts[0].challenge_bytes(b"post-verify", &mut post);
        h.update(post);
    }
    // an invalid proof is rejected the same way every time
    let mut bytes = proof.to_bytes();
    let l = bytes.len();
    bytes[l - 40] ^= 1;
    if let Ok(p2) = rrun::Proof::from_bytes(&bytes) {
        let r = rrun::verify_one(&inst, &stmt, &p2, VerifyAction::VerifyOnly);
        h.update([r.is_ok() as u8]);
    }
    // generator accessors
    for p in stmt.generators.gi_base_iter().take(3).chain(stmt.generators.hi_base_iter().take(3)).chain(stmt.generators.g_bases().iter()) {
        h.update(p.compress().as_bytes());
    }
    hex(&h.finalize())
}

/// child process: threads race the first use of the lazily initialised tables, then run calls
pub fn child(nthreads: usize) {
    let barrier = Arc::new(Barrier::new(nthreads));
    let hs: Vec<_> = (0..nthreads)
        .map(|i| {
            let b = barrier.clone();
            std::thread::spawn(move || {
                b.wait();
                let g = tari_bulletproofs_plus::ristretto::create_pedersen_gens_with_extension_degree(crate::rrun::deg(1 + i % 6));
                let mut h = Sha3_256::new();
                for (p, c) in g.g_base_vec.iter().zip(g.g_base_compressed_vec.iter()) {
                    h.update(p.compress().as_bytes());
                    h.update(c.as_bytes());
                }
                format!("{} {} {}", i % 6, hex(&h.finalize()), call(i % 6))
            })
        })
        .collect();
    for h in hs {
        println!("RACE {}", h.join().expect("thread"));
    }
}

/// calls that fail part-way through: whatever they leave behind must not be observable by the next call
pub fn poison(kind: usize) {
    let mut rng = chacha(4242, kind as u64);
    let a = rrun::random_inst(4, 2, 4, 2, 3, false, &mut rng);
    let b = rrun::random_inst(4, 1, 4, 2, 5, false, &mut rng);
    let (sa, sb) = (a.statement(), b.statement());
    let pa = a.prove(&mut rng).unwrap();
    let pb = b.prove(&mut rng).unwrap();
    let mut bytes = pb.to_bytes();
    let l = bytes.len();
    let bad = match kind % 6 {
        0 => {
            // undecodable point in the last R
            bytes[l - 32..].copy_from_slice(&[0xff; 32]);
            rrun::Proof::from_bytes(&bytes).unwrap()
        },
        1 => {
            // one folding round too many
            let tail = bytes[l - 64..].to_vec();
            bytes.extend_from_slice(&tail);
            rrun::Proof::from_bytes(&bytes).unwrap()
        },
        2 => {
            // well-formed but invalid
            bytes[l - 40] ^= 1;
            rrun::Proof::from_bytes(&bytes).unwrap_or(pb.clone())
        },
        3 => {
            // undecodable A
            let off = 1 + 32 * 2;
            bytes[off..off + 32].copy_from_slice(&[0xff; 32]);
            rrun::Proof::from_bytes(&bytes).unwrap()
        },
        4 => {
            // identity A1
            let off = 1 + 32 * 3;
            bytes[off..off + 32].copy_from_slice(&[0u8; 32]);
            rrun::Proof::from_bytes(&bytes).unwrap()
        },
        _ => pb.clone(),
    };
    for action in rrun::ACTIONS {
        // the failing member after a valid one, and first
        let _ = rrun::Proof::verify_batch(&mut [a.transcript(), b.transcript()], &[sa.clone(), sb.clone()], &[pa.clone(), bad.clone()], action);
        if kind % 2 == 0 {
            let _ = rrun::Proof::verify_batch(&mut [b.transcript(), a.transcript()], &[sb.clone(), sa.clone()], &[bad.clone(), pa.clone()], action);
        }
    }
    if kind % 6 == 5 {
        // failing prover, mismatched lengths, inconsistent batch
        let mut a2 = a.clone();
        a2.values[0] = 999;
        let _ = rrun::Proof::prove_with_rng(&mut a2.transcript(), &sa, &a2.witness(), &mut rng);
        let _ = rrun::Proof::verify_batch(&mut [a.transcript()], &[sa.clone(), sb.clone()], &[pa.clone()], VerifyAction::VerifyOnly);
        let c = rrun::random_inst(8, 1, 1, 2, 5, false, &mut rng);
        let _ = rrun::Proof::verify_batch(&mut [a.transcript(), c.transcript()], &[sa.clone(), c.statement()], &[pa.clone(), pb.clone()], VerifyAction::VerifyOnly);
    }
}

pub fn c18(opts: &Opts, out: &mut Out) {
    let ncalls = 6usize;
    let reference: Vec<String> = (0..ncalls).map(call).collect();
    // (a) repeatability
    for i in 0..ncalls {
        out.oracle("C18:repeatable", call(i) == reference[i], &format!("call {}", i), "second execution of an identical call differs");
    }
    // (b) histories: random interleavings with repeats and unrelated calls in between
    let mut rng = chacha(opts.seed, 18);
    let nh = if opts.thorough { 40 } else { 16 };
    for hnum in 0..nh {
        let len = 3 + (rng.next_u32() % 6) as usize;
        let hist: Vec<usize> = (0..len).map(|_| (rng.next_u32() as usize) % ncalls).collect();
        for (pos, &c) in hist.iter().enumerate() {
            // an unrelated call: other parameters, a failing constructor, a decode error
            let _ = rrun::params(2, 1 << (pos % 3), 1 + pos % 6);
            let _ = rrun::Proof::from_bytes(&[1, 2, 3]);
            let _ = Scalar::from(pos as u64);
            let pk = (rng.next_u32() % 6) as usize;
            poison(pk);
            out.oracle("C18:history-independent", call(c) == reference[c], &format!("history {} {:?} position {} after-failing-call-kind {}", hnum, hist, pos, pk), "result depends on the calls that preceded it");
        }
    }
    // (b2) one parameter object shared by statements of different aggregation, in every order: each proof must equal
    // the proof made from a freshly constructed parameter object
    {
        use tari_bulletproofs_plus::{range_parameters::RangeParameters, range_statement::RangeStatement, ristretto::create_pedersen_gens_with_extension_degree};
        let fresh = || RangeParameters::<curve25519_dalek::ristretto::RistrettoPoint>::init(8, 4, create_pedersen_gens_with_extension_degree(crate::rrun::deg(2))).unwrap();
        let mk = |m: usize| {
            let mut r = chacha(31337, m as u64);
            rrun::random_inst(8, m, 4, 2, 4, false, &mut r)
        };
        let prove_on = |pr: &RangeParameters<curve25519_dalek::ristretto::RistrettoPoint>, m: usize| -> Option<Vec<u8>> {
            let inst = mk(m);
            let c = inst.commitments(pr);
            let st = RangeStatement::init(pr.clone(), c, inst.promises.clone(), None).ok()?;
            let r = std::panic::catch_unwind(std::panic::AssertUnwindSafe(|| rrun::Proof::prove_with_rng(&mut inst.transcript(), &st, &inst.witness(), &mut chacha(99, m as u64))));
            r.ok()?.ok().map(|p| p.to_bytes())
        };
        let reference_m: Vec<Option<Vec<u8>>> = [1usize, 2, 4].iter().map(|m| prove_on(&fresh(), *m)).collect();
        for order in [vec![1usize, 4], vec![4, 1], vec![1, 2, 4], vec![2, 1], vec![4, 2, 1], vec![2, 4]] {
            let shared = fresh();
            for (pos, m) in order.iter().enumerate() {
                let got = prove_on(&shared, *m);
                let idx = [1usize, 2, 4].iter().position(|x| x == m).unwrap();
                out.oracle("C18:shared-parameters-history-independent", got.is_some() && got == reference_m[idx], &format!("shared parameters (bits 8, capacity 4), aggregation order {:?}, position {}", order, pos), "a prover call on shared parameters depends on the calls made before it");
            }
        }
        // threads racing the first prover use of one shared parameter object
        for round in 0..(if opts.thorough { 8 } else { 3 }) {
            let shared = Arc::new(fresh());
            let barrier = Arc::new(Barrier::new(6));
            let hs: Vec<_> = (0..6usize)
                .map(|i| {
                    let (sh, b) = (shared.clone(), barrier.clone());
                    std::thread::spawn(move || {
                        let m = [1usize, 2, 4][(i + round) % 3];
                        let mut r = chacha(31337, m as u64);
                        let inst = rrun::random_inst(8, m, 4, 2, 4, false, &mut r);
                        let c = inst.commitments(&sh);
                        let st = RangeStatement::init((*sh).clone(), c, inst.promises.clone(), None).unwrap();
                        b.wait();
                        let r = std::panic::catch_unwind(std::panic::AssertUnwindSafe(|| rrun::Proof::prove_with_rng(&mut inst.transcript(), &st, &inst.witness(), &mut chacha(99, m as u64))));
                        (m, r.ok().and_then(|x| x.ok()).map(|p| p.to_bytes()))
                    })
                })
                .collect();
            for h in hs {
                if let Ok((m, got)) = h.join() {
                    let idx = [1usize, 2, 4].iter().position(|x| *x == m).unwrap();
                    out.oracle("C18:shared-parameters-thread-safe", got.is_some() && got == reference_m[idx], &format!("round {} aggregation {}", round, m), "racing prover calls on shared parameters differ from the reference");
                }
            }
        }
    }
    // (c) threads sharing parameter objects (clones share the Arc'd tables)
    let nthreads = 16;
    let rounds = if opts.thorough { 6 } else { 2 };
    for round in 0..rounds {
        let barrier = Arc::new(Barrier::new(nthreads));
        let hs: Vec<_> = (0..nthreads)
            .map(|i| {
                let b = barrier.clone();
                std::thread::spawn(move || {
                    b.wait();
                    let c = (i + round) % 6;
                    if i % 3 == 0 {
                        poison(i + round);
                    }
                    (c, call(c))
                })
            })
            .collect();
        for h in hs {
            match h.join() {
                Ok((c, d)) => out.oracle("C18:thread-safe", d == reference[c], &format!("round {} call {}", round, c), "concurrent execution differs from the single-threaded result"),
                Err(_) => out.oracle("C18:thread-safe", false, &format!("round {}", round), "a thread panicked"),
            }
        }
    }
    // (d) fresh processes racing the first use of the static tables
    let exe = std::env::current_exe().expect("exe");
    let nproc = if opts.thorough { 200 } else { 12 };
    let refg: Vec<String> = (0..6)
        .map(|i| {
            let g = tari_bulletproofs_plus::ristretto::create_pedersen_gens_with_extension_degree(crate::rrun::deg(1 + i));
            let mut h = Sha3_256::new();
            for (p, c) in g.g_base_vec.iter().zip(g.g_base_compressed_vec.iter()) {
                h.update(p.compress().as_bytes());
                h.update(c.as_bytes());
            }
            hex(&h.finalize())
        })
        .collect();
    let mut lines = 0usize;
    let children: Vec<_> = (0..nproc).map(|_| std::process::Command::new(&exe).arg("C18-child").arg("16").output()).collect();
    for (pi, o) in children.into_iter().enumerate() {
        match o {
            Ok(o) if o.status.success() => {
                for l in String::from_utf8_lossy(&o.stdout).lines().filter(|l| l.starts_with("RACE ")) {
                    let f: Vec<&str> = l.split(' ').collect();
                    let i: usize = f[1].parse().unwrap();
                    lines += 1;
                    out.oracle("C18:racing-first-use", f[2] == refg[i] && f[3] == reference[i], &format!("process {} thread-class {}", pi, i), "a thread racing the first use of the cached tables saw different generators or results");
                }
            },
            _ => out.oracle("C18:racing-first-use", false, &format!("process {}", pi), "child process failed"),
        }
    }
    out.oracle("C18:race-coverage", lines == nproc * 16, "children", &format!("{} result lines from {} processes", lines, nproc));
    out.stat("race_processes", nproc);
    out.stat("distinct_classes", ncalls * 4);
    out.case("menu of 6 prove+verify(3 modes)+reject+accessor calls; repeated, in random histories with unrelated calls, on 16 threads, and in fresh processes whose 16 threads race the first use of the static tables".into());
}
