//! C03 (batch verification ⇔ every member verifies; shape; refusals), C09 positions, C10 mode matrix in batches.
use curve25519_dalek::scalar::Scalar;
use merlin::Transcript;
use rand_core::RngCore;
use tari_bulletproofs_plus::{
    generators::pedersen_gens::ExtensionDegree,
    range_parameters::RangeParameters,
    range_proof::VerifyAction,
    range_statement::RangeStatement,
    PedersenGens,
};

use crate::{
    fm::FP,
    fmrun::{self, Inst, Proof, Stmt},
    fmx,
    util::*,
    Opts,
};

#[derive(Clone)]
pub struct Tmpl {
    pub inst: Inst,
    pub stmt: Stmt,
    pub proof: Proof,
    pub ped: usize,
    pub valid: bool,     // by construction
    pub fit: bool,       // promises fit the bit length
    pub points_ok: bool, // no identity / undecodable point
    pub rounds: usize,
    pub d1: usize,
    /// the bit length the proof was made for, and whether it is an honest proof for this statement's commitments and
    /// promises (re-issuing the statement over other parameters changes neither)
    pub proof_n: usize,
    pub proof_ok: bool,
}

impl Tmpl {
    pub fn desc(&self) -> String {
        format!(
            "{},{},{},{},{},{},{},{},{},{}",
            self.inst.n,
            self.inst.t,
            self.inst.m,
            self.ped,
            self.d1,
            self.rounds,
            self.fit as u8,
            self.points_ok as u8,
            self.valid as u8,
            self.inst.seed.is_some() as u8
        )
    }
}

fn alt_pedersen(deg: ExtensionDegree) -> PedersenGens<FP> {
    use tari_bulletproofs_plus::traits::Compressable;
    let h = FP::named("Hb-alt");
    let g: Vec<FP> = (0..deg as usize).map(|k| FP::named(&format!("Gb-alt{}", k))).collect();
    PedersenGens { h_base_compressed: h.compress(), h_base: h, g_base_compressed_vec: g.iter().map(|p| p.compress()).collect(), g_base_vec: g, extension_degree: deg }
}

/// a valid template; `ped` 0 = standard Pedersen set, 1 = alternative set
pub fn make_valid(n: usize, m: usize, cap: usize, t: usize, seeded: bool, ped: usize, rng: &mut (impl RngCore + rand_core::CryptoRng)) -> Tmpl {
    let class = (rng.next_u32() % 9) as usize;
    let inst = fmrun::random_inst(n, m, cap, t, class, seeded, rng);
    let (stmt, proof) = if ped == 0 {
        let stmt = inst.statement();
        let proof = inst.prove(rng).expect("template proves");
        (stmt, proof)
    } else {
        let pr = RangeParameters::init(n, cap, alt_pedersen(fmrun::deg(t))).unwrap();
        let c: Vec<FP> = inst.values.iter().zip(inst.blindings.iter()).map(|(v, r)| pr.pc_gens().commit(&Scalar::from(*v), r).unwrap()).collect();
        let stmt = RangeStatement::init(pr, c, inst.promises.clone(), inst.seed).unwrap();
        let proof = Proof::prove_with_rng(&mut inst.transcript(), &stmt, &inst.witness(), rng).expect("template proves");
        (stmt, proof)
    };
    let parts = fmx::parts(&proof);
    Tmpl { rounds: parts.l.len(), d1: parts.d1.len(), proof_n: n, proof_ok: true, inst, stmt, proof, ped, valid: true, fit: true, points_ok: true }
}

pub fn make_invalid(base: &Tmpl, how: usize) -> Tmpl {
    let mut t = base.clone();
    let mut parts = fmx::parts(&base.proof);
    match how % 4 {
        0 => parts.r1 += Scalar::ONE,
        1 => parts.d1[0] += Scalar::from(3u8),
        2 => parts.a = &parts.a + &FP::named("junk"),
        _ => parts.s1 -= Scalar::ONE,
    }
    t.proof = parts.to_proof().expect("re-encode");
    t.valid = false;
    t.proof_ok = false;
    t
}

fn action_name(a: VerifyAction) -> &'static str {
    match a {
        VerifyAction::VerifyOnly => "verifyOnly",
        VerifyAction::RecoverAndVerify => "recoverAndVerify",
        VerifyAction::RecoverOnly => "recoverOnly",
    }
}

pub struct BatchOutcome {
    pub ok: bool,
    pub masks: Vec<Option<Vec<Scalar>>>,
}

pub fn run_batch(members: &[&Tmpl], n_transcripts: usize, n_proofs: usize, action: VerifyAction) -> BatchOutcome {
    let mut ts: Vec<Transcript> = (0..n_transcripts).map(|i| members[i % members.len().max(1)].inst.transcript()).collect();
    let stmts: Vec<Stmt> = members.iter().map(|m| m.stmt.clone()).collect();
    let proofs: Vec<Proof> = (0..n_proofs).map(|i| members[i % members.len().max(1)].proof.clone()).collect();
    match std::panic::catch_unwind(std::panic::AssertUnwindSafe(|| Proof::verify_batch(&mut ts, &stmts, &proofs, action))) {
        Ok(Ok(v)) => BatchOutcome { ok: true, masks: v.into_iter().map(|m| m.map(|x| x.blindings().unwrap())).collect() },
        Ok(Err(_)) => BatchOutcome { ok: false, masks: vec![] },
        Err(_) => BatchOutcome { ok: false, masks: vec![None; 1_000_000] }, // panic: reported through the length oracle
    }
}

/// emit oracles + the model tie for one batch
pub fn check_batch(out: &mut Out, prop: &str, label: &str, members: &[&Tmpl], n_t: usize, n_p: usize, action: VerifyAction) {
    let k = members.len();
    let o = run_batch(members, n_t, n_p, action);
    let key = format!("{} k={} nT={} nP={} action={}", label, k, n_t, n_p, action_name(action));
    // property oracle: accept ⇔ well-formed ∧ every member verifies on its own (singleton ground truth is established
    // on the templates by `singleton_truth`)
    let lengths_ok = k > 0 && n_t == k && n_p == k;
    let first = members.first();
    let uniform = first.map(|f| members.iter().all(|m| m.ped == f.ped && m.inst.n == f.inst.n && m.inst.t == f.inst.t && m.d1 == f.inst.t && m.fit)).unwrap_or(false);
    let shapes = members.iter().all(|m| m.points_ok && (1usize << m.rounds) == m.inst.n * m.inst.m);
    let all_valid = members.iter().all(|m| m.valid);
    let expect_ok = lengths_ok && uniform && shapes && (action == VerifyAction::RecoverOnly || all_valid);
    out.oracle(&format!("{}:no-panic", prop), o.masks.len() != 1_000_000, &key, "verify_batch panicked");
    out.oracle(&format!("{}:batch-verdict", prop), o.ok == expect_ok, &key, &format!("real={} expected={} first_invalid={:?}", o.ok, expect_ok, members.iter().position(|m| !m.valid)));
    if o.ok {
        out.oracle(&format!("{}:result-length", prop), o.masks.len() == k, &key, &format!("len={} k={}", o.masks.len(), k));
        let mut aligned = true;
        for (i, m) in members.iter().enumerate() {
            let expect = if action != VerifyAction::VerifyOnly && m.inst.seed.is_some() && m.valid { Some(m.inst.blindings[0].clone()) } else { None };
            let got = o.masks.get(i).cloned().flatten();
            if m.valid || m.inst.seed.is_none() {
                if got != expect {
                    aligned = false;
                }
            } else if got.is_none() {
                // invalid seeded member in RecoverOnly still yields *a* mask (value unspecified)
                aligned = false;
            }
        }
        out.oracle(&format!("{}:mask-alignment", prop), aligned, &key, "i-th mask does not belong to i-th triple");
    }
    let masks = if o.ok { format!("ok masks={}", if o.masks.is_empty() { "-".to_string() } else { o.masks.iter().map(|m| if m.is_some() { '1' } else { '0' }).collect::<String>() }) } else { "err".to_string() };
    // run-length encode the member list for the driver
    let descs: Vec<String> = members.iter().map(|m| m.desc()).collect();
    out.req(format!("batch c=256 action={} nT={} nP={} members={}", action_name(action), n_t, n_p, if descs.is_empty() { "-".to_string() } else { descs.join("/") }), masks);
}

/// the statement of a template re-issued over other parameters (same commitments, promises and seed): the proof
/// stays what it was, the statement now claims bit length `n2` and capacity `cap2`
pub fn reissue(base: &Tmpl, n2: usize, cap2: usize) -> Option<Tmpl> {
    if base.ped != 0 {
        return None;
    }
    let st = RangeStatement::init(fmrun::params(n2, cap2, base.inst.t), base.stmt.commitments.clone(), base.stmt.minimum_value_promises.clone(), base.stmt.seed_nonce).ok()?;
    let mut t = base.clone();
    t.stmt = st;
    t.fit = base.stmt.minimum_value_promises.iter().all(|p| p.map(|v| n2 >= 64 || (v >> n2) == 0).unwrap_or(true));
    t.valid = n2 == base.proof_n && base.proof_ok && t.fit;
    t.inst.n = n2;
    t.inst.cap = cap2;
    Some(t)
}

/// randomly composed batches: a base configuration, members drawn from a pool, and with some probability one or two
/// members that do not belong (other bit length — also by re-issuing a statement over other parameters, in both
/// directions —, other degree, other Pedersen set, promise out of range, invalid proof, proof of another member)
pub fn random_batches(opts: &Opts, out: &mut Out, rng: &mut rand_chacha::ChaCha12Rng) -> usize {
    let ns = [2usize, 4, 8];
    let ts = [1usize, 2];
    let mut pool: Vec<Tmpl> = vec![];
    for &n in &ns {
        for &t in &ts {
            for (m, cap, seeded, ped) in [(1usize, 1usize, true, 0usize), (1, 1, false, 0), (1, 2, false, 0), (2, 2, false, 0), (1, 1, false, 1), (4, 4, false, 0)] {
                if n * m <= 16 {
                    pool.push(make_valid(n, m, cap, t, seeded, ped, rng));
                }
            }
        }
    }
    let nb = if opts.thorough { 1500 } else { 400 };
    let pick = |rng: &mut rand_chacha::ChaCha12Rng, n: usize| (rng.next_u32() as usize) % n;
    let mut made: Vec<Tmpl> = vec![];
    let mut plans: Vec<(Vec<usize>, VerifyAction, String)> = vec![];
    for _ in 0..nb {
        let n = ns[pick(rng, ns.len())];
        let t = ts[pick(rng, ts.len())];
        let only_cap1 = pick(rng, 2) == 0;
        let cands: Vec<usize> = (0..pool.len()).filter(|i| pool[*i].inst.n == n && pool[*i].inst.t == t && pool[*i].ped == 0 && (!only_cap1 || pool[*i].inst.cap == 1)).collect();
        let k = 1 + pick(rng, 5);
        // members are indices into `pool` (< pool.len()) or into `made` (offset by pool.len())
        let mut ms: Vec<usize> = (0..k).map(|_| cands[pick(rng, cands.len())]).collect();
        let mut label = format!("random n={} t={} k={} cap1={}", n, t, k, only_cap1);
        let nodd = match pick(rng, 10) { 0..=3 => 0, 4..=8 => 1, _ => 2 };
        for _ in 0..nodd {
            let pos = pick(rng, k);
            let base = if ms[pos] < pool.len() { pool[ms[pos]].clone() } else { made[ms[pos] - pool.len()].clone() };
            let kind = pick(rng, 8);
            let odd: Option<Tmpl> = match kind {
                0 => reissue(&base, [1usize, 2, 4, 8, 16, 32, 64][pick(rng, 7)], [1usize, 2][pick(rng, 2)]),
                1 => reissue(&base, n * 2, base.inst.cap),
                2 => {
                    let o: Vec<usize> = (0..pool.len()).filter(|i| pool[*i].inst.n != n && pool[*i].inst.t == t && pool[*i].ped == 0).collect();
                    Some(pool[o[pick(rng, o.len())]].clone())
                },
                3 => {
                    let o: Vec<usize> = (0..pool.len()).filter(|i| pool[*i].inst.n == n && pool[*i].inst.t != t && pool[*i].ped == 0).collect();
                    Some(pool[o[pick(rng, o.len())]].clone())
                },
                4 => {
                    let o: Vec<usize> = (0..pool.len()).filter(|i| pool[*i].inst.n == n && pool[*i].inst.t == t && pool[*i].ped == 1).collect();
                    Some(pool[o[pick(rng, o.len())]].clone())
                },
                5 => {
                    // a promise that does not fit the member's own bit length (none exists at 64 bits)
                    if base.inst.n >= 64 {
                        None
                    } else {
                        let mut b = base.clone();
                        let j = pick(rng, b.inst.m);
                        b.stmt.minimum_value_promises[j] = Some(if pick(rng, 2) == 0 { 1u64 << base.inst.n } else { u64::MAX });
                        b.fit = false;
                        b.valid = false;
                        b.proof_ok = false;
                        Some(b)
                    }
                },
                6 => Some(make_invalid(&base, pick(rng, 4))),
                _ => {
                    // the proof of another member with the same shape
                    let o: Vec<usize> = (0..pool.len()).filter(|i| pool[*i].stmt.commitments_compressed != base.stmt.commitments_compressed && pool[*i].inst.n == n && pool[*i].inst.t == t && pool[*i].inst.m == base.inst.m && pool[*i].ped == 0).collect();
                    if o.is_empty() {
                        None
                    } else {
                        let mut b = base.clone();
                        b.proof = pool[o[pick(rng, o.len())]].proof.clone();
                        let parts = fmx::parts(&b.proof);
                        b.rounds = parts.l.len();
                        b.d1 = parts.d1.len();
                        b.valid = false;
                        b.proof_ok = false;
                        Some(b)
                    }
                },
            };
            if let Some(o) = odd {
                made.push(o);
                ms[pos] = pool.len() + made.len() - 1;
                label.push_str(&format!(" odd{}@{}", kind, pos));
            }
        }
        let action = fmrun::ACTIONS[pick(rng, 3)];
        plans.push((ms, action, label));
    }
    for (ms, action, label) in &plans {
        let members: Vec<&Tmpl> = ms.iter().map(|i| if *i < pool.len() { &pool[*i] } else { &made[*i - pool.len()] }).collect();
        check_batch(out, "C03", label, &members, members.len(), members.len(), *action);
    }
    plans.len()
}

pub fn c03(opts: &Opts, out: &mut Out) {
    let mut rng = chacha(opts.seed, 3);
    crate::scen_core::encoding_collisions(opts, out, "C03");
    let t = 1 + (opts.seed as usize % 3);
    let n = 2usize;
    // template pool: valid members of mixed aggregation / capacity / seeding, and invalid variants
    let mut valid: Vec<Tmpl> = vec![];
    for (m, cap, seeded) in [(1, 1, true), (1, 2, false), (2, 2, false), (2, 8, false), (4, 4, false), (1, 4, true), (1, 1, false), (4, 16, false)] {
        valid.push(make_valid(n, m, cap, t, seeded, 0, &mut rng));
    }
    let invalid: Vec<Tmpl> = (0..6).map(|i| make_invalid(&valid[i % valid.len()], i)).collect();
    // ground truth: singleton verdicts of the templates on the real code
    for (i, tm) in valid.iter().chain(invalid.iter()).enumerate() {
        let o = run_batch(&[tm], 1, 1, VerifyAction::VerifyOnly);
        out.oracle("C03:singleton-truth", o.ok == tm.valid, &format!("template {} {}", i, tm.inst.describe()), "singleton verdict differs from construction");
    }
    let sizes: Vec<usize> = if opts.thorough { vec![1, 2, 3, 5, 16, 255, 256, 257, 300, 511, 512, 513, 600, 1025, 2049] } else { vec![1, 2, 3, 16, 255, 256, 257, 300, 513] };
    let mut shapes = std::collections::BTreeSet::new();
    let mut nb = 0usize;
    // capacity and aggregation anti-correlated (seed N3: the member with the most generators is not the member with
    // the largest aggregate): every ordered pair of valid templates incl. extra (aggregation, capacity) shapes, and
    // every order of a triple; own generator so that the batches composed below are unchanged
    {
        let mut rng2 = chacha(opts.seed, 33);
        let mut extra: Vec<Tmpl> = vec![];
        for (m, cap) in [(1usize, 8usize), (2, 4), (1, 16), (8, 8)] {
            extra.push(make_valid(n, m, cap, t, false, 0, &mut rng2));
        }
        let pool: Vec<&Tmpl> = valid.iter().chain(extra.iter()).collect();
        for a in &pool {
            for b in &pool {
                for action in [VerifyAction::VerifyOnly, VerifyAction::RecoverAndVerify] {
                    check_batch(out, "C03", "pair-capacity-vs-aggregation", &[*a, *b], 2, 2, action);
                    nb += 1;
                }
            }
        }
        // (1,8) (4,4) (2,2): capacity falls as aggregation rises
        let tri = [&extra[0], &valid[4], &valid[2]];
        for perm in [[0usize, 1, 2], [0, 2, 1], [1, 0, 2], [1, 2, 0], [2, 0, 1], [2, 1, 0]] {
            let ms: Vec<&Tmpl> = perm.iter().map(|i| tri[*i]).collect();
            check_batch(out, "C03", "triple-capacity-vs-aggregation", &ms, 3, 3, VerifyAction::VerifyOnly);
            nb += 1;
        }
        shapes.insert((2, "pair-capacity-vs-aggregation", 0));
        shapes.insert((3, "triple-capacity-vs-aggregation", 0));
    }
    for &k in &sizes {
        let pick = |rng: &mut rand_chacha::ChaCha12Rng, pool: &Vec<Tmpl>| (rng.next_u32() as usize) % pool.len();
        // all valid
        let base: Vec<usize> = (0..k).map(|_| pick(&mut rng, &valid)).collect();
        let all: Vec<&Tmpl> = base.iter().map(|i| &valid[*i]).collect();
        for a in fmrun::ACTIONS {
            check_batch(out, "C03", "all-valid", &all, k, k, a);
            nb += 1;
        }
        shapes.insert((k, "all-valid", 0));
        // one invalid member at each index class
        let mut classes = vec![0usize, 1, k / 2, k.saturating_sub(1), 254, 255, 256, 257, 511, 512];
        classes.retain(|i| *i < k);
        classes.sort();
        classes.dedup();
        for &pos in &classes {
            let mut ms = all.clone();
            ms[pos] = &invalid[pos % invalid.len()];
            check_batch(out, "C03", &format!("one-invalid@{}", pos), &ms, k, k, VerifyAction::VerifyOnly);
            if pos >= 255 || pos == 0 {
                check_batch(out, "C03", &format!("one-invalid@{}", pos), &ms, k, k, VerifyAction::RecoverAndVerify);
                check_batch(out, "C03", &format!("one-invalid@{}", pos), &ms, k, k, VerifyAction::RecoverOnly);
            }
            shapes.insert((k, "one-invalid", pos));
            nb += 1;
        }
        // several invalid members, random permutation
        if k >= 3 {
            let mut ms = all.clone();
            for j in 0..3 {
                let pos = (rng.next_u32() as usize) % k;
                ms[pos] = &invalid[j];
            }
            // Fisher-Yates
            for i in (1..ms.len()).rev() {
                let j = (rng.next_u32() as usize) % (i + 1);
                ms.swap(i, j);
            }
            check_batch(out, "C03", "three-invalid-permuted", &ms, k, k, VerifyAction::VerifyOnly);
            shapes.insert((k, "three-invalid", 0));
            nb += 1;
        }
        // length mismatches
        if k >= 2 {
            check_batch(out, "C03", "transcripts-short", &all, k - 1, k, VerifyAction::VerifyOnly);
            check_batch(out, "C03", "proofs-long", &all, k, k + 1, VerifyAction::VerifyOnly);
            check_batch(out, "C03", "proofs-short", &all, k, k - 1, VerifyAction::VerifyOnly);
            check_batch(out, "C03", "transcripts-long", &all, k + 1, k, VerifyAction::VerifyOnly);
            // differences of whole chunks: the sequences agree chunk by chunk up to the end of the shorter one
            if k % 256 == 0 || k % 256 == 1 {
                let short = (k / 256) * 256;
                for a in fmrun::ACTIONS {
                    check_batch(out, "C03", "transcripts-one-chunk-more", &all[..short], short + 256, short, a);
                    if k > short {
                        check_batch(out, "C03", "transcripts-stop-at-chunk-end", &all[..short + 1], short, short + 1, a);
                    }
                    check_batch(out, "C03", "proofs-one-chunk-more", &all[..short], short, short + 256, a);
                }
            }
            shapes.insert((k, "length-mismatch", 0));
        }
    }
    // two different proofs of ONE statement in one batch, the second valid or not (a verdict or a recovery term kept
    // per statement would serve the second member from the first)
    for bi in [0usize, 2, 5] {
        let base = valid[bi].clone();
        let mut second = base.clone();
        second.proof = base.inst.prove(&mut rng).unwrap();
        let bad = make_invalid(&second, 1 + bi);
        for a in fmrun::ACTIONS {
            check_batch(out, "C03", "same-statement-two-proofs", &[&base, &second], 2, 2, a);
            check_batch(out, "C03", "same-statement-second-proof-invalid", &[&base, &bad], 2, 2, a);
            check_batch(out, "C03", "same-statement-first-proof-invalid", &[&bad, &base, &second], 3, 3, a);
        }
        shapes.insert((2, "same-statement", bi));
    }
    // a batch with more chunks than fit a byte (and, in the thorough tier, more members than fit two): sizes "beyond
    // any internal chunk limit" include those at which a chunk counter would overflow a narrow type
    {
        let t0 = std::time::Instant::now();
        merlin::tap::set_shadow(false);
        let tiny = make_valid(2, 1, 1, 1, false, 0, &mut rng);
        let tiny_bad = make_invalid(&tiny, 0);
        for k in [65_537usize] {
            let mut ms: Vec<&Tmpl> = vec![&tiny; k];
            check_batch(out, "C03", "more-than-256-chunks", &ms, k, k, VerifyAction::VerifyOnly);
            ms[k - 1] = &tiny_bad;
            check_batch(out, "C03", "more-than-256-chunks one-invalid@last", &ms, k, k, VerifyAction::VerifyOnly);
            shapes.insert((k, "more-than-256-chunks", 0));
        }
        merlin::tap::set_shadow(true);
        out.stat("more_than_256_chunks_ms", t0.elapsed().as_millis() as usize);
    }
    // MANY large aggregates in one batch (an implementation may budget a chunk by the total number of points or
    // scalars rather than by members): every member is examined and answered
    {
        let t0 = std::time::Instant::now();
        let shapes_big: Vec<(usize, usize)> = if opts.thorough { vec![(2, 64), (1, 128), (2, 256)] } else { vec![(2, 64), (1, 128)] };
        for (nb, mb) in shapes_big {
            let agg = make_valid(nb, mb, mb, 1, false, 0, &mut rng);
            let agg_bad = make_invalid(&agg, 2);
            for k in [210usize, 256, 300] {
                let all_big: Vec<&Tmpl> = vec![&agg; k];
                check_batch(out, "C03", &format!("many-large-aggregates m={}", mb), &all_big, k, k, VerifyAction::VerifyOnly);
                check_batch(out, "C03", &format!("many-large-aggregates m={}", mb), &all_big, k, k, VerifyAction::RecoverAndVerify);
                // an invalid one at every tenth position (whichever member a budget is crossed on)
                let positions: Vec<usize> = if opts.thorough { (0..k).step_by(7).chain([k - 1, k - 2]).collect() } else { vec![0, k / 2, 4 * k / 5, k - 1] };
                for pos in positions {
                    let mut ms = all_big.clone();
                    ms[pos] = &agg_bad;
                    check_batch(out, "C03", &format!("many-large-aggregates m={} one-invalid@{}", mb, pos), &ms, k, k, VerifyAction::VerifyOnly);
                }
                shapes.insert((k, "many-large-aggregates", mb));
            }
        }
        out.stat("many_large_aggregates_ms", t0.elapsed().as_millis() as usize);
    }
    // one very large aggregate among many small members (an implementation may size its chunks by the largest
    // statement): every member is still examined and answered, wherever the large one stands
    {
        let t0 = std::time::Instant::now();
        let (nb, mb) = if opts.thorough { (64usize, 256usize) } else { (64, 128) };
        let big = make_valid(nb, mb, mb, 1, false, 0, &mut rng);
        let small = make_valid(nb, 1, 1, 1, false, 0, &mut rng);
        let small_seeded = make_valid(nb, 1, 1, 1, true, 0, &mut rng);
        let small_bad = make_invalid(&small, 1);
        for k in [130usize, 300] {
            for big_pos in [0usize, k / 2] {
                for last in [&small_seeded, &small_bad] {
                    let mut ms: Vec<&Tmpl> = vec![&small; k];
                    ms[big_pos] = &big;
                    ms[k - 1] = last;
                    for a in [VerifyAction::RecoverAndVerify, VerifyAction::VerifyOnly] {
                        check_batch(out, "C03", &format!("huge-aggregate@{}", big_pos), &ms, k, k, a);
                    }
                }
            }
            shapes.insert((k, "huge-aggregate", 0));
        }
        out.stat("huge_aggregate_ms", t0.elapsed().as_millis() as usize);
    }
    // empty inputs
    check_batch(out, "C03", "empty", &[], 0, 0, VerifyAction::VerifyOnly);
    check_batch(out, "C03", "no-transcripts", &[&valid[0]], 0, 1, VerifyAction::VerifyOnly);
    // inconsistent members, placed inside a chunk and across the chunk boundary
    let other_n = make_valid(4, 1, 1, t, false, 0, &mut rng);
    let other_t = make_valid(n, 1, 1, if t == 6 { 5 } else { t + 1 }, false, 0, &mut rng);
    let other_ped = make_valid(n, 1, 1, t, false, 1, &mut rng);
    let mut bad_promise = make_valid(n, 1, 1, t, false, 0, &mut rng);
    bad_promise.stmt.minimum_value_promises[0] = Some(1u64 << n);
    bad_promise.fit = false;
    bad_promise.valid = false;
    // the odd member as the strictly largest statement of the batch (it then supplies the precomputed table)
    let other_ped_big = make_valid(n, 8, 8, t, false, 1, &mut rng);
    let other_t_big = make_valid(n, 8, 16, if t == 6 { 5 } else { t + 1 }, false, 0, &mut rng);
    // promise lists of another length than the commitment list (statement field altered after construction)
    let mut promise_missing = make_valid(n, 2, 2, t, false, 0, &mut rng);
    promise_missing.stmt.minimum_value_promises.pop();
    promise_missing.fit = false;
    promise_missing.valid = false;
    let mut promise_surplus = make_valid(n, 8, 8, t, false, 0, &mut rng);
    promise_surplus.stmt.minimum_value_promises.push(None);
    promise_surplus.fit = false;
    promise_surplus.valid = false;
    let mut bad_promise_big = make_valid(n, 8, 8, t, false, 0, &mut rng);
    bad_promise_big.stmt.minimum_value_promises[5] = Some(u64::MAX);
    bad_promise_big.fit = false;
    bad_promise_big.valid = false;
    // a member whose Pedersen set differs from the others' in ONE blinding generator other than the first, its proof
    // made under the common set (so that nothing but the consistency check can refuse it)
    let one_gen: Option<Tmpl> = if t >= 2 {
        use tari_bulletproofs_plus::traits::Compressable;
        let base = make_valid(n, 1, 1, t, false, 0, &mut rng);
        let mut pg = crate::fm::fm_pedersen(fmrun::deg(t));
        pg.g_base_vec[t - 1] = FP::named("Gb-one-off");
        pg.g_base_compressed_vec[t - 1] = pg.g_base_vec[t - 1].compress();
        let pr = RangeParameters::init(n, 1, pg).unwrap();
        RangeStatement::init(pr, base.stmt.commitments.clone(), base.stmt.minimum_value_promises.clone(), None).ok().map(|st| {
            let mut x = base.clone();
            x.stmt = st;
            x.ped = 2;
            x.valid = false;
            x
        })
    } else {
        None
    };
    if let Some(odd) = &one_gen {
        let cap1: Vec<&Tmpl> = valid.iter().filter(|v| v.inst.cap == 1 && v.inst.m == 1).collect();
        for (k, pos) in [(2usize, 1usize), (2, 0), (3, 2), (257, 256)] {
            let mut ms: Vec<&Tmpl> = (0..k).map(|i| cap1[i % cap1.len()]).collect();
            ms[pos] = odd;
            for a in [VerifyAction::VerifyOnly, VerifyAction::RecoverAndVerify, VerifyAction::RecoverOnly] {
                check_batch(out, "C03", &format!("one-blinding-generator-differs@{}", pos), &ms, k, k, a);
            }
            shapes.insert((k, "one-blinding-generator", pos));
            nb += 1;
        }
    }
    for (name, odd) in [("other-bits", &other_n), ("other-degree", &other_t), ("other-pedersen", &other_ped), ("promise-out-of-range", &bad_promise),
        ("other-pedersen-largest", &other_ped_big), ("other-degree-largest", &other_t_big), ("promise-out-of-range-largest", &bad_promise_big),
        ("promise-missing", &promise_missing), ("promise-surplus-largest", &promise_surplus)] {
        for (k, pos) in [(2usize, 1usize), (3, 0), (300, 280), (300, 10), (257, 256), (513, 512)] {
            let mut ms: Vec<&Tmpl> = (0..k).map(|i| &valid[i % valid.len()]).collect();
            ms[pos] = odd;
            for a in [VerifyAction::VerifyOnly, VerifyAction::RecoverOnly] {
                check_batch(out, "C03", &format!("{}@{}", name, pos), &ms, k, k, a);
            }
            shapes.insert((k, name, pos));
            nb += 1;
        }
    }
    // an adaptively built cancelling pair: two individually invalid members whose defects are equal and opposite under
    // the factors observed on earlier runs must not make the batch pass (accept iff every member verifies)
    {
        use merlin::tap;
        let a = &valid[1];
        let b = &valid[6];
        let pr = fmrun::params(n, a.inst.cap, t);
        let gb0 = fmx::gen_ids(&pr, n).gb[0];
        let run = |da: Scalar, db: Scalar| -> (bool, FP) {
            let mut pa = fmx::parts(&a.proof);
            pa.d1[0] += da;
            let mut pb = fmx::parts(&b.proof);
            pb.d1[0] += db;
            let mut ts = vec![a.inst.transcript(), b.inst.transcript()];
            tap::start();
            crate::fm::tap_start();
            let r = Proof::verify_batch(&mut ts, &[a.stmt.clone(), b.stmt.clone()], &[pa.to_proof().unwrap(), pb.to_proof().unwrap()], VerifyAction::VerifyOnly);
            let whole = crate::fm::tap_is_whole_check();
            let res = crate::fm::tap_take().last().cloned().unwrap_or_default();
            let ws = fmx::weights_of(&tap::take());
            // factors from the residual while the tapped MSM is the whole check, else from the logged weights
            let res = if whole || ws.len() != 2 { res } else { let mut f = FP::default(); f.axpy(&(ws[0] * da + ws[1] * db), &FP::basis(gb0)); f };
            (r.is_ok(), res)
        };
        let delta = Scalar::from(5u8);
        let (oka, ra) = run(delta, Scalar::ZERO);
        let (okb, rb) = run(Scalar::ZERO, delta);
        let (fa, fb) = (ra.coord(gb0) * delta.invert(), rb.coord(gb0) * delta.invert());
        out.oracle("C03:batch-verdict", !oka && !okb, "cancelling-pair single defects", "a batch with one perturbed member was accepted");
        if fb != Scalar::ZERO {
            let (okc, _) = run(delta, -(delta * fa * fb.invert()));
            out.oracle("C03:cancelling-pair-rejected", !okc, "cancelling-pair k=2", "a batch of two individually invalid members with equal-and-opposite defects (computed from factors observed on earlier runs) was accepted");
        }
    }
    // an aggregated statement that carries a seed (the constructor refuses the combination; it can only be assembled
    // through the public fields): whatever such a member's own result is, the batch still yields one result per
    // member and the other members' masks stay at their positions
    {
        let seeded_a = make_valid(n, 1, 2, t, true, 0, &mut rng);
        let seeded_b = make_valid(n, 1, 2, t, true, 0, &mut rng);
        let mut agg = make_valid(n, 2, 2, t, false, 0, &mut rng);
        agg.stmt.seed_nonce = Some(Scalar::from(77u8));
        agg.proof = Proof::prove_with_rng(&mut agg.inst.transcript(), &agg.stmt, &agg.inst.witness(), &mut rng).expect("aggregated seeded statement proves");
        for order in [vec![0usize, 1, 2], vec![1, 0, 2], vec![0, 2, 1], vec![1]] {
            let pick = |i: usize| match i { 0 => &seeded_a, 1 => &agg, _ => &seeded_b };
            let members: Vec<&Tmpl> = order.iter().map(|i| pick(*i)).collect();
            for a in [VerifyAction::RecoverAndVerify, VerifyAction::RecoverOnly, VerifyAction::VerifyOnly] {
                let o = run_batch(&members, members.len(), members.len(), a);
                let key = format!("aggregated seeded member (assembled by hand) order={:?} action={}", order, action_name(a));
                out.oracle("C03:no-panic", o.masks.len() != 1_000_000, &key, "verify_batch panicked");
                out.oracle("C03:batch-verdict", o.ok, &key, "a batch of valid proofs was refused");
                if o.ok {
                    out.oracle("C03:result-length", o.masks.len() == members.len(), &key, &format!("len={} k={}", o.masks.len(), members.len()));
                    let aligned = order.iter().enumerate().all(|(pos, i)| *i == 1 || {
                        let expect = if a != VerifyAction::VerifyOnly { Some(pick(*i).inst.blindings[0].clone()) } else { None };
                        o.masks.get(pos).cloned().flatten() == expect
                    });
                    out.oracle("C03:mask-alignment", aligned, &key, "i-th mask does not belong to i-th triple");
                }
            }
        }
        shapes.insert((3, "aggregated-seeded-by-hand", 0));
    }
    let nrand = random_batches(opts, out, &mut rng);
    out.stat("random_batches", nrand);
    out.case(format!("templates: {}", valid.iter().map(|t| t.desc()).collect::<Vec<_>>().join(" ")));
    out.case(format!("sizes: {:?}; index classes 0,1,k/2,k-1,254..257,511,512; refusals: empty, length mismatch (by one, and by whole chunks at 256/257/512/513), other bits/degree/pedersen, promise out of range", sizes));
    out.stat("batches", nb);
    out.stat("distinct_classes", shapes.len());
}
