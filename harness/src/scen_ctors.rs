//! C17 (constructors accept exactly the documented domain, exhaustively) and C06 (prover guards ⇔ valid witness).
use std::convert::TryFrom;

use curve25519_dalek::scalar::Scalar;
use rand_core::RngCore;
use tari_bulletproofs_plus::{
    commitment_opening::CommitmentOpening,
    extended_mask::ExtendedMask,
    generators::pedersen_gens::ExtensionDegree,
    range_parameters::RangeParameters,
    range_proof::VerifyAction,
    range_statement::RangeStatement,
    range_witness::RangeWitness,
};

use crate::{
    fm::{fm_pedersen, FP},
    fmrun,
    util::*,
    Opts,
};

fn okerr(b: bool) -> String {
    if b { "ok".into() } else { "err".into() }
}
fn pow2(x: usize) -> bool {
    x != 0 && x & (x - 1) == 0
}

pub fn c17(opts: &Opts, out: &mut Out) {
    let mut n_eval = 0u64;
    let mut n_ok = 0u64;
    // parameters: bits 0..=130 x capacity 0..=130 (exhaustive)
    for bits in 0..=130usize {
        for cap in 0..=130usize {
            let r = std::panic::catch_unwind(|| RangeParameters::<FP>::init(bits, cap, fm_pedersen(ExtensionDegree::DefaultPedersen)));
            let key = format!("params bits={} cap={}", bits, cap);
            let Ok(r) = r else {
                out.oracle("C17:no-panic", false, &key, "constructor panicked");
                continue;
            };
            let doc = pow2(bits) && bits <= 64 && pow2(cap);
            out.oracle("C17:params-domain", r.is_ok() == doc, &key, &format!("real={} documented={}", r.is_ok(), doc));
            if let Ok(p) = &r {
                n_ok += 1;
                out.oracle("C17:params-stored", p.bit_length() == bits && p.max_aggregation_factor() == cap && p.gi_base_iter().count() == bits * cap && p.hi_base_iter().count() == bits * cap, &key, "stored fields differ from the arguments");
            }
            out.req(format!("ctor kind=params bits={} cap={}", bits, cap), okerr(r.is_ok()));
            n_eval += 1;
        }
    }
    // statements: capacity x commitment count 0..=17 x promise count x seed
    for cap in [1usize, 2, 4, 8, 16, 32] {
        let pr = fmrun::params(4, cap, 1);
        for nc in 0..=17usize {
            for np in [0usize, nc.saturating_sub(1), nc, nc + 1, 17] {
                for seed in [false, true] {
                    let c: Vec<FP> = (0..nc).map(|i| pr.pc_gens().commit(&Scalar::from(i as u64), &[Scalar::from(5u8)]).unwrap()).collect();
                    let promises: Vec<Option<u64>> = (0..np).map(|i| if i % 2 == 0 { None } else { Some(i as u64) }).collect();
                    let r = std::panic::catch_unwind(|| RangeStatement::init(pr.clone(), c.clone(), promises.clone(), if seed { Some(Scalar::from(9u8)) } else { None }));
                    let key = format!("statement cap={} nc={} np={} seed={}", cap, nc, np, seed);
                    let Ok(r) = r else {
                        out.oracle("C17:no-panic", false, &key, "constructor panicked");
                        continue;
                    };
                    let doc = pow2(nc) && np == nc && nc <= cap && !(seed && nc > 1);
                    out.oracle("C17:statement-domain", r.is_ok() == doc, &key, &format!("real={} documented={}", r.is_ok(), doc));
                    if let Ok(s) = &r {
                        n_ok += 1;
                        out.oracle("C17:statement-stored", s.commitments == c && s.minimum_value_promises == promises && s.seed_nonce.is_some() == seed && s.commitments_compressed.len() == nc, &key, "stored fields differ");
                    }
                    out.req(format!("ctor kind=statement cap={} nc={} np={} seed={}", cap, nc, np, seed as u8), okerr(r.is_ok()));
                    n_eval += 1;
                }
            }
        }
    }
    // extension degrees: every u8, a usize boundary set
    for x in 0..=255u8 {
        let r = ExtensionDegree::try_from(x);
        out.oracle("C17:degree-u8", r.is_ok() == (1..=6).contains(&x) && r.as_ref().map(|d| *d as u8 == x).unwrap_or(true), &format!("degree u8={}", x), "domain or value");
        out.req(format!("ctor kind=degree x={}", x), okerr(r.is_ok()));
        n_eval += 1;
    }
    for x in [0usize, 1, 6, 7, 255, 256, 257, 261, 262, 65536 + 3, u32::MAX as usize, u32::MAX as usize + 2, usize::MAX - 1, usize::MAX] {
        let r = ExtensionDegree::try_from(x);
        out.oracle("C17:degree-usize", r.is_ok() == (1..=6).contains(&x) && r.as_ref().map(|d| *d as usize == x).unwrap_or(true), &format!("degree usize={}", x), "domain or value (no silent truncation)");
        out.req(format!("ctor kind=degree x={}", x), okerr(r.is_ok()));
        n_eval += 1;
    }
    // witnesses: every shape with up to 3 openings (4 thorough), blinding counts 0..=8
    let maxo = if opts.thorough { 4 } else { 3 };
    let mut shapes: Vec<Vec<usize>> = vec![vec![]];
    let mut frontier: Vec<Vec<usize>> = vec![vec![]];
    for _ in 0..maxo {
        let mut next = vec![];
        for s in &frontier {
            for r in 0..=8usize {
                let mut x = s.clone();
                x.push(r);
                next.push(x);
            }
        }
        shapes.extend(next.iter().cloned());
        frontier = next;
    }
    for s in &shapes {
        let ops: Vec<CommitmentOpening> = s.iter().enumerate().map(|(i, r)| CommitmentOpening::new(i as u64, vec![Scalar::from(3u8); *r])).collect();
        let r = std::panic::catch_unwind(|| RangeWitness::init(ops.clone()));
        let key = format!("witness rlens={:?}", s);
        let Ok(r) = r else {
            out.oracle("C17:no-panic", false, &key, "constructor panicked");
            continue;
        };
        let doc = !s.is_empty() && (1..=6).contains(&s[0]) && s.iter().all(|x| *x == s[0]);
        out.oracle("C17:witness-domain", r.is_ok() == doc, &key, &format!("real={} documented={}", r.is_ok(), doc));
        if let Ok(w) = &r {
            n_ok += 1;
            out.oracle("C17:witness-stored", w.openings.len() == s.len() && w.extension_degree as usize == s[0], &key, "stored fields differ");
        }
        out.req(format!("ctor kind=witness rlens={}", nlist(s)), okerr(r.is_ok()));
        n_eval += 1;
    }
    // counts far outside the domain (a count that only looks valid after a narrowing conversion: 256 + d, 65536 + d)
    for big in [9usize, 255, 256, 257, 258, 262, 263, 512, 513, 65536 + 2] {
        for nops in [1usize, 2] {
            let s: Vec<usize> = vec![big; nops];
            let ops: Vec<CommitmentOpening> = s.iter().enumerate().map(|(i, r)| CommitmentOpening::new(i as u64, vec![Scalar::from(3u8); *r])).collect();
            let r = std::panic::catch_unwind(|| RangeWitness::init(ops.clone()));
            let key = format!("witness rlens={}x{}", big, nops);
            match r {
                Err(_) => out.oracle("C17:no-panic", false, &key, "constructor panicked"),
                Ok(r) => {
                    out.oracle("C17:witness-domain", r.is_err(), &key, &format!("a witness with {} blinding factors per opening was accepted (degree {:?})", big, r.as_ref().ok().map(|w| w.extension_degree as usize)));
                    out.req(format!("ctor kind=witness rlens={}", nlist(&s)), okerr(r.is_ok()));
                },
            }
            n_eval += 1;
        }
        for d in [1usize, 2, 6] {
            let r = ExtendedMask::assign(fmrun::deg(d), vec![Scalar::from(2u8); big]);
            out.oracle("C17:mask-domain", r.is_err(), &format!("mask deg={} len={}", d, big), "domain");
            let pg = fm_pedersen(fmrun::deg(d));
            let bl = vec![Scalar::from(2u8); big];
            match std::panic::catch_unwind(|| pg.commit(&Scalar::from(7u8), &bl)) {
                Ok(r) => out.oracle("C17:commit-domain", r.is_err(), &format!("commit deg={} nb={}", d, big), "domain"),
                Err(_) => out.oracle("C17:no-panic", false, &format!("commit deg={} nb={}", d, big), "commit panicked"),
            }
            n_eval += 2;
        }
    }
    // masks and commitments: degree x length 0..=8
    for d in 1..=6usize {
        for len in 0..=8usize {
            let r = ExtendedMask::assign(fmrun::deg(d), vec![Scalar::from(2u8); len]);
            out.oracle("C17:mask-domain", r.is_ok() == (len == d) && r.as_ref().map(|m| m.blindings().unwrap().len() == len).unwrap_or(true), &format!("mask deg={} len={}", d, len), "domain");
            out.req(format!("ctor kind=mask deg={} len={}", d, len), okerr(r.is_ok()));
            let pg = fm_pedersen(fmrun::deg(d));
            let bl = vec![Scalar::from(2u8); len];
            let r = std::panic::catch_unwind(|| pg.commit(&Scalar::from(7u8), &bl));
            match r {
                Ok(r) => {
                    out.oracle("C17:commit-domain", r.is_ok() == (1..=d).contains(&len), &format!("commit deg={} nb={}", d, len), "domain");
                    out.req(format!("ctor kind=commit deg={} nb={}", d, len), okerr(r.is_ok()));
                },
                Err(_) => out.oracle("C17:no-panic", false, &format!("commit deg={} nb={}", d, len), "commit panicked"),
            }
            n_eval += 2;
        }
    }
    out.stat("constructor_calls", n_eval);
    out.stat("accepted", n_ok);
    out.stat("distinct_configs", n_eval);
    out.stat("exhaustive", 1);
    out.case("params: bits 0..=130 x capacity 0..=130; statements: cap {1..32} x commitments 0..=17 x promise counts x seed; degrees: all u8 + usize boundary; witnesses: all shapes up to 3 openings x blinding counts 0..=8; masks/commit: degree x length 0..=8".into());
}

/// one prover case: returns (real ok, request line)
fn prover_case(out: &mut Out, label: &str, n: usize, t_stmt: usize, values: &[u64], commit_values: &[u64], promises: &[Option<u64>], blind_w: &[Vec<Scalar>], blind_c: &[Vec<Scalar>], rng: &mut (impl RngCore + rand_core::CryptoRng)) {
    // statement from (commit_values, blind_c) under degree t_stmt; witness from (values, blind_w)
    let m = commit_values.len();
    let pr = fmrun::params(n, m.max(1).next_power_of_two(), t_stmt);
    let key = format!("{} n={} t={} v={:?} cv={:?} p={:?} wlen={:?}", label, n, t_stmt, values, commit_values, promises, blind_w.iter().map(|b| b.len()).collect::<Vec<_>>());
    let commitments: Vec<FP> = commit_values.iter().zip(blind_c.iter()).map(|(v, r)| pr.pc_gens().commit(&Scalar::from(*v), r).unwrap()).collect();
    let Ok(stmt) = RangeStatement::init(pr.clone(), commitments.clone(), promises.to_vec(), None) else { return };
    let Ok(wit) = RangeWitness::init(values.iter().zip(blind_w.iter()).map(|(v, r)| CommitmentOpening::new(*v, r.clone())).collect()) else { return };
    let mut tr = merlin::Transcript::new(b"c06");
    let r = std::panic::catch_unwind(std::panic::AssertUnwindSafe(|| fmrun::Proof::prove_with_rng(&mut tr, &stmt, &wit, rng)));
    let Ok(r) = r else {
        out.oracle("C06:no-panic", false, &key, "prover panicked");
        return;
    };
    // documented validity, written independently
    let t_w = blind_w.first().map(|b| b.len()).unwrap_or(0);
    let valid = values.len() == m
        && t_w == t_stmt
        && values.iter().all(|v| n == 64 || *v < (1u64 << n))
        && (0..values.len().min(m)).all(|j| pr.pc_gens().commit(&Scalar::from(values[j]), &blind_w[j]).map(|c| c == commitments[j]).unwrap_or(false))
        && (0..values.len().min(m)).all(|j| promises[j].map(|p| p <= values[j]).unwrap_or(true));
    out.oracle("C06:ok-iff-valid", r.is_ok() == valid, &key, &format!("prover={} valid={}", r.is_ok(), valid));
    // the other public entry point (`prove`, operating-system randomness) decides alike
    {
        let mut tr2 = merlin::Transcript::new(b"c06");
        match std::panic::catch_unwind(std::panic::AssertUnwindSafe(|| fmrun::Proof::prove(&mut tr2, &stmt, &wit))) {
            Err(_) => out.oracle("C06:no-panic", false, &key, "prover (entry point `prove`) panicked"),
            Ok(r2) => {
                out.oracle("C06:ok-iff-valid", r2.is_ok() == valid, &format!("{} entry=prove", key), &format!("prover={} valid={}", r2.is_ok(), valid));
                if let Ok(proof) = &r2 {
                    let v = fmrun::Proof::verify_batch(&mut [merlin::Transcript::new(b"c06")], &[stmt.clone()], &[proof.clone()], VerifyAction::VerifyOnly);
                    out.oracle("C06:ok-verifies", v.is_ok(), &format!("{} entry=prove", key), "prover returned a proof that does not verify");
                }
            },
        }
    }
    if let Ok(proof) = &r {
        let v = fmrun::Proof::verify_batch(&mut [merlin::Transcript::new(b"c06")], &[stmt.clone()], &[proof.clone()], VerifyAction::VerifyOnly);
        out.oracle("C06:ok-verifies", v.is_ok(), &key, "prover returned a proof that does not verify");
    }
    let ops: Vec<String> = (0..values.len())
        .map(|j| {
            let repro = j < m && pr.pc_gens().commit(&Scalar::from(values[j]), &blind_w[j]).map(|c| c == commitments[j]).unwrap_or(false);
            format!("{}:{}:{}", values[j], blind_w[j].len(), repro as u8)
        })
        .collect();
    out.req(
        format!(
            "guards bits={} tS={} tW={} nc={} ops={} promises={}",
            n,
            t_stmt,
            t_w,
            m,
            if ops.is_empty() { "-".to_string() } else { ops.join("/") },
            if promises.is_empty() { "-".to_string() } else { promises.iter().map(|p| p.map(|x| x.to_string()).unwrap_or("x".into())).collect::<Vec<_>>().join(",") }
        ),
        okerr(r.is_ok()),
    );
}

pub fn c06(opts: &Opts, out: &mut Out) {
    let mut rng = chacha(opts.seed, 6);
    crate::scen_core::coincidences(opts, out, "C06");
    let mut classes = std::collections::BTreeSet::new();
    let ms: &[usize] = if opts.thorough { &[1, 2, 4, 8] } else { &[1, 2, 4] };
    // tall aggregates (beyond 32 values) at the smallest bit lengths, violations at a few positions
    let tall: &[(usize, usize)] = if opts.thorough { &[(1, 64), (2, 64), (1, 256), (1, 512)] } else { &[(1, 64), (1, 256)] };
    let grid: Vec<(usize, usize)> = [1usize, 2, 4, 8, 16, 32, 64].iter().flat_map(|n| ms.iter().map(move |m| (*n, *m))).chain(tall.iter().cloned()).collect();
    {
        for (n, m) in grid {
            if n * m > 256 && m <= 32 {
                continue;
            }
            let t = 1 + (n + m) % 3;
            let max = if n == 64 { u64::MAX } else { (1u64 << n) - 1 };
            let sc = |rng: &mut rand_chacha::ChaCha12Rng, t: usize| (0..t).map(|_| Scalar::random(rng)).collect::<Vec<_>>();
            let js: Vec<usize> = if m <= 8 { (0..m).collect() } else { vec![0, 1, m / 2, m - 1] };
            for j in js {
                let base_v: Vec<u64> = (0..m).map(|_| rng.next_u64() & max).collect();
                let base_p: Vec<Option<u64>> = base_v.iter().enumerate().map(|(i, v)| if i % 2 == 0 { None } else { Some(v / 2) }).collect();
                let bl: Vec<Vec<Scalar>> = (0..m).map(|_| sc(&mut rng, t)).collect();
                let mut run = |label: &str, v: Vec<u64>, cv: Vec<u64>, p: Vec<Option<u64>>, bw: Vec<Vec<Scalar>>, bc: Vec<Vec<Scalar>>, out: &mut Out, rng: &mut rand_chacha::ChaCha12Rng| {
                    classes.insert((n, m, j, label.to_string()));
                    prover_case(out, &format!("{}@{}", label, j), n, t, &v, &cv, &p, &bw, &bc, rng);
                };
                // valid boundaries
                let mut v = base_v.clone();
                v[j] = max;
                run("v=max", v.clone(), v.clone(), base_p.iter().enumerate().map(|(i, p)| if i == j { None } else { *p }).collect(), bl.clone(), bl.clone(), out, &mut rng);
                let mut p = base_p.clone();
                p[j] = Some(base_v[j]);
                run("p=v", base_v.clone(), base_v.clone(), p, bl.clone(), bl.clone(), out, &mut rng);
                let mut v0 = base_v.clone();
                v0[j] = 0;
                let mut p0 = base_p.clone();
                p0[j] = Some(0);
                run("v=0,p=0", v0.clone(), v0, p0, bl.clone(), bl.clone(), out, &mut rng);
                // single violations
                if n < 64 {
                    let mut v = base_v.clone();
                    v[j] = 1u64 << n;
                    let mut p = base_p.clone();
                    p[j] = None;
                    run("v=2^n", v.clone(), v.clone(), p.clone(), bl.clone(), bl.clone(), out, &mut rng);
                    // a value above the range whose window above the promise would fit: still refused
                    let mut p2 = p.clone();
                    p2[j] = Some(1);
                    run("v=2^n,p=1", v.clone(), v, p2, bl.clone(), bl.clone(), out, &mut rng);
                    let mut vh = base_v.clone();
                    vh[j] = u64::MAX;
                    run("v=u64max", vh.clone(), vh, p, bl.clone(), bl.clone(), out, &mut rng);
                }
                if base_v[j] < u64::MAX {
                    let mut p = base_p.clone();
                    p[j] = Some(base_v[j] + 1);
                    run("p=v+1", base_v.clone(), base_v.clone(), p, bl.clone(), bl.clone(), out, &mut rng);
                }
                let mut bw = bl.clone();
                bw[j][t - 1] += Scalar::ONE;
                run("wrong-blinding", base_v.clone(), base_v.clone(), base_p.clone(), bw, bl.clone(), out, &mut rng);
                let mut vw = base_v.clone();
                vw[j] = if vw[j] > 0 { vw[j] - 1 } else { 1 & max };
                if vw[j] != base_v[j] {
                    let pw: Vec<Option<u64>> = base_p.iter().map(|_| None).collect();
                    run("wrong-value", vw, base_v.clone(), pw, bl.clone(), bl.clone(), out, &mut rng);
                }
            }
            // compensating violations at two positions (each individually wrong, equal and opposite in the sum)
            if m >= 2 {
                let v: Vec<u64> = (0..m).map(|i| ((rng.next_u64() & max) / 2).max(1).min(max) + (i as u64 % 2).min(max - ((rng.next_u64() & max) / 2).max(1).min(max))).map(|x| x & max).collect();
                let v: Vec<u64> = v.iter().map(|x| if n == 1 { *x & 1 } else { *x }).collect();
                let none_p: Vec<Option<u64>> = vec![None; m];
                let bl: Vec<Vec<Scalar>> = (0..m).map(|_| sc(&mut rng, t)).collect();
                for (i, j) in [(0usize, 1usize), (m - 1, 0)] {
                    if i == j {
                        continue;
                    }
                    // openings listed in another order than the commitments
                    let mut vs = v.clone();
                    vs.swap(i, j);
                    let mut bs = bl.clone();
                    bs.swap(i, j);
                    if vs != v || bs != bl {
                        classes.insert((n, m, i, "swapped-openings".to_string()));
                        prover_case(out, &format!("swapped-openings@{},{}", i, j), n, t, &vs, &v, &none_p, &bs, &bl, &mut rng);
                    }
                    // value moved from one opening to another
                    if v[i] < max && v[j] > 0 {
                        let mut vm = v.clone();
                        vm[i] += 1;
                        vm[j] -= 1;
                        classes.insert((n, m, i, "value-moved".to_string()));
                        prover_case(out, &format!("value-moved@{},{}", i, j), n, t, &vm, &v, &none_p, &bl, &bl, &mut rng);
                    }
                    // mask offset moved from one opening to another
                    let mut bm = bl.clone();
                    let delta = Scalar::from(77u8);
                    bm[i][t - 1] += delta;
                    bm[j][t - 1] -= delta;
                    classes.insert((n, m, i, "mask-moved".to_string()));
                    prover_case(out, &format!("mask-moved@{},{}", i, j), n, t, &v, &v, &none_p, &bm, &bl, &mut rng);
                }
            }
            // structural violations
            let base_v: Vec<u64> = (0..m).map(|_| rng.next_u64() & max).collect();
            let none_p: Vec<Option<u64>> = vec![None; m];
            let bl: Vec<Vec<Scalar>> = (0..m).map(|_| sc(&mut rng, t)).collect();
            let mut vv = base_v.clone();
            vv.push(0);
            let mut blx = bl.clone();
            blx.push(sc(&mut rng, t));
            classes.insert((n, m, 0, "extra-opening".to_string()));
            prover_case(out, "extra-opening", n, t, &vv, &base_v, &none_p, &blx, &bl, &mut rng);
            if m > 1 {
                classes.insert((n, m, 0, "missing-opening".to_string()));
                prover_case(out, "missing-opening", n, t, &base_v[..m - 1], &base_v, &none_p, &bl[..m - 1], &bl, &mut rng);
            }
            // witness of another degree (fewer / more blinding factors everywhere)
            if t > 1 {
                let fewer: Vec<Vec<Scalar>> = bl.iter().map(|b| b[..t - 1].to_vec()).collect();
                classes.insert((n, m, 0, "degree-fewer".to_string()));
                prover_case(out, "degree-fewer", n, t, &base_v, &base_v, &none_p, &fewer, &fewer, &mut rng);
            }
            let more: Vec<Vec<Scalar>> = bl.iter().map(|b| { let mut x = b.clone(); x.push(Scalar::from(4u8)); x }).collect();
            classes.insert((n, m, 0, "degree-more".to_string()));
            prover_case(out, "degree-more", n, t, &base_v, &base_v, &none_p, &more, &bl, &mut rng);
        }
    }
    // several values out of range at once, chosen so that an aggregate of the per-opening excess (a wrapping sum, an
    // exclusive or) cancels: m values of 2^63 with m * 2^(63-n) = 2^64, and pairs of equal out-of-range values
    for (n, m) in [(1usize, 4usize), (2, 8), (1, 8), (4, 2), (8, 4)] {
        let t = 1 + (n + m) % 2;
        let none_p: Vec<Option<u64>> = vec![None; m];
        let bl: Vec<Vec<Scalar>> = (0..m).map(|_| (0..t).map(|_| Scalar::random(&mut rng)).collect()).collect();
        let all_big: Vec<u64> = vec![1u64 << 63; m];
        classes.insert((n, m, 0, "all-2^63".to_string()));
        prover_case(out, "all-values-2^63", n, t, &all_big, &all_big, &none_p, &bl, &bl, &mut rng);
        let mut pair: Vec<u64> = (0..m).map(|i| (i as u64) & ((1u64 << n) - 1)).collect();
        pair[0] = 1u64 << n;
        pair[m - 1] = 1u64 << n;
        classes.insert((n, m, 0, "equal-pair-out-of-range".to_string()));
        prover_case(out, "two-equal-values-2^n", n, t, &pair, &pair, &none_p, &bl, &bl, &mut rng);
        let mut spread: Vec<u64> = pair.clone();
        spread[0] = (1u64 << 63) | 1;
        spread[m - 1] = (1u64 << 63) | 1;
        if m >= 4 {
            spread[1] = 1u64 << 63;
            spread[2] = 1u64 << 63;
        }
        classes.insert((n, m, 0, "several-high-values".to_string()));
        prover_case(out, "several-values-with-the-top-bit", n, t, &spread, &spread, &none_p, &bl, &bl, &mut rng);
    }
    out.stat("distinct_classes", classes.len());
    out.case("per (bits, aggregation, position j): v=2^n-1, p=v, v=0/p=0 (valid); v=2^n, v=2^n with p=1, v=u64::MAX, p=v+1, wrong blinding, wrong value (single violations); extra/missing opening, witness of lower/higher degree".into());
}
