//! Interposing global allocator for C20: while armed, every block handed back to the allocator (dealloc, and the old
//! block of a moving realloc) is scanned for the byte patterns of registered live secrets. No allocation happens on
//! the scanning path (fixed-size static tables).
use std::{
    alloc::{GlobalAlloc, Layout, System},
    sync::atomic::{AtomicBool, AtomicUsize, Ordering},
};

pub const MAX_PATTERNS: usize = 96;
pub const MAX_HITS: usize = 4096;

#[derive(Clone, Copy)]
pub struct Pattern {
    pub bytes: [u8; 32],
    pub len: usize,
    pub kind: u8, // 0 blinding, 1 seed, 2 value, 3 mask, 9 control
}
#[derive(Clone, Copy, Debug)]
pub struct Hit {
    pub kind: u8,
    pub block: usize,
    pub offset: usize,
}

static ARMED: AtomicBool = AtomicBool::new(false);
static NPAT: AtomicUsize = AtomicUsize::new(0);
static NHIT: AtomicUsize = AtomicUsize::new(0);
static FREED: AtomicUsize = AtomicUsize::new(0);
static mut PATTERNS: [Pattern; MAX_PATTERNS] = [Pattern { bytes: [0; 32], len: 0, kind: 0 }; MAX_PATTERNS];
static mut HITS: [Hit; MAX_HITS] = [Hit { kind: 0, block: 0, offset: 0 }; MAX_HITS];

pub struct Scan;

unsafe fn scan(ptr: *const u8, size: usize) {
    FREED.fetch_add(1, Ordering::Relaxed);
    let n = NPAT.load(Ordering::Acquire);
    let block = std::slice::from_raw_parts(ptr, size);
    #[allow(static_mut_refs)]
    for p in PATTERNS.iter().take(n) {
        if p.len == 0 || size < p.len {
            continue;
        }
        let pat = &p.bytes[..p.len];
        let first = pat[0];
        let mut i = 0;
        while i + p.len <= size {
            if block[i] == first && &block[i..i + p.len] == pat {
                let k = NHIT.fetch_add(1, Ordering::AcqRel);
                if k < MAX_HITS {
                    HITS[k] = Hit { kind: p.kind, block: size, offset: i };
                }
                break;
            }
            i += 1;
        }
    }
}

unsafe impl GlobalAlloc for Scan {
    unsafe fn alloc(&self, l: Layout) -> *mut u8 {
        System.alloc(l)
    }
    unsafe fn dealloc(&self, ptr: *mut u8, l: Layout) {
        if ARMED.load(Ordering::Acquire) {
            scan(ptr, l.size());
        }
        if HYGIENE.load(Ordering::Acquire) {
            // nothing stale survives a release: a later block that is only partly written can then not show bytes that
            // the HARNESS (or an earlier, already reported release) left behind
            std::ptr::write_bytes(ptr, 0, l.size());
        }
        System.dealloc(ptr, l)
    }
    unsafe fn realloc(&self, ptr: *mut u8, l: Layout, new_size: usize) -> *mut u8 {
        if ARMED.load(Ordering::Acquire) || HYGIENE.load(Ordering::Acquire) {
            // make the move explicit so that the released block can be inspected
            let nl = Layout::from_size_align_unchecked(new_size, l.align());
            let np = System.alloc(nl);
            if !np.is_null() {
                std::ptr::copy_nonoverlapping(ptr, np, l.size().min(new_size));
                if ARMED.load(Ordering::Acquire) {
                    scan(ptr, l.size());
                }
                if HYGIENE.load(Ordering::Acquire) {
                    std::ptr::write_bytes(ptr, 0, l.size());
                }
                System.dealloc(ptr, l);
            }
            np
        } else {
            System.realloc(ptr, l, new_size)
        }
    }
}

/// wipe every block on release (switched on for the heap-scanning scenario)
pub static HYGIENE: std::sync::atomic::AtomicBool = std::sync::atomic::AtomicBool::new(false);
pub fn set_hygiene(on: bool) {
    HYGIENE.store(on, Ordering::Release);
}

pub fn clear() {
    ARMED.store(false, Ordering::Release);
    NPAT.store(0, Ordering::Release);
    NHIT.store(0, Ordering::Release);
    FREED.store(0, Ordering::Release);
}
pub fn register(bytes: &[u8], kind: u8) {
    let i = NPAT.load(Ordering::Acquire);
    if i >= MAX_PATTERNS || bytes.len() > 32 {
        return;
    }
    let mut b = [0u8; 32];
    b[..bytes.len()].copy_from_slice(bytes);
    unsafe {
        PATTERNS[i] = Pattern { bytes: b, len: bytes.len(), kind };
    }
    NPAT.store(i + 1, Ordering::Release);
}
pub fn arm() {
    ARMED.store(true, Ordering::Release);
}
/// returns (hits, number of blocks released while armed)
pub fn disarm() -> (Vec<Hit>, usize) {
    ARMED.store(false, Ordering::Release);
    let n = NHIT.load(Ordering::Acquire).min(MAX_HITS);
    #[allow(static_mut_refs)]
    let v = unsafe { HITS[..n].to_vec() };
    NHIT.store(0, Ordering::Release);
    (v, FREED.swap(0, Ordering::AcqRel))
}
