use std::{borrow::Borrow, collections::{BTreeMap, HashMap}, ops::{Add, AddAssign, Mul}, sync::Mutex};
use curve25519_dalek::{scalar::Scalar, traits::{Identity, MultiscalarMul, VartimeMultiscalarMul, VartimePrecomputedMultiscalarMul}};
use subtle::{Choice, ConstantTimeEq};
use tari_bulletproofs_plus::{
    commitment_opening::CommitmentOpening, generators::pedersen_gens::ExtensionDegree,
    protocols::curve_point_protocol::CurvePointProtocol, range_parameters::RangeParameters,
    range_proof::{RangeProof, VerifyAction}, range_statement::RangeStatement, range_witness::RangeWitness,
    traits::{Compressable, Decompressable, FixedBytesRepr, FromUniformBytes, Precomputable},
    PedersenGens, Transcript,
};
use sha3::{Digest, Sha3_256};

#[derive(Clone, PartialEq, Debug, Default)]
pub struct FP(BTreeMap<u32, Scalar>);
#[derive(Clone, Copy, PartialEq, Debug)]
pub struct CFP([u8; 32]);

static BASIS: Mutex<Option<HashMap<[u8; 64], u32>>> = Mutex::new(None);
static TABLE: Mutex<Option<HashMap<[u8; 32], FP>>> = Mutex::new(None);
thread_local! { static LAST: std::cell::RefCell<Option<FP>> = std::cell::RefCell::new(None); }

impl FP {
    fn norm(mut self) -> Self { self.0.retain(|_, v| *v != Scalar::ZERO); self }
    fn axpy(&mut self, s: &Scalar, p: &FP) { for (k, v) in &p.0 { *self.0.entry(*k).or_insert(Scalar::ZERO) += s * v; } }
}
impl Identity for FP { fn identity() -> Self { FP::default() } }
impl Identity for CFP { fn identity() -> Self { CFP([0u8; 32]) } }
impl ConstantTimeEq for CFP { fn ct_eq(&self, o: &Self) -> Choice { self.0.ct_eq(&o.0) } }
impl FixedBytesRepr for CFP { fn as_fixed_bytes(&self) -> &[u8; 32] { &self.0 } fn from_fixed_bytes(b: [u8; 32]) -> Self { CFP(b) } }
impl Decompressable for CFP { type Decompressed = FP; fn decompress(&self) -> Option<FP> {
    if self.0 == [0u8; 32] { return Some(FP::default()); }
    TABLE.lock().unwrap().get_or_insert_with(HashMap::new).get(&self.0).cloned() } }
impl Compressable for FP { type Compressed = CFP; fn compress(&self) -> CFP {
    let p = self.clone().norm();
    if p.0.is_empty() { return CFP([0u8; 32]); }
    let mut h = Sha3_256::new();
    for (k, v) in &p.0 { h.update(k.to_le_bytes()); h.update(v.as_bytes()); }
    let b: [u8; 32] = h.finalize().into();
    TABLE.lock().unwrap().get_or_insert_with(HashMap::new).insert(b, p);
    CFP(b) } }
impl FromUniformBytes for FP { fn from_uniform_bytes(bytes: &[u8; 64]) -> Self {
    let mut g = BASIS.lock().unwrap(); let m = g.get_or_insert_with(HashMap::new); let n = m.len() as u32;
    let id = *m.entry(*bytes).or_insert(n); let mut p = FP::default(); p.0.insert(id, Scalar::ONE); p } }
impl Add for FP { type Output = FP; fn add(mut self, o: FP) -> FP { self.axpy(&Scalar::ONE, &o); self.norm() } }
impl<'a> Add for &'a FP { type Output = FP; fn add(self, o: &FP) -> FP { let mut r = self.clone(); r.axpy(&Scalar::ONE, o); r.norm() } }
impl AddAssign for FP { fn add_assign(&mut self, o: FP) { self.axpy(&Scalar::ONE, &o); } }
impl<'a> Mul<Scalar> for &'a FP { type Output = FP; fn mul(self, s: Scalar) -> FP { let mut r = FP::default(); r.axpy(&s, self); r.norm() } }
fn msm<I, J>(scalars: I, points: J) -> FP where I: IntoIterator, I::Item: Borrow<Scalar>, J: IntoIterator, J::Item: Borrow<FP> {
    let s: Vec<Scalar> = scalars.into_iter().map(|x| *x.borrow()).collect();
    let p: Vec<FP> = points.into_iter().map(|x| x.borrow().clone()).collect();
    assert_eq!(s.len(), p.len());
    let mut r = FP::default(); for (s, p) in s.iter().zip(p.iter()) { r.axpy(s, p); } r.norm() }
impl MultiscalarMul for FP { type Point = FP;
    fn multiscalar_mul<I, J>(scalars: I, points: J) -> FP where I: IntoIterator, I::Item: Borrow<Scalar>, J: IntoIterator, J::Item: Borrow<FP> { msm(scalars, points) } }
impl VartimeMultiscalarMul for FP { type Point = FP;
    fn optional_multiscalar_mul<I, J>(scalars: I, points: J) -> Option<FP> where I: IntoIterator, I::Item: Borrow<Scalar>, J: IntoIterator<Item = Option<FP>> {
        let pts: Option<Vec<FP>> = points.into_iter().collect(); Some(msm(scalars, pts?)) } }
pub struct FPPre(Vec<FP>);
impl VartimePrecomputedMultiscalarMul for FPPre { type Point = FP;
    fn new<I>(static_points: I) -> Self where I: IntoIterator, I::Item: Borrow<FP> { FPPre(static_points.into_iter().map(|p| p.borrow().clone()).collect()) }
    fn optional_mixed_multiscalar_mul<I, J, K>(&self, ss: I, ds: J, dp: K) -> Option<FP>
    where I: IntoIterator, I::Item: Borrow<Scalar>, J: IntoIterator, J::Item: Borrow<Scalar>, K: IntoIterator<Item = Option<FP>> {
        let pts: Option<Vec<FP>> = dp.into_iter().collect();
        let mut r = msm(ss, self.0.iter()); r.axpy(&Scalar::ONE, &msm(ds, pts?)); let r = r.norm();
        LAST.with(|l| *l.borrow_mut() = Some(r.clone())); Some(r) } }
impl Precomputable for FP { type Precomputation = FPPre; }
impl CurvePointProtocol for FP {}

fn gens(deg: ExtensionDegree) -> PedersenGens<FP> {
    let mk = |s: &str| { let mut b = [0u8; 64]; b[..s.len()].copy_from_slice(s.as_bytes()); FP::from_uniform_bytes(&b) };
    let h = mk("Hb"); let g: Vec<FP> = (0..deg as usize).map(|k| mk(&format!("Gb{}", k))).collect();
    PedersenGens { h_base_compressed: h.compress(), h_base: h, g_base_compressed_vec: g.iter().map(|p| p.compress()).collect(), g_base_vec: g, extension_degree: deg } }



use merlin::tap::{self, Ev};
fn wide(b: &[u8]) -> Scalar { let mut a = [0u8; 64]; a.copy_from_slice(b); Scalar::from_bytes_mod_order_wide(&a) }
fn coord(p: &FP, g: &FP) -> Scalar { let id = *g.0.keys().next().unwrap(); p.0.get(&id).cloned().unwrap_or(Scalar::ZERO) }
fn main() {
    let (n, m, t) = (4usize, 2usize, 2usize);
    let mut rng = <rand_chacha::ChaCha12Rng as rand_core::SeedableRng>::seed_from_u64(5);
    let deg = ExtensionDegree::try_from(t).unwrap();
    let params = RangeParameters::init(n, m, gens(deg)).unwrap();
    let gi: Vec<FP> = params.gi_base_iter().cloned().collect(); let hi: Vec<FP> = params.hi_base_iter().cloned().collect();
    let gb: Vec<FP> = params.g_bases().to_vec();
    let mut cs = vec![]; let mut os = vec![];
    for j in 0..m { let r: Vec<Scalar> = (0..t).map(|k| Scalar::from((10 * j + k + 3) as u64)).collect();
        cs.push(params.pc_gens().commit(&Scalar::from(9u64 + j as u64), &r).unwrap()); os.push(CommitmentOpening::new(9 + j as u64, r)); }
    let st = RangeStatement::init(params.clone(), cs, vec![Some(2), None], None).unwrap();
    let w = RangeWitness::init(os).unwrap();
    tap::start();
    let proof = RangeProof::<FP>::prove_with_rng(&mut Transcript::new(b"ctx"), &st, &w, &mut rng).unwrap();
    let log = tap::take();
    // parse proof bytes
    let by = proof.to_bytes(); let el = |i: usize| { let mut a = [0u8; 32]; a.copy_from_slice(&by[1 + 32 * i..1 + 32 * (i + 1)]); a };
    let pt = |i: usize| CFP(el(i)).decompress().unwrap();
    let kap = (n * m).ilog2() as usize;
    let a = pt(t); let a1 = pt(t + 1); let b = pt(t + 2);
    let ls: Vec<FP> = (0..kap).map(|j| pt(t + 5 + 2 * j)).collect(); let rs: Vec<FP> = (0..kap).map(|j| pt(t + 5 + 2 * j + 1)).collect();
    // challenges from the log
    let mut es = vec![]; 
    for r in &log { if let Ev::Challenge { label, out } = &r.ev { println!("challenge {:?} after {} events", String::from_utf8_lossy(label), r.hist_len); if label == b"e" { es.push(wide(out)); } } }
    let e_final = es.pop().unwrap(); let _ = e_final;
    let eprod: Scalar = es.iter().product();
    let mut nonces: Vec<(String, Scalar)> = vec![];
    for k in 0..t { nonces.push((format!("alpha{}", k), coord(&a, &gb[k]))); }
    for j in 0..kap { for k in 0..t { nonces.push((format!("dL{}_{}", j, k), coord(&ls[j], &gb[k]))); nonces.push((format!("dR{}_{}", j, k), coord(&rs[j], &gb[k]))); } }
    for k in 0..t { nonces.push((format!("d{}", k), coord(&a1, &gb[k]))); nonces.push((format!("eta{}", k), coord(&b, &gb[k]))); }
    nonces.push(("r".into(), coord(&a1, &gi[0]) * eprod)); nonces.push(("s".into(), coord(&a1, &hi[0]) * eprod.invert()));
    let draws: Vec<(u64, usize, Scalar, bool, bool)> = log.iter().filter_map(|r| if let Ev::Draw { out } = &r.ev { if out.len() == 64 {
        let rekey = r.hist.iter().any(|e| matches!(e, Ev::Rekey { .. })); let fin = r.hist.iter().any(|e| matches!(e, Ev::Finalize { .. }));
        Some((r.id, r.hist.iter().filter(|e| matches!(e, Ev::Append { .. })).count(), wide(out), rekey, fin)) } else { None } } else { None }).collect();
    println!("draws logged: {}", draws.len());
    let mut used = std::collections::HashSet::new();
    for (name, v) in &nonces {
        match draws.iter().position(|d| d.2 == *v) { Some(i) => { let d = &draws[i]; println!("{:8} <- rng#{} built after {} appends (rekeyed={}, finalized={}) draw#{} fresh={}", name, d.0, d.1, d.3, d.4, i, used.insert(i)); } None => println!("{:8} NOT FOUND", name) }
    }
    // witness bytes in the rekey event
    for r in &log { if let Ev::Rekey { label, witness } = &r.ev { println!("rekey label={:?} witness_len={}", String::from_utf8_lossy(label), witness.len()); break; } }
    // the prescribed append sequence
    let apps: Vec<String> = log.iter().filter(|r| r.id == log[0].id).filter_map(|r| match &r.ev { Ev::Append { label, msg } => Some(format!("{}[{}]", String::from_utf8_lossy(label), msg.len())), Ev::Challenge { label, .. } => Some(format!("?{}", String::from_utf8_lossy(label))), _ => None }).collect();
    println!("{}", apps.join(" "));
}
