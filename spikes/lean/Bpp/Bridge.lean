import Model.Alg
import Bpp.Wip
open Finset
namespace Bpp
variable {F : Type} [Field F] {M : Type} [AddCommGroup M] [Module F M]

@[simp] theorem powF_eq (y : F) (n : ℕ) : Model.powF y n = y ^ n := by
  induction n with
  | zero => simp [Model.powF]
  | succ n ih => simp [Model.powF, ih, pow_succ]

@[simp] theorem sumTo_eq {β : Type} [AddCommMonoid β] (n : ℕ) (f : ℕ → β) : Model.sumTo n f = ∑ i ∈ range n, f i := by
  unfold Model.sumTo
  induction n with
  | zero => simp
  | succ n ih => rw [List.range_succ, List.foldl_append, ih, Finset.sum_range_succ]; simp

@[simp] theorem dot_eq (n : ℕ) (a : ℕ → F) (G : ℕ → M) : Model.dot n a G = dot n a G := by
  simp [Model.dot, dot]

/-- relate the two proof records -/
def ofModel (π : Model.WipProof F M) : WipProof F M :=
  { Ls := π.Ls, Rs := π.Rs, A1 := π.A1, B := π.B, r1 := π.r1, s1 := π.s1, d1 := π.d1 }

/-- the executable prover loop *is* the Math-layer prover -/
theorem wipProve_bridge (y : F) (t : ℕ) (g : M) (Gb : ℕ → M) (dL dR : ℕ → ℕ → F) (r s : F) (d η : ℕ → F) (e : F)
    (es : List F) (j : ℕ) (a b : ℕ → F) (G H : ℕ → M) (α : ℕ → F) :
    ofModel (Model.wipProve y t g Gb dL dR r s d η e es j a b G H α)
      = wipProve y t g Gb dL dR r s d η e es j a b G H α := by
  induction es generalizing j a b G H α with
  | nil => simp [Model.wipProve, wipProve, ofModel]
  | cons ej es ih =>
    simp only [Model.wipProve, wipProve, ofModel]
    have := ih (j+1) (fun i => a i * ej + a (2 ^ es.length + i) * y ^ 2 ^ es.length * ej⁻¹)
      (fun i => b i * ej⁻¹ + b (2 ^ es.length + i) * ej)
      (fun i => ej⁻¹ • G i + (ej * (y ^ 2 ^ es.length)⁻¹) • G (2 ^ es.length + i))
      (fun i => ej • H i + ej⁻¹ • H (2 ^ es.length + i))
      (fun k => α k + dL j k * ej ^ 2 + dR j k * ej⁻¹ ^ 2)
    simp only [ofModel] at this
    simp only [powF_eq, sumTo_eq, dot_eq]
    rw [← this]

end Bpp
