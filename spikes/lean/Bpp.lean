import Bpp.Basic
import Bpp.Wip
import Bpp.Range
import Bpp.Complete
