import Bpp.Basic
import Bpp.Wip
import Bpp.Range
import Bpp.Complete
import Bpp.SVector
import Bpp.ClosedForms
import Bpp.VerifierEqSpec
import Bpp.Verdict
