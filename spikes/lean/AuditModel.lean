import Model
#print axioms Model.Codec.encode_decode
#print axioms Model.Codec.decode_encode
#print axioms Model.Codec.decode_shape
#print axioms Model.Codec.encode_length
#print axioms Model.Transcript.beforeY_inj_data
#print axioms Model.Transcript.beforeY_inj_ctx
#print axioms Model.Transcript.beforeY_prefix_beforeE
