import Model.Alg
import Model.Codec
import Model.Transcript
