import Model.Alg
