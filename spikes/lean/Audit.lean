import Bpp
#print axioms Bpp.spec_complete
#print axioms Bpp.contribution_eq
#print axioms Bpp.verdict_iff
#print axioms Bpp.code_accepts_honest
#print axioms Bpp.sCode_eq_sProd
#print axioms Bpp.dCode_eq_dvec
#print axioms Bpp.dSum_code
#print axioms Bpp.ySum_code
