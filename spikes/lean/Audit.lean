import Bpp
#print axioms Bpp.spec_complete
#print axioms Bpp.range_reduction
#print axioms Bpp.wip_complete
#check @Bpp.spec_complete
