import Bpp
#print axioms Bpp.spec_complete
#print axioms Bpp.contribution_eq
#print axioms Bpp.verdict_iff
#print axioms Bpp.code_accepts_honest
#print axioms Bpp.batch_one_invalid
#print axioms Bpp.batch_at_most_one_weight
#print axioms Bpp.response_r1_unique
#print axioms Bpp.response_d1_unique
#print axioms Bpp.recover_correct
#print axioms Bpp.recover_wrong_seed
#print axioms Bpp.promise_shift
#print axioms Bpp.promise_unique_single
#print axioms Bpp.promise_poly
