import Model.Alg
def ell : Nat := 2^252 + 27742317777372353535851937790883648493
structure Fl where v : Nat deriving BEq, Repr
instance : Add Fl := ⟨fun a b => ⟨(a.v + b.v) % ell⟩⟩
instance : Mul Fl := ⟨fun a b => ⟨(a.v * b.v) % ell⟩⟩
instance : Zero Fl := ⟨⟨0⟩⟩
instance : One Fl := ⟨⟨1⟩⟩
def powNat (b e m : Nat) : Nat := Id.run do
  let mut r := 1; let mut b := b % m; let mut e := e
  while e > 0 do
    if e % 2 == 1 then r := r * b % m
    b := b * b % m; e := e / 2
  return r
instance : Inv Fl := ⟨fun a => ⟨powNat a.v (ell - 2) ell⟩⟩
-- a 3-dimensional toy module
structure V3 where (x y z : Fl)
instance : Add V3 := ⟨fun a b => ⟨a.x + b.x, a.y + b.y, a.z + b.z⟩⟩
instance : Zero V3 := ⟨⟨0, 0, 0⟩⟩
instance : SMul Fl V3 := ⟨fun c a => ⟨c * a.x, c * a.y, c * a.z⟩⟩
def main : IO Unit := do
  let a : Nat → Fl := fun i => ⟨i * 7919 + 1⟩
  let G : Nat → V3 := fun i => ⟨⟨i + 1⟩, ⟨2 * i + 3⟩, ⟨i * i + 5⟩⟩
  let es : List Fl := (List.range 6).map (fun i => ⟨1000 + i⟩)
  let t0 ← IO.monoMsNow
  let π := Model.wipProve (F := Fl) (M := V3) ⟨5⟩ 2 (G 99) G (fun j k => ⟨j + k + 1⟩) (fun j k => ⟨j * k + 2⟩) ⟨11⟩ ⟨13⟩ a a ⟨17⟩
            es 0 a a G G a
  IO.println s!"{π.r1.v} {π.A1.x.v % 1000003} rounds={π.Ls.length}"
  let t1 ← IO.monoMsNow
  IO.println s!"ms {t1 - t0}"
