import M0
import Mathlib.Algebra.BigOperators.Intervals
import Mathlib.Algebra.Field.Defs
import Mathlib.Tactic.Ring
open Finset
variable {F : Type} [Field F]
theorem powF_eq (y : F) (n : ℕ) : powF y n = y ^ n := by
  induction n with
  | zero => simp [powF]
  | succ n ih => simp [powF, ih, pow_succ]
theorem sumTo_eq (n : ℕ) (f : ℕ → F) : sumTo n f = ∑ i ∈ range n, f i := by
  unfold sumTo
  induction n with
  | zero => simp
  | succ n ih => rw [List.range_succ, List.foldl_append, ih, Finset.sum_range_succ]; simp
theorem wipM_eq (y : F) (n : ℕ) (a b : ℕ → F) : wipM y n a b = ∑ i ∈ range n, a i * y^(i+1) * b i := by
  simp [wipM, sumTo_eq, powF_eq]
