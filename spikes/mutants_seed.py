import sys,shutil,os
M={
 'C04_drop_N': [('src/transcripts.rs','        transcript.append_u64(b"N", bit_length as u64);\n','        let _ = bit_length;\n')],
 'C06_guard32': [('src/range_proof.rs','if bit_length < 64 && opening.v >> bit_length > 0 {','if bit_length < 32 && opening.v >> bit_length > 0 {')],
 'C08_weight_one': [('src/range_proof.rs','let weight = Scalar::random_not_zero(&mut weight_transcript_rng);','let weight = Scalar::ONE; let _ = &mut weight_transcript_rng;')],
 'C09_mask_reversed': [('src/range_proof.rs','temp_masks.push(this_mask);','temp_masks.insert(0, this_mask);')],
 'C11_H_is_G': [('src/generators/bulletproof_gens.rs',"label[0] = b'H';","label[0] = b'G';")],
 'C13_eta_one': [('src/range_proof.rs','''            // Zero is allowed by the protocol, but excluded by the implementation to be unambiguous
            Zeroizing::new(
                (0..extension_degree)
                    .map(|_| Scalar::random_not_zero(range_proof_transcript.as_mut_rng()))
                    .collect(),
            )
        };

        #[allow(clippy::arithmetic_side_effects)]
        let mut a1 =''','''            Zeroizing::new((0..extension_degree).map(|_| Scalar::ONE).collect::<Vec<Scalar>>())
        };

        #[allow(clippy::arithmetic_side_effects)]
        let mut a1 =''')],
 'C14_no_rekey': [('src/transcripts.rs','''                .rekey_with_witness_bytes("witness".as_bytes(), bytes)
''','''''')],
 'C15_noncanonical': [('src/range_proof.rs','''                    Option::<Scalar>::from(Scalar::from_canonical_bytes(bytes))
                        .ok_or(ProofError::InvalidArgument("Invalid parsing".to_string()))''','''                    Ok(Scalar::from_bytes_mod_order(bytes))''')],
 'C20_witness_bytes_plain': [('src/transcripts.rs','let mut witness_bytes = Zeroizing::new(Vec::<u8>::with_capacity(size));','let mut witness_bytes = Vec::<u8>::with_capacity(size);'),
                             ('src/transcripts.rs','            Some(witness_bytes)\n','            Some(Zeroizing::new(witness_bytes.clone()))\n')],
 'C01_dsum_m8': [('src/range_proof.rs','for _ in 0..aggregation_factor.ilog2() {','for _ in 0..aggregation_factor.ilog2().min(2) {')],
 'C07_none_not_absorbed': [('src/transcripts.rs','''            } else {
                transcript.append_u64(b"vi - minimum_value", 0);
            }''','''            }''')],
}
name=sys.argv[1]
dst='/var/tmp/bppmut/work'
shutil.rmtree(dst,ignore_errors=True); shutil.copytree('/var/tmp/bppmut/base',dst)
for f,a,b in M[name]:
    p=os.path.join(dst,f); s=open(p).read(); assert s.count(a)>=1,(name,f,'pattern not found'); s=s.replace(a,b,1); open(p,'w').write(s)
print('applied',name)
