#!/usr/bin/env python3
"""Cross-check a dump of REAL library output (free-module group, instrumented merlin) against the
model prover and the reference relation of DESIGN.md section 8, over the real scalar field.
Usage: xcheck.py dump.txt"""
import sys
sys.path.insert(0, '/verif/spikes')
import spec_numeric_check as S
L = 2**252 + 27742317777372353535851937790883648493
S.q = L
def H(x): return int(x, 16)
def parse_vec(s):
    v = S.V()
    if s.strip():
        for kv in s.split(','):
            k, x = kv.split(':'); v[int(k)] = H(x)
    return v
D = {}; wit = {}; Vc = {}; Ls = {}; Rs = {}; dL = {}; dR = {}; ver = {}; mut = {}
for line in open(sys.argv[1]):
    f = line.rstrip('\n').split(' ')
    if f[0] == 'cfg': n, m, cap, t = map(int, f[1:5])
    elif f[0] == 'ids': D['id_' + f[1]] = [int(x) for x in f[2].split(',')]
    elif f[0] == 'wit': wit[int(f[1])] = (int(f[2]), int(f[3]), [H(x) for x in f[4].split(',')])
    elif f[0] == 'V': Vc[int(f[1])] = parse_vec(f[2] if len(f) > 2 else '')
    elif f[0] in ('A', 'A1', 'B'): D[f[0]] = parse_vec(f[1] if len(f) > 1 else '')
    elif f[0] == 'L': Ls[int(f[1])] = parse_vec(f[2])
    elif f[0] == 'R': Rs[int(f[1])] = parse_vec(f[2])
    elif f[0] in ('r1', 's1', 'y', 'z', 'e', 'r', 's'): D[f[0]] = H(f[1])
    elif f[0] in ('d1', 'es', 'alpha', 'd', 'eta'): D[f[0]] = [H(x) for x in f[1].split(',')] if len(f) > 1 and f[1] else []
    elif f[0] == 'dL': dL[int(f[1])] = [H(x) for x in f[2].split(',')]
    elif f[0] == 'dR': dR[int(f[1])] = [H(x) for x in f[2].split(',')]
    elif f[0] == 'verify': ver[f[1]] = (f[2], H(f[4]), parse_vec(f[6] if len(f) > 6 else ''))
    elif f[0] == 'mut': mut[f[1]] = [H(x) for x in f[2].split(',')] if ',' in f[2] or f[1] in ('d1', 'es') else H(f[2])
N = n * m; kap = N.bit_length() - 1
B = lambda i: S.V({i: 1})
G = [B(i) for i in D['id_G']]; Hh = [B(i) for i in D['id_H']]; gb = [B(i) for i in D['id_gb']]; hb = B(D['id_hb'][0])
v = [wit[j][0] for j in range(m)]; p = [wit[j][1] for j in range(m)]; r = [wit[j][2] for j in range(m)]
# model prover fed with read-back nonces and logged challenges
nonces = iter(D['alpha'] + [D['y'], D['z']] + sum(([*dL[j], *dR[j], D['es'][j]] for j in range(kap)), []) + [D['r'], D['s']] + D['d'] + D['eta'] + [D['e']])
pr = S.prove(n, m, t, G, Hh, hb, gb, v, p, r, lambda: next(nonces))
A, A1, Bp, mLs, mRs, r1, s1, d1, y, z, es, e = pr
ok = True
def cmp(name, a, b):
    global ok
    same = (a.nz() == b.nz()) if isinstance(a, dict) else (a == b)
    if not same: ok = False
    print(f"  {name:8} {'==' if same else 'DIFFERS'}")
print(f"config n={n} m={m} cap={cap} t={t}: model prover vs real proof")
for j in range(m): cmp(f"V{j}", S.msm([v[j]] + r[j], [hb] + gb), Vc[j])
cmp('A', A, D['A']); cmp('A1', A1, D['A1']); cmp('B', Bp, D['B'])
for j in range(kap): cmp(f'L{j}', mLs[j], Ls[j]); cmp(f'R{j}', mRs[j], Rs[j])
cmp('r1', r1, D['r1']); cmp('s1', s1, D['s1']); cmp('d1', d1, D['d1'])
# reference residual vs tapped residual
Vl = [Vc[j] for j in range(m)]
real = (D['A'], D['A1'], D['B'], [Ls[j] for j in range(kap)], [Rs[j] for j in range(kap)])
res = S.spec_residual(n, m, t, G, Hh, hb, gb, Vl, p, *real, D['r1'], D['s1'], D['d1'], D['y'], D['z'], D['es'], D['e'])
print("reference relation on the real honest proof:", "accepts" if not res.nz() else "REJECTS", "| real verdict", ver['honest'][0])
if res.nz() or ver['honest'][2].nz() or ver['honest'][0] != 'ok=true': ok = False
if 'mutated' in ver:
    res = S.spec_residual(n, m, t, G, Hh, hb, gb, Vl, p, *real, mut['r1'], D['s1'], mut['d1'], mut['y'], mut['z'], mut['es'], mut['e'])
    w = ver['mutated'][1]
    same = ((w % L) * res).nz() == ver['mutated'][2].nz()
    print("mutated proof: tapped residual == logged weight * reference residual:", same, "| support size", len(res.nz()), "| real verdict", ver['mutated'][0])
    if not same: ok = False
print("ALL MATCH" if ok else "MISMATCH")
