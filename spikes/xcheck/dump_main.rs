use std::{borrow::Borrow, collections::{BTreeMap, HashMap}, ops::{Add, AddAssign, Mul}, sync::Mutex};
use curve25519_dalek::{scalar::Scalar, traits::{Identity, MultiscalarMul, VartimeMultiscalarMul, VartimePrecomputedMultiscalarMul}};
use subtle::{Choice, ConstantTimeEq};
use tari_bulletproofs_plus::{
    commitment_opening::CommitmentOpening, generators::pedersen_gens::ExtensionDegree,
    protocols::curve_point_protocol::CurvePointProtocol, range_parameters::RangeParameters,
    range_proof::{RangeProof, VerifyAction}, range_statement::RangeStatement, range_witness::RangeWitness,
    traits::{Compressable, Decompressable, FixedBytesRepr, FromUniformBytes, Precomputable},
    PedersenGens, Transcript,
};
use sha3::{Digest, Sha3_256};

#[derive(Clone, PartialEq, Debug, Default)]
pub struct FP(BTreeMap<u32, Scalar>);
#[derive(Clone, Copy, PartialEq, Debug)]
pub struct CFP([u8; 32]);

static BASIS: Mutex<Option<HashMap<[u8; 64], u32>>> = Mutex::new(None);
static TABLE: Mutex<Option<HashMap<[u8; 32], FP>>> = Mutex::new(None);
thread_local! { static LAST: std::cell::RefCell<Option<FP>> = std::cell::RefCell::new(None); }

impl FP {
    fn norm(mut self) -> Self { self.0.retain(|_, v| *v != Scalar::ZERO); self }
    fn axpy(&mut self, s: &Scalar, p: &FP) { for (k, v) in &p.0 { *self.0.entry(*k).or_insert(Scalar::ZERO) += s * v; } }
}
impl Identity for FP { fn identity() -> Self { FP::default() } }
impl Identity for CFP { fn identity() -> Self { CFP([0u8; 32]) } }
impl ConstantTimeEq for CFP { fn ct_eq(&self, o: &Self) -> Choice { self.0.ct_eq(&o.0) } }
impl FixedBytesRepr for CFP { fn as_fixed_bytes(&self) -> &[u8; 32] { &self.0 } fn from_fixed_bytes(b: [u8; 32]) -> Self { CFP(b) } }
impl Decompressable for CFP { type Decompressed = FP; fn decompress(&self) -> Option<FP> {
    if self.0 == [0u8; 32] { return Some(FP::default()); }
    TABLE.lock().unwrap().get_or_insert_with(HashMap::new).get(&self.0).cloned() } }
impl Compressable for FP { type Compressed = CFP; fn compress(&self) -> CFP {
    let p = self.clone().norm();
    if p.0.is_empty() { return CFP([0u8; 32]); }
    let mut h = Sha3_256::new();
    for (k, v) in &p.0 { h.update(k.to_le_bytes()); h.update(v.as_bytes()); }
    let b: [u8; 32] = h.finalize().into();
    TABLE.lock().unwrap().get_or_insert_with(HashMap::new).insert(b, p);
    CFP(b) } }
impl FromUniformBytes for FP { fn from_uniform_bytes(bytes: &[u8; 64]) -> Self {
    let mut g = BASIS.lock().unwrap(); let m = g.get_or_insert_with(HashMap::new); let n = m.len() as u32;
    let id = *m.entry(*bytes).or_insert(n); let mut p = FP::default(); p.0.insert(id, Scalar::ONE); p } }
impl Add for FP { type Output = FP; fn add(mut self, o: FP) -> FP { self.axpy(&Scalar::ONE, &o); self.norm() } }
impl<'a> Add for &'a FP { type Output = FP; fn add(self, o: &FP) -> FP { let mut r = self.clone(); r.axpy(&Scalar::ONE, o); r.norm() } }
impl AddAssign for FP { fn add_assign(&mut self, o: FP) { self.axpy(&Scalar::ONE, &o); } }
impl<'a> Mul<Scalar> for &'a FP { type Output = FP; fn mul(self, s: Scalar) -> FP { let mut r = FP::default(); r.axpy(&s, self); r.norm() } }
fn msm<I, J>(scalars: I, points: J) -> FP where I: IntoIterator, I::Item: Borrow<Scalar>, J: IntoIterator, J::Item: Borrow<FP> {
    let s: Vec<Scalar> = scalars.into_iter().map(|x| *x.borrow()).collect();
    let p: Vec<FP> = points.into_iter().map(|x| x.borrow().clone()).collect();
    assert_eq!(s.len(), p.len());
    let mut r = FP::default(); for (s, p) in s.iter().zip(p.iter()) { r.axpy(s, p); } r.norm() }
impl MultiscalarMul for FP { type Point = FP;
    fn multiscalar_mul<I, J>(scalars: I, points: J) -> FP where I: IntoIterator, I::Item: Borrow<Scalar>, J: IntoIterator, J::Item: Borrow<FP> { msm(scalars, points) } }
impl VartimeMultiscalarMul for FP { type Point = FP;
    fn optional_multiscalar_mul<I, J>(scalars: I, points: J) -> Option<FP> where I: IntoIterator, I::Item: Borrow<Scalar>, J: IntoIterator<Item = Option<FP>> {
        let pts: Option<Vec<FP>> = points.into_iter().collect(); Some(msm(scalars, pts?)) } }
pub struct FPPre(Vec<FP>);
impl VartimePrecomputedMultiscalarMul for FPPre { type Point = FP;
    fn new<I>(static_points: I) -> Self where I: IntoIterator, I::Item: Borrow<FP> { FPPre(static_points.into_iter().map(|p| p.borrow().clone()).collect()) }
    fn optional_mixed_multiscalar_mul<I, J, K>(&self, ss: I, ds: J, dp: K) -> Option<FP>
    where I: IntoIterator, I::Item: Borrow<Scalar>, J: IntoIterator, J::Item: Borrow<Scalar>, K: IntoIterator<Item = Option<FP>> {
        let pts: Option<Vec<FP>> = dp.into_iter().collect();
        let mut r = msm(ss, self.0.iter()); r.axpy(&Scalar::ONE, &msm(ds, pts?)); let r = r.norm();
        LAST.with(|l| *l.borrow_mut() = Some(r.clone())); Some(r) } }
impl Precomputable for FP { type Precomputation = FPPre; }
impl CurvePointProtocol for FP {}

fn gens(deg: ExtensionDegree) -> PedersenGens<FP> {
    let mk = |s: &str| { let mut b = [0u8; 64]; b[..s.len()].copy_from_slice(s.as_bytes()); FP::from_uniform_bytes(&b) };
    let h = mk("Hb"); let g: Vec<FP> = (0..deg as usize).map(|k| mk(&format!("Gb{}", k))).collect();
    PedersenGens { h_base_compressed: h.compress(), h_base: h, g_base_compressed_vec: g.iter().map(|p| p.compress()).collect(), g_base_vec: g, extension_degree: deg } }



use merlin::tap::{self, Ev};
fn wide(b: &[u8]) -> Scalar { let mut a = [0u8; 64]; a.copy_from_slice(b); Scalar::from_bytes_mod_order_wide(&a) }
fn hx(s: &Scalar) -> String { let mut v = s.to_bytes().to_vec(); v.reverse(); v.iter().map(|b| format!("{:02x}", b)).collect() }
fn vec_s(p: &FP) -> String { p.clone().norm().0.iter().map(|(k, v)| format!("{}:{}", k, hx(v))).collect::<Vec<_>>().join(",") }
fn idof(g: &FP) -> u32 { *g.0.keys().next().unwrap() }
fn coord(p: &FP, g: &FP) -> Scalar { p.0.get(&idof(g)).cloned().unwrap_or(Scalar::ZERO) }
fn main() {
    let args: Vec<String> = std::env::args().collect();
    let (n, m, cap, t): (usize, usize, usize, usize) = (args[1].parse().unwrap(), args[2].parse().unwrap(), args[3].parse().unwrap(), args[4].parse().unwrap());
    let mut rng = <rand_chacha::ChaCha12Rng as rand_core::SeedableRng>::seed_from_u64(77);
    let deg = ExtensionDegree::try_from(t).unwrap();
    let params = RangeParameters::init(n, cap, gens(deg)).unwrap();
    let gi: Vec<FP> = params.gi_base_iter().cloned().collect(); let hi: Vec<FP> = params.hi_base_iter().cloned().collect();
    let gb: Vec<FP> = params.g_bases().to_vec(); let hb = params.h_base().clone();
    println!("cfg {} {} {} {}", n, m, cap, t);
    println!("ids G {}", gi.iter().take(n * m).map(|g| idof(g).to_string()).collect::<Vec<_>>().join(","));
    println!("ids H {}", hi.iter().take(n * m).map(|g| idof(g).to_string()).collect::<Vec<_>>().join(","));
    println!("ids gb {}", gb.iter().map(|g| idof(g).to_string()).collect::<Vec<_>>().join(","));
    println!("ids hb {}", idof(&hb));
    let mut cs = vec![]; let mut os = vec![]; let mut ps = vec![];
    let max = if n == 64 { u64::MAX } else { (1u64 << n) - 1 };
    for j in 0..m { let r: Vec<Scalar> = (0..t).map(|_| Scalar::random(&mut rng)).collect();
        let v = match j % 3 { 0 => max, 1 => rand_core::RngCore::next_u64(&mut rng) & max, _ => 0 };
        let p = match j % 3 { 0 => Some(v / 3), 1 => None, _ => Some(0) };
        println!("wit {} {} {} {}", j, v, p.unwrap_or(0), r.iter().map(hx).collect::<Vec<_>>().join(","));
        cs.push(params.pc_gens().commit(&Scalar::from(v), &r).unwrap()); os.push(CommitmentOpening::new(v, r)); ps.push(p); }
    for (j, c) in cs.iter().enumerate() { println!("V {} {}", j, vec_s(c)); }
    let st = RangeStatement::init(params.clone(), cs, ps, None).unwrap();
    let w = RangeWitness::init(os).unwrap();
    tap::start();
    let proof = RangeProof::<FP>::prove_with_rng(&mut Transcript::new(b"ctx"), &st, &w, &mut rng).unwrap();
    let log = tap::take();
    let by = proof.to_bytes(); let el = |i: usize| { let mut a = [0u8; 32]; a.copy_from_slice(&by[1 + 32 * i..1 + 32 * (i + 1)]); a };
    let pt = |i: usize| CFP(el(i)).decompress().unwrap(); let sc = |i: usize| Scalar::from_canonical_bytes(el(i)).unwrap();
    let kap = (n * m).ilog2() as usize;
    let a = pt(t); let a1 = pt(t + 1); let b = pt(t + 2);
    let ls: Vec<FP> = (0..kap).map(|j| pt(t + 5 + 2 * j)).collect(); let rs: Vec<FP> = (0..kap).map(|j| pt(t + 5 + 2 * j + 1)).collect();
    println!("A {}", vec_s(&a)); println!("A1 {}", vec_s(&a1)); println!("B {}", vec_s(&b));
    for j in 0..kap { println!("L {} {}", j, vec_s(&ls[j])); println!("R {} {}", j, vec_s(&rs[j])); }
    println!("r1 {}", hx(&sc(t + 3))); println!("s1 {}", hx(&sc(t + 4)));
    println!("d1 {}", (0..t).map(|k| hx(&sc(k))).collect::<Vec<_>>().join(","));
    let mut ch = vec![];
    for r in &log { if let Ev::Challenge { label, out } = &r.ev { ch.push((String::from_utf8_lossy(label).to_string(), wide(out))); } }
    println!("y {}", hx(&ch[0].1)); println!("z {}", hx(&ch[1].1));
    let es: Vec<Scalar> = ch[2..ch.len() - 1].iter().map(|c| c.1).collect();
    println!("es {}", es.iter().map(hx).collect::<Vec<_>>().join(","));
    println!("e {}", hx(&ch[ch.len() - 1].1));
    let eprod: Scalar = es.iter().product();
    println!("alpha {}", (0..t).map(|k| hx(&coord(&a, &gb[k]))).collect::<Vec<_>>().join(","));
    for j in 0..kap { println!("dL {} {}", j, (0..t).map(|k| hx(&coord(&ls[j], &gb[k]))).collect::<Vec<_>>().join(","));
                      println!("dR {} {}", j, (0..t).map(|k| hx(&coord(&rs[j], &gb[k]))).collect::<Vec<_>>().join(",")); }
    println!("d {}", (0..t).map(|k| hx(&coord(&a1, &gb[k]))).collect::<Vec<_>>().join(","));
    println!("eta {}", (0..t).map(|k| hx(&coord(&b, &gb[k]))).collect::<Vec<_>>().join(","));
    println!("r {}", hx(&(coord(&a1, &gi[0]) * eprod))); println!("s {}", hx(&(coord(&a1, &hi[0]) * eprod.invert())));
    // verify: honest, then with r1 and d1[0] perturbed (via bytes)
    for (tag, mutate) in [("honest", false), ("mutated", true)] {
        let mut b2 = by.clone();
        if mutate { b2[1] ^= 1; let o = 1 + 32 * (t + 3); b2[o] ^= 2; }
        let p2 = RangeProof::<FP>::from_bytes(&b2).unwrap();
        tap::start();
        let res = RangeProof::verify_batch(&mut [Transcript::new(b"ctx")], &[st.clone()], &[p2.clone()], VerifyAction::VerifyOnly);
        let vlog = tap::take();
        let wdraw = vlog.iter().rev().find_map(|r| if let Ev::Draw { out } = &r.ev { if out.len() == 64 { Some(wide(out)) } else { None } } else { None }).unwrap();
        let resid = LAST.with(|l| l.borrow().clone().unwrap());
        println!("verify {} ok={} weight {} residual {}", tag, res.is_ok(), hx(&wdraw), vec_s(&resid));
        if mutate { let b2s = |i: usize| { let mut a = [0u8; 32]; a.copy_from_slice(&b2[1 + 32 * i..1 + 32 * (i + 1)]); Scalar::from_canonical_bytes(a).unwrap() };
            println!("mut r1 {}", hx(&b2s(t + 3))); println!("mut d1 {}", (0..t).map(|k| hx(&b2s(k))).collect::<Vec<_>>().join(","));
            let mut ch = vec![]; for r in &vlog { if let Ev::Challenge { out, .. } = &r.ev { ch.push(wide(out)); } }
            println!("mut y {}", hx(&ch[0])); println!("mut z {}", hx(&ch[1]));
            println!("mut es {}", ch[2..ch.len() - 1].iter().map(hx).collect::<Vec<_>>().join(",")); println!("mut e {}", hx(&ch[ch.len() - 1])); }
    }
}
