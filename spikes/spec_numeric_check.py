#!/usr/bin/env python3
"""Round-0 sanity check of DESIGN.md section 8 (NOT part of the framework, NOT a proof).

Over a small prime field and a symbolic free module it runs
  * the prover exactly as coded in src/range_proof.rs,
  * the reference relation `Spec` exactly as written in DESIGN.md section 8,
  * the optimised verifier's scalar schedule exactly as coded,
and prints, per (n, m, t):
  honest:   Spec accepts, coded residual is 0, coded residual == w * R_spec
  hostile:  (random proof elements) Spec rejects, coded residual == w * R_spec
The Lean theorems C01_spec_complete and C02_contribution_eq state these for all sizes.
"""
import random
q = 2**61 - 1
def inv(x): return pow(x % q, q - 2, q)
class V(dict):
    def __add__(s, o):
        r = V(s)
        for k, v in o.items(): r[k] = (r.get(k, 0) + v) % q
        return r
    def __rmul__(s, c): return V({k: (c * v) % q for k, v in s.items()})
    def nz(s): return {k: v for k, v in s.items() if v % q}
def B(name): return V({name: 1})
def msm(cs, ps):
    r = V()
    for c, p in zip(cs, ps): r = r + (c % q) * p
    return r

def dvec(n, m, z2):
    d = [z2]
    for _ in range(1, n): d.append(2 * d[-1] % q)
    for j in range(1, m):
        for i in range(n): d.append(d[(j - 1) * n + i] * z2 % q)
    return d

def spec_residual(n, m, t, G, H, hb, gb, Vc, p, A, A1, Bp, Ls, Rs, r1, s1, d1, y, z, es, e):
    N = n * m; kap = N.bit_length() - 1; z2 = z * z % q; e2 = e * e % q
    yp = [pow(y, i, q) for i in range(N + 2)]; d = dvec(n, m, z2)
    dsum = sum(d) % q; ysum = sum(yp[1:N + 1]) % q
    zeta = ((z - z2) * ysum - z * yp[N + 1] * dsum) % q
    Ahat = A + msm([(-z) % q] * N, G) + msm([(d[i] * yp[N - i] + z) % q for i in range(N)], H)
    zp = 1
    for j in range(m):
        zp = zp * z2 % q
        Ahat = Ahat + (yp[N + 1] * zp % q) * (Vc[j] + ((-p[j]) % q) * hb)
    Ahat = Ahat + zeta * hb
    g = list(G); h = list(H); P = Ahat; hh = N
    for j in range(kap):
        hh //= 2; e_ = es[j]; ei = inv(e_)
        g = [msm([ei, e_ * inv(pow(y, hh, q))], [g[i], g[hh + i]]) for i in range(hh)]
        h = [msm([e_, ei], [h[i], h[hh + i]]) for i in range(hh)]
        P = (e_ * e_ % q) * Ls[j] + P + (ei * ei % q) * Rs[j]
    lhs = e2 * P + e * A1 + Bp
    rhs = msm([r1 * e, s1 * e, r1 * y * s1] + d1, [g[0], h[0], hb] + gb)
    return rhs + ((-1) % q) * lhs

def code_contribution(n, m, t, G, H, hb, gb, Vc, p, A, A1, Bp, Ls, Rs, r1, s1, d1, y, z, es, e, w):
    N = n * m; kap = N.bit_length() - 1; z2 = z * z % q; e2 = e * e % q; d = dvec(n, m, z2)
    allinv = 1
    for c in es: allinv = allinv * inv(c) % q
    yinv = inv(y); y1inv = inv(y - 1); ynm = pow(y, N, q); ynm1 = ynm * y % q
    ysum = y * (ynm - 1) * y1inv % q
    ds = z2; tz = z2
    for _ in range(m.bit_length() - 1):
        ds = (ds + ds * tz) % q; tz = tz * tz % q
    ds = ds * (pow(2, n, q) - 1) % q
    csq = [c * c % q for c in es]; csqi = [inv(c) ** 2 % q for c in es]
    s = [allinv]
    for i in range(1, N):
        lg = i.bit_length() - 1
        s.append(s[i - (1 << lg)] * csq[kap - lg - 1] % q)
    gi = []; hi = []; yinvi = 1; ynmi = ynm
    for i in range(N):
        gi.append(w * (r1 * e * yinvi * s[i] + e2 * z) % q)
        hi.append(w * (s1 * e * s[N - 1 - i] - e2 * (d[i] * ynmi + z)) % q)
        yinvi = yinvi * yinv % q; ynmi = ynmi * yinv % q
    hsc = 0; dyn_s = []; dyn_p = []; zp = 1
    for j in range(m):
        zp = zp * z2 % q; wt = w * (-e2 * zp * ynm1) % q
        dyn_s.append(wt); dyn_p.append(Vc[j]); hsc = (hsc - wt * p[j]) % q
    hsc = (hsc + w * (r1 * y * s1 + e2 * (ynm1 * z * ds + (z2 - z) * ysum))) % q
    gsc = [w * x % q for x in d1]
    dyn_s += [w * (-e) % q, (-w) % q, w * (-e2) % q]; dyn_p += [A1, Bp, A]
    dyn_s += [w * (-e2) * c % q for c in csq]; dyn_p += Ls
    dyn_s += [w * (-e2) * c % q for c in csqi]; dyn_p += Rs
    return msm(gi + hi + gsc + [hsc] + dyn_s, G + H + gb + [hb] + dyn_p)

def prove(n, m, t, G, H, hb, gb, v, p, r, R):
    N = n * m
    aL = []; aR = []
    for j in range(m):
        off = v[j] - p[j]
        for i in range(n):
            b = (off >> i) & 1; aL.append(b); aR.append((b - 1) % q)
    alpha = [R() for _ in range(t)]
    A = msm(aL + aR + alpha, G + H + gb)
    y, z = R(), R(); z2 = z * z % q
    yp = [pow(y, i, q) for i in range(N + 2)]; d = dvec(n, m, z2)
    aL = [(a - z) % q for a in aL]
    aR = [(a + d[i] * yp[N - i] + z) % q for i, a in enumerate(aR)]
    zp = 1
    for j in range(m):
        zp = zp * z2 % q
        for k in range(t): alpha[k] = (alpha[k] + zp * r[j][k] * yp[N + 1]) % q
    g = list(G); h = list(H); Ls = []; Rs = []; es = []; nn = N
    while nn > 1:
        nn //= 2
        alo, ahi = aL[:nn], aL[nn:]; blo, bhi = aR[:nn], aR[nn:]
        glo, ghi = g[:nn], g[nn:]; hlo, hhi = h[:nn], h[nn:]
        yni = inv(yp[nn])
        alo_o = [a * yni % q for a in alo]; ahi_o = [a * yp[nn] % q for a in ahi]
        dl = [R() for _ in range(t)]; dr = [R() for _ in range(t)]
        cl = sum(a * yp[i + 1] * b for i, (a, b) in enumerate(zip(alo, bhi))) % q
        cr = sum(a * yp[nn + 1 + i] * b for i, (a, b) in enumerate(zip(ahi, blo))) % q
        Ls.append(msm([cl] + dl + alo_o + bhi, [hb] + gb + ghi + hlo))
        Rs.append(msm([cr] + dr + ahi_o + blo, [hb] + gb + glo + hhi))
        e = R(); es.append(e); ei = inv(e)
        g = [msm([ei, e * yni], [lo, hi]) for lo, hi in zip(glo, ghi)]
        h = [msm([e, ei], [lo, hi]) for lo, hi in zip(hlo, hhi)]
        aL = [(lo * e + hi * ei) % q for lo, hi in zip(alo, ahi_o)]
        aR = [(lo * ei + hi * e) % q for lo, hi in zip(blo, bhi)]
        for k in range(t): alpha[k] = (alpha[k] + dl[k] * e * e + dr[k] * ei * ei) % q
    rr, ss = R(), R(); dd = [R() for _ in range(t)]; eta = [R() for _ in range(t)]
    A1 = msm([rr, ss, (rr * yp[1] * aR[0] + ss * yp[1] * aL[0]) % q] + dd, [g[0], h[0], hb] + gb)
    Bp = msm([rr * yp[1] * ss % q] + eta, [hb] + gb)
    e = R(); e2 = e * e % q
    r1 = (rr + aL[0] * e) % q; s1 = (ss + aR[0] * e) % q
    d1 = [(eta[k] + dd[k] * e + alpha[k] * e2) % q for k in range(t)]
    return A, A1, Bp, Ls, Rs, r1, s1, d1, y, z, es, e

def run(n, m, t, seed):
    rnd = random.Random(seed); R = lambda: rnd.randrange(1, q)
    N = n * m; kap = N.bit_length() - 1; assert 1 << kap == N
    G = [B(('G', i)) for i in range(N)]; H = [B(('H', i)) for i in range(N)]
    hb = B('h'); gb = [B(('g', k)) for k in range(t)]
    v = [rnd.randrange(0, 2 ** n) for _ in range(m)]; p = [rnd.randrange(0, v[j] + 1) for j in range(m)]
    r = [[R() for _ in range(t)] for _ in range(m)]
    Vc = [msm([v[j]] + r[j], [hb] + gb) for j in range(m)]
    pr = prove(n, m, t, G, H, hb, gb, v, p, r, R)
    w = R()
    res = spec_residual(n, m, t, G, H, hb, gb, Vc, p, *pr)
    code = code_contribution(n, m, t, G, H, hb, gb, Vc, p, *pr, w)
    honest = (not res.nz(), not code.nz(), not (code + ((-w) % q) * res).nz())
    basis = G + H + [hb] + gb + [B(('x', i)) for i in range(3)]
    rp = lambda: msm([R() for _ in basis], basis)
    bad = (rp(), rp(), rp(), [rp() for _ in range(kap)], [rp() for _ in range(kap)], R(), R(),
           [R() for _ in range(t)], R(), R(), [R() for _ in range(kap)], R())
    Vb = [rp() for _ in range(m)]
    res = spec_residual(n, m, t, G, H, hb, gb, Vb, p, *bad)
    code = code_contribution(n, m, t, G, H, hb, gb, Vb, p, *bad, w)
    hostile = (bool(res.nz()), not (code + ((-w) % q) * res).nz())
    return honest, hostile

if __name__ == "__main__":
    for cfg in [(1, 1, 1), (2, 1, 1), (4, 2, 2), (8, 4, 3), (2, 8, 1), (1, 16, 2), (16, 1, 6), (64, 2, 6)]:
        print(cfg, run(*cfg, seed=sum(cfg)))
