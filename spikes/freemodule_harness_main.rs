use std::{borrow::Borrow, collections::{BTreeMap, HashMap}, ops::{Add, AddAssign, Mul}, sync::Mutex};
use curve25519_dalek::{scalar::Scalar, traits::{Identity, MultiscalarMul, VartimeMultiscalarMul, VartimePrecomputedMultiscalarMul}};
use subtle::{Choice, ConstantTimeEq};
use tari_bulletproofs_plus::{
    commitment_opening::CommitmentOpening, generators::pedersen_gens::ExtensionDegree,
    protocols::curve_point_protocol::CurvePointProtocol, range_parameters::RangeParameters,
    range_proof::{RangeProof, VerifyAction}, range_statement::RangeStatement, range_witness::RangeWitness,
    traits::{Compressable, Decompressable, FixedBytesRepr, FromUniformBytes, Precomputable},
    PedersenGens, Transcript,
};
use sha3::{Digest, Sha3_256};

#[derive(Clone, PartialEq, Debug, Default)]
pub struct FP(BTreeMap<u32, Scalar>);
#[derive(Clone, Copy, PartialEq, Debug)]
pub struct CFP([u8; 32]);

static BASIS: Mutex<Option<HashMap<[u8; 64], u32>>> = Mutex::new(None);
static TABLE: Mutex<Option<HashMap<[u8; 32], FP>>> = Mutex::new(None);
thread_local! { static LAST: std::cell::RefCell<Option<FP>> = std::cell::RefCell::new(None); }

impl FP {
    fn norm(mut self) -> Self { self.0.retain(|_, v| *v != Scalar::ZERO); self }
    fn axpy(&mut self, s: &Scalar, p: &FP) { for (k, v) in &p.0 { *self.0.entry(*k).or_insert(Scalar::ZERO) += s * v; } }
}
impl Identity for FP { fn identity() -> Self { FP::default() } }
impl Identity for CFP { fn identity() -> Self { CFP([0u8; 32]) } }
impl ConstantTimeEq for CFP { fn ct_eq(&self, o: &Self) -> Choice { self.0.ct_eq(&o.0) } }
impl FixedBytesRepr for CFP { fn as_fixed_bytes(&self) -> &[u8; 32] { &self.0 } fn from_fixed_bytes(b: [u8; 32]) -> Self { CFP(b) } }
impl Decompressable for CFP { type Decompressed = FP; fn decompress(&self) -> Option<FP> {
    if self.0 == [0u8; 32] { return Some(FP::default()); }
    TABLE.lock().unwrap().get_or_insert_with(HashMap::new).get(&self.0).cloned() } }
impl Compressable for FP { type Compressed = CFP; fn compress(&self) -> CFP {
    let p = self.clone().norm();
    if p.0.is_empty() { return CFP([0u8; 32]); }
    let mut h = Sha3_256::new();
    for (k, v) in &p.0 { h.update(k.to_le_bytes()); h.update(v.as_bytes()); }
    let b: [u8; 32] = h.finalize().into();
    TABLE.lock().unwrap().get_or_insert_with(HashMap::new).insert(b, p);
    CFP(b) } }
impl FromUniformBytes for FP { fn from_uniform_bytes(bytes: &[u8; 64]) -> Self {
    let mut g = BASIS.lock().unwrap(); let m = g.get_or_insert_with(HashMap::new); let n = m.len() as u32;
    let id = *m.entry(*bytes).or_insert(n); let mut p = FP::default(); p.0.insert(id, Scalar::ONE); p } }
impl Add for FP { type Output = FP; fn add(mut self, o: FP) -> FP { self.axpy(&Scalar::ONE, &o); self.norm() } }
impl<'a> Add for &'a FP { type Output = FP; fn add(self, o: &FP) -> FP { let mut r = self.clone(); r.axpy(&Scalar::ONE, o); r.norm() } }
impl AddAssign for FP { fn add_assign(&mut self, o: FP) { self.axpy(&Scalar::ONE, &o); } }
impl<'a> Mul<Scalar> for &'a FP { type Output = FP; fn mul(self, s: Scalar) -> FP { let mut r = FP::default(); r.axpy(&s, self); r.norm() } }
fn msm<I, J>(scalars: I, points: J) -> FP where I: IntoIterator, I::Item: Borrow<Scalar>, J: IntoIterator, J::Item: Borrow<FP> {
    let s: Vec<Scalar> = scalars.into_iter().map(|x| *x.borrow()).collect();
    let p: Vec<FP> = points.into_iter().map(|x| x.borrow().clone()).collect();
    assert_eq!(s.len(), p.len());
    let mut r = FP::default(); for (s, p) in s.iter().zip(p.iter()) { r.axpy(s, p); } r.norm() }
impl MultiscalarMul for FP { type Point = FP;
    fn multiscalar_mul<I, J>(scalars: I, points: J) -> FP where I: IntoIterator, I::Item: Borrow<Scalar>, J: IntoIterator, J::Item: Borrow<FP> { msm(scalars, points) } }
impl VartimeMultiscalarMul for FP { type Point = FP;
    fn optional_multiscalar_mul<I, J>(scalars: I, points: J) -> Option<FP> where I: IntoIterator, I::Item: Borrow<Scalar>, J: IntoIterator<Item = Option<FP>> {
        let pts: Option<Vec<FP>> = points.into_iter().collect(); Some(msm(scalars, pts?)) } }
pub struct FPPre(Vec<FP>);
impl VartimePrecomputedMultiscalarMul for FPPre { type Point = FP;
    fn new<I>(static_points: I) -> Self where I: IntoIterator, I::Item: Borrow<FP> { FPPre(static_points.into_iter().map(|p| p.borrow().clone()).collect()) }
    fn optional_mixed_multiscalar_mul<I, J, K>(&self, ss: I, ds: J, dp: K) -> Option<FP>
    where I: IntoIterator, I::Item: Borrow<Scalar>, J: IntoIterator, J::Item: Borrow<Scalar>, K: IntoIterator<Item = Option<FP>> {
        let pts: Option<Vec<FP>> = dp.into_iter().collect();
        let mut r = msm(ss, self.0.iter()); r.axpy(&Scalar::ONE, &msm(ds, pts?)); let r = r.norm();
        LAST.with(|l| *l.borrow_mut() = Some(r.clone())); Some(r) } }
impl Precomputable for FP { type Precomputation = FPPre; }
impl CurvePointProtocol for FP {}

fn gens(deg: ExtensionDegree) -> PedersenGens<FP> {
    let mk = |s: &str| { let mut b = [0u8; 64]; b[..s.len()].copy_from_slice(s.as_bytes()); FP::from_uniform_bytes(&b) };
    let h = mk("Hb"); let g: Vec<FP> = (0..deg as usize).map(|k| mk(&format!("Gb{}", k))).collect();
    PedersenGens { h_base_compressed: h.compress(), h_base: h, g_base_compressed_vec: g.iter().map(|p| p.compress()).collect(), g_base_vec: g, extension_degree: deg } }


fn mk(params:&RangeParameters<FP>, v:u64, rng:&mut rand_chacha::ChaCha12Rng)->(RangeStatement<FP>,RangeProof<FP>){
    let r = vec![Scalar::from(7u64+v)];
    let c = params.pc_gens().commit(&Scalar::from(v), &r).unwrap();
    let st = RangeStatement::init(params.clone(), vec![c], vec![None], None).unwrap();
    let w = RangeWitness::init(vec![CommitmentOpening::new(v, r)]).unwrap();
    let proof = RangeProof::<FP>::prove_with_rng(&mut Transcript::new(b"t"), &st, &w, rng).unwrap();
    (st,proof)
}
fn main(){
    let mut rng = <rand_chacha::ChaCha12Rng as rand_core::SeedableRng>::seed_from_u64(1);
    // C15: 1-bit single commitment
    let p1 = RangeParameters::init(1, 1, gens(ExtensionDegree::DefaultPedersen)).unwrap();
    let (st,pr)=mk(&p1,1,&mut rng);
    let ok=RangeProof::verify_batch(&mut [Transcript::new(b"t")], &[st], &[pr.clone()], VerifyAction::VerifyOnly).is_ok();
    println!("C15: (1,1) verify ok={} bytes={} decode_ok={}", ok, pr.to_bytes().len(), RangeProof::<FP>::from_bytes(&pr.to_bytes()).is_ok());
    // C03: 300 members, invalid at 280
    let p2 = RangeParameters::init(2, 1, gens(ExtensionDegree::DefaultPedersen)).unwrap();
    let mut sts=vec![]; let mut prs=vec![]; let mut ts=vec![];
    for i in 0..300u64 { let (s,p)=mk(&p2,i%4,&mut rng); sts.push(s); prs.push(p); ts.push(Transcript::new(b"t")); }
    let good=prs[1].clone(); prs[280]=good; // wrong proof for statement 280
    let res=RangeProof::verify_batch(&mut ts.clone(), &sts, &prs, VerifyAction::VerifyOnly);
    println!("C03: 300-batch invalid@280 ok={} len={:?}", res.is_ok(), res.as_ref().ok().map(|v|v.len()));
    let res=RangeProof::verify_batch(&mut ts.clone()[280..281], &sts[280..281], &prs[280..281], VerifyAction::VerifyOnly);
    println!("C03: singleton 280 ok={}", res.is_ok());
}
