-- import-free model fragment
class FieldOps (F : Type) extends Add F, Mul F, Sub F, Neg F, Inv F, Zero F, One F
#check (Inv)
#check (Zero)
#check (One)
#check (SMul)
#check (NatCast)
variable {F : Type} [Add F] [Mul F] [Sub F] [Neg F] [Inv F] [Zero F] [One F]
def powF (y : F) : Nat → F
  | 0 => 1
  | n+1 => powF y n * y
def sumTo (n : Nat) (f : Nat → F) : F := (List.range n).foldl (fun acc i => acc + f i) 0
def wipM (y : F) (n : Nat) (a b : Nat → F) : F := sumTo n (fun i => a i * powF y (i+1) * b i)
