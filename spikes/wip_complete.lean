import FR
open Finset

variable {F : Type*} [Field F] {M : Type*} [AddCommGroup M] [Module F M]

structure WipProof (F M : Type*) where
  Ls : List M
  Rs : List M
  A1 : M
  B  : M
  r1 : F
  s1 : F
  d1 : F

/-- prover, recursive on the list of round challenges (first round first); vectors have length 2^es.length.
    dL, dR are indexed by the number of rounds still to go. -/
def wipProve (y : F) (g h : M) (dL dR : ℕ → F) (r s d η e : F) :
    List F → (ℕ → F) → (ℕ → F) → (ℕ → M) → (ℕ → M) → F → WipProof F M
  | [], a, b, G, H, α =>
      { Ls := [], Rs := []
        A1 := r • G 0 + s • H 0 + (r * y * b 0 + s * y * a 0) • g + d • h
        B := (r * y * s) • g + η • h
        r1 := r + a 0 * e, s1 := s + b 0 * e, d1 := η + d * e + α * e^2 }
  | ej :: es, a, b, G, H, α =>
      let n := 2 ^ es.length
      let k := es.length
      let yni := (y^n)⁻¹
      let ei := ej⁻¹
      let cL := ∑ i ∈ range n, a i * y^(i+1) * b (n+i)
      let cR := ∑ i ∈ range n, a (n+i) * y^(n+i+1) * b i
      let L : M := cL • g + dL k • h + dot n (fun i => a i * yni) (fun i => G (n+i)) + dot n (fun i => b (n+i)) H
      let R : M := cR • g + dR k • h + dot n (fun i => a (n+i) * y^n) G + dot n b (fun i => H (n+i))
      let π := wipProve y g h dL dR r s d η e es
                (fun i => a i * ej + a (n+i) * y^n * ei) (fun i => b i * ei + b (n+i) * ej)
                (fun i => ei • G i + (ej * yni) • G (n+i)) (fun i => ej • H i + ei • H (n+i))
                (α + dL k * ej^2 + dR k * ei^2)
      { π with Ls := L :: π.Ls, Rs := R :: π.Rs }

/-- reference verifier: fold P and the generators round by round, then the final check -/
def wipAccepts (y : F) (g h : M) (e : F) (A1 B : M) (r1 s1 d1 : F) :
    List F → List M → List M → (ℕ → M) → (ℕ → M) → M → Prop
  | [], [], [], G, H, P =>
      e^2 • P + e • A1 + B = (r1 * e) • G 0 + (s1 * e) • H 0 + (r1 * y * s1) • g + d1 • h
  | ej :: es, L :: Ls, R :: Rs, G, H, P =>
      let n := 2 ^ es.length
      wipAccepts y g h e A1 B r1 s1 d1 es Ls Rs
        (fun i => ej⁻¹ • G i + (ej * (y^n)⁻¹) • G (n+i)) (fun i => ej • H i + ej⁻¹ • H (n+i))
        (ej^2 • L + P + (ej⁻¹)^2 • R)
  | _, _, _, _, _, _ => False

theorem wip_complete (y : F) (hy : y ≠ 0) (g h : M) (dL dR : ℕ → F) (r s d η e : F)
    (es : List F) (hes : ∀ x ∈ es, x ≠ 0) (a b : ℕ → F) (G H : ℕ → M) (α : F) :
    let π := wipProve y g h dL dR r s d η e es a b G H α
    wipAccepts y g h e π.A1 π.B π.r1 π.s1 π.d1 es π.Ls π.Rs G H
      (Pcom y (2 ^ es.length) a b G H g α h) := by
  induction es generalizing a b G H α with
  | nil =>
    simp only [wipProve, wipAccepts, Pcom, dot, wip, List.length_nil, pow_zero, Finset.sum_range_one]
    simp only [zero_add, pow_one]
    module
  | cons ej es ih =>
    have hej : ej ≠ 0 := hes ej (by simp)
    have hes' : ∀ x ∈ es, x ≠ 0 := fun x hx => hes x (by simp [hx])
    have hyn : y ^ (2 ^ es.length) ≠ 0 := pow_ne_zero _ hy
    simp only [wipProve, wipAccepts, List.length_cons]
    have h2 : 2 ^ (es.length + 1) = 2 ^ es.length + 2 ^ es.length := by ring
    rw [h2]
    have key := fold_round (M := M) y ej ej⁻¹ (y ^ (2 ^ es.length))⁻¹ (2 ^ es.length)
      (mul_inv_cancel₀ hej) (mul_inv_cancel₀ hyn) a b G H g h α (dL es.length) (dR es.length)
    simp only at key
    rw [key]
    exact ih hes' _ _ _ _ _
#print axioms wip_complete
