import Mathlib.Algebra.Module.Basic
import Mathlib.Algebra.Module.BigOperators
import Mathlib.Algebra.BigOperators.Intervals
import Mathlib.Algebra.BigOperators.Field
import Mathlib.Tactic.Ring
import Mathlib.Tactic.FieldSimp
import Mathlib.Tactic.LinearCombination
import Mathlib.Tactic.Module

open Finset

variable {F : Type*} [Field F] {M : Type*} [AddCommGroup M] [Module F M]

def wip (y : F) (n : ℕ) (a b : ℕ → F) : F := ∑ i ∈ range n, a i * y ^ (i+1) * b i
def dot (n : ℕ) (a : ℕ → F) (G : ℕ → M) : M := ∑ i ∈ range n, a i • G i
def Pcom (y : F) (n : ℕ) (a b : ℕ → F) (G H : ℕ → M) (g : M) (α : F) (h : M) : M :=
  dot n a G + dot n b H + wip y n a b • g + α • h

theorem dot_split (n : ℕ) (a : ℕ → F) (G : ℕ → M) :
    dot (n + n) a G = dot n a G + dot n (fun i => a (n + i)) (fun i => G (n + i)) := by
  unfold dot; rw [Finset.sum_range_add]

theorem wip_split (y : F) (n : ℕ) (a b : ℕ → F) :
    wip y (n + n) a b = wip y n a b + ∑ i ∈ range n, a (n+i) * y^(n+i+1) * b (n+i) := by
  unfold wip; rw [Finset.sum_range_add]

/-- generic: a sum of per-index linear combinations -/
theorem fold_round (y e ei yni : F) (n : ℕ) (hei : e * ei = 1) (hyni : y^n * yni = 1)
    (a b : ℕ → F) (G H : ℕ → M) (g h : M) (α dL dR : F) :
    let cL := ∑ i ∈ range n, a i * y^(i+1) * b (n+i)
    let cR := ∑ i ∈ range n, a (n+i) * y^(n+i+1) * b i
    let L : M := cL • g + dL • h + dot n (fun i => a i * yni) (fun i => G (n+i)) + dot n (fun i => b (n+i)) H
    let R : M := cR • g + dR • h + dot n (fun i => a (n+i) * y^n) G + dot n b (fun i => H (n+i))
    let G' : ℕ → M := fun i => ei • G i + (e * yni) • G (n+i)
    let H' : ℕ → M := fun i => e • H i + ei • H (n+i)
    let a' : ℕ → F := fun i => a i * e + a (n+i) * y^n * ei
    let b' : ℕ → F := fun i => b i * ei + b (n+i) * e
    (e^2) • L + Pcom y (n+n) a b G H g α h + (ei^2) • R
      = Pcom y n a' b' G' H' g (α + dL * e^2 + dR * ei^2) h := by
  intro cL cR L R G' H' a' b'
  have hw : wip y n a' b' = wip y n a b + e^2 * cL + ei^2 * cR
        + ∑ i ∈ range n, a (n+i) * y^(n+i+1) * b (n+i) := by
    simp only [wip, cL, cR, a', b', Finset.mul_sum, ← Finset.sum_add_distrib]
    apply Finset.sum_congr rfl; intro i _
    have : y^(n+i+1) = y^n * y^(i+1) := by ring
    rw [this]
    linear_combination (a i * y^(i+1) * b i + a (n+i) * y^n * y^(i+1) * b (n+i)) * hei
  have hG : dot n a' G' = dot n a G + (ei^2) • dot n (fun i => a (n+i) * y^n) G
      + (e^2) • dot n (fun i => a i * yni) (fun i => G (n+i)) + dot n (fun i => a (n+i)) (fun i => G (n+i)) := by
    simp only [dot, a', G', Finset.smul_sum, ← Finset.sum_add_distrib]
    apply Finset.sum_congr rfl; intro i _
    simp only [smul_add, add_smul, smul_smul]
    have e1 : ((a i * e + a (n + i) * y ^ n * ei) * ei) = a i + ei^2 * (a (n+i) * y^n) := by
      linear_combination (a i) * hei
    have e2 : ((a i * e + a (n + i) * y ^ n * ei) * (e * yni)) = e^2 * (a i * yni) + a (n+i) := by
      linear_combination (a (n+i) * y^n * yni) * hei + a (n+i) * hyni
    rw [e1, e2]
    module
  have hH : dot n b' H' = dot n b H + (e^2) • dot n (fun i => b (n+i)) H
      + (ei^2) • dot n b (fun i => H (n+i)) + dot n (fun i => b (n+i)) (fun i => H (n+i)) := by
    simp only [dot, b', H', Finset.smul_sum, ← Finset.sum_add_distrib]
    apply Finset.sum_congr rfl; intro i _
    simp only [smul_add, add_smul, smul_smul]
    have e1 : ((b i * ei + b (n + i) * e) * e) = b i + e^2 * b (n+i) := by
      linear_combination (b i) * hei
    have e2 : ((b i * ei + b (n + i) * e) * ei) = ei^2 * b i + b (n+i) := by
      linear_combination (b (n+i)) * hei
    rw [e1, e2]
    module
  simp only [Pcom, dot_split, wip_split, hw, hG, hH, L, R]
  module
