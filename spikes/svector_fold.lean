import Mathlib.Algebra.Module.Basic
import Mathlib.Algebra.Module.BigOperators
import Mathlib.Algebra.BigOperators.Intervals
import Mathlib.Algebra.BigOperators.Field
import Mathlib.Tactic.Ring
import Mathlib.Tactic.FieldSimp
import Mathlib.Tactic.LinearCombination
import Mathlib.Tactic.Module

open Finset

variable {F : Type*} [Field F] {M : Type*} [AddCommGroup M] [Module F M]

/-- reference folding of the G generators: challenges first-round-first, current length `2^es.length` -/
def foldG (y : F) : List F → (ℕ → M) → (ℕ → M)
  | [], G => G
  | e :: es, G =>
      let half := 2 ^ es.length
      foldG y es (fun i => e⁻¹ • G i + (e * (y ^ half)⁻¹) • G (half + i))

/-- product form of the s-vector -/
def sProd : List F → ℕ → F
  | [], _ => 1
  | e :: es, i => if i < 2 ^ es.length then e⁻¹ * sProd es i else e * sProd es (i - 2 ^ es.length)

theorem foldG_closed (y : F) (hy : y ≠ 0) (es : List F) (G : ℕ → M) :
    foldG y es G 0 = ∑ i ∈ range (2 ^ es.length), ((y ^ i)⁻¹ * sProd es i) • G i := by
  induction es generalizing G with
  | nil => simp [foldG, sProd]
  | cons e es ih =>
    simp only [foldG, List.length_cons]
    rw [ih]
    have h2 : 2 ^ (es.length + 1) = 2 ^ es.length + 2 ^ es.length := by ring
    rw [h2, Finset.sum_range_add]
    simp only [smul_add, Finset.sum_add_distrib, smul_smul]
    congr 1
    · apply Finset.sum_congr rfl
      intro i hi
      have : i < 2 ^ es.length := Finset.mem_range.mp hi
      simp only [sProd, this, if_true]
      congr 1; ring
    · apply Finset.sum_congr rfl
      intro i hi
      have hlt : ¬ (2 ^ es.length + i < 2 ^ es.length) := by omega
      simp only [sProd, hlt, if_false, Nat.add_sub_cancel_left]
      congr 1
      rw [pow_add, mul_inv]
      ring
